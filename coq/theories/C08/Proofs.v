(* C08 proofs: the wrapper's "async yield from" is indistinguishable from the wrapped asynchronous
   generator under every finite sequence of protocol operations, for every generator body that
   does not yield while handling GeneratorExit - except for GeneratorExit thrown by hand. *)
From Coq Require Import List Bool Arith.
From BT Require Import C08.AGen.
Import ListNotations.
Local Open Scope list_scope.

Inductive R : obj -> obj -> Prop :=
| R_fresh b : R (OFresh (wstart (OFresh b))) (OFresh b)
| R_susp k : R (OSusp (wloop (OSusp k))) (OSusp k)
| R_done : R ODone ODone.

Lemma relay_of_resp r :
  (fst (of_resp (relay wloop (of_resp r))) = fst (of_resp r)) /\
  R (snd (of_resp (relay wloop (of_resp r)))) (snd (of_resp r)).
Proof. destruct r as [v k| |e]; cbn; split; auto; constructor. Qed.

Lemma step_sim w o p :
  R w o ->
  (match p with OpThrow e => negb (Nat.eqb e GeneratorExit) | _ => true end) = true ->
  (match o, p with
   | OSusp b, OpClose => match resume b (IThrow GeneratorExit) with RYield _ _ => false | _ => true end
   | _, _ => true
   end) = true ->
  fst (obj_op w p) = fst (obj_op o p) /\ R (snd (obj_op w p)) (snd (obj_op o p)).
Proof.
  intros HR Hge Hpol. destruct HR as [b|k|].
  - (* both not started *)
    destruct p as [|[v|]|e|]; cbn [obj_op].
    + cbn [wstart resume obj_op]. apply relay_of_resp.
    + cbn. split; [reflexivity|constructor].
    + cbn [wstart resume obj_op]. apply relay_of_resp.
    + cbn. split; [reflexivity|constructor].
    + cbn. split; [reflexivity|constructor].
  - (* both suspended *)
    destruct p as [|[v|]|e|]; cbn [obj_op].
    + cbn [wloop resume obj_op]. apply relay_of_resp.
    + cbn [wloop resume obj_op]. apply relay_of_resp.
    + cbn [wloop resume obj_op]. apply relay_of_resp.
    + cbn [wloop resume]. apply negb_true_iff in Hge. rewrite Hge. cbn [obj_op]. apply relay_of_resp.
    + cbn [wloop resume]. rewrite Nat.eqb_refl. cbn [obj_op].
      destruct (resume k (IThrow GeneratorExit)) as [v k'| |e'] eqn:Er; [discriminate| |].
      * cbn. split; [reflexivity|constructor].
      * cbn [close_resp]. destruct (Nat.eqb e' GeneratorExit) eqn:Ee.
        -- cbn. split; [reflexivity|constructor].
        -- cbn [close_resp]. rewrite Ee. cbn. split; [reflexivity|constructor].
  - destruct p as [|[v|]|e|]; cbn; split; try reflexivity; constructor.
Qed.

Theorem wrapper_indistinguishable ps : forall w o,
  R w o -> no_manual_exit ps = true -> polite o ps = true -> run w ps = run o ps.
Proof.
  induction ps as [|p ps IH]; intros w o HR Hge Hpol; [reflexivity|].
  cbn [no_manual_exit forallb] in Hge. apply andb_true_iff in Hge as [Hp Hge].
  cbn [polite] in Hpol. apply andb_true_iff in Hpol as [Hq Hpol].
  destruct (step_sim w o p HR Hp Hq) as [Ho Hr].
  cbn [run]. destruct (obj_op w p) as [ow w'] eqn:Ew. destruct (obj_op o p) as [oo o'] eqn:Eo.
  cbn [fst snd] in *. subst. f_equal. now apply IH.
Qed.

(* a body that swallows GeneratorExit and returns: thrown by hand, the original reports
   StopAsyncIteration, the wrapper GeneratorExit *)
Definition swallowing : body :=
  Body (fun _ => RYield 1 (Body (fun _ => RReturn))).

Lemma manual_exit_refuted :
  run (OFresh swallowing) [OpNext; OpThrow GeneratorExit] = [OYield 1; OStop]
  /\ run (wrapped swallowing) [OpNext; OpThrow GeneratorExit] = [OYield 1; ORaise GeneratorExit]
  /\ polite (OFresh swallowing) [OpNext; OpThrow GeneratorExit] = true.
Proof. repeat split. Qed.
