(* C08 correspondence glue: finite-table generator bodies, driven by operation sequences, on a real
   asynchronous generator and on its @beartype-decorated twin, against [run].  No proofs. *)
From Coq Require Import List Bool Arith.
From BT Require Import C08.AGen.
Import ListNotations.
Local Open Scope list_scope.

Inductive action := AYield (v : value) (next_state : nat) | AReturn | ARaise (e : exn).

(* per state: what happens when resumed by next, by send, and by a thrown exception (listed ones;
   any other exception propagates unchanged) *)
Record row := { on_next : action; on_send : action; on_throw : list (exn * action) }.
Definition table := list row.

Fixpoint assoc (e : exn) (l : list (exn * action)) : option action :=
  match l with [] => None | (k, a) :: r => if Nat.eqb k e then Some a else assoc e r end.

Definition lookup (t : table) (s : nat) (i : input) : action :=
  match nth_error t s with
  | None => AReturn
  | Some r =>
      match i with
      | INext => on_next r
      | ISend _ => on_send r
      | IThrow e => match assoc e (on_throw r) with Some a => a | None => ARaise e end
      end
  end.

CoFixpoint table_body (t : table) (s : nat) : body :=
  Body (fun i => match lookup t s i with
                 | AYield v s' => RYield v (table_body t s')
                 | AReturn => RReturn
                 | ARaise e => RRaise e
                 end).

Definition outcome_eqb (a b : outcome) : bool :=
  match a, b with
  | OYield x, OYield y => Nat.eqb x y
  | OStop, OStop | ONone, ONone => true
  | ORaise x, ORaise y => Nat.eqb x y
  | _, _ => false
  end.

Fixpoint outs_eqb (a b : list outcome) : bool :=
  match a, b with [], [] => true | x :: a', y :: b' => outcome_eqb x y && outs_eqb a' b' | _, _ => false end.

Record gcase := { g_table : table; g_ops : list op; g_orig : list outcome; g_wrapped : list outcome }.

Definition check_gcase (k : gcase) : bool :=
  outs_eqb (run (OFresh (table_body (g_table k) 0)) (g_ops k)) (g_orig k)
  && outs_eqb (run (wrapped (table_body (g_table k) 0)) (g_ops k)) (g_wrapped k).

Fixpoint gfailing_from (i : nat) (ks : list gcase) : list nat :=
  match ks with [] => [] | k :: r => if check_gcase k then gfailing_from (S i) r else i :: gfailing_from (S i) r end.
Definition gfailing (ks : list gcase) : list nat := gfailing_from 0 ks.
