(* C08 model: asynchronous generators, CPython's protocol on the generator object, and the
   pure-Python "async yield from" of beartype's wrapper
   (beartype/_data/check/code/pep/datacodepep525.py CODE_PEP525_RETURN_CHECKED).
   A generator body is an arbitrary (possibly infinite-state) resumable automaton, given
   coinductively: resumed with an input it yields a value and a continuation, returns, or raises.
   No proofs here. *)
From Coq Require Import List Bool Arith.
Import ListNotations.
Local Open Scope list_scope.

Definition value := nat.
Definition exn := nat.
Definition GeneratorExit : exn := 0.
Definition RuntimeError : exn := 1.
Definition TypeError : exn := 2.

(* how a suspended body is resumed *)
Inductive input := INext | ISend (v : value) | IThrow (e : exn).

CoInductive body := Body (resume : input -> resp)
with resp := RYield (v : value) (k : body) | RReturn | RRaise (e : exn).

Definition resume (b : body) : input -> resp := match b with Body r => r end.

(* the generator object: not started, suspended at a yield, or finished *)
Inductive obj := OFresh (b : body) | OSusp (b : body) | ODone.

(* the protocol operations on the object and what the awaiting caller sees *)
Inductive op := OpNext | OpSend (v : option value) | OpThrow (e : exn) | OpClose.
Inductive outcome :=
| OYield (v : value)            (* the awaited operation produced a value *)
| OStop                         (* StopAsyncIteration *)
| ORaise (e : exn)
| ONone.                        (* returned None (aclose, or athrow on a finished generator) *)

Definition of_resp (r : resp) : outcome * obj :=
  match r with
  | RYield v k => (OYield v, OSusp k)
  | RReturn => (OStop, ODone)
  | RRaise e => (ORaise e, ODone)
  end.

(* aclose() of a suspended generator: GeneratorExit is thrown in; the generator must not yield *)
Definition close_resp (r : resp) : outcome * obj :=
  match r with
  | RYield _ k => (ORaise RuntimeError, OSusp k)       (* "async generator ignored GeneratorExit" *)
  | RReturn => (ONone, ODone)
  | RRaise e => if Nat.eqb e GeneratorExit then (ONone, ODone) else (ORaise e, ODone)
  end.

Definition obj_op (o : obj) (p : op) : outcome * obj :=
  match o, p with
  | OFresh b, OpNext | OFresh b, OpSend None => of_resp (resume b INext)
  | OFresh b, OpSend (Some _) => (ORaise TypeError, OFresh b)    (* can't send non-None to a just-started generator *)
  | OFresh _, OpThrow e => (ORaise e, ODone)
  | OFresh _, OpClose => (ONone, ODone)
  | OSusp b, OpNext | OSusp b, OpSend None => of_resp (resume b INext)
  | OSusp b, OpSend (Some v) => of_resp (resume b (ISend v))
  | OSusp b, OpThrow e => of_resp (resume b (IThrow e))
  | OSusp b, OpClose => close_resp (resume b (IThrow GeneratorExit))
  | ODone, OpNext | ODone, OpSend _ => (OStop, ODone)
  | ODone, OpThrow _ | ODone, OpClose => (ONone, ODone)
  end.

Fixpoint run (o : obj) (ps : list op) : list outcome :=
  match ps with
  | [] => []
  | p :: r => let '(out, o') := obj_op o p in out :: run o' r
  end.

(* ------------------------------------------------------------------ beartype's wrapper body.
   [inner] is the wrapped generator object (created, not started, when the wrapper body begins). *)

(* the result of awaiting an operation on the inner object, as the wrapper's try/except sees it *)
Definition relay (loop : obj -> body) (r : outcome * obj) : resp :=
  match r with
  | (OYield v, o') => RYield v (loop o')     (* ... = await ...; loop: yield it *)
  | (OStop, _) => RReturn                     (* except StopAsyncIteration: return *)
  | (ORaise e, _) => RRaise e                 (* anything else propagates *)
  | (ONone, _) => RReturn                     (* not reachable while the inner generator is suspended *)
  end.

CoFixpoint wloop (inner : obj) : body :=
  Body (fun i =>
    match i with
    | IThrow e =>
        if Nat.eqb e GeneratorExit then
          (* except GeneratorExit: await inner.aclose(); raise *)
          match obj_op inner OpClose with
          | (ONone, _) => RRaise GeneratorExit
          | (ORaise e', _) => RRaise e'
          | (_, _) => RRaise GeneratorExit
          end
        else
          (* except BaseException as e: yield_pith = await inner.athrow(e) *)
          relay wloop (obj_op inner (OpThrow e))
    | INext => relay wloop (obj_op inner OpNext)
    | ISend v => relay wloop (obj_op inner (OpSend (Some v)))
    end).

(* the wrapper body from its start: try: yield_pith = await anext(inner) ... *)
Definition wstart (inner : obj) : body :=
  Body (fun _ => relay wloop (obj_op inner OpNext)).

(* the decorated generator function called once: a fresh wrapper object around a fresh inner one *)
Definition wrapped (b : body) : obj := OFresh (wstart (OFresh b)).

(* operation sequences in which GeneratorExit is not thrown by hand (aclose() is fine) *)
Definition no_manual_exit (ps : list op) : bool :=
  forallb (fun p => match p with OpThrow e => negb (Nat.eqb e GeneratorExit) | _ => true end) ps.

(* bodies that never yield in response to GeneratorExit (the property's own restriction), checked
   along an operation sequence *)
Fixpoint polite (o : obj) (ps : list op) : bool :=
  match ps with
  | [] => true
  | p :: r =>
      (match o, p with
       | OSusp b, OpClose => match resume b (IThrow GeneratorExit) with RYield _ _ => false | _ => true end
       | _, _ => true
       end) && polite (snd (obj_op o p)) r
  end.
