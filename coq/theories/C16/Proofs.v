(* C16 proofs: over any sequence of interpreter runs hooked and unhooked bytecode never mix and are
   never stale with respect to the source; exactness with respect to the configuration needs the
   AST-relevant options to be part of the cache key (they are not: refuted); the global
   monkey-patch races with concurrent imports (refuted), and serialised imports do not. *)
From Coq Require Import List Bool Arith Lia.
From BT Require Import C16.Cache.
Import ListNotations.
Local Open Scope list_scope.

Definition inv (f : fs) : Prop :=
  (forall s c, plain_slot f = Some (s, c) -> c = CPlain s) /\
  (forall s c, bear_slot f = Some (s, c) -> exists k, c = CBear k s).

Lemma inv0 : inv fs0.
Proof. split; intros s c H; discriminate. Qed.

Definition run_ok (r : hook * nat) (c : code) : Prop :=
  is_plain c = (match fst r with None => true | Some _ => false end) /\ src_of c = snd r.

Lemma run1_inv f r : inv f -> inv (fst (run1 f r)) /\ run_ok r (snd (run1 f r)).
Proof.
  intros Hinv. destruct r as [[c|] s]; unfold run1, load_via, marker_of; cbn [fst snd read].
  - destruct (bear_slot f) as [[stamp cd]|] eqn:E.
    + destruct (Nat.eqb stamp s) eqn:Es.
      * apply Nat.eqb_eq in Es. subst. destruct (proj2 Hinv s cd E) as (k & ->). cbn. split; [exact Hinv|split; reflexivity].
      * cbn. split; [split; cbn; [exact (proj1 Hinv)|]|split; reflexivity].
        intros s0 c0 H. inversion H; subst. now exists (akey c).
    + cbn. split; [split; cbn; [exact (proj1 Hinv)|]|split; reflexivity].
      intros s0 c0 H. inversion H; subst. now exists (akey c).
  - destruct (plain_slot f) as [[stamp cd]|] eqn:E.
    + destruct (Nat.eqb stamp s) eqn:Es.
      * apply Nat.eqb_eq in Es. subst. rewrite (proj1 Hinv s cd E). cbn. split; [exact Hinv|split; reflexivity].
      * cbn. split; [split; cbn; [|exact (proj2 Hinv)]|split; reflexivity].
        intros s0 c0 H. inversion H; subst. reflexivity.
    + cbn. split; [split; cbn; [|exact (proj2 Hinv)]|split; reflexivity].
      intros s0 c0 H. inversion H; subst. reflexivity.
Qed.

(* 1. no mixing, no staleness with respect to the source, over any sequence of runs *)
Theorem runs_never_mix rs : forall f, inv f ->
  Forall2 run_ok rs (runs f rs).
Proof.
  induction rs as [|r rs IH]; intros f Hf; cbn [runs]; [constructor|].
  destruct (run1 f r) as [f' c] eqn:E. pose proof (run1_inv f r Hf) as [Hi Hok]. rewrite E in *. cbn [fst snd] in *.
  constructor; [exact Hok|now apply IH].
Qed.

(* 1w. the same with interpreters that read but do not write bytecode mixed in, in any order *)
Lemma run1w_inv f h s w : inv f -> inv (fst (run1w f (h, s, w))) /\ run_ok (h, s) (snd (run1w f (h, s, w))).
Proof.
  intros Hinv. unfold run1w. pose proof (run1_inv f (h, s) Hinv) as [Hi Hok].
  destruct (run1 f (h, s)) as [f' c]. cbn [fst snd] in *. destruct w; split; assumption.
Qed.

Theorem runsw_never_mix rs : forall f, inv f ->
  Forall2 run_ok (map fst rs) (runsw f rs).
Proof.
  induction rs as [|[[h s] w] rs IH]; intros f Hf; cbn [runsw map]; [constructor|].
  pose proof (run1w_inv f h s w Hf) as [Hi Hok].
  destruct (run1w f (h, s, w)) as [f' c]. cbn [fst snd] in *.
  constructor; [exact Hok|now apply IH].
Qed.

(* a history in which every run writes is the old notion *)
Lemma runsw_all_write rs : forall f, runsw f (map (fun r => (r, true)) rs) = runs f rs.
Proof.
  induction rs as [|[h s] rs IH]; intro f; cbn [runsw runs map]; [reflexivity|].
  unfold run1w. destruct (run1 f (h, s)) as [f' c]. now rewrite IH.
Qed.

(* 2. exactness when every hooked run uses the same AST-relevant options *)
Definition inv_k (k : nat) (f : fs) : Prop :=
  (forall s c, plain_slot f = Some (s, c) -> c = CPlain s) /\
  (forall s c, bear_slot f = Some (s, c) -> c = CBear k s).

Theorem runs_exact_single_akey k rs : forall f, inv_k k f ->
  (forall c s, In (Some c, s) rs -> akey c = k) ->
  runs f rs = map (fun r => expected (fst r) (snd r)) rs.
Proof.
  induction rs as [|r rs IH]; intros f Hinv Hk; cbn [runs map]; [reflexivity|].
  pose proof (proj1 Hinv) as Hp. pose proof (proj2 Hinv) as Hb.
  destruct r as [[c|] s]; unfold run1, load_via, marker_of; cbn [fst snd read expected].
  - assert (Ek : akey c = k) by (apply (Hk c s); now left).
    destruct (bear_slot f) as [[stamp cd]|] eqn:E.
    + destruct (Nat.eqb stamp s) eqn:Es.
      * apply Nat.eqb_eq in Es. subst stamp. rewrite (proj2 Hinv s cd E), Ek. f_equal.
        apply IH; [exact Hinv|]. intros c0 s0 H. apply (Hk c0 s0). now right.
      * cbn [compile expected]. f_equal. apply IH.
        -- split; cbn; [exact Hp|]. intros s0 c0 H. injection H as <- <-. now rewrite Ek.
        -- intros c0 s0 H. apply (Hk c0 s0). now right.
    + cbn [compile expected]. f_equal. apply IH.
      -- split; cbn; [exact Hp|]. intros s0 c0 H. injection H as <- <-. now rewrite Ek.
      -- intros c0 s0 H. apply (Hk c0 s0). now right.
  - destruct (plain_slot f) as [[stamp cd]|] eqn:E.
    + destruct (Nat.eqb stamp s) eqn:Es.
      * apply Nat.eqb_eq in Es. subst stamp. rewrite (proj1 Hinv s cd E). f_equal.
        apply IH; [exact Hinv|]. intros c0 s0 H. apply (Hk c0 s0). now right.
      * cbn [compile expected]. f_equal. apply IH.
        -- split; cbn; [|exact Hb]. intros s0 c0 H. inversion H; subst. reflexivity.
        -- intros c0 s0 H. apply (Hk c0 s0). now right.
    + cbn [compile expected]. f_equal. apply IH.
      -- split; cbn; [|exact Hb]. intros s0 c0 H. inversion H; subst. reflexivity.
      -- intros c0 s0 H. apply (Hk c0 s0). now right.
Qed.

(* 3. ... and refuted when they differ: the marker does not depend on the configuration *)
Lemma conf_stale_refuted :
  let a := {| akey := 1; rkey := 0 |} in
  let b := {| akey := 0; rkey := 0 |} in
  runs fs0 [(Some a, 1); (Some b, 1)] <> map (fun r => expected (fst r) (snd r)) [(Some a, 1); (Some b, 1)].
Proof. vm_compute. discriminate. Qed.

(* 4. the race: while a hooked import has the global patched, an unhooked import computes a marked
      cache path and stores untransformed bytecode there; a later run hooking that module loads it *)
Lemma race_refuted :
  let hk := {| akey := 1; rkey := 0 |} in
  let final := crun hk 1 1 [true; false; false; true; true; true] (cinit fs0 fs0) in
  bear_slot (fs_u final) = Some (1, CPlain 1)
  /\ snd (run1 (fs_u final) (Some hk, 1)) <> expected (Some hk) 1.
Proof. vm_compute. split; [reflexivity|discriminate]. Qed.

(* 5. serialised imports (either order) keep the invariant *)
Section Steps.
  Variables (hk : conf) (sH sU : nat).
  Lemma step_H0 x up hp upth fh fu ul :
    step hk sH sU true {| g := x; h_pc := 0; u_pc := up; h_path := hp; u_path := upth; fs_h := fh; fs_u := fu; u_loaded := ul |}
    = {| g := GBear; h_pc := 1; u_pc := up; h_path := hp; u_path := upth; fs_h := fh; fs_u := fu; u_loaded := ul |}.
  Proof. reflexivity. Qed.
  Lemma step_H1 x up hp upth fh fu ul :
    step hk sH sU true {| g := x; h_pc := 1; u_pc := up; h_path := hp; u_path := upth; fs_h := fh; fs_u := fu; u_loaded := ul |}
    = {| g := x; h_pc := 2; u_pc := up; h_path := Some (path_of x); u_path := upth; fs_h := fh; fs_u := fu; u_loaded := ul |}.
  Proof. reflexivity. Qed.
  Lemma step_H2 x up m upth fh fu ul :
    step hk sH sU true {| g := x; h_pc := 2; u_pc := up; h_path := Some m; u_path := upth; fs_h := fh; fs_u := fu; u_loaded := ul |}
    = {| g := x; h_pc := 3; u_pc := up; h_path := Some m; u_path := upth; fs_h := fst (load_via m (Some hk) sH fh); fs_u := fu; u_loaded := ul |}.
  Proof. reflexivity. Qed.
  Lemma step_H3 x up hp upth fh fu ul :
    step hk sH sU true {| g := x; h_pc := 3; u_pc := up; h_path := hp; u_path := upth; fs_h := fh; fs_u := fu; u_loaded := ul |}
    = {| g := GOrig; h_pc := 4; u_pc := up; h_path := hp; u_path := upth; fs_h := fh; fs_u := fu; u_loaded := ul |}.
  Proof. reflexivity. Qed.
  Lemma step_U0 x hpc hp upth fh fu ul :
    step hk sH sU false {| g := x; h_pc := hpc; u_pc := 0; h_path := hp; u_path := upth; fs_h := fh; fs_u := fu; u_loaded := ul |}
    = {| g := x; h_pc := hpc; u_pc := 1; h_path := hp; u_path := Some (path_of x); fs_h := fh; fs_u := fu; u_loaded := ul |}.
  Proof. reflexivity. Qed.
  Lemma step_U1 x hpc hp m fh fu ul :
    step hk sH sU false {| g := x; h_pc := hpc; u_pc := 1; h_path := hp; u_path := Some m; fs_h := fh; fs_u := fu; u_loaded := ul |}
    = {| g := x; h_pc := hpc; u_pc := 2; h_path := hp; u_path := Some m; fs_h := fh;
         fs_u := fst (load_via m None sU fu); u_loaded := Some (snd (load_via m None sU fu)) |}.
  Proof. cbn [step u_pc u_path fs_u]. destruct (load_via m None sU fu). reflexivity. Qed.
End Steps.

Theorem serial_imports_keep_inv hk srcH srcU fh fu :
  inv fh -> inv fu ->
  let s1 := crun hk srcH srcU [true; true; true; true; false; false] (cinit fh fu) in
  let s2 := crun hk srcH srcU [false; false; true; true; true; true] (cinit fh fu) in
  inv (fs_u s1) /\ inv (fs_h s1) /\ inv (fs_u s2) /\ inv (fs_h s2) /\ g s1 = GOrig /\ g s2 = GOrig.
Proof.
  intros Hh Hu.
  assert (E1 : crun hk srcH srcU [true; true; true; true; false; false] (cinit fh fu)
               = {| g := GOrig; h_pc := 4; u_pc := 2; h_path := Some MBear; u_path := Some MPlain;
                    fs_h := fst (load_via MBear (Some hk) srcH fh); fs_u := fst (load_via MPlain None srcU fu);
                    u_loaded := Some (snd (load_via MPlain None srcU fu)) |}).
  { unfold crun, cinit. cbn [fold_left].
    rewrite step_H0, step_H1, step_H2, step_H3, step_U0, step_U1. reflexivity. }
  assert (E2 : crun hk srcH srcU [false; false; true; true; true; true] (cinit fh fu)
               = {| g := GOrig; h_pc := 4; u_pc := 2; h_path := Some MBear; u_path := Some MPlain;
                    fs_h := fst (load_via MBear (Some hk) srcH fh); fs_u := fst (load_via MPlain None srcU fu);
                    u_loaded := Some (snd (load_via MPlain None srcU fu)) |}).
  { unfold crun, cinit. cbn [fold_left].
    rewrite step_U0, step_U1, step_H0, step_H1, step_H2, step_H3. reflexivity. }
  cbv zeta. rewrite E1, E2. cbn [fs_u fs_h g].
  pose proof (run1_inv fh (Some hk, srcH) Hh) as [Ih _].
  pose proof (run1_inv fu (None, srcU) Hu) as [Iu _].
  unfold run1, marker_of in Ih, Iu. cbn [fst snd] in Ih, Iu.
  split; [exact Iu|split; [exact Ih|split; [exact Iu|split; [exact Ih|split; reflexivity]]]].
Qed.
