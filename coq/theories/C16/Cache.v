(* C16 model: bytecode caching under beartype.claw.
   beartype/claw/_importlib/_clawimpfileloader.py compiles a hooked module through its AST
   transformer and, while doing so, replaces importlib's global cache_from_source by a variant that
   appends beartype's marker to the "optimization" tag (clawimpcache.py, dataclawmagic.py), so that
   hooked and unhooked bytecode live in differently named files of __pycache__.  CPython reuses a
   cached file when its recorded source stamp (mtime, size) matches the source.
   The model: one module, two cache slots, runs of the interpreter in sequence, and (separately)
   two concurrent imports inside one run at the granularity of the loader's steps.  No proofs here. *)
From Coq Require Import List Bool Arith.
Import ListNotations.
Local Open Scope list_scope.

(* the part of a configuration the AST transformation depends on (claw_is_pep526, decorator
   placement) and the part that is looked up again at run time through claw_state (violation types ...) *)
Record conf := { akey : nat; rkey : nat }.

(* what a piece of bytecode does: compiled from source version [src], untransformed, or transformed
   under AST-relevant options [akey] *)
Inductive code := CPlain (src : nat) | CBear (akey : nat) (src : nat).

Definition hook := option conf.          (* None: the module is not hooked in this run *)

(* a cache slot: the source stamp recorded in the file, and the code it holds *)
Definition slot := option (nat * code).
Record fs := { plain_slot : slot; bear_slot : slot }.
Definition fs0 : fs := {| plain_slot := None; bear_slot := None |}.

(* the behaviour the property demands: the current configuration applied to the current source *)
Definition expected (h : hook) (src : nat) : code :=
  match h with None => CPlain src | Some c => CBear (akey c) src end.

Definition compile (h : hook) (src : nat) : code := expected h src.

Inductive marker := MPlain | MBear.
Definition read (m : marker) (f : fs) : slot := match m with MPlain => plain_slot f | MBear => bear_slot f end.
Definition write (m : marker) (s : nat * code) (f : fs) : fs :=
  match m with
  | MPlain => {| plain_slot := Some s; bear_slot := bear_slot f |}
  | MBear => {| plain_slot := plain_slot f; bear_slot := Some s |}
  end.

(* SourceFileLoader.get_code with the cache file name chosen by [m] *)
Definition load_via (m : marker) (h : hook) (src : nat) (f : fs) : fs * code :=
  match read m f with
  | Some (stamp, c) => if Nat.eqb stamp src then (f, c) else (write m (src, compile h src) f, compile h src)
  | None => (write m (src, compile h src) f, compile h src)
  end.

(* one interpreter run importing the module once, with no concurrency *)
Definition marker_of (h : hook) : marker := match h with None => MPlain | Some _ => MBear end.
Definition run1 (f : fs) (r : hook * nat) : fs * code := load_via (marker_of (fst r)) (fst r) (snd r) f.

Fixpoint runs (f : fs) (rs : list (hook * nat)) : list code :=
  match rs with
  | [] => []
  | r :: rest => let '(f', c) := run1 f r in c :: runs f' rest
  end.

(* an interpreter told not to write bytecode (-B, PYTHONDONTWRITEBYTECODE) still reads the cache files that exist:
   such a run loads exactly what a writing run would load and leaves the files as they are *)
Definition run1w (f : fs) (r : hook * nat * bool) : fs * code :=
  let '(h, s, w) := r in
  let '(f', c) := run1 f (h, s) in ((if w then f' else f), c).

Fixpoint runsw (f : fs) (rs : list (hook * nat * bool)) : list code :=
  match rs with
  | [] => []
  | r :: rest => let '(f', c) := run1w f r in c :: runsw f' rest
  end.

Definition is_plain (c : code) : bool := match c with CPlain _ => true | _ => false end.
Definition src_of (c : code) : nat := match c with CPlain s | CBear _ s => s end.

(* ---------------------------------------------------------------- concurrency inside one run:
   thread H imports a hooked module, thread U an unhooked one (different modules, one shared global) *)
Inductive gfun := GOrig | GBear.          (* importlib._bootstrap_external.cache_from_source *)

Record cstate := {
  g : gfun;
  h_pc : nat; u_pc : nat;                 (* program counters of the two imports *)
  h_path : option marker; u_path : option marker;
  fs_h : fs; fs_u : fs;                   (* the cache slots of the hooked and of the unhooked module *)
  u_loaded : option code }.

Definition path_of (x : gfun) : marker := match x with GOrig => MPlain | GBear => MBear end.

(* H: 0 set global; 1 compute cache path; 2 load/compile/write; 3 restore global.
   U: 0 compute cache path; 1 load/compile/write. *)
Definition step (hk : conf) (srcH srcU : nat) (tid : bool) (s : cstate) : cstate :=
  if tid then
    match h_pc s with
    | 0 => {| g := GBear; h_pc := 1; u_pc := u_pc s; h_path := h_path s; u_path := u_path s; fs_h := fs_h s; fs_u := fs_u s; u_loaded := u_loaded s |}
    | 1 => {| g := g s; h_pc := 2; u_pc := u_pc s; h_path := Some (path_of (g s)); u_path := u_path s; fs_h := fs_h s; fs_u := fs_u s; u_loaded := u_loaded s |}
    | 2 => match h_path s with
           | Some m => {| g := g s; h_pc := 3; u_pc := u_pc s; h_path := h_path s; u_path := u_path s;
                          fs_h := fst (load_via m (Some hk) srcH (fs_h s)); fs_u := fs_u s; u_loaded := u_loaded s |}
           | None => s
           end
    | 3 => {| g := GOrig; h_pc := 4; u_pc := u_pc s; h_path := h_path s; u_path := u_path s; fs_h := fs_h s; fs_u := fs_u s; u_loaded := u_loaded s |}
    | _ => s
    end
  else
    match u_pc s with
    | 0 => {| g := g s; h_pc := h_pc s; u_pc := 1; h_path := h_path s; u_path := Some (path_of (g s)); fs_h := fs_h s; fs_u := fs_u s; u_loaded := u_loaded s |}
    | 1 => match u_path s with
           | Some m => let '(f', c) := load_via m None srcU (fs_u s) in
                       {| g := g s; h_pc := h_pc s; u_pc := 2; h_path := h_path s; u_path := u_path s; fs_h := fs_h s; fs_u := f'; u_loaded := Some c |}
           | None => s
           end
    | _ => s
    end.

Definition cinit (fh fu : fs) : cstate :=
  {| g := GOrig; h_pc := 0; u_pc := 0; h_path := None; u_path := None; fs_h := fh; fs_u := fu; u_loaded := None |}.

Definition crun (hk : conf) (srcH srcU : nat) (sched : list bool) (s : cstate) : cstate :=
  fold_left (fun st t => step hk srcH srcU t st) sched s.
