(* C16 correspondence glue: sequences of real interpreter runs against [runs].  No proofs. *)
From Coq Require Import List Bool Arith.
From BT Require Import C16.Cache.
Import ListNotations.

Record scase := { s_runs : list (hook * nat * bool); s_obs : list code }.    (* the flag: this interpreter writes bytecode *)

Definition code_eqb (a b : code) : bool :=
  match a, b with
  | CPlain s, CPlain t => Nat.eqb s t
  | CBear k s, CBear l t => Nat.eqb k l && Nat.eqb s t
  | _, _ => false
  end.

Fixpoint codes_eqb (a b : list code) : bool :=
  match a, b with
  | [], [] => true
  | x :: a', y :: b' => code_eqb x y && codes_eqb a' b'
  | _, _ => false
  end.

Definition check_scase (k : scase) : bool := codes_eqb (runsw fs0 (s_runs k)) (s_obs k).

Fixpoint sfailing_from (i : nat) (ks : list scase) : list nat :=
  match ks with
  | [] => []
  | k :: r => if check_scase k then sfailing_from (S i) r else i :: sfailing_from (S i) r
  end.
Definition sfailing (ks : list scase) : list nat := sfailing_from 0 ks.
