(* C11 model: which exceptions may leave beartype's public API.
   (1) the exception / warning taxonomy of beartype.roar (generated: Gen/ExcTree.v) with the subclass relation;
   (2) hint validation: is_hint / die_unless_hint and their non-PEP helpers (beartype/_util/hint/utilhinttest.py,
       beartype/_util/hint/nonpep/utilnonpeptest.py, die_if_hint_pep_unsupported of pep/utilpeptest.py) over an
       abstract universe of "anything passed as a hint";
   (3) the memoising decorator callable_cached (beartype/_util/cache/utilcachecall.py) including its fallback for
       unhashable arguments and its caching of raised exceptions;
   (4) reraise_exception_placeholder (beartype/_util/error/utilerrraise.py);
   (5) the stages of a checked call: validation, the check proper (user hooks), the wrapped body.
   No proofs here. *)
From Coq Require Import List String Ascii Bool Arith.
From BT Require Import Gen.ExcTree.
Import ListNotations.
Local Open Scope string_scope.

(* ---- (1) taxonomy ---- *)
Definition parents (c : string) : list string :=
  match find (fun p => String.eqb (fst p) c) exc_parents with Some p => snd p | None => [] end.

Fixpoint descends_n (n : nat) (c root : string) : bool :=
  String.eqb c root ||
  match n with 0 => false | S n' => existsb (fun p => descends_n n' p root) (parents c) end.

Definition descends : string -> string -> bool := descends_n 16.

Definition mem (c : string) (l : list string) : bool := existsb (String.eqb c) l.
Definition is_private (c : string) : bool :=
  match c with String a _ => Ascii.eqb a "_"%char | EmptyString => false end.
Definition is_public (c : string) : bool := mem c public_classes.

(* substring test, for the naming discipline (…Decor… / …Call…) *)
Fixpoint contains (needle hay : string) : bool :=
  String.prefix needle hay || match hay with EmptyString => false | String _ r => contains needle r end.

Definition r_exc  := "BeartypeException".
Definition r_decor := "BeartypeDecorException".
Definition r_call := "BeartypeCallException".
Definition r_door := "BeartypeDoorException".
Definition r_warn := "BeartypeWarning".

(* an exception class acceptable from the public API: public and under BeartypeException *)
Definition acceptable (c : string) : bool := is_public c && descends c r_exc.

(* ---- exceptions and outcomes ---- *)
Inductive exc :=
| EBear (cls : string)                       (* an instance of a class of beartype.roar *)
| EUser (n : nat) (type_error base : bool)   (* user exception object number n; subclass of TypeError?; BaseException only? *)
| ERaw (cls : string).                       (* a builtin exception created inside beartype *)

Inductive res (A : Type) := Ret (a : A) | Raise (e : exc).
Arguments Ret {A} a.
Arguments Raise {A} e.

Definition is_type_error (e : exc) : bool :=
  match e with
  | EBear c => descends c "TypeError"
  | EUser _ t _ => t
  | ERaw c => String.eqb c "TypeError"
  end.
Definition is_exception (e : exc) : bool := match e with EUser _ _ b => negb b | _ => true end.

(* ---- (2) validation ---- *)
Inductive jitem := IType (isinstanceable : bool) | IStr | IOther.
Inductive jhint :=
| JPep (supported noreturn : bool)           (* has a sign; supported by beartype?; is it typing.NoReturn *)
| JType (isinstanceable : bool)              (* a class without a sign *)
| JTuple (items : list jitem)
| JOther.                                    (* any other object *)

Definition item_ok (ref_str_valid : bool) (i : jitem) : bool :=
  match i with IType b => b | IStr => ref_str_valid | IOther => false end.

(* _is_hint_nonpep_tuple *)
Definition is_nonpep_tuple (ref_str_valid : bool) (items : list jitem) : bool :=
  match items with [] => false | _ => forallb (item_ok ref_str_valid) items end.

(* is_hint_nonpep *)
Definition is_hint_nonpep (ref_str_valid : bool) (h : jhint) : bool :=
  match h with
  | JType b => b
  | JTuple items => is_nonpep_tuple ref_str_valid items
  | _ => false
  end.

(* is_hint *)
Definition is_hint (ref_str_valid : bool) (h : jhint) : bool :=
  match h with
  | JPep s _ => s
  | _ => is_hint_nonpep ref_str_valid h
  end.

(* die_unless_hint_nonpep_tuple, reached only when is_nonpep_tuple is false: the class of what it raises;
   None stands for "returns without raising" *)
Fixpoint tuple_items_raise (ref_str_valid : bool) (ec : string) (items : list jitem) : option string :=
  match items with
  | [] => None
  | IType true :: r => tuple_items_raise ref_str_valid ec r
  | IType false :: _ => Some ec                 (* die_unless_type_isinstanceable(exception_cls=...) *)
  | IStr :: r => if ref_str_valid then tuple_items_raise ref_str_valid ec r else Some ec
  | IOther :: _ => Some ec
  end.

(* die_unless_hint with the exception class [ec] the caller passes *)
Definition die_unless_hint (ref_str_valid : bool) (ec : string) (h : jhint) : res unit :=
  if is_hint ref_str_valid h then Ret tt else
  match h with
  | JPep _ noreturn =>
      (* die_if_hint_pep_unsupported: its own classes, not the caller's *)
      if noreturn then Raise (EBear "BeartypeDecorHintPep484Exception")
      else Raise (EBear "BeartypeDecorHintPepUnsupportedException")
  | JType _ => Raise (EBear ec)                  (* die_unless_type_isinstanceable *)
  | JTuple [] => Raise (EBear ec)
  | JTuple items =>
      match tuple_items_raise ref_str_valid ec items with
      | Some c => Raise (EBear c)
      | None => Raise (EBear ec)                 (* falls through to die_as_hint_unsupported *)
      end
  | JOther => Raise (EBear ec)                   (* die_as_hint_unsupported *)
  end.

(* ---- (3) callable_cached ---- *)
Record key := { kid : nat; hashable : bool }.

Record memo (V : Type) := { m_vals : list (nat * V); m_excs : list (nat * exc) }.
Arguments m_vals {V} m.
Arguments m_excs {V} m.
Definition memo0 {V} : memo V := {| m_vals := []; m_excs := [] |}.

Fixpoint lookup {V} (k : nat) (l : list (nat * V)) : option V :=
  match l with [] => None | (k', v) :: r => if Nat.eqb k k' then Some v else lookup k r end.

(* one call of _callable_cached(args...) around func = [f] *)
Definition cached_call {V} (f : key -> res V) (m : memo V) (k : key) : memo V * res V :=
  if negb (hashable k) then (m, f k)                (* dict.get raises TypeError -> except TypeError: return func(args...) *)
  else match lookup (kid k) (m_excs m) with
       | Some e => if is_type_error e then (m, f k) else (m, Raise e)     (* raise exception; a TypeError is caught below *)
       | None =>
           match lookup (kid k) (m_vals m) with
           | Some v => (m, Ret v)
           | None =>
               match f k with
               | Ret v => ({| m_vals := (kid k, v) :: m_vals m; m_excs := m_excs m |}, Ret v)
               | Raise e =>
                   if is_exception e then
                     let m' := {| m_vals := m_vals m; m_excs := (kid k, e) :: m_excs m |} in
                     if is_type_error e then (m', f k) else (m', Raise e)
                   else (m, Raise e)                    (* not an Exception: neither cached nor caught *)
               end
           end
       end.

Fixpoint cached_run {V} (f : key -> res V) (m : memo V) (ks : list key) : list (res V) :=
  match ks with
  | [] => []
  | k :: r => let '(m', o) := cached_call f m k in o :: cached_run f m' r
  end.

(* ---- (4) reraise_exception_placeholder: the same exception object with a rewritten message ---- *)
Definition reraise_placeholder (e : exc) : exc := e.

(* ---- (5) a checked call ---- *)
(* what user code reached by the check does: the __instancecheck__ hooks and validators run in order; each
   answers or raises *)
Inductive hook := HAns (b : bool) | HRaise (e : exc).

Fixpoint run_hooks (hs : list hook) : res bool :=
  match hs with
  | [] => Ret true
  | HAns true :: r => run_hooks r
  | HAns false :: _ => Ret false
  | HRaise e :: _ => Raise e
  end.

(* is_bearable(obj, hint): validation (memoised tester factory), then the tester *)
Definition is_bearable (h : jhint) (hs : list hook) : res bool :=
  match die_unless_hint true "BeartypeDecorHintNonpepException" h with
  | Raise e => Raise (reraise_placeholder e)
  | Ret _ => run_hooks hs
  end.

(* die_if_unbearable(obj, hint) *)
Definition die_if_unbearable (h : jhint) (hs : list hook) : res unit :=
  match is_bearable h hs with
  | Raise e => Raise e
  | Ret true => Ret tt
  | Ret false => Raise (EBear "BeartypeDoorHintViolation")
  end.

(* @beartype def f(x: h): body;  f(v) *)
Definition decorate (h : jhint) : res unit :=
  match die_unless_hint true "BeartypeDecorHintNonpepException" h with
  | Raise e => Raise (reraise_placeholder e)
  | Ret _ => Ret tt
  end.

Definition call_decorated (hs : list hook) (body : res nat) : res nat :=
  match run_hooks hs with
  | Raise e => Raise e
  | Ret false => Raise (EBear "BeartypeCallHintParamViolation")
  | Ret true => body
  end.

(* user exception objects in a scenario *)
Definition hook_excs (hs : list hook) : list exc :=
  flat_map (fun h => match h with HRaise e => [e] | _ => [] end) hs.
