(* C11 proofs.  The taxonomy facts are decided by computation over the generated (finite) class table; the statements
   about validation, the memoising decorator and the call stages hold for every hint, key sequence and hook list. *)
From Coq Require Import List String Ascii Bool Arith Lia.
From BT Require Import Gen.ExcTree C11.Exc.
Import ListNotations.
Local Open Scope string_scope.

(* ---- taxonomy (finite: the table is regenerated from beartype.roar on every run) ---- *)
Definition is_warning_cls (c : string) : bool := descends c "Warning".

Lemma public_rooted : forallb (fun c => descends c r_exc || descends c r_warn) public_classes = true.
Proof. vm_compute. reflexivity. Qed.

Lemma public_not_private : forallb (fun c => negb (is_private c)) public_classes = true.
Proof. vm_compute. reflexivity. Qed.

(* every class of beartype.roar, private ones included, is a BeartypeException or a BeartypeWarning,
   except a mixin that is never raised itself *)
Lemma all_classes_rooted :
  forallb (fun c => descends c r_exc || descends c r_warn || String.eqb c "_BeartypeHintForwardRefExceptionMixin") beartype_classes = true.
Proof. vm_compute. reflexivity. Qed.

(* every class named in a raise statement under beartype/ is a BeartypeException *)
Lemma raised_classes_rooted : forallb (fun c => descends c r_exc) raised_beartype_classes = true.
Proof. vm_compute. reflexivity. Qed.

(* naming discipline: BeartypeDecor...Exception under BeartypeDecorException, BeartypeCall...Exception under
   BeartypeCallException, ...Violation under BeartypeHintViolation, warnings are not exceptions of the other trees *)
Definition suffix (s t : string) : bool := contains s t && negb (contains (s ++ "_") t) &&
  (fix ends (u : string) := String.eqb u s || match u with EmptyString => false | String _ r => ends r end) t.

Lemma decor_named_rooted :
  forallb (fun c => implb (String.prefix "BeartypeDecor" c && suffix "Exception" c) (descends c r_decor)) beartype_classes = true.
Proof. vm_compute. reflexivity. Qed.

Lemma call_named_rooted :
  forallb (fun c => implb (String.prefix "BeartypeCall" c && suffix "Exception" c) (descends c r_call)) beartype_classes = true.
Proof. vm_compute. reflexivity. Qed.

Lemma door_named_rooted :
  forallb (fun c => implb (String.prefix "BeartypeDoor" c && suffix "Exception" c) (descends c r_door)) beartype_classes = true.
Proof. vm_compute. reflexivity. Qed.

Lemma violations_rooted :
  forallb (fun c => implb (suffix "Violation" c) (descends c "BeartypeHintViolation")) beartype_classes = true.
Proof. vm_compute. reflexivity. Qed.

Lemma warnings_rooted :
  forallb (fun c => implb (is_warning_cls c) (descends c r_warn)) beartype_classes = true.
Proof. vm_compute. reflexivity. Qed.

(* the phases are told apart by class: nothing is both a decoration-time and a call-time exception *)
Lemma phases_disjoint :
  forallb (fun c => negb (descends c r_decor && descends c r_call)) beartype_classes = true.
Proof. vm_compute. reflexivity. Qed.

(* no beartype exception is a TypeError in disguise: the memoising decorators' `except TypeError` cannot swallow one *)
Lemma no_beartype_type_error : forallb (fun c => negb (descends c "TypeError")) beartype_classes = true.
Proof. vm_compute. reflexivity. Qed.

(* builtin exceptions raised by name anywhere under beartype/: only those Python's protocols prescribe (module
   __getattr__, mapping __missing__ / __getitem__, __hash__, abstract methods), in no more files than audited *)
Definition builtin_raise_budget : list (string * nat) :=
  [("AttributeError", 3); ("ImportError", 1); ("KeyError", 2); ("NotImplementedError", 4); ("RuntimeError", 1); ("TypeError", 1)].

Lemma builtin_raises_within_budget :
  forallb (fun p => match find (fun q => String.eqb (fst q) (fst p)) builtin_raise_budget with
                    | Some q => Nat.leb (snd p) (snd q) | None => false end) raised_builtin_classes = true.
Proof. vm_compute. reflexivity. Qed.

(* the classes the modelled stages raise by name *)
Lemma stage_classes_acceptable :
  forallb acceptable ["BeartypeDecorHintNonpepException"; "BeartypeDecorHintPep484Exception"; "BeartypeDecorHintPepUnsupportedException";
                      "BeartypeDoorNonpepException"; "BeartypeDoorHintViolation"; "BeartypeCallHintParamViolation";
                      "BeartypeCallHintReturnViolation"] = true.
Proof. vm_compute. reflexivity. Qed.

Lemma stage_decor_classes :
  forallb (fun c => descends c r_decor) ["BeartypeDecorHintNonpepException"; "BeartypeDecorHintPep484Exception";
                                          "BeartypeDecorHintPepUnsupportedException"] = true.
Proof. vm_compute. reflexivity. Qed.

(* ---- validation ---- *)
Lemma tuple_items_raise_none r ec items :
  tuple_items_raise r ec items = None -> forallb (item_ok r) items = true.
Proof.
  induction items as [|i items IH]; cbn [tuple_items_raise forallb]; [reflexivity|].
  destruct i as [[|]| |]; cbn [item_ok]; try discriminate.
  - intro H. rewrite (IH H). reflexivity.
  - destruct r; [|discriminate]. intro H. rewrite (IH H). reflexivity.
Qed.

(* the tester and the raiser agree: die_unless_hint returns normally exactly on what is_hint accepts *)
Theorem validation_agrees r ec h : is_hint r h = true <-> die_unless_hint r ec h = Ret tt.
Proof.
  unfold die_unless_hint. destruct (is_hint r h) eqn:E; split; intro H; try reflexivity; try discriminate.
  destruct h as [s n| b | items |]; try discriminate.
  - destruct n; discriminate.
  - destruct items as [|i items]; [discriminate|].
    destruct (tuple_items_raise r ec (i :: items)); discriminate.
Qed.

(* what it raises is a beartype exception of the class the caller asked for, or one of two fixed public
   decoration-time classes; never anything else *)
Theorem validation_raises_only r ec h e :
  die_unless_hint r ec h = Raise e ->
  e = EBear ec \/ e = EBear "BeartypeDecorHintPep484Exception" \/ e = EBear "BeartypeDecorHintPepUnsupportedException".
Proof.
  unfold die_unless_hint. destruct (is_hint r h); [discriminate|].
  destruct h as [s n| b | items |].
  - destruct n; intro H; injection H as <-; auto.
  - intro H; injection H as <-; auto.
  - destruct items as [|i items]; [intro H; injection H as <-; auto|].
    destruct (tuple_items_raise r ec (i :: items)) as [c|] eqn:E; intro H; injection H as <-; [|auto].
    left. f_equal.
    revert E. generalize (i :: items) as l. induction l as [|j l IH]; cbn [tuple_items_raise]; [discriminate|].
    destruct j as [[|]| |]; try (intro H; injection H as <-; reflexivity); auto.
    destruct r; [auto | intro H; injection H as <-; reflexivity].
  - intro H; injection H as <-; auto.
Qed.

Corollary validation_acceptable r ec h e :
  acceptable ec = true -> die_unless_hint r ec h = Raise e -> exists c, e = EBear c /\ acceptable c = true.
Proof.
  intros Hec H. destruct (validation_raises_only _ _ _ _ H) as [-> | [-> | ->]]; eexists; split; try reflexivity; auto.
Qed.

Corollary validation_decor r ec h e :
  acceptable ec = true -> descends ec r_decor = true -> die_unless_hint r ec h = Raise e ->
  exists c, e = EBear c /\ acceptable c = true /\ descends c r_decor = true.
Proof.
  intros Hec Hd H. destruct (validation_raises_only _ _ _ _ H) as [-> | [-> | ->]]; eexists; split; try reflexivity; auto.
Qed.

(* ---- callable_cached ---- *)
Definition memo_ok {V} (f : key -> res V) (m : memo V) : Prop :=
  (forall n v, lookup n (m_vals m) = Some v -> forall k, kid k = n -> hashable k = true -> f k = Ret v) /\
  (forall n e, lookup n (m_excs m) = Some e -> forall k, kid k = n -> hashable k = true -> f k = Raise e).

Lemma memo0_ok {V} (f : key -> res V) : memo_ok f memo0.
Proof. split; intros n x H; discriminate. Qed.

Lemma lookup_cons {V} n k (v : V) l x :
  lookup n ((k, v) :: l) = Some x -> (n = k /\ x = v) \/ lookup n l = Some x.
Proof.
  cbn [lookup]. destruct (Nat.eqb n k) eqn:E.
  - intro H; injection H as <-. left. apply Nat.eqb_eq in E. auto.
  - auto.
Qed.

(* one memoised call answers exactly what the function answers, and keeps the memo truthful *)
Lemma cached_call_transparent {V} (f : key -> res V) m k :
  memo_ok f m -> snd (cached_call f m k) = f k /\ memo_ok f (fst (cached_call f m k)).
Proof.
  intros [Hv He]. unfold cached_call.
  destruct (hashable k) eqn:Hh; cbn [negb]; [|split; [reflexivity|split; assumption]].
  destruct (lookup (kid k) (m_excs m)) as [e|] eqn:Le.
  - pose proof (He _ _ Le k eq_refl Hh) as Hf.
    destruct (is_type_error e); cbn [fst snd]; split; try (split; assumption); congruence.
  - destruct (lookup (kid k) (m_vals m)) as [v|] eqn:Lv.
    + cbn [fst snd]. split; [symmetry; apply (Hv _ _ Lv k eq_refl Hh)|split; assumption].
    + destruct (f k) as [v|e] eqn:Hf.
      * cbn [fst snd]. split; [reflexivity|]. split; cbn [m_vals m_excs]; [|assumption].
        intros n x Hl k' Hk Hh'. apply lookup_cons in Hl. destruct Hl as [[-> ->]|Hl]; [|eapply Hv; eassumption].
        (* another key object with the same identity: the same key *)
        destruct k as [a b], k' as [a' b']; cbn in *. subst. exact Hf.
      * destruct (is_exception e).
        -- assert (Hm : memo_ok f {| m_vals := m_vals m; m_excs := (kid k, e) :: m_excs m |}).
           { split; cbn [m_vals m_excs]; [assumption|].
             intros n x Hl k' Hk Hh'. apply lookup_cons in Hl. destruct Hl as [[-> ->]|Hl]; [|eapply He; eassumption].
             destruct k as [a b], k' as [a' b']; cbn in *. subst. exact Hf. }
           destruct (is_type_error e); cbn [fst snd]; split; try exact Hm; congruence.
        -- cbn [fst snd]. split; [reflexivity|split; assumption].
Qed.

(* every history of calls, hashable or not, raising or not: the memoised function is indistinguishable from the
   function itself, exceptions included (a TypeError raised by the function is not mistaken for an unhashable key) *)
Theorem cached_transparent {V} (f : key -> res V) ks m : memo_ok f m -> cached_run f m ks = map f ks.
Proof.
  revert m. induction ks as [|k ks IH]; intros m Hm; cbn [cached_run map]; [reflexivity|].
  destruct (cached_call_transparent f m k Hm) as [Ho Hm'].
  destruct (cached_call f m k) as [m' o]. cbn [fst snd] in *. rewrite Ho, (IH _ Hm'). reflexivity.
Qed.

Corollary cached_transparent_from_empty {V} (f : key -> res V) ks : cached_run f memo0 ks = map f ks.
Proof. apply cached_transparent, memo0_ok. Qed.

(* ---- reraise_exception_placeholder ---- *)
Theorem reraise_keeps_exception e : reraise_placeholder e = e.
Proof. reflexivity. Qed.

(* ---- the stages of the entry points ---- *)
Lemma run_hooks_raises hs e : run_hooks hs = Raise e -> In e (hook_excs hs).
Proof.
  induction hs as [|h hs IH]; cbn [run_hooks]; [discriminate|].
  destruct h as [[|]|e']; cbn [hook_excs flat_map app] in *.
  - exact IH.
  - discriminate.
  - intro H; injection H as <-. left. reflexivity.
Qed.

(* the first hook that raises, before any hook answers False, decides: its exception object comes out unchanged *)
Lemma run_hooks_first_raise pre e post :
  Forall (fun h => h = HAns true) pre -> run_hooks (pre ++ HRaise e :: post) = Raise e.
Proof.
  induction 1 as [|h pre Hh _ IH]; cbn [app run_hooks]; [reflexivity|]. subst h. exact IH.
Qed.

Definition ok_decor (e : exc) : Prop := exists c, e = EBear c /\ acceptable c = true /\ descends c r_decor = true.

(* is_bearable: a boolean, a public decoration-time beartype exception about the hint, or the very exception object
   a user hook raised *)
Theorem is_bearable_outcomes h hs :
  match is_bearable h hs with
  | Ret _ => True
  | Raise e => ok_decor e \/ In e (hook_excs hs)
  end.
Proof.
  unfold is_bearable.
  destruct (die_unless_hint true "BeartypeDecorHintNonpepException" h) as [u|e] eqn:Hd.
  - destruct (run_hooks hs) as [b|e] eqn:Hr; [exact I|]. right. apply run_hooks_raises; assumption.
  - left. unfold reraise_placeholder. eapply validation_decor; try eassumption; reflexivity.
Qed.

Theorem die_if_unbearable_outcomes h hs :
  match die_if_unbearable h hs with
  | Ret _ => True
  | Raise e => ok_decor e \/ In e (hook_excs hs) \/
               (e = EBear "BeartypeDoorHintViolation" /\ is_bearable h hs = Ret false)
  end.
Proof.
  unfold die_if_unbearable. pose proof (is_bearable_outcomes h hs) as H.
  destruct (is_bearable h hs) as [[|]|e]; [exact I| |].
  - right. right. split; reflexivity.
  - destruct H; auto.
Qed.

Theorem decorate_outcomes h : match decorate h with Ret _ => True | Raise e => ok_decor e end.
Proof.
  unfold decorate. destruct (die_unless_hint true "BeartypeDecorHintNonpepException" h) as [u|e] eqn:Hd; [exact I|].
  unfold reraise_placeholder. eapply validation_decor; try eassumption; reflexivity.
Qed.

(* a decorated call: the body's own outcome (value or exception, unchanged) when the check passes; the violation when it
   fails; the hook's own exception object when user code raises during the check *)
Theorem call_outcomes hs body :
  call_decorated hs body = body \/
  (call_decorated hs body = Raise (EBear "BeartypeCallHintParamViolation") /\ run_hooks hs = Ret false) \/
  (exists e, call_decorated hs body = Raise e /\ In e (hook_excs hs)).
Proof.
  unfold call_decorated. destruct (run_hooks hs) as [[|]|e] eqn:Hr; auto.
  right. right. exists e. split; [reflexivity|]. apply run_hooks_raises; assumption.
Qed.

Theorem body_exception_unchanged hs e : run_hooks hs = Ret true -> call_decorated hs (Raise e) = Raise e.
Proof. unfold call_decorated. intros ->. reflexivity. Qed.

Theorem hook_exception_unchanged pre e post body :
  Forall (fun h => h = HAns true) pre -> call_decorated (pre ++ HRaise e :: post) body = Raise e.
Proof. intro H. unfold call_decorated. rewrite (run_hooks_first_raise _ _ _ H). reflexivity. Qed.

(* no stage manufactures a builtin exception *)
Theorem no_raw_exception h hs body c :
  (forall n t b, In (EUser n t b) (hook_excs hs) -> True) ->
  ~ In (ERaw c) (hook_excs hs) -> body <> Raise (ERaw c) ->
  is_bearable h hs <> Raise (ERaw c) /\ die_if_unbearable h hs <> Raise (ERaw c) /\ decorate h <> Raise (ERaw c) /\
  call_decorated hs body <> Raise (ERaw c).
Proof.
  intros _ Hn Hb. repeat split.
  - intro H. pose proof (is_bearable_outcomes h hs) as O. rewrite H in O. destruct O as [[c' [E _]]|O]; [discriminate|auto].
  - intro H. pose proof (die_if_unbearable_outcomes h hs) as O. rewrite H in O.
    destruct O as [[c' [E _]]|[O|[E _]]]; [discriminate|auto|discriminate].
  - intro H. pose proof (decorate_outcomes h) as O. rewrite H in O. destruct O as [c' [E _]]. discriminate.
  - intro H. destruct (call_outcomes hs body) as [O|[[O _]|[e [O I']]]]; rewrite H in O.
    + auto.
    + discriminate.
    + injection O as <-. auto.
Qed.

(* non-vacuity *)
Example validation_rejects_something :
  die_unless_hint true "BeartypeDecorHintNonpepException" (JTuple [IType true; IOther]) = Raise (EBear "BeartypeDecorHintNonpepException") /\
  die_unless_hint false "BeartypeDoorNonpepException" (JTuple [IType true; IStr]) = Raise (EBear "BeartypeDoorNonpepException") /\
  die_unless_hint true "BeartypeDecorHintNonpepException" (JTuple [IType true; IStr]) = Ret tt /\
  die_unless_hint true "BeartypeDecorHintNonpepException" (JPep false true) = Raise (EBear "BeartypeDecorHintPep484Exception").
Proof. repeat split. Qed.

Example cached_type_error_example :
  let f := fun k : key => if Nat.eqb (kid k) 1 then Raise (EUser 9 true false) else Ret (kid k) in
  cached_run f memo0 [{| kid := 1; hashable := true |}; {| kid := 1; hashable := true |}; {| kid := 2; hashable := false |}]
  = [Raise (EUser 9 true false); Raise (EUser 9 true false); Ret 2].
Proof. reflexivity. Qed.
