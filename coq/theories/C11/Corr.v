(* C11 correspondence: observations of the implementation judged by the model's executable definitions. *)
From Coq Require Import List String Ascii Bool Arith.
From BT Require Import Gen.ExcTree C11.Exc.
Import ListNotations.
Local Open Scope string_scope.

(* (a) die_unless_hint / is_hint on an abstracted object *)
Record vcase := { v_hint : jhint; v_ref : bool; v_ec : string; v_is_hint : bool; v_die : option string }.
Definition vcase_ok (c : vcase) : bool :=
  Bool.eqb (is_hint (v_ref c) (v_hint c)) (v_is_hint c) &&
  match die_unless_hint (v_ref c) (v_ec c) (v_hint c), v_die c with
  | Ret _, None => true
  | Raise (EBear a), Some b => String.eqb a b
  | _, _ => false
  end.

(* (b) callable_cached on a scripted function: key id -> what the function does *)
Inductive act := ARet (v : nat) | ARaise (n : nat) (type_error base : bool).
Definition act_res (a : act) : res nat := match a with ARet v => Ret v | ARaise n t b => Raise (EUser n t b) end.
Record ccase := { c_script : list (nat * act); c_keys : list key; c_obs : list (res nat) }.
Definition script_fun (s : list (nat * act)) (k : key) : res nat :=
  match lookup (kid k) s with Some a => act_res a | None => Ret 0 end.
Definition exc_eqb (a b : exc) : bool :=
  match a, b with
  | EUser n t x, EUser m u y => Nat.eqb n m && Bool.eqb t u && Bool.eqb x y
  | EBear c, EBear d | ERaw c, ERaw d => String.eqb c d
  | _, _ => false
  end.
Definition res_eqb (a b : res nat) : bool :=
  match a, b with Ret x, Ret y => Nat.eqb x y | Raise e, Raise f => exc_eqb e f | _, _ => false end.
Fixpoint list_eqb {A} (eq : A -> A -> bool) (l m : list A) : bool :=
  match l, m with [] , [] => true | x :: l', y :: m' => eq x y && list_eqb eq l' m' | _, _ => false end.
Definition ccase_ok (c : ccase) : bool :=
  list_eqb res_eqb (cached_run (script_fun (c_script c)) memo0 (c_keys c)) (c_obs c).

(* (c) classes observed leaving the public API, judged against the generated taxonomy *)
Inductive phase := PDecor | PCall | PDoor | PCheck.   (* decoration; call of a decorated callable; TypeHint / is_subhint; is_bearable / die_if_unbearable *)
Definition phase_ok (p : phase) (c : string) : bool :=
  acceptable c &&
  match p with
  | PDecor => descends c r_decor
  | PCall => descends c r_call || descends c "BeartypeHintViolation"
  | PDoor => descends c r_door || descends c r_decor || descends c r_call
  | PCheck => descends c r_decor || descends c r_call || descends c "BeartypeHintViolation" || descends c r_door
  end.
Definition warning_ok (c : string) : bool := is_public c && descends c r_warn.

Record ocase := { o_phase : phase; o_exc : option string; o_warns : list string }.
Definition ocase_ok (c : ocase) : bool :=
  match o_exc c with None => true | Some e => phase_ok (o_phase c) e end && forallb warning_ok (o_warns c).

Fixpoint failing_from {A} (ok : A -> bool) (i : nat) (l : list A) : list nat :=
  match l with [] => [] | x :: r => if ok x then failing_from ok (S i) r else i :: failing_from ok (S i) r end.
Definition vfailing := failing_from vcase_ok 0.
Definition cfailing := failing_from ccase_ok 0.
Definition ofailing := failing_from ocase_ok 0.
