(* C07 proofs over the name-resolution model. *)
From Coq Require Import List Bool Arith Lia.
From BT Require Import C07.Fwd.
Import ListNotations.

Definition calls (es : list event) : list cls :=
  flat_map (fun e => match e with Call oc => [oc] | _ => [] end) es.

(* ---- names bound at decoration: the string is the evaluated annotation, for every later history ---- *)
Lemma bound_run w c n st es : run w (Bound c) n st es = map (evaluated w c) (calls es).
Proof.
  revert st. induction es as [|e es IH]; intro st; [reflexivity|].
  destruct e as [m d|m d| |oc]; cbn [run step calls flat_map app map]; try apply IH.
  rewrite IH. reflexivity.
Qed.

Lemma scope_is_python builtins globals plocals s n :
  lookup n (s_class_names s) = None ->
  scope_lookup builtins globals plocals s n = py_lookup builtins globals plocals s n.
Proof. intro H. unfold scope_lookup, py_lookup. rewrite H. reflexivity. Qed.

Theorem string_eq_evaluated w builtins globals plocals s n c st es :
  lookup n (s_class_names s) = None ->
  py_lookup builtins globals plocals s n = Some c ->
  run w (decorate builtins globals plocals s n) n st es = map (evaluated w c) (calls es).
Proof.
  intros Hn Hp. unfold decorate. rewrite (scope_is_python _ _ _ _ _ Hn), Hp. apply bound_run.
Qed.

(* the class being defined (root or current class of the stack) is what its own name means in a string *)
Theorem self_reference_resolves w builtins globals plocals s n c st es :
  lookup n (s_class_attrs s) = None -> lookup n (s_class_names s) = Some c ->
  run w (decorate builtins globals plocals s n) n st es = map (evaluated w c) (calls es).
Proof.
  intros Ha Hn. unfold decorate, scope_lookup. rewrite Ha, Hn. apply bound_run.
Qed.

(* ---- deferred names ---- *)
(* an unresolvable name raises the forward-reference exception at the check, and the failure is not remembered *)
Theorem unresolved_raises_and_forgets w n st oc :
  memo st = None -> lookup n (globals st) = None ->
  step w (Proxy false) n st (Call oc) = (st, Some FwdRefError).
Proof. intros Hm Hg. cbn [step]. unfold resolve. rewrite Hm, Hg. reflexivity. Qed.

Theorem nested_unresolved_while_parent_runs w n st oc :
  memo st = None -> lookup n (globals st) = None -> parent_alive st = true -> lookup n (parent_locals st) = None ->
  step w (Proxy true) n st (Call oc) = (st, Some FwdRefError).
Proof. intros Hm Hg Ha Hl. cbn [step]. unfold resolve. rewrite Hm, Hg, Ha, Hl. reflexivity. Qed.

(* once the name is defined the next check is the evaluated one: no re-decoration *)
Theorem deferred_global_usable w hp n st c oc :
  memo st = None -> lookup n (globals st) = Some c ->
  snd (step w (Proxy hp) n st (Call oc)) = Some (evaluated w c oc) /\
  memo (fst (step w (Proxy hp) n st (Call oc))) = Some (RReal c).
Proof. intros Hm Hg. cbn [step]. unfold resolve. rewrite Hm, Hg. split; reflexivity. Qed.

Theorem deferred_local_usable w n st c oc :
  memo st = None -> lookup n (globals st) = None -> parent_alive st = true -> lookup n (parent_locals st) = Some c ->
  snd (step w (Proxy true) n st (Call oc)) = Some (evaluated w c oc) /\
  memo (fst (step w (Proxy true) n st (Call oc))) = Some (RReal c).
Proof. intros Hm Hg Ha Hl. cbn [step]. unfold resolve. rewrite Hm, Hg, Ha, Hl. split; reflexivity. Qed.

(* a resolved proxy stays what it is, whatever is defined or redefined later: like an evaluated annotation *)
Lemma memo_real_step w hp n st c e :
  memo st = Some (RReal c) -> memo (fst (step w (Proxy hp) n st e)) = Some (RReal c).
Proof.
  intro Hm. destruct e as [m d|m d| |oc]; cbn [step fst memo]; try exact Hm.
  unfold resolve. rewrite Hm. reflexivity.
Qed.

Theorem resolved_is_sticky w hp n c es st :
  memo st = Some (RReal c) -> run w (Proxy hp) n st es = map (evaluated w c) (calls es).
Proof.
  revert st. induction es as [|e es IH]; intros st Hm; [reflexivity|].
  pose proof (memo_real_step w hp n st c e Hm) as Hm'.
  destruct e as [m d|m d| |oc]; cbn [run calls flat_map app map].
  - apply IH. exact Hm'.
  - apply IH. exact Hm'.
  - apply IH. exact Hm'.
  - cbn [step] in *. unfold resolve in *. rewrite Hm in *. cbn [fst] in Hm'.
    rewrite (IH _ Hm'). reflexivity.
Qed.

(* the whole life of a module-level (parentless) proxy: forward-reference exceptions until the name is a module global at the
   time of a check, the evaluated verdict against that class from then on; a fake proxy never arises *)
Fixpoint spec_module (w : world) (n : name) (g : env) (first : option cls) (es : list event) : list outcome :=
  match es with
  | [] => []
  | DefGlobal m c :: r => spec_module w n ((m, c) :: g) first r
  | Call oc :: r =>
      match first with
      | Some c => evaluated w c oc :: spec_module w n g first r
      | None => match lookup n g with
                | Some c => evaluated w c oc :: spec_module w n g (Some c) r
                | None => FwdRefError :: spec_module w n g None r
                end
      end
  | _ :: r => spec_module w n g first r
  end.

Definition memo_cls (m : option referent) : option cls := match m with Some (RReal c) => Some c | _ => None end.

Theorem module_proxy_spec w n es st :
  (memo st = None \/ exists c, memo st = Some (RReal c)) ->
  run w (Proxy false) n st es = spec_module w n (globals st) (memo_cls (memo st)) es.
Proof.
  revert st. induction es as [|e es IH]; intros st Hm; [reflexivity|].
  destruct e as [m d|m d| |oc]; cbn [run step spec_module].
  - apply (IH {| globals := (m, d) :: globals st; parent_alive := parent_alive st; parent_locals := parent_locals st; memo := memo st |}). exact Hm.
  - apply (IH {| globals := globals st; parent_alive := parent_alive st;
                 parent_locals := if parent_alive st then (m, d) :: parent_locals st else parent_locals st; memo := memo st |}). exact Hm.
  - apply (IH {| globals := globals st; parent_alive := false; parent_locals := parent_locals st; memo := memo st |}). exact Hm.
  - unfold resolve. destruct Hm as [Hm|[c Hm]]; rewrite Hm; cbn [memo_cls negb].
    + destruct (lookup n (globals st)) as [c|] eqn:Hg.
      * cbn [judge]. f_equal. apply (IH {| globals := globals st; parent_alive := parent_alive st; parent_locals := parent_locals st; memo := Some (RReal c) |}).
        right. eexists. reflexivity.
      * f_equal. rewrite (IH st (or_introl Hm)), Hm. reflexivity.
    + cbn [judge]. f_equal.
      apply (IH {| globals := globals st; parent_alive := parent_alive st; parent_locals := parent_locals st; memo := Some (RReal c) |}).
      right. eexists. reflexivity.
Qed.

(* ---- what the code does beyond the property: machine-checked counterexamples (F38, F39) ---- *)
Definition w0 : world :=
  {| cname := fun c => match c with 1 => 7 | 2 => 8 | 3 => 9 | 4 => 7 | _ => 0 end;   (* classes 1 (K) and 4 share the name 7 *)
     ancestors := fun c => match c with 2 => [1] | _ => [] end |}.
Definition gone : state := {| globals := []; parent_alive := false; parent_locals := []; memo := None |}.

(* F38: a nested callable whose parent has returned: an unresolvable name raises nothing; a name-matching stand-in answers *)
Theorem nested_unresolved_no_exception_refuted :
  run w0 (Proxy true) 7 gone [Call 3] = [Fail] /\ run w0 (Proxy false) 7 gone [Call 3] = [FwdRefError].
Proof. split; reflexivity. Qed.

(* F38: and that stand-in is remembered: after the name is defined, an unrelated class of the same name still passes *)
Theorem fake_is_sticky_refuted :
  run w0 (Proxy true) 7 gone [Call 3; DefGlobal 7 1; Call 1; Call 4] = [Fail; Pass; Pass] /\
  evaluated w0 1 4 = Fail.
Proof. split; reflexivity. Qed.

(* F39: a class defined in the enclosing function after decoration, the callable used after that function returned *)
Theorem late_local_after_return_refuted :
  run w0 (Proxy true) 7 {| globals := []; parent_alive := true; parent_locals := []; memo := None |}
      [DefLocal 7 1; ParentReturns; Call 1; Call 2; Call 3; Call 4] = [Pass; Pass; Fail; Pass] /\
  map (evaluated w0 1) [1; 2; 3; 4] = [Pass; Pass; Fail; Fail].
Proof. split; reflexivity. Qed.

(* non-vacuity: a deferred module-level name through its whole life *)
Example module_life :
  run w0 (Proxy false) 7 {| globals := []; parent_alive := false; parent_locals := []; memo := None |}
      [Call 1; Call 3; DefGlobal 7 1; Call 1; Call 2; Call 4; DefGlobal 7 3; Call 3] =
  [FwdRefError; FwdRefError; Pass; Pass; Fail; Fail].
Proof. reflexivity. Qed.
