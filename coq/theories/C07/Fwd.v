(* C07 model: how @beartype resolves the names inside string annotations.
   Decoration time (beartype/_check/forward/fwdresolve.py, scope/fwdscopemake.py, scope/fwdscopecls.py): the string is
   evaluated in a forward scope = builtins, updated with the module globals, then with the locals of the lexically
   enclosing function (nested callables only), the root and current class of the class stack and the current class's
   attributes; a name found there is bound for good (like an evaluated annotation), a missing name becomes a
   forward-reference proxy carrying the module name and, for nested callables, a weak reference to the enclosing
   code object.
   Check time (reference/_cls/fwdrefmeta.py: __resolved_hint_beartype__, _resolve_hint_pep484_ref_str): a proxy
   answers from its memo if it resolved before; else the module global of that name; else, with a parent code object:
   the parent's locals if its frame is on the stack, a forward-reference exception if the frame is there but the
   name is not, and a name-matching fake proxy (reference/_cls/fwdreffake.py) if the frame is gone; without a parent:
   a forward-reference exception.  Whatever it finds is memoised; an exception is not.
   No proofs here. *)
From Coq Require Import List Bool Arith.
Import ListNotations.

Definition name := nat.
Definition cls := nat.

(* the class universe of a scenario: each class has a name and a list of proper ancestors (object excluded) *)
Record world := { cname : cls -> name; ancestors : cls -> list cls }.

Definition issub (w : world) (c d : cls) : bool := Nat.eqb c d || existsb (Nat.eqb d) (ancestors w c).

(* _is_fake_proxy_superclass: the class or one of its proper ancestors carries the name *)
Definition fake_match (w : world) (n : name) (c : cls) : bool :=
  Nat.eqb (cname w c) n || existsb (fun a => Nat.eqb (cname w a) n) (ancestors w c).

Definition env := list (name * cls).
Fixpoint lookup (n : name) (e : env) : option cls :=
  match e with [] => None | (m, c) :: r => if Nat.eqb n m then Some c else lookup n r end.

(* ---- decoration time ---- *)
Record site := {
  s_nested : bool;            (* closure, or method decorated inside its class body: the proxy gets a parent code object *)
  s_class_names : env;        (* root and current class of the class stack (class decoration only) *)
  s_class_attrs : env;        (* attributes of the current class *)
}.

(* the forward scope: later updates win *)
Definition scope_lookup (builtins globals parent_locals : env) (s : site) (n : name) : option cls :=
  match lookup n (s_class_attrs s) with Some c => Some c | None =>
  match lookup n (s_class_names s) with Some c => Some c | None =>
  match (if s_nested s then lookup n parent_locals else None) with Some c => Some c | None =>
  match lookup n globals with Some c => Some c | None => lookup n builtins end end end end.

(* what Python itself would bind the name to at that point (LEGB, the class body first): the evaluated annotation *)
Definition py_lookup (builtins globals parent_locals : env) (s : site) (n : name) : option cls :=
  match lookup n (s_class_attrs s) with Some c => Some c | None =>
  match (if s_nested s then lookup n parent_locals else None) with Some c => Some c | None =>
  match lookup n globals with Some c => Some c | None => lookup n builtins end end end.

Inductive binding := Bound (c : cls) | Proxy (has_parent : bool).

Definition decorate (builtins globals parent_locals : env) (s : site) (n : name) : binding :=
  match scope_lookup builtins globals parent_locals s n with
  | Some c => Bound c
  | None => Proxy (s_nested s)
  end.

(* ---- check time ---- *)
Inductive referent := RReal (c : cls) | RFake.

Record state := {
  globals : env;
  parent_alive : bool;          (* the enclosing function's (or class body's) frame is still on the stack *)
  parent_locals : env;
  memo : option referent;       (* the proxy's memoised referent *)
}.

Inductive outcome := Pass | Fail | FwdRefError.

Definition judge (w : world) (n : name) (r : referent) (oc : cls) : outcome :=
  match r with
  | RReal c => if issub w oc c then Pass else Fail
  | RFake => if fake_match w n oc then Pass else Fail
  end.

(* resolution of a proxy: the referent (or nothing: the exception) and the new memo *)
Definition resolve (has_parent : bool) (n : name) (st : state) : option referent :=
  match memo st with
  | Some r => Some r
  | None =>
      match lookup n (globals st) with
      | Some c => Some (RReal c)
      | None =>
          if negb has_parent then None
          else if parent_alive st then
                 match lookup n (parent_locals st) with Some c => Some (RReal c) | None => None end
               else Some RFake
      end
  end.

Inductive event :=
| DefGlobal (n : name) (c : cls)
| DefLocal (n : name) (c : cls)      (* in the enclosing function, while it runs *)
| ParentReturns
| Call (oc : cls).                   (* a check of an object whose class is oc against the annotation *)

Definition step (w : world) (b : binding) (n : name) (st : state) (e : event) : state * option outcome :=
  match e with
  | DefGlobal m c => ({| globals := (m, c) :: globals st; parent_alive := parent_alive st; parent_locals := parent_locals st; memo := memo st |}, None)
  | DefLocal m c => ({| globals := globals st; parent_alive := parent_alive st;
                        parent_locals := if parent_alive st then (m, c) :: parent_locals st else parent_locals st; memo := memo st |}, None)
  | ParentReturns => ({| globals := globals st; parent_alive := false; parent_locals := parent_locals st; memo := memo st |}, None)
  | Call oc =>
      match b with
      | Bound c => (st, Some (if issub w oc c then Pass else Fail))
      | Proxy hp =>
          match resolve hp n st with
          | Some r => ({| globals := globals st; parent_alive := parent_alive st; parent_locals := parent_locals st; memo := Some r |},
                       Some (judge w n r oc))
          | None => (st, Some FwdRefError)
          end
      end
  end.

Fixpoint run (w : world) (b : binding) (n : name) (st : state) (es : list event) : list outcome :=
  match es with
  | [] => []
  | e :: r => let '(st', o) := step w b n st e in
              match o with Some x => x :: run w b n st' r | None => run w b n st' r end
  end.

Fixpoint final (w : world) (b : binding) (n : name) (st : state) (es : list event) : state :=
  match es with [] => st | e :: r => final w b n (fst (step w b n st e)) r end.

(* the evaluated annotation: the class object itself *)
Definition evaluated (w : world) (c oc : cls) : outcome := if issub w oc c then Pass else Fail.
