(* C07 correspondence: a generated program as the model sees it, and the verdicts observed when it ran. *)
From Coq Require Import List Bool Arith.
From BT Require Import C07.Fwd.
Import ListNotations.

(* the classes of every generated program: 1 = K (the class the annotation names), 2 = a subclass of K, 3 = an unrelated class,
   4 = an unrelated class that is also called K, 5 = int, 6 = NoneType, 7 = another class some scope binds the name K to *)
Definition kname : name := 7.
Definition wgen : world :=
  {| cname := fun c => match c with 1 => kname | 4 => kname | _ => 100 + c end;
     ancestors := fun c => match c with 2 => [1] | _ => [] end |}.

Record fcase := {
  f_site : site; f_globals0 : env; f_plocals0 : env; f_alive0 : bool;
  f_events : list event;
  f_free : list bool;      (* per call: the object passes the annotation whatever K is (None for Optional[K], an int for Union[K, int]) *)
  f_obs : list nat         (* per call: 0 returned normally, 1 violation, 2 forward-reference exception *)
}.

Definition allowed (o : outcome) (free : bool) (obs : nat) : bool :=
  match o with
  | Pass => Nat.eqb obs 0
  | Fail => if free then Nat.eqb obs 0 else Nat.eqb obs 1
  | FwdRefError => Nat.eqb obs 2 || (free && Nat.eqb obs 0)
  end.

Fixpoint all3 (os : list outcome) (fs : list bool) (obs : list nat) : bool :=
  match os, fs, obs with
  | [], [], [] => true
  | o :: os', f :: fs', b :: obs' => allowed o f b && all3 os' fs' obs'
  | _, _, _ => false
  end.

Definition predicted (c : fcase) : list outcome :=
  run wgen (decorate [] (f_globals0 c) (f_plocals0 c) (f_site c) kname) kname
      {| globals := f_globals0 c; parent_alive := f_alive0 c; parent_locals := f_plocals0 c; memo := None |} (f_events c).

Definition fcase_ok (c : fcase) : bool := all3 (predicted c) (f_free c) (f_obs c).

Fixpoint failing_from (i : nat) (l : list fcase) : list nat :=
  match l with [] => [] | x :: r => if fcase_ok x then failing_from (S i) r else i :: failing_from (S i) r end.
Definition ffailing := failing_from 0.
