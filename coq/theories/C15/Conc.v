(* C15 model: beartype's shared memo tables under arbitrary thread interleavings.
   "Get or create under a lock" is how BeartypeConf.__new__ (beartype/_conf/confmain.py, under
   _beartype_conf_lock), the TypeHint wrapper cache (CacheUnboundedStrong
   .cache_or_get_cached_func_return_passed_arg, beartype/_util/cache/map/utilmapunbounded.py) and
   hook registration (claw_lock) work; @callable_cached (utilcachecall.py) does the same without a
   lock.  Threads are program counters over a shared state; a schedule is a list of thread
   identifiers; a step of a thread that cannot move (lock held by another) leaves the state
   unchanged.  No proofs here. *)
From Coq Require Import List Bool Arith.
Import ListNotations.
Local Open Scope list_scope.

Definition key := nat.
Definition obj := nat.                       (* objects are identified by allocation number *)

Record thread := { pc : nat; tkey : key; tlocal : option obj; tresult : option obj }.

Record state := {
  lock : option nat;                         (* which thread holds the lock *)
  cache : list (key * obj);
  next_obj : nat;
  threads : list thread }.

Fixpoint lookup (k : key) (c : list (key * obj)) : option obj :=
  match c with [] => None | (k', o) :: r => if Nat.eqb k' k then Some o else lookup k r end.

Fixpoint set_nth {A} (n : nat) (x : A) (l : list A) : list A :=
  match l, n with
  | [], _ => []
  | _ :: r, 0 => x :: r
  | y :: r, S n' => y :: set_nth n' x r
  end.

Definition upd (s : state) (t : nat) (th : thread) (lk : option nat) (c : list (key * obj)) (nx : nat) : state :=
  {| lock := lk; cache := c; next_obj := nx; threads := set_nth t th (threads s) |}.

(* the locked program: 0 acquire; 1 look up; 2 create on a miss; 3 store; 4 release; 5 done *)
Definition step_locked (s : state) (t : nat) : state :=
  match nth_error (threads s) t with
  | None => s
  | Some th =>
      match pc th with
      | 0 => match lock s with
             | None => upd s t {| pc := 1; tkey := tkey th; tlocal := None; tresult := None |} (Some t) (cache s) (next_obj s)
             | Some _ => s                                     (* blocked *)
             end
      | 1 => match lookup (tkey th) (cache s) with
             | Some o => upd s t {| pc := 4; tkey := tkey th; tlocal := Some o; tresult := None |} (lock s) (cache s) (next_obj s)
             | None => upd s t {| pc := 2; tkey := tkey th; tlocal := None; tresult := None |} (lock s) (cache s) (next_obj s)
             end
      | 2 => upd s t {| pc := 3; tkey := tkey th; tlocal := Some (next_obj s); tresult := None |} (lock s) (cache s) (S (next_obj s))
      | 3 => match tlocal th with
             | Some o => upd s t {| pc := 4; tkey := tkey th; tlocal := Some o; tresult := None |} (lock s) ((tkey th, o) :: cache s) (next_obj s)
             | None => s
             end
      | 4 => upd s t {| pc := 5; tkey := tkey th; tlocal := tlocal th; tresult := tlocal th |} None (cache s) (next_obj s)
      | _ => s
      end
  end.

(* the same without the lock: 1 look up; 2 create; 3 store; 5 done *)
Definition step_unlocked (s : state) (t : nat) : state :=
  match nth_error (threads s) t with
  | None => s
  | Some th =>
      match pc th with
      | 1 => match lookup (tkey th) (cache s) with
             | Some o => upd s t {| pc := 5; tkey := tkey th; tlocal := Some o; tresult := Some o |} None (cache s) (next_obj s)
             | None => upd s t {| pc := 2; tkey := tkey th; tlocal := None; tresult := None |} None (cache s) (next_obj s)
             end
      | 2 => upd s t {| pc := 3; tkey := tkey th; tlocal := Some (next_obj s); tresult := None |} None (cache s) (S (next_obj s))
      | 3 => match tlocal th with
             | Some o => upd s t {| pc := 5; tkey := tkey th; tlocal := Some o; tresult := Some o |} None ((tkey th, o) :: cache s) (next_obj s)
             | None => s
             end
      | _ => s
      end
  end.

Definition run (step : state -> nat -> state) (s : state) (sched : list nat) : state := fold_left step sched s.

Definition init (start_pc : nat) (keys : list key) : state :=
  {| lock := None; cache := []; next_obj := 0;
     threads := map (fun k => {| pc := start_pc; tkey := k; tlocal := None; tresult := None |}) keys |}.

(* what a single thread could obtain: the results of running the calls one after the other in some order *)
Definition finished (th : thread) : bool := Nat.eqb (pc th) 5.
