(* C15 proofs: under every interleaving, get-or-create under a lock hands every caller of one key
   the same object, that object is the one recorded in the cache, and some thread can always move;
   without the lock two callers can be handed different objects. *)
From Coq Require Import List Bool Arith Lia.
From BT Require Import C15.Conc.
Import ListNotations.
Local Open Scope list_scope.

Lemma nth_set_same {A} n (x : A) l : n < List.length l -> nth_error (set_nth n x l) n = Some x.
Proof. revert n. induction l as [|y l IH]; intros [|n] H; cbn in *; try lia; [reflexivity|]. apply IH. lia. Qed.

Lemma nth_set_other {A} n m (x : A) l : n <> m -> nth_error (set_nth n x l) m = nth_error l m.
Proof. revert n m. induction l as [|y l IH]; intros [|n] [|m] H; cbn; try reflexivity; try congruence. apply IH. congruence. Qed.

Lemma nth_some_lt {A} (l : list A) n x : nth_error l n = Some x -> n < List.length l.
Proof. intros H. apply nth_error_Some. congruence. Qed.

(* what is known about a thread at each program point *)
Definition thread_ok (s : state) (t : nat) (th : thread) : Prop :=
  match pc th with
  | 0 => True
  | 1 => lock s = Some t
  | 2 => lock s = Some t /\ lookup (tkey th) (cache s) = None
  | 3 => lock s = Some t /\ lookup (tkey th) (cache s) = None /\ exists o, tlocal th = Some o
  | 4 => lock s = Some t /\ exists o, tlocal th = Some o /\ lookup (tkey th) (cache s) = Some o
  | 5 => exists o, tresult th = Some o /\ lookup (tkey th) (cache s) = Some o
  | _ => True
  end.

Definition holder_ok (s : state) : Prop :=
  forall h, lock s = Some h -> exists hh, nth_error (threads s) h = Some hh /\ 1 <= pc hh <= 4.

Definition inv (s : state) : Prop :=
  (forall t th, nth_error (threads s) t = Some th -> thread_ok s t th) /\ holder_ok s.

Lemma inv_init keys : inv (init 0 keys).
Proof.
  split.
  - intros t th H. unfold init in H. cbn [threads] in H. apply nth_error_In, in_map_iff in H as (k & <- & _). exact I.
  - intros h H. discriminate.
Qed.

(* entries of the cache are never lost nor overwritten by a store of a key that was absent *)
Lemma lookup_cons_other k k' o c v : lookup k c = Some v -> lookup k' c = None -> lookup k ((k', o) :: c) = Some v.
Proof.
  intros H1 H2. cbn. destruct (Nat.eqb k' k) eqn:E; [|exact H1]. apply Nat.eqb_eq in E. subst. congruence.
Qed.

(* threads other than the lock holder are outside the critical section *)
Lemma others_outside s t u uh :
  (forall t th, nth_error (threads s) t = Some th -> thread_ok s t th) ->
  lock s = Some t -> u <> t -> nth_error (threads s) u = Some uh -> pc uh = 0 \/ pc uh >= 5.
Proof.
  intros Hinv Hl Hne Hu. pose proof (Hinv u uh Hu) as H. unfold thread_ok in H.
  destruct (pc uh) as [|[|[|[|[|m]]]]]; [left; reflexivity| | | | |right; lia].
  - exfalso. rewrite Hl in H. inversion H. congruence.
  - exfalso. destruct H as [H _]. rewrite Hl in H. inversion H. congruence.
  - exfalso. destruct H as [H _]. rewrite Hl in H. inversion H. congruence.
  - exfalso. destruct H as [H _]. rewrite Hl in H. inversion H. congruence.
Qed.

Lemma free_outside s u uh :
  (forall t th, nth_error (threads s) t = Some th -> thread_ok s t th) ->
  lock s = None -> nth_error (threads s) u = Some uh -> pc uh = 0 \/ pc uh >= 5.
Proof.
  intros Hinv Hl Hu. pose proof (Hinv u uh Hu) as H. unfold thread_ok in H.
  destruct (pc uh) as [|[|[|[|[|m]]]]]; [left; reflexivity| | | | |right; lia].
  - exfalso. rewrite Hl in H. discriminate H.
  - exfalso. destruct H as [H _]. rewrite Hl in H. discriminate H.
  - exfalso. destruct H as [H _]. rewrite Hl in H. discriminate H.
  - exfalso. destruct H as [H _]. rewrite Hl in H. discriminate H.
Qed.

Lemma step_inv s t : inv s -> inv (step_locked s t).
Proof.
  intros [Hinv Hhold]. unfold step_locked. destruct (nth_error (threads s) t) as [th|] eqn:Et; [|split; assumption].
  pose proof (nth_some_lt _ _ _ Et) as Hlt. pose proof (Hinv t th Et) as Hth. unfold thread_ok in Hth.
  (* a generic way to conclude for the threads that did not move, when lock and cache are only extended *)
  destruct (pc th) as [|[|[|[|[|n]]]]] eqn:Epc.
  - (* acquire *)
    destruct (lock s) as [h|] eqn:El; [split; assumption|]. split.
    + intros u uh Hu. cbn [upd threads] in Hu. destruct (Nat.eq_dec t u) as [<-|Hne].
      * rewrite nth_set_same in Hu by exact Hlt. inversion Hu; subst. unfold thread_ok. cbn. reflexivity.
      * rewrite nth_set_other in Hu by exact Hne. pose proof (Hinv u uh Hu) as Hu'.
        destruct (free_outside s u uh Hinv El Hu) as [Z|Z]; unfold thread_ok in *; cbn [upd lock cache].
        -- now rewrite Z.
        -- destruct (pc uh) as [|[|[|[|[|[|m]]]]]]; try lia; try exact I; exact Hu'.
    + intros h Hh. cbn [upd lock] in Hh. inversion Hh; subst h. eexists. cbn [upd threads]. split; [apply nth_set_same; exact Hlt|]. cbn. lia.
  - (* look up *)
    assert (Hl : lock s = Some t) by exact Hth.
    destruct (lookup (tkey th) (cache s)) as [o|] eqn:Ec; split.
    + intros u uh Hu. cbn [upd threads] in Hu. destruct (Nat.eq_dec t u) as [<-|Hne].
      * rewrite nth_set_same in Hu by exact Hlt. inversion Hu; subst. unfold thread_ok. cbn. split; [exact Hl|]. exists o. auto.
      * rewrite nth_set_other in Hu by exact Hne. exact (Hinv u uh Hu).
    + intros h Hh. cbn [upd lock] in Hh. rewrite Hl in Hh. inversion Hh; subst h. eexists. cbn [upd threads]. split; [apply nth_set_same; exact Hlt|]. cbn. lia.
    + intros u uh Hu. cbn [upd threads] in Hu. destruct (Nat.eq_dec t u) as [<-|Hne].
      * rewrite nth_set_same in Hu by exact Hlt. inversion Hu; subst. unfold thread_ok. cbn. auto.
      * rewrite nth_set_other in Hu by exact Hne. exact (Hinv u uh Hu).
    + intros h Hh. cbn [upd lock] in Hh. rewrite Hl in Hh. inversion Hh; subst h. eexists. cbn [upd threads]. split; [apply nth_set_same; exact Hlt|]. cbn. lia.
  - (* create *)
    destruct Hth as [Hl Hc]. split.
    + intros u uh Hu. cbn [upd threads] in Hu. destruct (Nat.eq_dec t u) as [<-|Hne].
      * rewrite nth_set_same in Hu by exact Hlt. inversion Hu; subst. unfold thread_ok. cbn. repeat split; auto. now exists (next_obj s).
      * rewrite nth_set_other in Hu by exact Hne. exact (Hinv u uh Hu).
    + intros h Hh. cbn [upd lock] in Hh. rewrite Hl in Hh. inversion Hh; subst h. eexists. cbn [upd threads]. split; [apply nth_set_same; exact Hlt|]. cbn. lia.
  - (* store *)
    destruct Hth as [Hl [Hc [o Ho]]]. rewrite Ho. split.
    + intros u uh Hu. cbn [upd threads] in Hu. destruct (Nat.eq_dec t u) as [<-|Hne].
      * rewrite nth_set_same in Hu by exact Hlt. inversion Hu; subst. unfold thread_ok. cbn [pc tkey tlocal upd lock cache].
        split; [exact Hl|]. exists o. split; [reflexivity|]. cbn. now rewrite Nat.eqb_refl.
      * rewrite nth_set_other in Hu by exact Hne. pose proof (Hinv u uh Hu) as Hu'.
        destruct (others_outside s t u uh Hinv Hl (not_eq_sym Hne) Hu) as [Z|Z]; unfold thread_ok in *; cbn [upd lock cache].
        -- now rewrite Z.
        -- destruct (pc uh) as [|[|[|[|[|[|m]]]]]]; try lia; try exact I.
           destruct Hu' as (v & Hv & Hlk). exists v. split; [exact Hv|]. now apply lookup_cons_other.
    + intros h Hh. cbn [upd lock] in Hh. rewrite Hl in Hh. inversion Hh; subst h. eexists. cbn [upd threads]. split; [apply nth_set_same; exact Hlt|]. cbn. lia.
  - (* release *)
    destruct Hth as [Hl (o & Ho & Hc)]. split.
    + intros u uh Hu. cbn [upd threads] in Hu. destruct (Nat.eq_dec t u) as [<-|Hne].
      * rewrite nth_set_same in Hu by exact Hlt. inversion Hu; subst. unfold thread_ok. cbn. exists o. rewrite Ho. auto.
      * rewrite nth_set_other in Hu by exact Hne. pose proof (Hinv u uh Hu) as Hu'.
        destruct (others_outside s t u uh Hinv Hl (not_eq_sym Hne) Hu) as [Z|Z]; unfold thread_ok in *; cbn [upd lock cache].
        -- now rewrite Z.
        -- destruct (pc uh) as [|[|[|[|[|[|m]]]]]]; try lia; try exact I; exact Hu'.
    + intros h Hh. cbn [upd lock] in Hh. discriminate.
  - split; assumption.
Qed.

Lemma run_inv sched : forall s, inv s -> inv (run step_locked s sched).
Proof. induction sched as [|t r IH]; intros s H; [exact H|]. cbn. apply IH. now apply step_inv. Qed.

(* 1. whatever the interleaving, callers of one key get one object: the one the cache records *)
Theorem locked_agreement keys sched t1 t2 th1 th2 o1 o2 :
  let s := run step_locked (init 0 keys) sched in
  nth_error (threads s) t1 = Some th1 -> nth_error (threads s) t2 = Some th2 ->
  pc th1 = 5 -> pc th2 = 5 -> tkey th1 = tkey th2 ->
  tresult th1 = Some o1 -> tresult th2 = Some o2 -> o1 = o2.
Proof.
  intros s H1 H2 P1 P2 Hk R1 R2. destruct (run_inv sched _ (inv_init keys)) as [Hinv _]. fold s in Hinv.
  pose proof (Hinv t1 th1 H1) as A. pose proof (Hinv t2 th2 H2) as B. unfold thread_ok in A, B. rewrite P1 in A. rewrite P2 in B.
  destruct A as (a & Ra & La). destruct B as (b & Rb & Lb). rewrite Hk in La. congruence.
Qed.

(* 2. no deadlock: while some call is unfinished, some thread can take a step that changes the state *)
Definition moves (s : state) (t : nat) : Prop := step_locked s t <> s.

Lemma upd_neq s t th th' lk c nx : nth_error (threads s) t = Some th -> pc th' <> pc th -> upd s t th' lk c nx <> s.
Proof.
  intros Et Hpc E. assert (H : nth_error (threads (upd s t th' lk c nx)) t = Some th') by
    (cbn [upd threads]; apply nth_set_same; eapply nth_some_lt; eauto).
  rewrite E, Et in H. inversion H; subst. congruence.
Qed.

Theorem locked_progress keys sched :
  let s := run step_locked (init 0 keys) sched in
  (exists t th, nth_error (threads s) t = Some th /\ pc th < 5) -> exists t, moves s t.
Proof.
  intros s (t & th & Et & Hpc). destruct (run_inv sched _ (inv_init keys)) as [Hinv Hhold]. fold s in Hinv, Hhold.
  destruct (lock s) as [h|] eqn:El.
  - (* the holder can move *)
    destruct (Hhold h El) as (hh & Eh & Hp). exists h. unfold moves, step_locked. rewrite Eh.
    pose proof (Hinv h hh Eh) as Hh. unfold thread_ok in Hh.
    destruct (pc hh) as [|[|[|[|[|n]]]]] eqn:Ep; try lia.
    + destruct (lookup (tkey hh) (cache s)); apply (upd_neq s h hh); auto; cbn; lia.
    + apply (upd_neq s h hh); auto; cbn; lia.
    + destruct Hh as [_ [_ [o Ho]]]. rewrite Ho. apply (upd_neq s h hh); auto; cbn; lia.
    + apply (upd_neq s h hh); auto; cbn; lia.
  - (* the lock is free: t itself can acquire it (it is at 0, the only unfinished point outside the lock) *)
    exists t. unfold moves, step_locked. rewrite Et.
    destruct (free_outside s t th Hinv El Et) as [Z|Z]; [|lia]. rewrite Z, El.
    apply (upd_neq s t th); auto. cbn. lia.
Qed.

(* 3. without the lock two callers of one key can be handed different objects *)
Lemma unlocked_refuted :
  let s := run step_unlocked (init 1 [7; 7]) [0; 1; 0; 0; 1; 1] in
  map tresult (threads s) = [Some 0; Some 1].
Proof. reflexivity. Qed.
