(* C05 correspondence glue: the real BeartypeNodeTransformer applied to generated modules, read back
   into [stmt], against [transform].  No proofs. *)
From Coq Require Import List Bool Arith.
From BT Require Import C05.Ast.
Import ListNotations.
Local Open Scope list_scope.

Definition deco_eqb (a b : deco) : bool :=
  match a, b with
  | DUser x, DUser y => Nat.eqb x y
  | DBear c l, DBear d m => Bool.eqb c d && Nat.eqb l m
  | _, _ => false
  end.

Definition target_eqb (a b : target) : bool :=
  match a, b with
  | TName x, TName y => Nat.eqb x y
  | TAttr o x, TAttr p y | TSub o x, TSub p y => Nat.eqb o p && Nat.eqb x y
  | _, _ => false
  end.

Fixpoint list_eqb {A} (f : A -> A -> bool) (a b : list A) : bool :=
  match a, b with [], [] => true | x :: a', y :: b' => f x y && list_eqb f a' b' | _, _ => false end.

Definition opt_eqb (a b : option nat) : bool :=
  match a, b with None, None => true | Some x, Some y => Nat.eqb x y | _, _ => false end.

Fixpoint stmt_eqb (a b : stmt) {struct a} : bool :=
  match a, b with
  | SDoc l, SDoc m | SFuture l, SFuture m | SOther l, SOther m | SImportStar l, SImportStar m => Nat.eqb l m
  | SFunc x n ds t body l, SFunc y n' ds' t' body' l' =>
      Bool.eqb x y && Nat.eqb n n' && list_eqb deco_eqb ds ds' && Bool.eqb t t' && Nat.eqb l l' &&
      (fix go (p q : list stmt) : bool :=
         match p, q with [], [] => true | u :: p', v :: q' => stmt_eqb u v && go p' q' | _, _ => false end) body body'
  | SClass n ds body l, SClass n' ds' body' l' =>
      Nat.eqb n n' && list_eqb deco_eqb ds ds' && Nat.eqb l l' &&
      (fix go (p q : list stmt) : bool :=
         match p, q with [], [] => true | u :: p', v :: q' => stmt_eqb u v && go p' q' | _, _ => false end) body body'
  | SAnn t ann v l, SAnn t' ann' v' l' => target_eqb t t' && Nat.eqb ann ann' && opt_eqb v v' && Nat.eqb l l'
  | SBlock k bodies l, SBlock k' bodies' l' =>
      Nat.eqb k k' && Nat.eqb l l' &&
      (fix gos (p q : list (list stmt)) : bool :=
         match p, q with
         | [], [] => true
         | u :: p', v :: q' =>
             (fix go (x y : list stmt) : bool :=
                match x, y with [], [] => true | s1 :: x', s2 :: y' => stmt_eqb s1 s2 && go x' y' | _, _ => false end) u v
             && gos p' q'
         | _, _ => false
         end) bodies bodies'
  | SCheck t ann c l, SCheck t' ann' c' l' => target_eqb t t' && Nat.eqb ann ann' && Bool.eqb c c' && Nat.eqb l l'
  | _, _ => false
  end.

Record acase := { a_conf : aconf; a_module : list stmt; a_real : list stmt }.

Definition check_acase (k : acase) : bool :=
  forallb original (a_module k)
  && list_eqb stmt_eqb (transform (a_conf k) (a_module k)) (a_real k)
  (* the theorems' statements, evaluated *)
  && list_eqb stmt_eqb (flat_map erase (a_real k)) (a_module k)
  && forallb (fun l => existsb (Nat.eqb l) (flat_map lines (a_module k))) (flat_map lines (a_real k)).

Fixpoint afailing_from (i : nat) (ks : list acase) : list nat :=
  match ks with [] => [] | k :: r => if check_acase k then afailing_from (S i) r else i :: afailing_from (S i) r end.
Definition afailing (ks : list acase) : list nat := afailing_from 0 ks.
