(* C05 proofs: the transformation only adds; removing what it adds gives the module back; it
   introduces no new line number; the import sits after the prologue; and the PEP 526 checks
   evaluate some original expressions a second time. *)
From Coq Require Import List Bool Arith Lia.
From BT Require Import C05.Ast.
Import ListNotations.
Local Open Scope list_scope.

Section StmtInd.
  Variable P : stmt -> Prop.
  Hypothesis PDoc : forall l, P (SDoc l).
  Hypothesis PFuture : forall l, P (SFuture l).
  Hypothesis PFunc : forall a n ds t body l, Forall P body -> P (SFunc a n ds t body l).
  Hypothesis PClass : forall n ds body l, Forall P body -> P (SClass n ds body l).
  Hypothesis PAnn : forall t ann v l, P (SAnn t ann v l).
  Hypothesis PBlock : forall k bodies l, Forall (Forall P) bodies -> P (SBlock k bodies l).
  Hypothesis POther : forall l, P (SOther l).
  Hypothesis PImp : forall l, P (SImportStar l).
  Hypothesis PCheck : forall t ann c l, P (SCheck t ann c l).

  Fixpoint stmt_ind2 (s : stmt) : P s :=
    let list_ind := fix go (l : list stmt) : Forall P l :=
      match l with [] => Forall_nil P | x :: r => Forall_cons x (stmt_ind2 x) (go r) end in
    match s with
    | SDoc l => PDoc l | SFuture l => PFuture l
    | SFunc a n ds t body l => PFunc a n ds t body l (list_ind body)
    | SClass n ds body l => PClass n ds body l (list_ind body)
    | SAnn t ann v l => PAnn t ann v l
    | SBlock k bodies l =>
        PBlock k bodies l ((fix gos (ls : list (list stmt)) : Forall (Forall P) ls :=
                              match ls with [] => Forall_nil _ | b :: r => Forall_cons b (list_ind b) (gos r) end) bodies)
    | SOther l => POther l | SImportStar l => PImp l | SCheck t ann c l => PCheck t ann c l
    end.
End StmtInd.

Lemma filter_add_deco p wc l ds : forallb user_deco ds = true -> filter user_deco (add_deco p (DBear wc l) ds) = ds.
Proof.
  intros H. assert (E : filter user_deco ds = ds).
  { induction ds as [|d ds IH]; [reflexivity|]. cbn in *. apply andb_true_iff in H as [H1 H2]. rewrite H1. f_equal. now apply IH. }
  destruct p; cbn [add_deco].
  - rewrite filter_app. cbn. rewrite E. apply app_nil_r.
  - cbn. exact E.
Qed.

Lemma filter_user ds : forallb user_deco ds = true -> filter user_deco ds = ds.
Proof. induction ds as [|d ds IH]; [reflexivity|]. cbn. intros H. apply andb_true_iff in H as [H1 H2]. rewrite H1. f_equal. now apply IH. Qed.

Lemma flat_map_id {A} (f : A -> list A) l : Forall (fun x => f x = [x]) l -> flat_map f l = l.
Proof. induction 1 as [|x l Hx Hl IH]; [reflexivity|]. cbn. now rewrite Hx, IH. Qed.

Lemma flat_map_flat_map {A B C} (f : A -> list B) (g : B -> list C) l :
  flat_map g (flat_map f l) = flat_map (fun x => flat_map g (f x)) l.
Proof. induction l as [|x l IH]; [reflexivity|]. cbn. now rewrite flat_map_app, IH. Qed.

(* ------------------------------------------------------------ 1. the hook only adds *)
Lemma erase_visit cf s : forall sc, original s = true -> flat_map erase (visit cf sc s) = [s].
Proof.
  induction s using stmt_ind2; intros sc Ho; cbn [visit original] in *; try reflexivity.
  - (* function *)
    apply andb_true_iff in Ho as [Hd Hb]. cbn [flat_map erase app]. rewrite ?app_nil_r. f_equal.
    f_equal.
    + destruct sc; [| |]; try (destruct t; [apply filter_add_deco|apply filter_user]; exact Hd). now apply filter_user.
    + rewrite flat_map_flat_map. apply flat_map_id. rewrite forallb_forall in Hb. rewrite Forall_forall in *.
      intros x Hx. apply H; auto.
  - (* class *)
    apply andb_true_iff in Ho as [Hd Hb]. cbn [flat_map erase app]. rewrite ?app_nil_r. f_equal. f_equal.
    + now apply filter_add_deco.
    + rewrite flat_map_flat_map. apply flat_map_id. rewrite forallb_forall in Hb. rewrite Forall_forall in *.
      intros x Hx. apply H; auto.
  - (* annotated assignment *)
    destruct v as [v|]; [|reflexivity]. destruct sc, t; try reflexivity; destruct (pep526 cf); reflexivity.
  - (* compound statement *)
    cbn [flat_map erase app]. rewrite ?app_nil_r. f_equal. f_equal. rewrite map_map.
    rewrite forallb_forall in Ho.
    assert (G : forall b, In b bodies -> flat_map erase (flat_map (visit cf sc) b) = b).
    { intros b Hb. rewrite flat_map_flat_map. apply flat_map_id. rewrite Forall_forall in H.
      specialize (H b Hb). specialize (Ho b Hb). rewrite forallb_forall in Ho. rewrite Forall_forall in *.
      intros x Hx. apply H; auto. }
    clear -G. induction bodies as [|b bs IH]; [reflexivity|]. cbn. rewrite G by now left. f_equal. apply IH.
    intros b' Hb'. apply G. now right.
  - discriminate.
  - discriminate.
Qed.

Lemma split_prologue_app m : let '(p, q) := split_prologue m in m = p ++ q /\ forallb is_prologue p = true.
Proof.
  induction m as [|s m IH]; cbn; [split; reflexivity|].
  destruct (is_prologue s) eqn:E.
  - destruct (split_prologue m) as [p q]. destruct IH as [-> Hp]. split; [reflexivity|]. cbn. now rewrite E.
  - split; reflexivity.
Qed.

Lemma prologue_visit cf p : forallb is_prologue p = true -> flat_map (visit cf ScModule) p = p.
Proof.
  induction p as [|s p IH]; [reflexivity|]. cbn [forallb]. intros H. apply andb_true_iff in H as [H1 H2].
  cbn [flat_map]. rewrite (IH H2). destruct s; try discriminate; reflexivity.
Qed.

Theorem erase_transform cf m : forallb original m = true -> flat_map erase (transform cf m) = m.
Proof.
  intros Ho. unfold transform. pose proof (split_prologue_app m) as Hs.
  destruct (split_prologue m) as [pro rest]. destruct Hs as [-> Hp].
  assert (G : forall l, forallb original l = true -> flat_map erase (flat_map (visit cf ScModule) l) = l).
  { intros l Hl. rewrite flat_map_flat_map. apply flat_map_id. rewrite forallb_forall in Hl. apply Forall_forall.
    intros x Hx. apply erase_visit. now apply Hl. }
  destruct rest as [|s rest].
  - now apply G.
  - rewrite forallb_app in Ho. apply andb_true_iff in Ho as [Ho1 Ho2].
    rewrite flat_map_app.
    change (flat_map erase (SImportStar (line_of s) :: flat_map (visit cf ScModule) (s :: rest)))
      with (flat_map erase (flat_map (visit cf ScModule) (s :: rest))).
    rewrite (G _ Ho2). f_equal.
    assert (E : flat_map erase pro = flat_map erase (flat_map (visit cf ScModule) pro)) by now rewrite (prologue_visit cf pro Hp).
    rewrite E. now apply G.
Qed.

(* ------------------------------------------------------------ 2. where the import goes *)
Theorem import_after_prologue cf m pro s rest :
  split_prologue m = (pro, s :: rest) ->
  transform cf m = pro ++ SImportStar (line_of s) :: flat_map (visit cf ScModule) (s :: rest)
  /\ forallb is_prologue pro = true /\ is_prologue s = false.
Proof.
  intros E. unfold transform. rewrite E. split; [reflexivity|].
  pose proof (split_prologue_app m) as H. rewrite E in H. destruct H as [_ Hp]. split; [exact Hp|].
  clear Hp. revert pro E. induction m as [|x m IH]; intros pro E; cbn in E; [discriminate|].
  destruct (is_prologue x) eqn:Ex.
  - destruct (split_prologue m) as [p q] eqn:Em. inversion E; subst. now apply (IH p).
  - inversion E; subst. exact Ex.
Qed.

Theorem no_import_for_prologue_only cf m : split_prologue m = (m, []) -> transform cf m = m.
Proof.
  intros E. unfold transform. rewrite E. pose proof (split_prologue_app m) as H. rewrite E in H. destruct H as [_ Hp].
  now apply prologue_visit.
Qed.

(* ------------------------------------------------------------ 3. no new line numbers *)
Lemma deco_lines_add p wc l ds x :
  In x (flat_map (fun d => match d with DBear _ dl => [dl] | _ => [] end) (add_deco p (DBear wc l) ds)) ->
  x = l \/ In x (flat_map (fun d => match d with DBear _ dl => [dl] | _ => [] end) ds).
Proof.
  destruct p; cbn [add_deco].
  - rewrite flat_map_app. intros H. apply in_app_or in H as [H|H]; [now right|]. cbn in H. destruct H as [<-|[]]. now left.
  - cbn [flat_map app]. intros [<-|H]; [now left|now right].
Qed.

Lemma lines_visit cf s : forall sc, incl (flat_map lines (visit cf sc s)) (lines s).
Proof.
  induction s using stmt_ind2; intros sc; cbn [visit]; try (cbn [flat_map]; rewrite app_nil_r; apply incl_refl).
  - (* function *)
    cbn [flat_map]. rewrite app_nil_r. cbn [lines]. intros x [<-|Hx]; [now left|].
    apply in_app_or in Hx as [Hx|Hx].
    + assert (G : x = l \/ In x (flat_map (fun d => match d with DBear _ dl => [dl] | _ => [] end) ds)).
      { destruct sc; [| |]; try (destruct t; [now apply deco_lines_add in Hx|now right]); now right. }
      destruct G as [->|G]; [now left|]. right. apply in_or_app. now left.
    + right. apply in_or_app. right. rewrite flat_map_flat_map in Hx. apply in_flat_map in Hx as (y & Hy & Hx).
      apply in_flat_map. exists y. split; [exact Hy|]. rewrite Forall_forall in H. now apply (H y Hy ScFunc).
  - (* class *)
    cbn [flat_map]. rewrite app_nil_r. cbn [lines]. intros x [<-|Hx]; [now left|].
    apply in_app_or in Hx as [Hx|Hx].
    + apply deco_lines_add in Hx as [->|G]; [now left|]. right. apply in_or_app. now left.
    + right. apply in_or_app. right. rewrite flat_map_flat_map in Hx. apply in_flat_map in Hx as (y & Hy & Hx).
      apply in_flat_map. exists y. split; [exact Hy|]. rewrite Forall_forall in H. now apply (H y Hy ScClass).
  - (* annotated assignment: the check carries the assignment's line *)
    destruct v as [v|]; [|cbn [flat_map]; rewrite app_nil_r; apply incl_refl].
    destruct sc, t; try (cbn [flat_map]; rewrite app_nil_r; apply incl_refl);
      destruct (pep526 cf); cbn; intros x Hx; cbn in *; tauto.
  - (* compound statement *)
    cbn [flat_map]. rewrite app_nil_r. cbn [lines]. intros x [<-|Hx]; [now left|]. right.
    apply in_flat_map in Hx as (b' & Hb' & Hx). apply in_map_iff in Hb' as (b & <- & Hb).
    apply in_flat_map. exists b. split; [exact Hb|].
    rewrite flat_map_flat_map in Hx. apply in_flat_map in Hx as (y & Hy & Hx).
    apply in_flat_map. exists y. split; [exact Hy|]. rewrite Forall_forall in H. specialize (H b Hb). rewrite Forall_forall in H.
    now apply (H y Hy sc).
Qed.

Theorem transform_keeps_lines cf m : incl (flat_map lines (transform cf m)) (flat_map lines m).
Proof.
  assert (G : forall l, incl (flat_map lines (flat_map (visit cf ScModule) l)) (flat_map lines l)).
  { intros l x Hx. rewrite flat_map_flat_map in Hx. apply in_flat_map in Hx as (y & Hy & Hx).
    apply in_flat_map. exists y. split; [exact Hy|]. now apply (lines_visit cf y ScModule). }
  unfold transform. pose proof (split_prologue_app m) as Hs. destruct (split_prologue m) as [pro rest]. destruct Hs as [-> Hp].
  destruct rest as [|s rest]; [apply G|].
  intros x Hx. rewrite flat_map_app in Hx. apply in_app_or in Hx as [Hx|Hx].
  - rewrite flat_map_app. apply in_or_app. now left.
  - rewrite flat_map_app. apply in_or_app. right. cbn [flat_map] in Hx. apply in_app_or in Hx as [Hx|Hx].
    + (* the import carries the line of the first statement after the prologue *)
      cbn in Hx. destruct Hx as [<-|[]]. cbn [flat_map]. apply in_or_app. left. destruct s; cbn; auto.
    + now apply G.
Qed.

(* ------------------------------------------------------------ 4. evaluation counts *)
(* without PEP 526 checks nothing is evaluated twice ... *)
Lemma evals_list cf l sc' :
  Forall (fun x => forall sc, flat_map (evals sc) (visit cf sc x) = evals sc x) l ->
  flat_map (evals sc') (flat_map (visit cf sc') l) = flat_map (evals sc') l.
Proof.
  induction 1 as [|x l Hx Hl IH]; [reflexivity|]. cbn [flat_map]. rewrite flat_map_app, (Hx sc'), IH. reflexivity.
Qed.

Lemma evals_visit_off cf s : pep526 cf = false -> forall sc, flat_map (evals sc) (visit cf sc s) = evals sc s.
Proof.
  intros Hoff. induction s using stmt_ind2; intros sc; cbn [visit]; try (cbn [flat_map]; now rewrite app_nil_r).
  - (* class: its body runs when the class statement does *)
    cbn [flat_map]. rewrite app_nil_r. cbn [evals]. now apply evals_list.
  - destruct v as [v|]; [|cbn [flat_map]; now rewrite app_nil_r].
    destruct sc, t; rewrite ?Hoff; cbn [flat_map]; now rewrite app_nil_r.
  - cbn [flat_map]. rewrite app_nil_r. cbn [evals].
    induction H as [|b bs Hb Hbs IH]; [reflexivity|]. cbn [map flat_map]. rewrite IH. f_equal. now apply evals_list.
Qed.

(* ... with them, the annotation (where Python evaluates it) and the object of an attribute target are *)
Lemma evals_twice_refuted :
  let cf := {| pep526 := true; place_func := PLast; place_type := PLast; nondefault := false |} in
  let m := [SAnn (TAttr 1 2) 3 (Some 4) 10] in
  flat_map (evals ScModule) m = [1; 3; 4]
  /\ flat_map (evals ScModule) (transform cf m) = [1; 3; 4; 1; 3].
Proof. split; reflexivity. Qed.
