(* C05 model: what the import hook's AST transformation does to a module
   (beartype/claw/_ast/clawastmain.py visit_ClassDef / visit_FunctionDef and scopes;
   _kind/clawastmodule.py visit_Module; _kind/clawastassign.py visit_AnnAssign;
   _kind/clawastimport.py _decorate_node_beartype for the FIRST / LAST placements).
   Expressions are opaque tokens; statements carry their line number.  No proofs here. *)
From Coq Require Import List Bool Arith.
Import ListNotations.
Local Open Scope list_scope.

Definition tok := nat.                    (* an original expression, identified by a token *)

Inductive deco :=
| DUser (e : tok)                         (* a decorator written by the user *)
| DBear (with_conf : bool) (line : nat).  (* @__beartype__ / @__beartype__(conf=...) added by the hook *)

Inductive target := TName (n : tok) | TAttr (obj : tok) (attr : tok) | TSub (obj idx : tok).

Inductive stmt :=
| SDoc (line : nat)                                     (* a docstring-like constant expression statement *)
| SFuture (line : nat)                                  (* from __future__ import ... *)
| SFunc (is_async : bool) (name : tok) (decos : list deco) (typed : bool) (body : list stmt) (line : nat)
| SClass (name : tok) (decos : list deco) (body : list stmt) (line : nat)
| SAnn (t : target) (ann : tok) (value : option tok) (line : nat)
| SBlock (kind : nat) (bodies : list (list stmt)) (line : nat)   (* if / for / while / try / with: nested suites *)
| SOther (line : nat)
| SImportStar (line : nat)                              (* added: from beartype.claw._ast._clawaststar import * *)
| SCheck (t : target) (ann : tok) (with_conf : bool) (line : nat).  (* added: die_if_unbearable(<target>, <ann>, ...) *)

Inductive place := PFirst | PLast.
Record aconf := { pep526 : bool; place_func : place; place_type : place; nondefault : bool }.

Inductive scope := ScModule | ScClass | ScFunc.

Definition line_of (s : stmt) : nat :=
  match s with
  | SDoc l | SFuture l | SFunc _ _ _ _ _ l | SClass _ _ _ l | SAnn _ _ _ l | SBlock _ _ l | SOther l
  | SImportStar l | SCheck _ _ _ l => l
  end.

(* decorator_list is stored outermost first: LAST (applied last) inserts at the front, FIRST appends *)
Definition add_deco (p : place) (d : deco) (ds : list deco) : list deco :=
  match p with PLast => d :: ds | PFirst => ds ++ [d] end.

Section Transform.
  Variable cf : aconf.

  Fixpoint visit (sc : scope) (s : stmt) {struct s} : list stmt :=
    match s with
    | SFunc a n ds typed body l =>
        let ds' := match sc with
                   | ScClass => ds                        (* methods are left to the class decorator *)
                   | _ => if typed then add_deco (place_func cf) (DBear (nondefault cf) l) ds else ds
                   end in
        [SFunc a n ds' typed (flat_map (visit ScFunc) body) l]
    | SClass n ds body l =>
        [SClass n (add_deco (place_type cf) (DBear (nondefault cf) l) ds) (flat_map (visit ScClass) body) l]
    | SAnn t ann (Some v) l =>
        match sc, t with
        | ScClass, _ => [s]
        | _, TSub _ _ => [s]
        | _, _ => if pep526 cf then [s; SCheck t ann (nondefault cf) l] else [s]
        end
    | SBlock k bodies l => [SBlock k (map (flat_map (visit sc)) bodies) l]
    | _ => [s]
    end.

  Definition is_prologue (s : stmt) : bool := match s with SDoc _ | SFuture _ => true | _ => false end.

  Fixpoint split_prologue (l : list stmt) : list stmt * list stmt :=
    match l with
    | s :: r => if is_prologue s then let '(p, q) := split_prologue r in (s :: p, q) else ([], l)
    | [] => ([], [])
    end.

  (* visit_Module: the import goes after the docstring and the __future__ imports, on the line of the
     first following statement; a module with nothing else gets no import *)
  Definition transform (m : list stmt) : list stmt :=
    let '(pro, rest) := split_prologue m in
    match rest with
    | [] => flat_map (visit ScModule) m
    | s :: _ => pro ++ SImportStar (line_of s) :: flat_map (visit ScModule) rest
    end.
End Transform.

(* ------------------------------------------------------------------ what the hook added, removed again *)
Definition user_deco (d : deco) : bool := match d with DUser _ => true | DBear _ _ => false end.

Fixpoint erase (s : stmt) {struct s} : list stmt :=
  match s with
  | SImportStar _ | SCheck _ _ _ _ => []
  | SFunc a n ds t body l => [SFunc a n (filter user_deco ds) t (flat_map erase body) l]
  | SClass n ds body l => [SClass n (filter user_deco ds) (flat_map erase body) l]
  | SBlock k bodies l => [SBlock k (map (flat_map erase) bodies) l]
  | _ => [s]
  end.

(* a module as the user wrote it: none of the hook's own nodes *)
Fixpoint original (s : stmt) {struct s} : bool :=
  match s with
  | SImportStar _ | SCheck _ _ _ _ => false
  | SFunc _ _ ds _ body _ | SClass _ ds body _ => forallb user_deco ds && forallb original body
  | SBlock _ bodies _ => forallb (forallb original) bodies
  | _ => true
  end.

(* every line number occurring in a statement list, nested ones included *)
Fixpoint lines (s : stmt) {struct s} : list nat :=
  match s with
  | SFunc _ _ ds _ body l | SClass _ ds body l =>
      l :: flat_map (fun d => match d with DBear _ dl => [dl] | _ => [] end) ds ++ flat_map lines body
  | SBlock _ bodies l => l :: flat_map (flat_map lines) bodies
  | _ => [line_of s]
  end.

(* how often each original expression token is evaluated when the statement list runs once
   (annotations of annotated assignments count where Python evaluates them: outside functions) *)
Fixpoint evals (sc : scope) (s : stmt) {struct s} : list tok :=
  match s with
  | SAnn t ann v _ =>
      (match t with TName _ => [] | TAttr o _ => [o] | TSub o i => [o; i] end)
      ++ (match sc with ScFunc => [] | _ => [ann] end)
      ++ (match v with Some e => [e] | None => [] end)
  | SCheck t ann _ _ => (match t with TName _ => [] | TAttr o _ => [o] | TSub o i => [o; i] end) ++ [ann]
  | SBlock _ bodies _ => flat_map (flat_map (evals sc)) bodies
  | SClass _ _ body _ => flat_map (evals ScClass) body
  | _ => []                                       (* function bodies run when called, not when defined *)
  end.
