(* Shared core: detection lemmas (C02) — what the sampled check is guaranteed to reject, for
   every draw, and which violations some draw reaches.  All statements are about [chk]; the
   generated code computes [chk] by Core/GenProofs.check_expr_correct. *)
From Coq Require Import List ZArith Bool Arith String Lia.
From BT Require Import Gen.ClassTable Gen.SignSets Gen.Templates.
From BT Require Import Core.PyVal Core.Expr Core.Hint Core.Check Core.ClassFacts Core.GenProofs Core.Sound.
Import ListNotations.
Local Open Scope list_scope.

(* the class (or classes) an object must be an instance of before anything else is looked at *)
Definition top_classes (h : hint) : option (list nat) :=
  match h with
  | HCls c | HShallow c => Some [c]
  | HCont s _ => Some [sign_origin s]
  | HMap s _ _ => Some [map_origin s]
  | HCounter _ => Some [counter_origin]
  | HTuple _ => Some [c_tuple]
  | HType _ => Some [c_type]
  | HLiteral vs => Some (map type_of vs)
  | HAny | HUnion _ | HAnnot _ _ => None
  end.

Section Detect.
  Variable cf : gconf.
  Variable pb : nat -> pyval -> bool.

  (* 1. wrong top-level class: rejected whatever the draw *)
  Theorem reject_toplevel h x cs r :
    hint_ok h = true -> top_classes h = Some cs -> isinst x cs = false -> chk cf r pb h x = false.
  Proof.
    destruct h; cbn [top_classes hint_ok]; intros Hok E Hi; inversion E; subst; cbn [chk]; try (now rewrite Hi).
    destruct (ignorable h); [exact Hi|]. apply andb_true_iff in Hok as [Hf _].
    destruct (sign_family s) as [[| |]|]; try (now rewrite Hi). discriminate.
  Qed.

  (* 2. fixed-length tuples: wrong length, or a violation at any unignorable position *)
  Theorem reject_tuple_length hs x r :
    List.length (items x) <> List.length hs -> chk cf r pb (HTuple hs) x = false.
  Proof.
    intros H. rewrite chk_tuple_unfold. apply Nat.eqb_neq in H. rewrite H. now rewrite andb_false_r.
  Qed.

  Lemma tuple_chk_position x r hs : forall n k h',
    nth_error hs k = Some h' -> ignorable h' = false ->
    chk cf r pb h' (nth (n + k) (items x) VNone) = false -> tuple_chk cf r pb x hs n = false.
  Proof.
    induction hs as [|h hs IH]; intros n k h' Hn Hig Hc; [destruct k; discriminate|].
    cbn [tuple_chk]. destruct k as [|k].
    - cbn in Hn. inversion Hn; subst. rewrite Hig. rewrite Nat.add_0_r in Hc. now rewrite Hc.
    - cbn in Hn. rewrite (IH (S n) k h' Hn Hig); [now rewrite andb_false_r|].
      now replace (S n + k) with (n + S k) by lia.
  Qed.

  Theorem reject_tuple_position hs x r k h' :
    nth_error hs k = Some h' -> ignorable h' = false ->
    chk cf r pb h' (nth k (items x) VNone) = false -> chk cf r pb (HTuple hs) x = false.
  Proof.
    intros Hn Hig Hc. rewrite chk_tuple_unfold.
    rewrite (tuple_chk_position x r hs 0 k h' Hn Hig Hc). now rewrite andb_false_r.
  Qed.

  (* 3. literals: equal to no member, or of none of their types *)
  Theorem reject_literal vs x r :
    (forall v, In v vs -> py_eq x v = false) -> chk cf r pb (HLiteral vs) x = false.
  Proof.
    intros H. cbn [chk]. replace (existsb (py_eq x) vs) with false; [now rewrite andb_false_r|].
    symmetry. apply not_true_is_false. intros E. apply existsb_exists in E as (v & Hin & Hv).
    rewrite (H v Hin) in Hv. discriminate.
  Qed.

  (* 4. type[...]: not a class, or not a subclass *)
  Theorem reject_type cs x r : issubcls x cs <> Some true -> chk cf r pb (HType cs) x = false.
  Proof.
    intros H. cbn [chk]. destruct (issubcls x cs) as [[|]|]; [congruence| |]; now rewrite andb_false_r.
  Qed.

  (* 5. unions with no matching member *)
  Theorem reject_union hs x r :
    (forall h', In h' hs -> chk cf r pb h' x = false) -> chk cf r pb (HUnion hs) x = false.
  Proof.
    intros H. rewrite chk_union_unfold. induction hs as [|h hs IH]; [reflexivity|].
    cbn [union_any]. rewrite (H h) by now left. cbn [orb]. apply IH. intros h' Hin. apply H. now right.
  Qed.

  (* 6. every item violates: rejected whatever the draw *)
  Theorem reject_all_items s ch x r :
    ignorable ch = false -> hint_ok (HCont s ch) = true ->
    issub (type_of x) c_Collection = true -> items x <> [] ->
    (forall y, In y (items x) -> chk cf r pb ch y = false) ->
    chk cf r pb (HCont s ch) x = false.
  Proof.
    intros Hig Hok Hc Hne Hall. cbn [chk hint_ok] in *. rewrite Hig.
    apply andb_true_iff in Hok as [Hf _].
    assert (Hl : len0 x = false) by (rewrite len0_items; destruct (items x); [congruence|reflexivity]).
    destruct (sign_family s) as [[| |]|]; [| | |discriminate]; rewrite Hl; cbn [orb].
    - rewrite (Hall (sample cf r x)) by now apply sample_in. now rewrite andb_false_r.
    - rewrite (Hall (first x)) by now apply first_in. now rewrite andb_false_r.
    - change quasi_collection_abc with c_Collection. rewrite (isinst_single x c_Collection), Hc. cbn [negb orb].
      destruct (isinst x [quasi_sequence_abc]);
        [rewrite (Hall (sample cf r x)) by now apply sample_in|rewrite (Hall (first x)) by now apply first_in];
        now rewrite andb_false_r.
  Qed.

  (* 7. sequences under random sampling: the draw equal to the index of a violating item
        inspects exactly that item, so every index below 2^32 is reached by a 32-bit draw *)
  Lemma sample_at_index x i :
    is_random cf = true -> i < List.length (items x) ->
    sample cf (Z.of_nat i) x = nth i (items x) VNone.
  Proof.
    intros Hr Hi. unfold sample. rewrite Hr. destruct (items x) as [|a l] eqn:El; [cbn in Hi; lia|].
    rewrite Z.mod_small by lia. now rewrite Nat2Z.id.
  Qed.

  Theorem reach_sequence_item s ch x i :
    is_random cf = true -> ignorable ch = false -> sign_family s = Some FSequence ->
    i < List.length (items x) -> (Z.of_nat i < 2 ^ 32)%Z ->
    (forall r, chk cf r pb ch (nth i (items x) VNone) = false) ->
    exists r, (0 <= r < 2 ^ 32)%Z /\ chk cf r pb (HCont s ch) x = false.
  Proof.
    intros Hr Hig Hf Hi H32 Hbad. exists (Z.of_nat i). split; [lia|].
    cbn [chk]. rewrite Hig, Hf.
    assert (Hl : len0 x = false) by (rewrite len0_items; destruct (items x); [cbn in Hi; lia|reflexivity]).
    rewrite Hl. cbn [orb]. rewrite (sample_at_index x i Hr Hi), Hbad. now rewrite andb_false_r.
  Qed.

  (* ... and no further: with 2^32 or more items a 32-bit draw is its own index, so items at
     index 2^32 and beyond are never inspected (finding F18; unreachable for real lists) *)
  Theorem draw_is_index_beyond_32bit x r :
    (2 ^ 32 <= Z.of_nat (List.length (items x)))%Z -> (0 <= r < 2 ^ 32)%Z ->
    (r mod Z.of_nat (List.length (items x)) = r)%Z.
  Proof. intros H1 H2. apply Z.mod_small. lia. Qed.

  (* 8. with is_random=False the first item is the one inspected *)
  Theorem nonrandom_first s ch x r :
    is_random cf = false -> ignorable ch = false -> sign_family s = Some FSequence ->
    items x <> [] -> chk cf r pb ch (first x) = false -> chk cf r pb (HCont s ch) x = false.
  Proof.
    intros Hr Hig Hf Hne Hbad. cbn [chk]. rewrite Hig, Hf.
    assert (Hl : len0 x = false) by (rewrite len0_items; destruct (items x); [congruence|reflexivity]).
    rewrite Hl. cbn [orb]. unfold sample. rewrite Hr, Hbad. now rewrite andb_false_r.
  Qed.

  (* 9. conversely an accepted container has, at the level the hint describes, emptiness or an
        item the check accepts *)
  Theorem accept_consistent s ch x r :
    ignorable ch = false -> hint_ok (HCont s ch) = true -> issub (type_of x) c_Collection = true ->
    chk cf r pb (HCont s ch) x = true ->
    items x = [] \/ exists y, In y (items x) /\ chk cf r pb ch y = true.
  Proof.
    intros Hig Hok Hc H. destruct (items x) as [|a l] eqn:El; [now left|right].
    assert (Hne : items x <> []) by (rewrite El; discriminate).
    destruct (existsb (chk cf r pb ch) (items x)) eqn:Ex.
    - apply existsb_exists in Ex as (y & Hin & Hy). rewrite <- El. eauto.
    - exfalso. rewrite (reject_all_items s ch x r Hig Hok Hc Hne) in H; [discriminate|].
      intros y Hin. apply not_true_is_false. intros Hy.
      assert (existsb (chk cf r pb ch) (items x) = true) by (apply existsb_exists; eauto). congruence.
  Qed.

  (* 9b. a failed validator rejects, whatever the draw *)
  Theorem reject_validator mh vs v x r :
    In v vs -> vmean pb v x = false -> chk cf r pb (HAnnot mh vs) x = false.
  Proof.
    intros Hin Hv. cbn [chk]. replace (forallb (fun w => vmean pb w x) vs) with false; [now rewrite andb_false_r|].
    symmetry. apply not_true_is_false. intros H. rewrite forallb_forall in H. rewrite (H v Hin) in Hv. discriminate.
  Qed.

  (* 10. elision only drops hints that accept every object of the class table *)
  Theorem ignorable_accepts_all h x :
    ignorable h = true -> issub (type_of x) c_object = true -> sat pb h x = true.
  Proof.
    induction h using hint_ind2; cbn [ignorable]; intros Hig Ho; try discriminate.
    - reflexivity.
    - apply Nat.eqb_eq in Hig. subst. cbn [sat]. now rewrite isinst_single.
    - rewrite sat_union_unfold. induction H as [|h l Hh Hl IHl]; [discriminate|].
      cbn [sat_any]. apply orb_true_iff in Hig as [Hig|Hig]; apply orb_true_iff;
        [left; now apply Hh|right; now apply IHl].
  Qed.
End Detect.
