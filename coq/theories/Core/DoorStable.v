From Coq Require Import List ZArith Bool Arith String Lia.
From BT Require Import Gen.ClassTable Gen.SignSets Core.PyVal Core.Expr Core.Hint Core.Door Core.DoorFuel.
Import ListNotations.
Local Open Scope list_scope.

Definition le3 (r r' : r3) : Prop := r = RFuel \/ r = r'.

Lemma le3_refl r : le3 r r. Proof. now right. Qed.

Lemma all3_le {A} (f g : A -> r3) l : (forall x, In x l -> le3 (f x) (g x)) -> le3 (all3 f l) (all3 g l).
Proof.
  induction l as [|a l IH]; cbn [all3]; intros H; [apply le3_refl|].
  destruct (H a (or_introl eq_refl)) as [E|E].
  - rewrite E. now left.
  - rewrite <- E. destruct (f a); try apply le3_refl. apply IH. intros x Hx. apply H. now right.
Qed.

Lemma any3_le {A} (f g : A -> r3) l : (forall x, In x l -> le3 (f x) (g x)) -> le3 (any3 f l) (any3 g l).
Proof.
  induction l as [|a l IH]; cbn [any3]; intros H; [apply le3_refl|].
  destruct (H a (or_introl eq_refl)) as [E|E].
  - rewrite E. now left.
  - rewrite <- E. destruct (f a); try apply le3_refl. apply IH. intros x Hx. apply H. now right.
Qed.

Lemma all3_2_le f g l m : (forall x y, In x l -> In y m -> le3 (f x y) (g x y)) -> le3 (all3_2 f l m) (all3_2 g l m).
Proof.
  revert m. induction l as [|a l IH]; intros [|b m] H; cbn [all3_2]; try apply le3_refl.
  destruct (H a b (or_introl eq_refl) (or_introl eq_refl)) as [E|E].
  - rewrite E. now left.
  - rewrite <- E. destruct (f a b); try apply le3_refl. apply IH. intros x y Hx Hy. apply H; now right.
Qed.

Ltac mono IH :=
  repeat (match goal with
  | |- le3 ?x ?x => apply le3_refl
  | |- le3 (sub _ _ _) (sub _ _ _) => apply IH
  | |- le3 (all3 _ _) (all3 _ _) => apply all3_le; intros ? ?
  | |- le3 (any3 _ _) (any3 _ _) => apply any3_le; intros ? ?
  | |- le3 (all3_2 _ _ _) (all3_2 _ _ _) => apply all3_2_le; intros ? ? ? ?
  | |- le3 (if ?c then _ else _) (if ?c then _ else _) => destruct c eqn:?
  | |- le3 (match ?s with _ => _ end) (match ?s with _ => _ end) => destruct s eqn:?
  | |- le3 (match ?s with _ => _ end) (match ?s' with _ => _ end) =>
      let Hs := fresh "Hs" in
      assert (Hs : le3 s s');
      [ | destruct Hs as [Hs|Hs]; [rewrite Hs; left; reflexivity | rewrite <- Hs; destruct s eqn:?] ]
  end).

Lemma sub_step n m : (forall a b, le3 (sub n a b) (sub m a b)) ->
  forall a b, le3 (sub (S n) a b) (sub (S m) a b).
Proof.
  intros IH a b. cbn [sub]. destruct (is_any a || is_any b); [apply le3_refl|].
  destruct a; cbn [and3]; mono IH.
Qed.

Lemma sub_mono n a b : le3 (sub n a b) (sub (S n) a b).
Proof. revert a b. induction n as [|n IH]; intros a b; [now left|]. apply sub_step. exact IH. Qed.

Ltac mono2 IH IHs :=
  repeat (match goal with
  | |- le3 ?x ?x => apply le3_refl
  | |- le3 (sub _ _ _) (sub _ _ _) => apply IHs
  | |- le3 (eqh _ _ _) (eqh _ _ _) => apply IH
  | |- le3 (all3_2 _ _ _) (all3_2 _ _ _) => apply all3_2_le; intros ? ? ? ?
  | |- le3 (if ?c then _ else _) (if ?c then _ else _) => destruct c eqn:?
  | |- le3 (match ?s with _ => _ end) (match ?s with _ => _ end) => destruct s eqn:?
  | |- le3 (match ?s with _ => _ end) (match ?s' with _ => _ end) =>
      let Hs := fresh "Hs" in
      assert (Hs : le3 s s');
      [ | destruct Hs as [Hs|Hs]; [rewrite Hs; left; reflexivity | rewrite <- Hs; destruct s eqn:?] ]
  end).

Lemma eqh_step n m : (forall a b, le3 (eqh n a b) (eqh m a b)) -> (forall a b, le3 (sub n a b) (sub m a b)) ->
  forall a b, le3 (eqh (S n) a b) (eqh (S m) a b).
Proof.
  intros IH IHs a b. cbn [eqh]. unfold and3. mono2 IH IHs.
Qed.

Lemma eqh_mono n a b : le3 (eqh n a b) (eqh (S n) a b).
Proof.
  revert a b. induction n as [|n IH]; intros a b; [now left|].
  apply eqh_step; [exact IH|]. intros x y. apply sub_mono.
Qed.

(* the answer at any fuel, once it is not "out of fuel", is the answer at every larger fuel *)
Lemma sub_stable n k a b : sub n a b <> RFuel -> sub (n + k) a b = sub n a b.
Proof.
  intros H. induction k as [|k IH]; [now rewrite Nat.add_0_r|].
  rewrite Nat.add_succ_r. destruct (sub_mono (n + k) a b) as [E|E]; [congruence|]. congruence.
Qed.

Lemma eqh_stable n k a b : eqh n a b <> RFuel -> eqh (n + k) a b = eqh n a b.
Proof.
  intros H. induction k as [|k IH]; [now rewrite Nat.add_0_r|].
  rewrite Nat.add_succ_r. destruct (eqh_mono (n + k) a b) as [E|E]; [congruence|]. congruence.
Qed.

(* [is_subhint] / [hint_equal] are the model at every sufficient fuel: more fuel changes nothing *)
Theorem sub_fuel_independent n a b : 2 * (hsize a + hsize b) + 2 <= n -> sub n a b = is_subhint a b.
Proof.
  intros Hn. unfold is_subhint. replace n with ((2 * (hsize a + hsize b) + 2) + (n - (2 * (hsize a + hsize b) + 2))) by lia.
  apply sub_stable. apply (is_subhint_has_fuel a b).
Qed.

Theorem eqh_fuel_independent n a b : 2 * (hsize a + hsize b) + 2 <= n -> eqh n a b = hint_equal a b.
Proof.
  intros Hn. unfold hint_equal. replace n with ((2 * (hsize a + hsize b) + 2) + (n - (2 * (hsize a + hsize b) + 2))) by lia.
  apply eqh_stable. apply (hint_equal_has_fuel a b).
Qed.

(* and an answer obtained at ANY fuel, if not "out of fuel", is the answer of the public function *)
Theorem sub_any_fuel n a b : sub n a b <> RFuel -> sub n a b = is_subhint a b.
Proof.
  intros H. unfold is_subhint. set (N := 2 * (hsize a + hsize b) + 2).
  destruct (Nat.le_ge_cases n N) as [L|L].
  - replace N with (n + (N - n)) by lia. symmetry. now apply sub_stable.
  - replace n with (N + (n - N)) by lia. apply sub_stable. apply (is_subhint_has_fuel a b).
Qed.
