(* C19 model: beartype.door.is_subhint over the hint grammar of the shared core.
   Mirrors beartype/door/_cls/doorsuper.py (TypeHint.is_subhint / _is_subhint / _is_subhint_branch /
   _is_args_ignorable / _branches) and the specialisations for unions (doorpep484604.py), literals
   (doorpep586.py), Annotated (doorpep593.py), classes (doorpep484class.py), fixed and variadic
   tuples (doorpep484585tuple.py) and subscripted hints (doorpep484585subscripted.py).
   Recursion is on explicit fuel; [is_subhint] supplies enough.  No proofs here. *)
From Coq Require Import List ZArith Bool Arith String.
From BT Require Import Gen.ClassTable Gen.SignSets Core.PyVal Core.Expr Core.Hint.
Import ListNotations.
Local Open Scope list_scope.

Inductive r3 := RT | RF | RX | RFuel.      (* True / False / BeartypeDoorIsSubhintException / out of fuel *)

Definition r3_of (b : bool) : r3 := if b then RT else RF.

(* Python's all(f(x) for x in l) and any(...): left to right, stopping at the first decisive answer *)
Fixpoint all3 {A} (f : A -> r3) (l : list A) : r3 :=
  match l with
  | [] => RT
  | x :: r => match f x with RT => all3 f r | o => o end
  end.

Fixpoint any3 {A} (f : A -> r3) (l : list A) : r3 :=
  match l with
  | [] => RF
  | x :: r => match f x with RF => any3 f r | o => o end
  end.

Fixpoint all3_2 (f : hint -> hint -> r3) (l m : list hint) : r3 :=
  match l, m with
  | x :: l', y :: m' => match f x y with RT => all3_2 f l' m' | o => o end
  | _, _ => RT                                   (* zip stops at the shorter *)
  end.

Definition is_any (h : hint) : bool := match h with HAny => true | _ => false end.

(* TypeHint._origin: the isinstanceable origin class, object when there is none *)
Fixpoint origin (h : hint) : nat :=
  match h with
  | HCls c => c
  | HShallow c => c
  | HCont s _ => sign_origin s
  | HMap m _ _ => map_origin m
  | HCounter _ => counter_origin
  | HTuple _ => c_tuple
  | HType _ => c_type
  | HAnnot mh _ => origin mh
  | HAny | HUnion _ | HLiteral _ => c_object
  end.

(* the child hints wrapped by TypeHint._args_wrapped_tuple *)
Definition children (h : hint) : list hint :=
  match h with
  | HCont _ ch => [ch]
  | HMap _ k v => [k; v]
  | HCounter k => [k]
  | HTuple hs => hs
  | HType cs => match cs with [c] => [HCls c] | _ => [HUnion (map HCls cs)] end
  | HUnion hs => hs
  | HAnnot mh _ => [mh]
  | _ => []
  end.

(* TypeHint._is_args_ignorable *)
Definition args_ignorable (h : hint) : bool :=
  match h with
  | HAny | HCls _ => true
  | HLiteral _ | HAnnot _ _ | HTuple _ => false
  | _ => forallb ignorable (children h)
  end.

Inductive kind := KAny | KClass | KUnion | KLiteral | KAnnot | KTupleFixed | KTupleVar | KSub.

Definition kind_of (h : hint) : kind :=
  match h with
  | HAny => KAny
  | HCls _ => KClass
  | HUnion _ => KUnion
  | HLiteral _ => KLiteral
  | HAnnot _ _ => KAnnot
  | HTuple _ => KTupleFixed
  | HCont s _ => if Nat.eqb s s_Tuple then KTupleVar else KSub
  | _ => KSub
  end.

(* isinstance(branch, type(self)) between the wrapper classes that use the generic branch test *)
Definition wrapper_instance (self_kind branch_kind : kind) : bool :=
  match self_kind, branch_kind with
  | KSub, (KSub | KTupleVar) => true
  | KTupleVar, KTupleVar => true
  | KLiteral, KLiteral => true
  | _, _ => false
  end.

Definition branches (h : hint) : list hint := match h with HUnion hs => hs | _ => [h] end.

(* equality of validator metadata.  beartype memoises IsEqual / IsInstance / IsSubclass (and IsAttr
   of those) per subscription, keyed by ==; every other validator is equal only to itself, which
   for the interned validators of the harness means: built from the very same expression *)
Fixpoint vexp_memo (a : vexp) : bool :=
  match a with
  | VEqual _ | VInst _ | VSub _ => true
  | VAttr _ v => vexp_memo v
  | _ => false
  end.

Definition nats_eq (cs ds : list nat) : bool :=
  (fix go (l m : list nat) : bool :=
     match l, m with [], [] => true | x :: l', y :: m' => Nat.eqb x y && go l' m' | _, _ => false end) cs ds.

(* the very same expression *)
Fixpoint vexp_same (a b : vexp) {struct a} : bool :=
  match a, b with
  | VIs f, VIs g => Nat.eqb f g
  | VAttr n v, VAttr m w => String.eqb n m && vexp_same v w
  | VEqual x, VEqual y => val_same x y
  | VInst cs, VInst ds | VSub cs, VSub ds => nats_eq cs ds
  | VAnd a1 a2, VAnd b1 b2 | VOr a1 a2, VOr b1 b2 => vexp_same a1 b1 && vexp_same a2 b2
  | VNot a1, VNot b1 => vexp_same a1 b1
  | _, _ => false
  end.

(* equal as memoised validators *)
Fixpoint vexp_memo_eq (a b : vexp) {struct a} : bool :=
  match a, b with
  | VAttr n v, VAttr m w => String.eqb n m && vexp_memo_eq v w
  | VEqual x, VEqual y => py_eq x y
  | VInst cs, VInst ds | VSub cs, VSub ds => nats_eq cs ds
  | _, _ => false
  end.

Definition vexp_eqb (a b : vexp) : bool :=
  if vexp_memo a && vexp_memo b then vexp_memo_eq a b else vexp_same a b.

Fixpoint vexps_eqb (l m : list vexp) : bool :=
  match l, m with
  | [], [] => true
  | x :: l', y :: m' => vexp_eqb x y && vexps_eqb l' m'
  | _, _ => false
  end.

Definition and3 (a : r3) (b : unit -> r3) : r3 := match a with RT => b tt | o => o end.
Definition not3 (a : r3) : r3 := match a with RT => RF | RF => RT | o => o end.

(* hint sign of a subscripted hint, for SubscriptedTypeHint._is_equal *)
Definition same_sign (a b : hint) : bool :=
  match a, b with
  | HCont s _, HCont t _ => Nat.eqb s t
  | HMap s _ _, HMap t _ _ => Nat.eqb s t
  | HCounter _, HCounter _ => true
  | HType _, HType _ => true
  | HShallow c, HShallow d => Nat.eqb c d
  | _, _ => false
  end.

(* [sub n a b]: TypeHint(a).is_subhint(TypeHint(b));  [eqh n a b]: TypeHint(a) == TypeHint(b) *)
Fixpoint sub (n : nat) (a b : hint) {struct n} : r3 :=
  match n with
  | 0 => RFuel
  | S n' =>
      if is_any a || is_any b then RT else
      (* TypeHint._is_subhint_branch of the wrapper of [a] *)
      let branch (br : hint) : r3 :=
        match a with
        | HCls c => r3_of (args_ignorable br && issub c (origin br))
        | HAnnot mh vs =>
            match br with
            | HAnnot mh' vs' =>
                (* not (self._metahint_wrapper <= branch._metahint_wrapper) *)
                match sub n' mh mh' with
                | RT =>
                    if negb (Nat.eqb (List.length vs) (List.length vs')) then RF
                    else r3_of (vexps_eqb vs vs')
                | o => o
                end
            | _ => sub n' mh br
            end
        | HTuple hs =>
            if args_ignorable br then r3_of (issub c_tuple (origin br))
            else match kind_of br, br with
                 | KTupleVar, HCont _ ch => all3 (fun h => sub n' h ch) hs
                 | KTupleFixed, HTuple hs' =>
                     if negb (Nat.eqb (List.length hs) (List.length hs')) then RF
                     else all3_2 (sub n') hs hs'
                 | _, _ => RF
                 end
        | HLiteral vs =>
            match br with
            | HLiteral ws => r3_of (forallb (fun v => existsb (fun w => py_eq v w) ws) vs)
            | _ =>
                if negb (issub c_object (origin br)) then RF
                else r3_of (args_ignorable br)
            end
        | _ =>
            if negb (issub (origin a) (origin br)) then RF
            else if args_ignorable br then RT
            else if negb (wrapper_instance (kind_of a) (kind_of br)) then RF
            else if negb (Nat.eqb (List.length (children a)) (List.length (children br))) then RX
            else all3_2 (sub n') (children a) (children br)
        end in
      let base : r3 := any3 (fun br => if is_any br then RT else branch br) (branches b) in
      match a with
      | HUnion hs =>
          all3 (fun this =>
                  match b with
                  | HUnion bs => any3 (fun that => sub n' this that) bs
                  | _ => sub n' this b
                  end) hs
      | HLiteral vs =>
          match b with
          | HLiteral ws => r3_of (forallb (fun v => existsb (fun w => py_eq v w) ws) vs)
          | _ =>
              match all3 (fun v => sub n' (HCls (type_of v)) b) vs with
              | RF => base
              | o => o
              end
          end
      | _ => base
      end
  end
with eqh (n : nat) (a b : hint) {struct n} : r3 :=
  match n with
  | 0 => RFuel
  | S n' =>
      match kind_of a, a with
      | (KSub | KTupleVar), _ =>                       (* SubscriptedTypeHint._is_equal *)
          if args_ignorable a && args_ignorable b then r3_of (Nat.eqb (origin a) (origin b))
          else if negb (same_sign a b) || negb (Nat.eqb (List.length (children a)) (List.length (children b))) then RF
          else all3_2 (eqh n') (children a) (children b)
      | KAnnot, HAnnot mh vs =>                        (* AnnotatedTypeHint._is_equal *)
          match b with
          | HAnnot mh' vs' => and3 (eqh n' mh mh') (fun _ => r3_of (vexps_eqb vs vs'))
          | _ => RF
          end
      | _, _ => and3 (sub n' a b) (fun _ => sub n' b a)   (* TypeHint._is_equal: mutual subhints *)
      end
  end.

Fixpoint hsize (h : hint) : nat :=
  match h with
  | HUnion hs | HTuple hs => S (fold_right (fun x acc => hsize x + acc) 0 hs)
  | HCont _ ch | HCounter ch => S (hsize ch)
  | HMap _ k v => S (hsize k + hsize v)
  | HAnnot mh _ => S (hsize mh)
  | HLiteral vs => S (List.length vs)
  | HType cs => S (S (List.length cs))
  | _ => 1
  end.

Definition is_subhint (a b : hint) : r3 := sub (2 * (hsize a + hsize b) + 2) a b.

Definition hint_equal (a b : hint) : r3 := eqh (2 * (hsize a + hsize b) + 2) a b.
