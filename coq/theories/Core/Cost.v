(* Shared core: how many items a check reads (C09).  A syntactic, path-sensitive cost analysis
   of check expressions, sound for every evaluation that returns (any objects, any draw), and
   a bound on the cost of generated code that depends on the hint alone. *)
From Coq Require Import List ZArith Bool Arith String Lia.
From BT Require Import Gen.ClassTable Gen.SignSets Gen.Templates.
From BT Require Import Core.PyVal Core.Expr Core.Hint Core.Check Core.GenProofs.
Import ListNotations.
Local Open Scope list_scope.

(* operations that read an item out of a container *)
Definition is_read (t : top) : bool :=
  match t with TItem _ _ | TFirst _ | TFirstValue _ => true | _ => false end.

Definition reads (l : list top) : nat := List.length (filter is_read l).

Lemma reads_app a b : reads (a ++ b) = reads a + reads b.
Proof. unfold reads. now rewrite filter_app, app_length. Qed.

Lemma reads_log t s : reads (trace (log t s)) = reads (trace s) + (if is_read t then 1 else 0).
Proof. unfold log. cbn [trace]. rewrite reads_app. unfold reads at 2. cbn [filter]. destruct (is_read t); reflexivity. Qed.

(* (reads at most this many items when it evaluates to a truthy value, ... to a falsy value) *)
Fixpoint cost (e : expr) : nat * nat :=
  let K e := Nat.max (fst (cost e)) (snd (cost e)) in
  match e with
  | EVar _ | ERand | EInt _ | ELit _ | ETrue => (0, 0)
  | EIsInst e _ | EIsSub e _ | ELen e | ECallPred _ e | EAttrLet _ e _ => (K e, K e)
  | EIndex e i => (1 + K e + K i, 1 + K e + K i)
  | EMod a b | EEq a b | EIs a b => (K a + K b, K a + K b)
  | EFirst e | EFirstValue e => (1 + K e, 1 + K e)
  | ENot e => (snd (cost e), fst (cost e))
  | EAnd a b => (fst (cost a) + fst (cost b), Nat.max (snd (cost a)) (fst (cost a) + snd (cost b)))
  | EOr a b => (Nat.max (fst (cost a)) (snd (cost a) + fst (cost b)), snd (cost a) + snd (cost b))
  | EWalrus _ e => cost e
  | ELet _ e => (K e, 0)
  end.

Definition K (e : expr) : nat := Nat.max (fst (cost e)) (snd (cost e)).

Definition pick (v : pyval) (c : nat * nat) : nat := if truthy v then fst c else snd c.

Lemma pick_le_K v e : pick v (cost e) <= K e.
Proof. unfold pick, K. destruct (truthy v); lia. Qed.

Section CostSound.
  Variable r : Z.
  Variable preds : nat -> pyval -> res pyval.

  Lemma cost_sound e : forall s v s',
    eval r preds e s = (Ok v, s') -> reads (trace s') <= reads (trace s) + pick v (cost e).
  Proof.
    induction e; intros s w s' H; cbn [eval] in H.
    - destruct (env_get x (env s)); inversion H; subst. lia.
    - inversion H; subst. lia.
    - inversion H; subst. lia.
    - inversion H; subst. lia.
    - inversion H; subst. lia.
    - (* EIsInst *) destruct (eval r preds e s) as [[v0|x] s1] eqn:E; [|discriminate]. inversion H; subst.
      specialize (IHe _ _ _ E). pose proof (pick_le_K v0 e). rewrite reads_log. cbn [is_read].
      unfold pick; cbn [cost fst snd]. fold (K e). destruct (truthy _); lia.
    - (* EIsSub *) destruct (eval r preds e s) as [[v0|x] s1] eqn:E; [|discriminate].
      destruct (issubcls v0 cs); inversion H; subst.
      specialize (IHe _ _ _ E). pose proof (pick_le_K v0 e). rewrite reads_log. cbn [is_read].
      unfold pick; cbn [cost fst snd]. fold (K e). destruct (truthy _); lia.
    - (* ELen *) destruct (eval r preds e s) as [[v0|x] s1] eqn:E; [|discriminate].
      destruct (py_len v0); inversion H; subst.
      specialize (IHe _ _ _ E). pose proof (pick_le_K v0 e). rewrite reads_log. cbn [is_read].
      unfold pick; cbn [cost fst snd]. fold (K e). destruct (truthy _); lia.
    - (* EIndex *) destruct (eval r preds e1 s) as [[v1|x] s1] eqn:E1; [|discriminate].
      destruct (eval r preds e2 s1) as [[v2|x] s2] eqn:E2; [|discriminate].
      destruct (py_index v1 v2); inversion H; subst.
      specialize (IHe1 _ _ _ E1). specialize (IHe2 _ _ _ E2).
      pose proof (pick_le_K v1 e1). pose proof (pick_le_K v2 e2). rewrite reads_log. cbn [is_read].
      unfold pick; cbn [cost fst snd]. fold (K e1). fold (K e2). destruct (truthy _); lia.
    - (* EMod *) destruct (eval r preds e1 s) as [[v1|x] s1] eqn:E1; [|discriminate].
      destruct (eval r preds e2 s1) as [[v2|x] s2] eqn:E2; [|discriminate].
      specialize (IHe1 _ _ _ E1). specialize (IHe2 _ _ _ E2).
      pose proof (pick_le_K v1 e1). pose proof (pick_le_K v2 e2).
      assert (s' = s2).
      { destruct v1, v2; try (inversion H; subst; reflexivity). destruct (z0 =? 0)%Z; inversion H; reflexivity. }
      subst. unfold pick; cbn [cost fst snd]. fold (K e1). fold (K e2). destruct (truthy _); lia.
    - (* EFirst *) destruct (eval r preds e s) as [[v0|x] s1] eqn:E; [|discriminate].
      destruct (py_first v0); inversion H; subst.
      specialize (IHe _ _ _ E). pose proof (pick_le_K v0 e). rewrite reads_log. cbn [is_read].
      unfold pick; cbn [cost fst snd]. fold (K e). destruct (truthy _); lia.
    - (* EFirstValue *) destruct (eval r preds e s) as [[v0|x] s1] eqn:E; [|discriminate].
      destruct (py_first_value v0); inversion H; subst.
      specialize (IHe _ _ _ E). pose proof (pick_le_K v0 e). rewrite reads_log. cbn [is_read].
      unfold pick; cbn [cost fst snd]. fold (K e). destruct (truthy _); lia.
    - (* EEq *) destruct (eval r preds e1 s) as [[v1|x] s1] eqn:E1; [|discriminate].
      destruct (eval r preds e2 s1) as [[v2|x] s2] eqn:E2; [|discriminate]. inversion H; subst.
      specialize (IHe1 _ _ _ E1). specialize (IHe2 _ _ _ E2).
      pose proof (pick_le_K v1 e1). pose proof (pick_le_K v2 e2). rewrite reads_log. cbn [is_read].
      unfold pick; cbn [cost fst snd]. fold (K e1). fold (K e2). destruct (truthy _); lia.
    - (* EIs *) destruct (eval r preds e1 s) as [[v1|x] s1] eqn:E1; [|discriminate].
      destruct (eval r preds e2 s1) as [[v2|x] s2] eqn:E2; [|discriminate]. inversion H; subst.
      specialize (IHe1 _ _ _ E1). specialize (IHe2 _ _ _ E2).
      pose proof (pick_le_K v1 e1). pose proof (pick_le_K v2 e2).
      unfold pick; cbn [cost fst snd]. fold (K e1). fold (K e2). destruct (truthy _); lia.
    - (* ENot *) destruct (eval r preds e s) as [[v0|x] s1] eqn:E; [|discriminate]. inversion H; subst.
      specialize (IHe _ _ _ E). unfold pick in *. cbn [cost fst snd truthy].
      assert (Hr : reads (trace (if is_container v0 then log (TBool v0) s1 else s1)) = reads (trace s1)).
      { destruct (is_container v0); [rewrite reads_log; cbn [is_read]; lia|reflexivity]. }
      rewrite Hr. destruct (truthy v0); cbn [negb]; lia.
    - (* EAnd *) destruct (eval r preds e1 s) as [[v1|x] s1] eqn:E1; [|discriminate].
      specialize (IHe1 _ _ _ E1). unfold pick in *. cbn [cost fst snd].
      destruct (truthy v1) eqn:T1.
      + specialize (IHe2 _ _ _ H). destruct (truthy w); lia.
      + inversion H; subst. rewrite T1. lia.
    - (* EOr *) destruct (eval r preds e1 s) as [[v1|x] s1] eqn:E1; [|discriminate].
      specialize (IHe1 _ _ _ E1). unfold pick in *. cbn [cost fst snd].
      destruct (truthy v1) eqn:T1.
      + inversion H; subst. rewrite T1. lia.
      + specialize (IHe2 _ _ _ H). destruct (truthy w); lia.
    - (* EWalrus *) destruct (eval r preds e s) as [[v0|y] s1] eqn:E; [|discriminate]. inversion H; subst.
      specialize (IHe _ _ _ E). cbn [cost]. exact IHe.
    - (* ELet *) destruct (eval r preds e s) as [[v0|y] s1] eqn:E; [|discriminate]. inversion H; subst.
      specialize (IHe _ _ _ E). pose proof (pick_le_K v0 e). unfold pick; cbn [cost fst snd truthy]. fold (K e).
      change (trace (bind x v0 s1)) with (trace s1). lia.
    - (* ECallPred *) destruct (eval r preds e s) as [[v0|y] s1] eqn:E; [|discriminate].
      destruct (preds f v0); inversion H; subst.
      specialize (IHe _ _ _ E). pose proof (pick_le_K v0 e). rewrite reads_log. cbn [is_read].
      unfold pick; cbn [cost fst snd]. fold (K e). destruct (truthy _); lia.
    - (* EAttrLet *) destruct (eval r preds e s) as [[v0|y] s1] eqn:E; [|discriminate].
      specialize (IHe _ _ _ E). pose proof (pick_le_K v0 e).
      destruct (py_getattr v0 name); inversion H; subst; unfold pick; cbn [cost fst snd truthy]; fold (K e).
      + change (trace (bind x p (log (TAttr v0 name) s1))) with (trace (log (TAttr v0 name) s1)).
        rewrite reads_log. cbn [is_read]. lia.
      + rewrite reads_log. cbn [is_read]. lia.
  Qed.

  Theorem reads_le_K e x v s' :
    eval r preds e (st0 x) = (Ok v, s') -> reads (trace s') <= K e.
  Proof. intros H. pose proof (cost_sound e _ _ _ H) as C. pose proof (pick_le_K v e). cbn in C. lia. Qed.
End CostSound.

(* ------------------------------------------------------------ the cost of generated code *)

Fixpoint bound (h : hint) : nat :=
  match h with
  | HAny | HCls _ | HShallow _ | HLiteral _ | HType _ => 0
  | HAnnot mh _ => if ignorable mh then 0 else bound mh
  | HUnion hs => (fix sum (l : list hint) : nat := match l with [] => 0 | x :: l' => bound x + sum l' end) hs
  | HCont _ ch => if ignorable ch then 0 else 1 + bound ch
  | HMap _ k v =>
      match ignorable k, ignorable v with
      | true, true => 0
      | false, false => 2 + bound k + bound v          (* one key and its value *)
      | false, true => 1 + bound k
      | true, false => 1 + bound v
      end
  | HCounter k => if ignorable k then 1 else 2 + bound k
  | HTuple hs =>
      (fix sum (l : list hint) : nat :=
         match l with [] => 0 | x :: l' => (if ignorable x then 0 else 1 + bound x) + sum l' end) hs
  end.

Definition sumK (l : list expr) : nat := fold_right (fun e acc => K e + acc) 0 l.

Lemma K_var x : K (EVar x) = 0. Proof. reflexivity. Qed.
Lemma K_and a b : K (EAnd a b) <= K a + K b. Proof. unfold K. cbn [cost fst snd]. lia. Qed.
Lemma K_or a b : K (EOr a b) <= K a + K b. Proof. unfold K. cbn [cost fst snd]. lia. Qed.
Lemma K_isinst e cs : K (EIsInst e cs) = K e. Proof. unfold K. cbn [cost fst snd]. fold (K e). lia. Qed.
Lemma K_walrus x e : K (EWalrus x e) = K e. Proof. reflexivity. Qed.

Lemma K_join_and l : K (join EAnd l) <= sumK l.
Proof.
  induction l as [|a l IH]; [cbn; lia|]. destruct l as [|b l]; [cbn [join sumK fold_right]; lia|].
  rewrite join_cons2. pose proof (K_and a (join EAnd (b :: l))). cbn [sumK fold_right] in *. lia.
Qed.

Lemma K_join_or l : K (join EOr l) <= sumK l.
Proof.
  induction l as [|a l IH]; [cbn; lia|]. destruct l as [|b l]; [cbn [join sumK fold_right]; lia|].
  rewrite join_cons2. pose proof (K_or a (join EOr (b :: l))). cbn [sumK fold_right] in *. lia.
Qed.

Lemma sumK_app a b : sumK (a ++ b) = sumK a + sumK b.
Proof. unfold sumK. induction a as [|x a IH]; cbn [app fold_right]; [reflexivity|]. rewrite IH. lia. Qed.

Section GenCost.
  Variable cf : gconf.

  Lemma K_assign pith idx : K (node_assign pith idx) = K pith.
  Proof. unfold node_assign. destruct (simple pith); reflexivity. Qed.

  Lemma K_seq_child v : K v = 0 -> K (seq_child cf v) = 1.
  Proof.
    intros H. unfold seq_child, tpl_sequence_child_random, tpl_sequence_child_first.
    destruct (is_random cf); unfold K in *; cbn [cost fst snd]; lia.
  Qed.

  Definition cost_ok (h : hint) : Prop := forall pith idx, K (gen cf h pith idx) <= K pith + bound h.

  Lemma cost_instance cs pith : K (tpl_instance cs pith) = K pith.
  Proof. unfold tpl_instance. apply K_isinst. Qed.

  Lemma cost_cont s ch : cost_ok ch -> cost_ok (HCont s ch).
  Proof.
    intros IH pith idx. cbn [bound]. destruct (ignorable ch) eqn:Hig.
    - cbn [gen]. rewrite Hig, cost_instance. lia.
    - rewrite gen_cont_unfold by exact Hig.
      pose proof (K_assign pith idx) as Ha. set (i := node_i pith idx) in *.
      destruct (sign_family s) as [[| |]|].
      + pose proof (IH (seq_child cf (EVar (Pith i))) i) as Hc. rewrite K_seq_child in Hc by reflexivity.
        unfold tpl_container, K in *. cbn [cost fst snd] in *. lia.
      + pose proof (IH (tpl_reiterable_child (EVar (Pith i))) i) as Hc.
        unfold tpl_reiterable_child, tpl_container, K in *. cbn [cost fst snd] in *. lia.
      + pose proof (IH (EVar (Pith (S i))) (S i)) as Hc.
        pose proof (K_seq_child (EVar (Pith i)) eq_refl) as Hs.
        unfold tpl_quasiiterable, K in *. cbn [cost fst snd] in *. lia.
      + cbn. lia.
  Qed.

  Lemma cost_map s k v : cost_ok k -> cost_ok v -> cost_ok (HMap s k v).
  Proof.
    intros IHk IHv pith idx. rewrite gen_map_unfold. cbn [bound].
    pose proof (K_assign pith idx) as Ha. set (i := node_i pith idx) in *.
    destruct (ignorable k), (ignorable v).
    - rewrite cost_instance. lia.
    - pose proof (IHv (tpl_mapping_value_only_child (EVar (Pith i))) i) as Hc.
      unfold tpl_mapping, tpl_mapping_value_only, tpl_mapping_value_only_child, K in *.
      cbn [cost fst snd] in *. lia.
    - pose proof (IHk (tpl_mapping_key_only_child (EVar (Pith i))) i) as Hc.
      unfold tpl_mapping, tpl_mapping_key_only, tpl_mapping_key_only_child, K in *.
      cbn [cost fst snd] in *. lia.
    - pose proof (IHk (EVar (Pith (S i))) (S i)) as Hk.
      pose proof (IHv (tpl_mapping_key_value_child (EVar (Pith i)) (EVar (Pith (S i)))) (S i)) as Hv.
      unfold tpl_mapping, tpl_mapping_key_value, tpl_mapping_key_value_child, K in *.
      cbn [cost fst snd] in *. lia.
  Qed.

  Lemma cost_counter k : cost_ok k -> cost_ok (HCounter k).
  Proof.
    intros IHk pith idx. cbn [gen bound].
    change (if simple pith then idx else S idx) with (node_i pith idx).
    change (if simple pith then pith else tpl_assign pith (Pith (S idx))) with (node_assign pith idx).
    pose proof (K_assign pith idx) as Ha. set (i := node_i pith idx) in *.
    destruct (ignorable k).
    - unfold tpl_mapping, tpl_mapping_value_only, tpl_mapping_value_only_child, tpl_instance, K in *.
      cbn [cost fst snd] in *. lia.
    - pose proof (IHk (EVar (Pith (S i))) (S i)) as Hk.
      unfold tpl_mapping, tpl_mapping_key_value, tpl_mapping_key_value_child, tpl_instance, K in *.
      cbn [cost fst snd] in *. lia.
  Qed.

  Lemma cost_type cs : cost_ok (HType cs).
  Proof.
    intros pith idx. cbn [gen bound].
    change (if simple pith then idx else S idx) with (node_i pith idx).
    change (if simple pith then pith else tpl_assign pith (Pith (S idx))) with (node_assign pith idx).
    pose proof (K_assign pith idx) as Ha.
    unfold tpl_subclass, K in *. cbn [cost fst snd] in *. lia.
  Qed.

  Lemma cost_literal vs : cost_ok (HLiteral vs).
  Proof.
    intros pith idx. cbn [gen bound].
    change (if simple pith then idx else S idx) with (node_i pith idx).
    change (if simple pith then pith else tpl_assign pith (Pith (S idx))) with (node_assign pith idx).
    pose proof (K_assign pith idx) as Ha. set (i := node_i pith idx) in *.
    unfold tpl_literal_outer_op, tpl_literal_prefix, tpl_literal_inner_op.
    pose proof (K_and (EIsInst (node_assign pith idx) (dedup (map type_of vs)))
                  (join EOr (map (fun l => tpl_literal_item l (EVar (Pith i))) vs))) as H1.
    pose proof (K_join_or (map (fun l => tpl_literal_item l (EVar (Pith i))) vs)) as H2.
    assert (H3 : sumK (map (fun l => tpl_literal_item l (EVar (Pith i))) vs) = 0).
    { clear. induction vs as [|v vs IH]; [reflexivity|]. cbn [map sumK fold_right]. unfold sumK in IH. rewrite IH. reflexivity. }
    rewrite K_isinst in H1. lia.
  Qed.

  Definition sum_tuple :=
    fix sum (l : list hint) : nat :=
      match l with [] => 0 | x :: l' => (if ignorable x then 0 else 1 + bound x) + sum l' end.

  Lemma cost_tuple_kids i l : Forall cost_ok l -> forall n,
    sumK (tuple_kids cf i (EVar (Pith i)) l n) <= sum_tuple l.
  Proof.
    induction 1 as [|h l Hh Hl IH]; intros n; [cbn; lia|]. cbn [tuple_kids sum_tuple].
    destruct (ignorable h); [specialize (IH (n + 1)%Z); lia|].
    cbn [sumK fold_right]. specialize (IH (n + 1)%Z). unfold sumK in IH.
    pose proof (Hh (tpl_tuple_child n (EVar (Pith i))) i) as Hc.
    assert (K (tpl_tuple_child n (EVar (Pith i))) = 1) by reflexivity. lia.
  Qed.

  Lemma cost_tuple hs : Forall cost_ok hs -> cost_ok (HTuple hs).
  Proof.
    intros IH pith idx. pose proof (K_assign pith idx) as Ha.
    destruct hs as [|h0 hs].
    - cbn [gen bound].
      change (if simple pith then idx else S idx) with (node_i pith idx).
      change (if simple pith then pith else tpl_assign pith (Pith (S idx))) with (node_assign pith idx).
      unfold tpl_tuple_op, tpl_tuple_prefix, tpl_tuple_empty, K in *. cbn [cost fst snd] in *. lia.
    - rewrite gen_tuple_unfold. unfold tpl_tuple_op.
      pose proof (K_join_and (tpl_tuple_prefix (node_assign pith idx)
                     :: tpl_tuple_len (Z.of_nat (List.length (h0 :: hs))) (EVar (Pith (node_i pith idx)))
                     :: tuple_kids cf (node_i pith idx) (EVar (Pith (node_i pith idx))) (h0 :: hs) 0%Z)) as H1.
      pose proof (cost_tuple_kids (node_i pith idx) (h0 :: hs) IH 0%Z) as H2.
      cbn [sumK fold_right] in H1. unfold sumK in H2.
      assert (K (tpl_tuple_prefix (node_assign pith idx)) = K pith)
        by (unfold tpl_tuple_prefix; now rewrite K_isinst).
      assert (K (tpl_tuple_len (Z.of_nat (List.length (h0 :: hs))) (EVar (Pith (node_i pith idx)))) = 0) by reflexivity.
      change (bound (HTuple (h0 :: hs))) with (sum_tuple (h0 :: hs)). lia.
  Qed.

  Definition sum_bound :=
    fix sum (l : list hint) : nat := match l with [] => 0 | x :: l' => bound x + sum l' end.

  Lemma cost_union_peps assign i hn l : Forall cost_ok l -> forall first,
    sumK (union_peps cf assign (EVar (Pith i)) i hn l first)
    <= (if first && negb hn then K assign else 0) + sum_bound l.
  Proof.
    induction 1 as [|h l Hh Hl IH]; intros first; [cbn; lia|]. cbn [union_peps sum_bound].
    destruct (nonpep_class h).
    - specialize (IH first). lia.
    - cbn [sumK fold_right]. specialize (IH false). unfold sumK in IH. cbn [andb] in IH.
      pose proof (Hh (if first && negb hn then assign else EVar (Pith i)) i) as Hc.
      destruct (first && negb hn); [lia|]. rewrite K_var in Hc. lia.
  Qed.

  Lemma cost_union hs : Forall cost_ok hs -> cost_ok (HUnion hs).
  Proof.
    intros IH pith idx. rewrite gen_union_unfold. cbn zeta. unfold tpl_union_op, tpl_union_nonpep.
    pose proof (K_assign pith idx) as Ha.
    change (bound (HUnion hs)) with (sum_bound hs).
    destruct (union_nonpep hs) as [|c0 cs].
    - cbn [app].
      pose proof (K_join_or (union_peps cf (node_assign pith idx) (EVar (Pith (node_i pith idx))) (node_i pith idx) false hs true)) as H1.
      pose proof (cost_union_peps (node_assign pith idx) (node_i pith idx) false hs IH true) as H2.
      cbn [andb negb] in H2. lia.
    - pose proof (cost_union_peps (node_assign pith idx) (node_i pith idx) true hs IH true) as H2.
      cbn [andb negb] in H2.
      set (peps := union_peps cf (node_assign pith idx) (EVar (Pith (node_i pith idx))) (node_i pith idx) true hs true) in *.
      pose proof (K_join_or ([EIsInst (if match peps with [] => false | _ => true end then node_assign pith idx else pith) (c0 :: cs)] ++ peps)) as H1.
      rewrite sumK_app in H1. cbn [sumK fold_right] in H1. rewrite K_isinst in H1.
      assert (K (if match peps with [] => false | _ => true end then node_assign pith idx else pith) = K pith)
        by (destruct peps; [reflexivity|exact Ha]).
      lia.
  Qed.

  Lemma K_vcode w : forall x, K (vcode w x) = 0.
  Proof.
    induction w as [f|n w IH|o|cs|cs|a IHa b IHb|a IHa b IHb|a IHa]; intros x; cbn [vcode];
      unfold tpl_vale_isattr, tpl_vale_isequal, tpl_vale_isinstance, tpl_vale_issubclass.
    - reflexivity.
    - specialize (IH (attr_tmp x n)). unfold K in *. cbn [cost fst snd] in *. lia.
    - reflexivity.
    - reflexivity.
    - reflexivity.
    - specialize (IHa x). specialize (IHb x). unfold K in *. cbn [cost fst snd] in *. lia.
    - specialize (IHa x). specialize (IHb x). unfold K in *. cbn [cost fst snd] in *. lia.
    - specialize (IHa x). unfold K in *. cbn [cost fst snd] in *. lia.
  Qed.

  Lemma sumK_vcodes vs x : sumK (map (fun w => vcode w x) vs) = 0.
  Proof. induction vs as [|w vs IH]; [reflexivity|]. cbn [map sumK fold_right]. unfold sumK in IH. rewrite IH, K_vcode. reflexivity. Qed.

  Lemma cost_annot mh vs : cost_ok mh -> cost_ok (HAnnot mh vs).
  Proof.
    intros IH pith idx. cbn [gen bound].
    change (if simple pith then idx else S idx) with (node_i pith idx).
    change (if simple pith then pith else tpl_assign pith (Pith (S idx))) with (node_assign pith idx).
    pose proof (K_assign pith idx) as Ha. unfold tpl_annotated_op.
    destruct (ignorable mh).
    - destruct (is_ident pith) as [x|].
      + pose proof (K_join_and (map (fun w => vcode w x) vs)). rewrite sumK_vcodes in H. lia.
      + pose proof (K_join_and (tpl_annotated_pith (node_assign pith idx) (EVar (Pith (node_i pith idx)))
                                 :: map (fun w => vcode w (Pith (node_i pith idx))) vs)) as H.
        cbn [sumK fold_right] in H. pose proof (sumK_vcodes vs (Pith (node_i pith idx))) as Hv. unfold sumK in Hv.
        rewrite Hv in H.
        assert (K (tpl_annotated_pith (node_assign pith idx) (EVar (Pith (node_i pith idx)))) = K pith).
        { unfold tpl_annotated_pith, K in *. cbn [cost fst snd] in *. lia. }
        lia.
    - pose proof (K_join_and (gen cf mh (node_assign pith idx) (node_i pith idx)
                               :: map (fun w => vcode w (Pith (node_i pith idx))) vs)) as H.
      cbn [sumK fold_right] in H. pose proof (sumK_vcodes vs (Pith (node_i pith idx))) as Hv. unfold sumK in Hv.
      rewrite Hv in H. pose proof (IH (node_assign pith idx) (node_i pith idx)). lia.
  Qed.

  Theorem gen_cost h : cost_ok h.
  Proof.
    induction h using hint_ind2.
    - intros pith idx. cbn. lia.
    - intros pith idx. cbn [gen bound]. rewrite cost_instance. lia.
    - intros pith idx. cbn [gen bound]. rewrite cost_instance. lia.
    - now apply cost_union.
    - now apply cost_cont.
    - now apply cost_map.
    - now apply cost_counter.
    - now apply cost_tuple.
    - apply cost_literal.
    - apply cost_type.
    - now apply cost_annot.
  Qed.

  (* the number of items read by a whole check is bounded by a function of the hint alone,
     for every object (of any size), every draw, accepting or rejecting *)
  Theorem check_reads_bounded r preds h x v s' :
    eval r preds (check_expr cf h) (st0 x) = (Ok v, s') -> reads (trace s') <= bound h.
  Proof.
    intros H. pose proof (reads_le_K r preds _ _ _ _ H) as HK. unfold check_expr in *.
    destruct (ignorable h); [cbn in HK; lia|].
    pose proof (gen_cost h (EVar (Pith 0)) 0). rewrite K_var in H0. lia.
  Qed.
End GenCost.
