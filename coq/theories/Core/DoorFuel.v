(* C19: fuel adequacy of the is_subhint model (Core/Door.v).
   [sub] and [eqh] recurse on explicit fuel and answer [RFuel] when it runs out.  The theorems of
   Props/C19.v speak about the three genuine outcomes (True / False / the exception); this file
   shows that the fourth, artificial one is never the answer of [is_subhint] / [hint_equal], for
   every pair of hints of the grammar: the totalisation cannot make a C19 theorem true for the
   wrong reason, and the correspondence check never compares beartype with an out-of-fuel value. *)
From Coq Require Import List ZArith Bool Arith String Lia.
From BT Require Import Gen.ClassTable Gen.SignSets Core.PyVal Core.Expr Core.Hint Core.Door.
Import ListNotations.
Local Open Scope list_scope.

Lemma r3_of_nf b : r3_of b <> RFuel.
Proof. destruct b; discriminate. Qed.

Lemma all3_nf {A} (f : A -> r3) l : (forall x, In x l -> f x <> RFuel) -> all3 f l <> RFuel.
Proof.
  induction l as [|a l IH]; cbn [all3]; intros H; [discriminate|].
  destruct (f a) eqn:E; try discriminate.
  - apply IH. intros x Hx. apply H. now right.
  - exfalso. apply (H a); [now left|exact E].
Qed.

Lemma any3_nf {A} (f : A -> r3) l : (forall x, In x l -> f x <> RFuel) -> any3 f l <> RFuel.
Proof.
  induction l as [|a l IH]; cbn [any3]; intros H; [discriminate|].
  destruct (f a) eqn:E; try discriminate.
  - apply IH. intros x Hx. apply H. now right.
  - exfalso. apply (H a); [now left|exact E].
Qed.

Lemma all3_2_nf f l m : (forall x y, In x l -> In y m -> f x y <> RFuel) -> all3_2 f l m <> RFuel.
Proof.
  revert m. induction l as [|a l IH]; intros [|b m] H; cbn [all3_2]; try discriminate.
  destruct (f a b) eqn:E; try discriminate.
  - apply IH. intros x y Hx Hy. apply H; now right.
  - exfalso. apply (H a b); [now left|now left|exact E].
Qed.

(* ------------------------------------------------------------ sizes *)

Lemma hsize_pos h : 0 < hsize h.
Proof. destruct h; cbn [hsize]; lia. Qed.

Lemma hsize_in x hs : In x hs -> hsize x < S (fold_right (fun y acc => hsize y + acc) 0 hs).
Proof.
  induction hs as [|h hs IH]; cbn [In fold_right]; [tauto|]. intros [->|Hin]; [lia|].
  specialize (IH Hin). lia.
Qed.

Lemma hsize_classes cs : fold_right (fun y acc => hsize y + acc) 0 (map HCls cs) = List.length cs.
Proof. induction cs as [|c cs IH]; cbn [map fold_right hsize List.length]; [reflexivity|]. rewrite IH. reflexivity. Qed.

Lemma hsize_children x h : In x (children h) -> hsize x < hsize h.
Proof.
  destruct h; cbn [children In hsize]; try tauto.
  - apply hsize_in.
  - intros [<-|[]]. lia.
  - intros [<-|[<-|[]]]; lia.
  - intros [<-|[]]. lia.
  - apply hsize_in.
  - destruct cs as [|c [|d cs']]; cbn [In]; intros [<-|[]]; cbn [hsize]; rewrite ?hsize_classes; cbn [List.length]; lia.
  - intros [<-|[]]. lia.
Qed.

Lemma hsize_branches br b : In br (branches b) -> hsize br <= hsize b.
Proof.
  destruct b; cbn [branches In]; try (intros [<-|[]]; lia).
  intros Hin. apply hsize_in in Hin. cbn [hsize]. lia.
Qed.

Lemma in_length_pos {A} (x : A) l : In x l -> 0 < List.length l.
Proof. destruct l; cbn; [tauto|lia]. Qed.

(* ------------------------------------------------------------ the answer is never "out of fuel" *)

Ltac size_facts :=
  repeat match goal with
  | H : In ?x (children ?h) |- _ => apply hsize_children in H
  | H : In ?x (branches ?b) |- _ => apply hsize_branches in H
  | H : In ?x ?l |- _ =>
      match type of x with
      | hint => apply hsize_in in H
      | _ => apply in_length_pos in H
      end
  end.

Ltac size := size_facts; cbn [hsize] in *; lia.

Ltac nf IH :=
  repeat (match goal with
  | |- RT <> RFuel => discriminate
  | |- RF <> RFuel => discriminate
  | |- RX <> RFuel => discriminate
  | |- r3_of _ <> RFuel => apply r3_of_nf
  | H : sub _ _ _ = RFuel |- _ => exfalso; revert H; apply IH; size
  | H : eqh _ _ _ = RFuel |- _ => exfalso; revert H; apply IH; size
  | H : all3 _ _ = RFuel |- _ => exfalso; revert H; match goal with |- ?x = RFuel -> False => change (x <> RFuel) end
  | H : any3 _ _ = RFuel |- _ => exfalso; revert H; match goal with |- ?x = RFuel -> False => change (x <> RFuel) end
  | H : all3_2 _ _ _ = RFuel |- _ => exfalso; revert H; match goal with |- ?x = RFuel -> False => change (x <> RFuel) end
  | |- all3 _ _ <> RFuel => apply all3_nf; intros ? ?
  | |- any3 _ _ <> RFuel => apply any3_nf; intros ? ?
  | |- all3_2 _ _ _ <> RFuel => apply all3_2_nf; intros ? ? ? ?
  | |- sub _ _ _ <> RFuel => apply IH; size
  | |- eqh _ _ _ <> RFuel => apply IH; size
  | |- (if ?c then _ else _) <> RFuel => destruct c eqn:?
  | |- (match ?x with _ => _ end) <> RFuel => destruct x eqn:?
  end).

Lemma sub_nf : forall n a b, hsize a + hsize b < n -> sub n a b <> RFuel.
Proof.
  induction n as [|n IH]; intros a b Hs; [lia|].
  pose proof (hsize_pos a) as Pa. pose proof (hsize_pos b) as Pb.
  cbn [sub]. destruct (is_any a || is_any b); [discriminate|].
  destruct a; cbn [and3]; nf IH.
Qed.

Lemma eqh_nf : forall n a b, hsize a + hsize b + 1 < n -> eqh n a b <> RFuel.
Proof.
  induction n as [|n IH]; intros a b Hs; [lia|].
  pose proof (hsize_pos a) as Pa. pose proof (hsize_pos b) as Pb.
  cbn [eqh].
  assert (G : and3 (sub n a b) (fun _ => sub n b a) <> RFuel).
  { unfold and3. pose proof (sub_nf n a b ltac:(lia)). pose proof (sub_nf n b a ltac:(lia)).
    destruct (sub n a b); congruence. }
  destruct (kind_of a) eqn:Ek; try exact G; destruct a; try exact G; unfold and3; nf IH.
Qed.

Theorem is_subhint_has_fuel a b : is_subhint a b <> RFuel.
Proof. unfold is_subhint. apply sub_nf. lia. Qed.

Theorem hint_equal_has_fuel a b : hint_equal a b <> RFuel.
Proof. unfold hint_equal. apply eqh_nf. pose proof (hsize_pos a). lia. Qed.
