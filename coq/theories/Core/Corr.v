(* Correspondence glue for the shared core (C01 C02 C09 C10 ...): the model's verdict and
   protocol trace for one (configuration, hint, object, draw), compared with what the harness
   observed on beartype.  Evaluated by vm_compute in generated case files.  No proofs. *)
From Coq Require Import List ZArith Bool Arith String.
From BT Require Import Gen.ClassTable Gen.SignSets Gen.Templates Core.PyVal Core.Expr Core.Hint Core.Check.
Import ListNotations.
Local Open Scope list_scope.

Inductive obsv := VTrue | VFalse | VExc.

Definition obsv_eqb (a b : obsv) : bool :=
  match a, b with VTrue, VTrue | VFalse, VFalse | VExc, VExc => true | _, _ => false end.

(* the closed table of user callables the harness places inside Is[...] (the same functions are
   written in Python in harness/impl/universe.py PREDICATES) *)
Definition pb_table (f : nat) (v : pyval) : bool :=
  match f with
  | 0 => match v with VInt z => (0 <? z)%Z | VBool b => b | _ => false end     (* int and > 0 *)
  | 1 => match v with VStr s => Nat.ltb 1 (String.length s) | _ => false end   (* str longer than 1 *)
  | 2 => match v with VNone => true | _ => false end                            (* is None *)
  | 3 => true
  | _ => false
  end.

Definition no_preds : nat -> pyval -> res pyval := preds_of pb_table.

(* trace tokens comparable with the spy log: (kind, class); kinds: 0 len, 1 getitem,
   2 iter+next, 3 values+iter+next *)
Definition tokens (spied : list nat) (t : list top) : list (nat * nat) :=
  flat_map (fun o =>
    let tok (k : nat) (v : pyval) :=
      if existsb (Nat.eqb (type_of v)) spied then [(k, type_of v)] else [] in
    match o with
    | TLen v => tok 0 v
    | TBool v => tok 0 v
    | TItem v _ => tok 1 v
    | TFirst v => tok 2 v
    | TFirstValue v => tok 3 v
    | _ => []
    end) t.

Record case := {
  k_random : bool; k_hint : hint; k_val : pyval; k_draw : Z;
  k_verdict : obsv; k_trace : list (nat * nat); k_sat : option bool }.

Definition model_verdict (k : case) : obsv :=
  match verdict (k_draw k) no_preds (check_expr {| is_random := k_random k |} (k_hint k)) (k_val k) with
  | Ok true => VTrue
  | Ok false => VFalse
  | Exc _ => VExc
  end.

Definition pair_eqb (a b : nat * nat) : bool := Nat.eqb (fst a) (fst b) && Nat.eqb (snd a) (snd b).

Fixpoint list_eqb {A} (f : A -> A -> bool) (a b : list A) : bool :=
  match a, b with
  | [], [] => true
  | x :: a', y :: b' => f x y && list_eqb f a' b'
  | _, _ => false
  end.

Definition check_case (spied : list nat) (k : case) : bool :=
  obsv_eqb (model_verdict k) (k_verdict k)
  && list_eqb pair_eqb
       (tokens spied (trace_of (k_draw k) no_preds (check_expr {| is_random := k_random k |} (k_hint k)) (k_val k)))
       (k_trace k)
  && match k_sat k with Some b => Bool.eqb (sat pb_table (k_hint k) (k_val k)) b | None => true end
  (* generated objects are well-formed and the functional reading [chk] agrees (both are
     theorems' hypotheses/statements; evaluated here as a cross-check) *)
  && wf (k_val k)
  && match model_verdict k with
     | VTrue => check {| is_random := k_random k |} (k_draw k) pb_table (k_hint k) (k_val k)
     | VFalse => negb (check {| is_random := k_random k |} (k_draw k) pb_table (k_hint k) (k_val k))
     | VExc => false
     end.

Fixpoint failing_from (i : nat) (f : case -> bool) (ks : list case) : list nat :=
  match ks with
  | [] => []
  | k :: ks' => if f k then failing_from (S i) f ks' else i :: failing_from (S i) f ks'
  end.

Definition failing (spied : list nat) (ks : list case) : list nat := failing_from 0 (check_case spied) ks.

(* counts used by the harness for its evidence: how the model classifies each case *)
Definition sat_flags (ks : list case) : list bool := map (fun k => sat pb_table (k_hint k) (k_val k)) ks.

(* ------------------------------------------------------------------ structural correspondence:
   the real generated code, parsed into an [expr] by harness/translate/parse_generated.py,
   must be the very term the model generator produces (class tuples compared as sets) *)
Definition cls_set_eqb (a b : list nat) : bool :=
  forallb (fun x => existsb (Nat.eqb x) b) a && forallb (fun x => existsb (Nat.eqb x) a) b.

Fixpoint expr_eqb (a b : expr) : bool :=
  match a, b with
  | EVar x, EVar y => var_eqb x y
  | ERand, ERand | ETrue, ETrue => true
  | EInt x, EInt y => Z.eqb x y
  | ELit x, ELit y => val_same x y || py_eq x y   (* vale factories are memoised by ==: IsEqual[True] is IsEqual[1] *)
  | EIsInst e cs, EIsInst f ds | EIsSub e cs, EIsSub f ds => expr_eqb e f && cls_set_eqb cs ds
  | ELen e, ELen f | EFirst e, EFirst f | EFirstValue e, EFirstValue f | ENot e, ENot f => expr_eqb e f
  | EIndex e i, EIndex f j | EMod e i, EMod f j | EEq e i, EEq f j | EIs e i, EIs f j
  | EAnd e i, EAnd f j | EOr e i, EOr f j => expr_eqb e f && expr_eqb i j
  | EWalrus x e, EWalrus y f | ELet x e, ELet y f => var_eqb x y && expr_eqb e f
  | ECallPred g e, ECallPred k f => Nat.eqb g k && expr_eqb e f
  | EAttrLet x e n, EAttrLet y f m => var_eqb x y && expr_eqb e f && String.eqb n m
  | _, _ => false
  end.

(* `(x := e) is x` is one idiom whether it comes from one template or from an assignment
   expression spliced into `{assign} is {var}` *)
Fixpoint canon_is (e : expr) : expr :=
  match e with
  | EIs (EWalrus x a) (EVar y) => if var_eqb x y then ELet x (canon_is a) else EIs (EWalrus x (canon_is a)) (EVar y)
  | EIs a b => EIs (canon_is a) (canon_is b)
  | EIsInst a cs => EIsInst (canon_is a) cs
  | EIsSub a cs => EIsSub (canon_is a) cs
  | ELen a => ELen (canon_is a)
  | EIndex a b => EIndex (canon_is a) (canon_is b)
  | EMod a b => EMod (canon_is a) (canon_is b)
  | EFirst a => EFirst (canon_is a)
  | EFirstValue a => EFirstValue (canon_is a)
  | EEq a b => EEq (canon_is a) (canon_is b)
  | ENot a => ENot (canon_is a)
  | EAnd a b => EAnd (canon_is a) (canon_is b)
  | EOr a b => EOr (canon_is a) (canon_is b)
  | EWalrus x a => EWalrus x (canon_is a)
  | ELet x a => ELet x (canon_is a)
  | ECallPred f a => ECallPred f (canon_is a)
  | EAttrLet x a n => EAttrLet x (canon_is a) n
  | EVar _ | ERand | EInt _ | ELit _ | ETrue => e
  end.

Definition struct_failing (ks : list (bool * hint * expr)) : list nat :=
  (fix go (i : nat) (l : list (bool * hint * expr)) : list nat :=
     match l with
     | [] => []
     | (rnd, h, real) :: l' =>
         if expr_eqb (canon_is (check_expr {| is_random := rnd |} h)) (canon_is real) then go (S i) l' else i :: go (S i) l'
     end) 0 ks.
