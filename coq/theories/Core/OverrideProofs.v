(* C18 proofs: the lazily applied, guarded override reduction equals one simultaneous rewriting
   pass whenever replacements are stable; the numeric tower is stable. *)
From Coq Require Import List ZArith Bool Arith String Lia.
From BT Require Import Gen.ClassTable Gen.SignSets Core.PyVal Core.Expr Core.Hint Core.Check Core.Induct Core.Override.
Import ListNotations.
Local Open Scope list_scope.

(* ------------------------------------------------------------ key equality is equality *)

Lemma val_same_eq a : forall w, val_same a w = true -> a = w.
Proof.
  induction a using pyval_ind2; intros w E; destruct w; cbn [val_same] in E; try discriminate; try reflexivity.
  - apply Bool.eqb_prop in E. now subst.
  - apply Z.eqb_eq in E. now subst.
  - apply Z.eqb_eq in E. now subst.
  - apply String.eqb_eq in E. now subst.
  - apply String.eqb_eq in E. now subst.
  - apply andb_true_iff in E as [Ec E]. apply Nat.eqb_eq in Ec. subst. f_equal.
    revert items E. induction H as [|x l Hx Hl IH]; intros [|y m] E; try discriminate; [reflexivity|].
    apply andb_true_iff in E as [E1 E2]. f_equal; [now apply Hx|now apply IH].
  - apply andb_true_iff in E as [Ec E]. apply Nat.eqb_eq in Ec. subst. f_equal.
    revert kvs0 E. induction H as [|[k x] l [Hk Hx] Hl IH]; intros [|[k' y] m] E; try discriminate; [reflexivity|].
    apply andb_true_iff in E as [E1 E2]. apply andb_true_iff in E1 as [E0 E1]. cbn in Hk, Hx.
    f_equal; [f_equal; [now apply Hk|now apply Hx]|now apply IH].
  - apply Nat.eqb_eq in E. now subst.
  - apply andb_true_iff in E as [Ec E]. apply Nat.eqb_eq in Ec. subst. f_equal.
    revert attrs0 E. induction H as [|[k x] l Hx Hl IH]; intros [|[k' y] m] E; try discriminate; [reflexivity|].
    apply andb_true_iff in E as [E1 E2]. apply andb_true_iff in E1 as [E0 E1]. cbn in Hx.
    apply String.eqb_eq in E0. subst. f_equal; [f_equal; now apply Hx|now apply IH].
Qed.

Lemma hint_eqb_eq a : forall w, hint_eqb a w = true -> a = w.
Proof.
  induction a using hint_ind2; intros w E; destruct w; cbn [hint_eqb] in E; try discriminate; try reflexivity.
  - apply Nat.eqb_eq in E. now subst.
  - apply Nat.eqb_eq in E. now subst.
  - f_equal. revert hs0 E. induction H as [|x l Hx Hl IH]; intros [|y m] E; try discriminate; [reflexivity|].
    apply andb_true_iff in E as [E1 E2]. f_equal; [now apply Hx|now apply IH].
  - apply andb_true_iff in E as [E1 E2]. apply Nat.eqb_eq in E1. subst. f_equal. now apply IHa.
  - apply andb_true_iff in E as [E1 E3]. apply andb_true_iff in E1 as [E1 E2]. apply Nat.eqb_eq in E1. subst.
    f_equal; [now apply IHa1|now apply IHa2].
  - f_equal. now apply IHa.
  - f_equal. revert hs0 E. induction H as [|x l Hx Hl IH]; intros [|y m] E; try discriminate; [reflexivity|].
    apply andb_true_iff in E as [E1 E2]. f_equal; [now apply Hx|now apply IH].
  - f_equal. revert vs0 E. induction vs as [|x l IH]; intros [|y m] E; try discriminate; [reflexivity|].
    apply andb_true_iff in E as [E1 E2]. f_equal; [now apply val_same_eq|now apply IH].
  - f_equal. revert cs0 E. induction cs as [|x l IH]; intros [|y m] E; try discriminate; [reflexivity|].
    apply andb_true_iff in E as [E1 E2]. apply Nat.eqb_eq in E1. subst. f_equal. now apply IH.
Qed.

Lemma ov_get_in ov h b : ov_get ov h = Some b -> In (h, b) ov.
Proof.
  induction ov as [|[k v] ov IH]; cbn; [discriminate|].
  destruct (hint_eqb k h) eqn:E.
  - intros H. inversion H; subst. apply hint_eqb_eq in E. subst. now left.
  - intros H. right. now apply IH.
Qed.

(* ------------------------------------------------------------ unfolding *)

Lemma expand_unfold ov n g h :
  expand ov (S n) g h =
  match (match ov_get ov h with
         | Some b => if guarded g h then None else Some (expand ov n (h :: g) b)
         | None => None
         end) with
  | Some b' => b'
  | None =>
      match h with
      | HUnion hs => mk_union (map (expand ov (S n) g) hs)
      | HCont s ch => HCont s (expand ov (S n) g ch)
      | HMap s k v => HMap s (expand ov (S n) g k) (expand ov (S n) g v)
      | HCounter k => HCounter (expand ov (S n) g k)
      | HTuple hs => HTuple (map (expand ov (S n) g) hs)
      | HAnnot mh vs => HAnnot (expand ov (S n) g mh) vs
      | HType cs =>
          HType (flat_map (fun c =>
                   match ov_get ov (HCls c) with
                   | Some b =>
                       if guarded g (HCls c) then [c]
                       else match classes_of (expand ov n (HCls c :: g) b) with
                            | Some l => l
                            | None => [c]
                            end
                   | None => [c]
                   end) cs)
      | _ => h
      end
  end.
Proof. destruct h; reflexivity. Qed.

Lemma map_ext_Forall {A B} (f g : A -> B) l : Forall (fun x => f x = g x) l -> map f l = map g l.
Proof. induction 1 as [|x l Hx Hl IH]; cbn; [reflexivity|now rewrite Hx, IH]. Qed.

(* ------------------------------------------------------------ the equivalence *)

Theorem effective_is_subst1 ov h : stable ov -> effective ov h = subst1 ov h.
Proof.
  intros Hst. unfold effective, fuel.
  induction h using hint_ind2; rewrite expand_unfold; cbn [subst1 guarded existsb];
    try (match goal with |- context [ov_get ov ?x] => destruct (ov_get ov x) as [b|] eqn:E end;
         [apply ov_get_in in E; now apply Hst|]); try reflexivity.
  - f_equal. now apply map_ext_Forall.
  - now rewrite IHh.
  - now rewrite IHh1, IHh2.
  - now rewrite IHh.
  - f_equal. now apply map_ext_Forall.
  - f_equal. apply flat_map_ext. intros c. destruct (ov_get ov (HCls c)) as [b|] eqn:Ec; [|reflexivity].
    apply ov_get_in in Ec. now rewrite (Hst _ _ Ec).
  - now rewrite IHh.
Qed.

Theorem check_under_overrides ov cf r pb h y :
  stable ov -> chk_ov ov cf r pb h y = check cf r pb (subst1 ov h) y.
Proof. intros Hst. unfold chk_ov. now rewrite effective_is_subst1. Qed.

(* ------------------------------------------------------------ the numeric tower *)

Lemma tower_stable : stable tower_ov.
Proof.
  intros k b [H|[H|[]]]; inversion H; subst; reflexivity.
Qed.

Theorem check_under_tower cf r pb h y :
  chk_ov tower_ov cf r pb h y = check cf r pb (subst1 tower_ov h) y.
Proof. apply check_under_overrides, tower_stable. Qed.

(* what the tower means, at the key itself *)
Lemma tower_float pb x : sat pb (subst1 tower_ov (HCls c_float)) x = isinst x [c_float; c_int].
Proof. unfold isinst. cbn. now rewrite !orb_false_r. Qed.

Lemma tower_complex pb x : sat pb (subst1 tower_ov (HCls c_complex)) x = isinst x [c_complex; c_float; c_int].
Proof. unfold isinst. cbn. now rewrite !orb_false_r. Qed.

(* chained replacements: one replacement mentioning another key is rewritten again by the
   code, unlike one simultaneous pass *)
Definition chained_ov : overrides :=
  [ (HCls c_float, HUnion [HCls c_float; HCls c_int]); (HCls c_int, HUnion [HCls c_int; HCls c_str]) ].

Lemma chained_differs :
  effective chained_ov (HCls c_float) = HUnion [HCls c_float; HCls c_int; HCls c_str]
  /\ subst1 chained_ov (HCls c_float) = HUnion [HCls c_float; HCls c_int].
Proof. split; reflexivity. Qed.

(* ------------------------------------------------------------ consequences through the shared core *)
From BT Require Import Core.GenProofs Core.Sound.

(* the code generated under the configuration computes exactly the hand-rewritten check *)
Theorem generated_code_under_overrides ov cf r pb h y :
  stable ov -> hint_ok (subst1 ov h) = true -> wf y = true ->
  verdict r (preds_of pb) (check_expr cf (effective ov h)) y = Ok (check cf r pb (subst1 ov h) y).
Proof.
  intros Hst Hok Hw. rewrite effective_is_subst1 by exact Hst. now apply check_expr_correct.
Qed.

(* no false alarms relative to the hand-rewritten hint's full-depth meaning *)
Theorem no_false_alarm_under_overrides ov cf r pb h y :
  stable ov -> hint_ok (subst1 ov h) = true -> wf y = true ->
  sat pb (subst1 ov h) y = true -> chk_ov ov cf r pb h y = true.
Proof.
  intros Hst Hok Hw Hs. rewrite check_under_overrides by exact Hst. now apply check_sound.
Qed.
