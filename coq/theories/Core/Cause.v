(* C03 model: the explanation path.  When generated code rejects an object, beartype re-walks
   the hint with the same draw to find the cause (beartype/_check/error/errmain.py and
   _check/error/_pep/**: one find_cause_* function per hint family, each re-implementing by hand
   the logic of the generated code).  [fc] mirrors those functions: true = a cause was found
   (a violation message is produced), false = no cause (the caller then raises the internal
   _BeartypeCallHintPepRaiseDesynchronizationException).  No proofs here. *)
From Coq Require Import List ZArith Bool Arith String.
From BT Require Import Gen.ClassTable Gen.SignSets Core.PyVal Core.Expr Core.Hint Core.Check.
Import ListNotations.
Local Open Scope list_scope.

Section Cause.
  Variable cf : gconf.
  Variable all_items : bool.     (* strategy On: the explanation path walks every item *)
  Variable r : Z.
  Variable pb : nat -> pyval -> bool.

  (* errpep484585container._get_cause_enumerator_item_*: the one item inspected under O1 *)
  Definition cause_item (fam : family) (y : pyval) : pyval :=
    match fam with
    | FSequence => sample cf r y
    | FReiterable => first y
    | FQuasi => if isinst y [quasi_sequence_abc] then sample cf r y else first y
    end.

  Fixpoint fc (h : hint) (y : pyval) {struct h} : bool :=
    match h with
    | HAny => false
    | HCls c => negb (isinst y [c])                          (* errnonpeptype.find_cause_instance_type *)
    | HShallow c => negb (isinst y [c])                      (* find_cause_type_instance_origin *)
    | HUnion hs =>                                           (* errpep484604: every member violated *)
        (fix all (l : list hint) : bool :=
           match l with [] => true | h' :: l' => fc h' y && all l' end) hs
    | HCont s ch =>                                          (* errpep484585container *)
        negb (isinst y [sign_origin s]) ||
        (if ignorable ch || negb (isinst y [c_Collection]) || len0 y then false
         else match sign_family s with
              | Some fam =>
                  if all_items then existsb (fc ch) (items y) else fc ch (cause_item fam y)
              | None => false
              end)
    | HMap s k v =>                                          (* errpep484585mapping *)
        negb (isinst y [map_origin s]) ||
        (if len0 y then false
         else
           let one (kx : pyval * pyval) :=
             (negb (ignorable k) && fc k (fst kx)) || (negb (ignorable v) && fc v (snd kx)) in
           match y with
           | VMap _ kvs => if all_items then existsb one kvs else match kvs with kx :: _ => one kx | [] => false end
           | _ => false
           end)
    | HCounter k =>
        negb (isinst y [counter_origin]) ||
        (if len0 y then false
         else
           let one (kx : pyval * pyval) :=
             (negb (ignorable k) && fc k (fst kx)) || negb (isinst (snd kx) [c_int]) in
           match y with
           | VMap _ kvs => if all_items then existsb one kvs else match kvs with kx :: _ => one kx | [] => false end
           | _ => false
           end)
    | HTuple hs =>                                           (* find_cause_pep484585_tuple_fixed *)
        negb (isinst y [c_tuple]) ||
        negb (Nat.eqb (List.length (items y)) (List.length hs)) ||
        (fix go (l : list hint) (n : nat) : bool :=
           match l with
           | [] => false
           | h' :: l' => (negb (ignorable h') && fc h' (nth n (items y) VNone)) || go l' (S n)
           end) hs 0
    | HLiteral vs =>                                         (* errpep586 *)
        negb (existsb (fun v => isinst y [type_of v] && py_eq y v) vs)
    | HType cs =>                                            (* errpep484585subclass *)
        negb (isinst y [c_type]) || negb (match issubcls y cs with Some b => b | None => false end)
    | HAnnot mh vs =>                                        (* errpep593 *)
        (negb (ignorable mh) && fc mh y) || existsb (fun v => negb (vmean pb v y)) vs
    end.

  (* errmain._find_hint_object_violation_cause on the root hint *)
  Definition find_cause (h : hint) (y : pyval) : bool := if ignorable h then false else fc h y.
End Cause.

(* what the caller of a rejecting check does next *)
Inductive signal := SViolation | SDesync.
Definition explain (cf : gconf) (all_items : bool) (r : Z) (pb : nat -> pyval -> bool) (h : hint) (y : pyval) : signal :=
  if find_cause cf all_items r pb h y then SViolation else SDesync.
