(* Shared core: the hint grammar G (after syntactic normalisation by `typing` itself), its
   published full-depth meaning [sat], and the code generator [gen] mirroring
   beartype/_check/code/codemain.py:make_check_expr (with the per-family logic of
   _check/cls/logic/logcls.py, the union logic of codepep484604union.py and the subclass logic
   of codepep484585subclass.py) over the regenerated templates of Gen/Templates.v.
   No proofs here. *)
From Coq Require Import List ZArith Bool Arith String.
From BT Require Import Gen.ClassTable Gen.SignSets Gen.Templates Core.PyVal Core.Expr.
Import ListNotations.
Local Open Scope list_scope.

(* beartype.vale validators: Is[f], IsAttr[name, v], IsEqual[o], IsInstance[...], IsSubclass[...]
   and their combinations with &, | and ~.  [VIs f] names a user callable by its index in the
   table of modelled predicates. *)
Inductive vexp :=
| VIs (f : nat)
| VAttr (name : string) (v : vexp)
| VEqual (o : pyval)
| VInst (cs : list nat)
| VSub (cs : list nat)
| VAnd (a b : vexp)
| VOr (a b : vexp)
| VNot (a : vexp).

Inductive hint :=
| HAny                                 (* typing.Any / object *)
| HCls (c : nat)                       (* a plain class, or None (NoneType) *)
| HShallow (c : nat)                   (* a subscripted hint checked by isinstance only (Iterator[T], ...) *)
| HUnion (hs : list hint)
| HCont (s : nat) (child : hint)       (* one-argument container hint of sign s *)
| HMap (s : nat) (k v : hint)
| HCounter (k : hint)
| HTuple (hs : list hint)              (* fixed-length tuple; [] is tuple[()] *)
| HLiteral (vs : list pyval)
| HType (cs : list nat)                (* type[C] / type[Union[C1, ...]] *)
| HAnnot (h : hint) (vs : list vexp).  (* Annotated[h, v1, ..., vn] with beartype validators *)

(* ------------------------------------------------------------------ meaning *)

(* items a check may legitimately look at: those of a re-iterable collection *)
Definition coll_items (x : pyval) : option (list pyval) :=
  if issub (type_of x) c_Collection then items_of x else None.

(* the boolean meaning of a validator, given what the user callables answer *)
Fixpoint vmean (pb : nat -> pyval -> bool) (v : vexp) (x : pyval) : bool :=
  match v with
  | VIs f => pb f x
  | VAttr n w => match py_getattr x n with Some a => vmean pb w a | None => false end
  | VEqual o => py_eq x o
  | VInst cs => isinst x cs
  | VSub cs => isinst x [c_type] && match issubcls x cs with Some b => b | None => false end
  | VAnd a b => vmean pb a x && vmean pb b x
  | VOr a b => vmean pb a x || vmean pb b x
  | VNot a => negb (vmean pb a x)
  end.

Definition lit_member (x v : pyval) : bool := py_eq x v && Nat.eqb (type_of x) (type_of v).

Section Sat.
Variable pb : nat -> pyval -> bool.

Fixpoint sat (h : hint) (x : pyval) {struct h} : bool :=
  match h with
  | HAny => true
  | HCls c => isinst x [c]
  | HShallow c => isinst x [c]
  | HUnion hs =>
      (fix any (l : list hint) : bool :=
         match l with [] => false | h' :: l' => sat h' x || any l' end) hs
  | HCont s ch =>
      isinst x [sign_origin s] &&
      match coll_items x with
      | Some l => forallb (sat ch) l
      | None => true                   (* one-shot iterables: nothing can be judged without consuming *)
      end
  | HMap s k v =>
      isinst x [map_origin s] &&
      match x with
      | VMap _ kvs => forallb (fun kv => sat k (fst kv) && sat v (snd kv)) kvs
      | _ => true
      end
  | HCounter k =>
      isinst x [counter_origin] &&
      match x with
      | VMap _ kvs => forallb (fun kv => sat k (fst kv) && isinst (snd kv) [c_int]) kvs
      | _ => true
      end
  | HTuple hs =>
      isinst x [c_tuple] &&
      match items_of x with
      | Some l =>
          (fix all2 (hl : list hint) (ys : list pyval) : bool :=
             match hl, ys with
             | [], [] => true
             | h' :: hl', y :: ys' => sat h' y && all2 hl' ys'
             | _, _ => false
             end) hs l
      | None => false
      end
  | HLiteral vs => existsb (lit_member x) vs
  | HType cs => match issubcls x cs with Some b => b | None => false end
  | HAnnot mh vs => sat mh x && forallb (fun v => vmean pb v x) vs
  end.
End Sat.

(* ------------------------------------------------------------------ reduction *)

(* hints that accept every object: elided by the generator *)
Fixpoint ignorable (h : hint) : bool :=
  match h with
  | HAny => true
  | HCls c => Nat.eqb c c_object
  | HUnion hs => (fix any (l : list hint) : bool :=
                    match l with [] => false | h' :: l' => ignorable h' || any l' end) hs
  | _ => false
  end.

(* ------------------------------------------------------------------ generation *)

Record gconf := { is_random : bool }.

Definition simple (e : expr) : bool :=
  match e with EVar _ | EWalrus _ _ => true | _ => false end.

Definition nonpep_class (h : hint) : option nat := match h with HCls c => Some c | _ => None end.

Fixpoint join (op : expr -> expr -> expr) (l : list expr) : expr :=
  match l with
  | [] => ETrue
  | [e] => e
  | e :: l' => op e (join op l')
  end.

Fixpoint dedup (l : list nat) : list nat :=
  match l with
  | [] => []
  | x :: l' => if existsb (Nat.eqb x) l' then dedup l' else x :: dedup l'
  end.

(* the temporary a nested IsAttr binds: "<obj>_isattr_<name>" *)
Definition attr_tmp (obj : var) (name : string) : var :=
  match obj with
  | Pith n => Tmp n [name]
  | Tmp n p => Tmp n (p ++ [name])
  end.

(* the inline code of a validator applied to the local variable [obj] (mirrors the string
   composition in beartype/vale/_core/_valecore{binary,unary}.py and vale/_is/*.py over the
   regenerated snippets) *)
Fixpoint vcode (v : vexp) (obj : var) : expr :=
  match v with
  | VIs f => ECallPred f (EVar obj)
  | VAttr n w => tpl_vale_isattr n (vcode w (attr_tmp obj n)) (attr_tmp obj n) (EVar obj)
  | VEqual o => tpl_vale_isequal o (EVar obj)
  | VInst cs => tpl_vale_isinstance (EVar obj) cs
  | VSub cs => tpl_vale_issubclass (EVar obj) cs
  | VAnd a b => EAnd (vcode a obj) (vcode b obj)
  | VOr a b => EOr (vcode a obj) (vcode b obj)
  | VNot a => ENot (vcode a obj)
  end.

Definition is_ident (e : expr) : option var := match e with EVar x => Some x | _ => None end.

Section Gen.
  Variable cf : gconf.

  Definition seq_child (v : expr) : expr :=
    if is_random cf then tpl_sequence_child_random v else tpl_sequence_child_first v.

  (* [gen h pith idx]: code checking the object denoted by [pith]; [idx] is the index of the
     pith variable current at this node (HintDataCode.pith_var_name_index) *)
  Fixpoint gen (h : hint) (pith : expr) (idx : nat) {struct h} : expr :=
    let i := if simple pith then idx else S idx in
    let assign := if simple pith then pith else tpl_assign pith (Pith (S idx)) in
    let v := EVar (Pith i) in
    match h with
    | HAny => ETrue                                  (* never reached: ignorable hints are elided *)
    | HCls c => tpl_instance [c] pith
    | HShallow c => tpl_instance [c] pith
    | HUnion hs =>
        let nonpep := dedup (flat_map (fun h' => match nonpep_class h' with Some c => [c] | None => [] end) hs) in
        let has_nonpep := match nonpep with [] => false | _ => true end in
        let peps :=
          (fix go (l : list hint) (first : bool) : list expr :=
             match l with
             | [] => []
             | h' :: l' =>
                 match nonpep_class h' with
                 | Some _ => go l' first
                 | None => gen h' (if first && negb has_nonpep then assign else v) i :: go l' false
                 end
             end) hs true in
        let has_pep := match peps with [] => false | _ => true end in
        join tpl_union_op
          ((if has_nonpep then [tpl_union_nonpep nonpep (if has_pep then assign else pith)] else []) ++ peps)
    | HCont s ch =>
        if ignorable ch then tpl_instance [sign_origin s] pith else
        match sign_family s with
        | Some FSequence => tpl_container (gen ch (seq_child v) i) [sign_origin s] assign v
        | Some FReiterable => tpl_container (gen ch (tpl_reiterable_child v) i) [sign_origin s] assign v
        | Some FQuasi =>
            let cv := Pith (S i) in
            tpl_quasiiterable [quasi_collection_abc] (gen ch (EVar cv) (S i)) [sign_origin s] cv assign v
                              [quasi_sequence_abc] (seq_child v)
        | None => ETrue
        end
    | HMap s k vh =>
        match ignorable k, ignorable vh with
        | true, true => tpl_instance [map_origin s] pith
        | false, false =>
            let kv := Pith (S i) in
            tpl_mapping
              (tpl_mapping_key_value (gen k (EVar kv) (S i))
                 (gen vh (tpl_mapping_key_value_child v (EVar kv)) (S i)) v kv)
              [map_origin s] assign v
        | false, true =>
            tpl_mapping (tpl_mapping_key_only (gen k (tpl_mapping_key_only_child v) i)) [map_origin s] assign v
        | true, false =>
            tpl_mapping (tpl_mapping_value_only (gen vh (tpl_mapping_value_only_child v) i)) [map_origin s] assign v
        end
    | HCounter k =>
        if ignorable k then
          tpl_mapping (tpl_mapping_value_only (tpl_instance [c_int] (tpl_mapping_value_only_child v)))
                      [counter_origin] assign v
        else
          let kv := Pith (S i) in
          tpl_mapping
            (tpl_mapping_key_value (gen k (EVar kv) (S i))
               (tpl_instance [c_int] (tpl_mapping_key_value_child v (EVar kv))) v kv)
            [counter_origin] assign v
    | HTuple hs =>
        match hs with
        | [] => tpl_tuple_op (tpl_tuple_prefix assign) (tpl_tuple_empty v)
        | _ =>
            let kids :=
              (fix go (l : list hint) (n : Z) : list expr :=
                 match l with
                 | [] => []
                 | h' :: l' =>
                     if ignorable h' then go l' (n + 1)%Z
                     else gen h' (tpl_tuple_child n v) i :: go l' (n + 1)%Z
                 end) hs 0%Z in
            join tpl_tuple_op (tpl_tuple_prefix assign :: tpl_tuple_len (Z.of_nat (List.length hs)) v :: kids)
        end
    | HLiteral vs =>
        tpl_literal_outer_op (tpl_literal_prefix (dedup (map type_of vs)) assign)
                             (join tpl_literal_inner_op (map (fun l => tpl_literal_item l v) vs))
    | HType cs => tpl_subclass cs assign v
    | HAnnot mh vs =>
        if ignorable mh then
          match is_ident pith with
          | Some x => join tpl_annotated_op (map (fun w => vcode w x) vs)
          | None => join tpl_annotated_op (tpl_annotated_pith assign v :: map (fun w => vcode w (Pith i)) vs)
          end
        else join tpl_annotated_op (gen mh assign i :: map (fun w => vcode w (Pith i)) vs)
    end.

  (* the checker of a root hint: pith variable 0 holds the object *)
  Definition check_expr (h : hint) : expr :=
    if ignorable h then ETrue else gen h (EVar (Pith 0)) 0.
End Gen.
