(* Shared core: well-formed objects and the *sampled* check semantics [chk] — what the
   generated code of Core/Hint.v computes, written as a plain function of (hint, object, draw).
   Core/GenProofs.v proves that the generated expression evaluates to exactly [chk]; the
   property theorems (C01 C02 ...) are then statements about [chk] and [sat].  No proofs here. *)
From Coq Require Import List ZArith Bool Arith String.
From BT Require Import Gen.ClassTable Gen.SignSets Core.PyVal Core.Expr Core.Hint.
Import ListNotations.
Local Open Scope list_scope.

(* classes whose instances are modelled as plain scalars / attribute bags *)
Definition plain (c : nat) : bool :=
  negb (issub c c_Sized) && negb (issub c c_Iterable) && negb (issub c c_Container)
  && negb (issub c c_type).

(* the object's shape is the one its class promises, all the way down; dictionary keys are
   hashable in the sense that they equal themselves *)
Fixpoint wf (v : pyval) : bool :=
  match v with
  | VNone | VBool _ | VInt _ | VFloat _ | VStr _ | VBytes _ | VCls _ => true
  | VCont c l =>
      negb (issub c c_Mapping) && negb (issub c c_type) && negb (issub c c_str) && negb (issub c c_bytes)
      && forallb wf l
  | VMap c kvs =>
      issub c c_Mapping && negb (issub c c_type)
      && forallb (fun kv => wf (fst kv) && wf (snd kv) && py_eq (fst kv) (fst kv)) kvs
  | VObj c attrs => plain c && forallb (fun a => wf (snd a)) attrs
  end.

(* user callables inside Is[...] are modelled as total boolean functions *)
Definition preds_of (pb : nat -> pyval -> bool) (f : nat) (v : pyval) : res pyval := Ok (VBool (pb f v)).

Section Chk.
  Variable cf : gconf.
  Variable r : Z.
  Variable pb : nat -> pyval -> bool.      (* what the user callables of Is[...] answer *)

  Definition items (y : pyval) : list pyval := match items_of y with Some l => l | None => [] end.
  Definition len0 (y : pyval) : bool := match items y with [] => true | _ => false end.
  Definition first (y : pyval) : pyval := nth 0 (items y) VNone.
  Definition sample (y : pyval) : pyval :=
    if is_random cf then
      match items y with
      | [] => VNone
      | _ => nth (Z.to_nat (r mod Z.of_nat (List.length (items y)))) (items y) VNone
      end
    else first y.
  Definition first_value (y : pyval) : pyval :=
    match y with VMap _ ((_, x) :: _) => x | _ => VNone end.
  Definition value_of_first_key (y : pyval) : pyval :=
    match y with VMap _ kvs => match lookup (first y) kvs with Some x => x | None => VNone end | _ => VNone end.

  Fixpoint chk (h : hint) (y : pyval) {struct h} : bool :=
    match h with
    | HAny => true
    | HCls c => isinst y [c]
    | HShallow c => isinst y [c]
    | HUnion hs =>
        (fix any (l : list hint) : bool :=
           match l with [] => false | h' :: l' => chk h' y || any l' end) hs
    | HCont s ch =>
        if ignorable ch then isinst y [sign_origin s] else
        match sign_family s with
        | Some FSequence => isinst y [sign_origin s] && (len0 y || chk ch (sample y))
        | Some FReiterable => isinst y [sign_origin s] && (len0 y || chk ch (first y))
        | Some FQuasi =>
            isinst y [sign_origin s] &&
            (negb (isinst y [quasi_collection_abc]) || len0 y
             || chk ch (if isinst y [quasi_sequence_abc] then sample y else first y))
        | None => true
        end
    | HMap s k v =>
        isinst y [map_origin s] &&
        (len0 y ||
         ((if ignorable k then true else chk k (first y)) &&
          (if ignorable v then true
           else chk v (if ignorable k then first_value y else value_of_first_key y))))
    | HCounter k =>
        isinst y [counter_origin] &&
        (len0 y ||
         ((if ignorable k then true else chk k (first y)) &&
          isinst (if ignorable k then first_value y else value_of_first_key y) [c_int]))
    | HTuple hs =>
        isinst y [c_tuple] && Nat.eqb (List.length (items y)) (List.length hs) &&
        (fix go (l : list hint) (n : nat) : bool :=
           match l with
           | [] => true
           | h' :: l' => (if ignorable h' then true else chk h' (nth n (items y) VNone)) && go l' (S n)
           end) hs 0
    | HLiteral vs => isinst y (map type_of vs) && existsb (py_eq y) vs
    | HType cs => isinst y [c_type] && match issubcls y cs with Some b => b | None => false end
    | HAnnot mh vs => (if ignorable mh then true else chk mh y) && forallb (fun v => vmean pb v y) vs
    end.

  Definition check (h : hint) (y : pyval) : bool := if ignorable h then true else chk h y.
End Chk.
