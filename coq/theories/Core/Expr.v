(* Shared core: the expression language of beartype's generated type-checking code and its
   evaluation on the object universe of Core/PyVal.v, producing a result (value or Python
   exception), the local-variable environment and the trace of protocol operations performed
   on the objects inspected.  No proofs here. *)
From Coq Require Import List ZArith Bool Arith String.
From BT Require Import Gen.ClassTable Core.PyVal.
Import ListNotations.
Local Open Scope list_scope.

(* local variables of a generated checker: pith variables __beartype_pith_<n> and the
   temporaries IsAttr validators create (named by text in the real code) *)
Inductive var := Pith (n : nat) | Tmp (n : nat) (path : list string).
(* Tmp n [a1; ...; ak] stands for the name "__beartype_pith_<n>_isattr_<a1>_..._isattr_<ak>" *)

Fixpoint path_eqb (a b : list string) : bool :=
  match a, b with
  | [], [] => true
  | x :: a', y :: b' => String.eqb x y && path_eqb a' b'
  | _, _ => false
  end.

Definition var_eqb (a b : var) : bool :=
  match a, b with
  | Pith n, Pith m => Nat.eqb n m
  | Tmp n p, Tmp m q => Nat.eqb n m && path_eqb p q
  | _, _ => false
  end.

Inductive expr :=
| EVar (x : var)
| ERand                                   (* __beartype_random_int *)
| EInt (z : Z)
| ELit (v : pyval)                        (* an object held in the checker's scope *)
| ETrue
| EIsInst (e : expr) (cs : list nat)      (* isinstance(e, (classes)) *)
| EIsSub (e : expr) (cs : list nat)       (* issubclass(e, (classes)) *)
| ELen (e : expr)
| EIndex (e i : expr)                     (* e[i] *)
| EMod (a b : expr)
| EFirst (e : expr)                       (* next(iter(e)) *)
| EFirstValue (e : expr)                  (* next(iter(e.values())) *)
| EEq (a b : expr)
| EIs (a b : expr)                        (* a is b *)
| ENot (e : expr)
| EAnd (a b : expr)
| EOr (a b : expr)
| EWalrus (x : var) (e : expr)            (* (x := e) *)
| ELet (x : var) (e : expr)               (* (x := e) is x *)
| ECallPred (f : nat) (e : expr)          (* f(e) for a user callable f from Is[...] *)
| EAttrLet (x : var) (e : expr) (name : string). (* (x := getattr(e, name, SENTINEL)) is not SENTINEL *)

(* protocol operations a check performs on the objects it inspects *)
Inductive top :=
| TInst (v : pyval) | TSub (v : pyval)
| TLen (v : pyval) | TBool (v : pyval)
| TItem (v i : pyval) | TFirst (v : pyval) | TFirstValue (v : pyval)
| TEq (a b : pyval) | TCall (f : nat) (v : pyval) | TAttr (v : pyval) (n : string).

Record st := { env : list (var * pyval); trace : list top }.

Definition st0 (x : pyval) : st := {| env := [(Pith 0, x)]; trace := [] |}.

Fixpoint env_get (x : var) (e : list (var * pyval)) : option pyval :=
  match e with
  | [] => None
  | (y, v) :: r => if var_eqb x y then Some v else env_get x r
  end.

Definition bind (x : var) (v : pyval) (s : st) : st := {| env := (x, v) :: env s; trace := trace s |}.
Definition log (t : top) (s : st) : st := {| env := env s; trace := trace s ++ [t] |}.

Definition is_container (v : pyval) : bool :=
  match v with VCont _ _ | VMap _ _ | VStr _ | VBytes _ => true | _ => false end.

Section Eval.
  (* the draw and the user callables reachable from validators *)
  Variable r : Z.
  Variable preds : nat -> pyval -> res pyval.

  Fixpoint eval (e : expr) (s : st) : res pyval * st :=
    match e with
    | EVar x => match env_get x (env s) with
                | Some v => (Ok v, s)
                | None => (Exc NameError, s)
                end
    | ERand => (Ok (VInt r), s)
    | EInt z => (Ok (VInt z), s)
    | ELit v => (Ok v, s)
    | ETrue => (Ok (VBool true), s)
    | EIsInst e cs =>
        match eval e s with
        | (Ok v, s1) => (Ok (VBool (isinst v cs)), log (TInst v) s1)
        | (Exc x, s1) => (Exc x, s1)
        end
    | EIsSub e cs =>
        match eval e s with
        | (Ok v, s1) => match issubcls v cs with
                        | Some b => (Ok (VBool b), log (TSub v) s1)
                        | None => (Exc TypeError, s1)
                        end
        | (Exc x, s1) => (Exc x, s1)
        end
    | ELen e =>
        match eval e s with
        | (Ok v, s1) => match py_len v with
                        | Ok n => (Ok (VInt n), log (TLen v) s1)
                        | Exc x => (Exc x, s1)
                        end
        | (Exc x, s1) => (Exc x, s1)
        end
    | EIndex e i =>
        match eval e s with
        | (Ok v, s1) =>
            match eval i s1 with
            | (Ok iv, s2) => match py_index v iv with
                             | Ok y => (Ok y, log (TItem v iv) s2)
                             | Exc x => (Exc x, log (TItem v iv) s2)
                             end
            | (Exc x, s2) => (Exc x, s2)
            end
        | (Exc x, s1) => (Exc x, s1)
        end
    | EMod a b =>
        match eval a s with
        | (Ok va, s1) =>
            match eval b s1 with
            | (Ok vb, s2) =>
                match va, vb with
                | VInt x, VInt y => if Z.eqb y 0 then (Exc ZeroDivisionError, s2)
                                    else (Ok (VInt (x mod y)), s2)
                | _, _ => (Exc TypeError, s2)
                end
            | (Exc x, s2) => (Exc x, s2)
            end
        | (Exc x, s1) => (Exc x, s1)
        end
    | EFirst e =>
        match eval e s with
        | (Ok v, s1) => match py_first v with
                        | Ok y => (Ok y, log (TFirst v) s1)
                        | Exc x => (Exc x, log (TFirst v) s1)
                        end
        | (Exc x, s1) => (Exc x, s1)
        end
    | EFirstValue e =>
        match eval e s with
        | (Ok v, s1) => match py_first_value v with
                        | Ok y => (Ok y, log (TFirstValue v) s1)
                        | Exc x => (Exc x, log (TFirstValue v) s1)
                        end
        | (Exc x, s1) => (Exc x, s1)
        end
    | EEq a b =>
        match eval a s with
        | (Ok va, s1) =>
            match eval b s1 with
            | (Ok vb, s2) => (Ok (VBool (py_eq va vb)), log (TEq va vb) s2)
            | (Exc x, s2) => (Exc x, s2)
            end
        | (Exc x, s1) => (Exc x, s1)
        end
    | EIs a b =>
        match eval a s with
        | (Ok va, s1) =>
            match eval b s1 with
            | (Ok vb, s2) => (Ok (VBool (val_same va vb)), s2)
            | (Exc x, s2) => (Exc x, s2)
            end
        | (Exc x, s1) => (Exc x, s1)
        end
    | ENot e =>
        match eval e s with
        | (Ok v, s1) => (Ok (VBool (negb (truthy v))), if is_container v then log (TBool v) s1 else s1)
        | (Exc x, s1) => (Exc x, s1)
        end
    | EAnd a b =>
        match eval a s with
        | (Ok va, s1) => if truthy va then eval b s1 else (Ok va, s1)
        | (Exc x, s1) => (Exc x, s1)
        end
    | EOr a b =>
        match eval a s with
        | (Ok va, s1) => if truthy va then (Ok va, s1) else eval b s1
        | (Exc x, s1) => (Exc x, s1)
        end
    | EWalrus x e =>
        match eval e s with
        | (Ok v, s1) => (Ok v, bind x v s1)
        | (Exc y, s1) => (Exc y, s1)
        end
    | ELet x e =>
        match eval e s with
        | (Ok v, s1) => (Ok (VBool true), bind x v s1)
        | (Exc y, s1) => (Exc y, s1)
        end
    | ECallPred f e =>
        match eval e s with
        | (Ok v, s1) => match preds f v with
                        | Ok y => (Ok y, log (TCall f v) s1)
                        | Exc x => (Exc x, log (TCall f v) s1)
                        end
        | (Exc x, s1) => (Exc x, s1)
        end
    | EAttrLet x e name =>
        match eval e s with
        | (Ok v, s1) => match py_getattr v name with
                        | Some a => (Ok (VBool true), bind x a (log (TAttr v name) s1))
                        | None => (Ok (VBool false), log (TAttr v name) s1)
                        end
        | (Exc y, s1) => (Exc y, s1)
        end
    end.

  (* the verdict of a whole check expression on root object x *)
  Definition verdict (e : expr) (x : pyval) : res bool :=
    match fst (eval e (st0 x)) with
    | Ok v => Ok (truthy v)
    | Exc y => Exc y
    end.

  Definition trace_of (e : expr) (x : pyval) : list top := trace (snd (eval e (st0 x))).
End Eval.
