(* Shared core: induction principles for the nested inductives [hint] and [pyval]. *)
From Coq Require Import List ZArith Bool Arith String.
From BT Require Import Gen.ClassTable Core.PyVal Core.Expr Core.Hint.
Import ListNotations.
Local Open Scope list_scope.

(* ------------------------------------------------------------ induction on hints *)
Section HintInd.
  Variable P : hint -> Prop.
  Hypothesis PAny : P HAny.
  Hypothesis PCls : forall c, P (HCls c).
  Hypothesis PShallow : forall c, P (HShallow c).
  Hypothesis PUnion : forall hs, Forall P hs -> P (HUnion hs).
  Hypothesis PCont : forall s ch, P ch -> P (HCont s ch).
  Hypothesis PMap : forall s k v, P k -> P v -> P (HMap s k v).
  Hypothesis PCounter : forall k, P k -> P (HCounter k).
  Hypothesis PTuple : forall hs, Forall P hs -> P (HTuple hs).
  Hypothesis PLiteral : forall vs, P (HLiteral vs).
  Hypothesis PType : forall cs, P (HType cs).
  Hypothesis PAnnot : forall mh vs, P mh -> P (HAnnot mh vs).

  Fixpoint hint_ind2 (h : hint) : P h :=
    match h with
    | HAny => PAny
    | HCls c => PCls c
    | HShallow c => PShallow c
    | HUnion hs => PUnion hs ((fix go (l : list hint) : Forall P l :=
                                 match l with [] => Forall_nil P | x :: l' => Forall_cons x (hint_ind2 x) (go l') end) hs)
    | HCont s ch => PCont s ch (hint_ind2 ch)
    | HMap s k v => PMap s k v (hint_ind2 k) (hint_ind2 v)
    | HCounter k => PCounter k (hint_ind2 k)
    | HTuple hs => PTuple hs ((fix go (l : list hint) : Forall P l :=
                                 match l with [] => Forall_nil P | x :: l' => Forall_cons x (hint_ind2 x) (go l') end) hs)
    | HLiteral vs => PLiteral vs
    | HType cs => PType cs
    | HAnnot mh vs => PAnnot mh vs (hint_ind2 mh)
    end.
End HintInd.

(* ------------------------------------------------------------ induction on objects *)
Section PyvalInd.
  Variable P : pyval -> Prop.
  Hypothesis PNone : P VNone.
  Hypothesis PBool : forall b, P (VBool b).
  Hypothesis PInt : forall z, P (VInt z).
  Hypothesis PFloat : forall z, P (VFloat z).
  Hypothesis PStr : forall s, P (VStr s).
  Hypothesis PBytes : forall s, P (VBytes s).
  Hypothesis PCont : forall c l, Forall P l -> P (VCont c l).
  Hypothesis PMap : forall c kvs, Forall (fun kv => P (fst kv) /\ P (snd kv)) kvs -> P (VMap c kvs).
  Hypothesis PCls : forall c, P (VCls c).
  Hypothesis PObj : forall c attrs, Forall (fun a => P (snd a)) attrs -> P (VObj c attrs).

  Fixpoint pyval_ind2 (v : pyval) : P v :=
    match v with
    | VNone => PNone | VBool b => PBool b | VInt z => PInt z | VFloat z => PFloat z
    | VStr s => PStr s | VBytes s => PBytes s
    | VCont c l => PCont c l ((fix go (l : list pyval) : Forall P l :=
                                 match l with [] => Forall_nil P | x :: l' => Forall_cons x (pyval_ind2 x) (go l') end) l)
    | VMap c kvs =>
        PMap c kvs ((fix go (l : list (pyval * pyval)) : Forall (fun kv => P (fst kv) /\ P (snd kv)) l :=
                       match l with
                       | [] => Forall_nil _
                       | (k, x) :: l' => Forall_cons (k, x) (conj (pyval_ind2 k) (pyval_ind2 x)) (go l')
                       end) kvs)
    | VCls c => PCls c
    | VObj c attrs =>
        PObj c attrs ((fix go (l : list (string * pyval)) : Forall (fun a => P (snd a)) l :=
                         match l with
                         | [] => Forall_nil _
                         | (k, x) :: l' => Forall_cons (k, x) (pyval_ind2 x) (go l')
                         end) attrs)
    end.
End PyvalInd.

Lemma val_same_refl v : val_same v v = true.
Proof.
  induction v using pyval_ind2; cbn [val_same];
    try reflexivity; try apply Bool.eqb_reflx; try apply Z.eqb_refl; try apply String.eqb_refl; try apply Nat.eqb_refl.
  - rewrite Nat.eqb_refl. cbn. induction H as [|x l Hx Hl IH]; [reflexivity|]. now rewrite Hx, IH.
  - rewrite Nat.eqb_refl. cbn. induction H as [|[k x] l [Hk Hx] Hl IH]; [reflexivity|]. cbn in *. now rewrite Hk, Hx, IH.
  - rewrite Nat.eqb_refl. cbn. induction H as [|[k x] l Hx Hl IH]; [reflexivity|]. cbn in *.
    now rewrite String.eqb_refl, Hx, IH.
Qed.

