(* Correspondence glue for the explanation path (C03): beartype's error path invoked directly
   on (configuration, hint, object, draw) — whether or not the generated code rejects — against
   [find_cause].  Evaluated by vm_compute in generated case files.  No proofs. *)
From Coq Require Import List ZArith Bool Arith String.
From BT Require Import Gen.ClassTable Gen.SignSets Core.PyVal Core.Expr Core.Hint Core.Check Core.Cause Core.Corr.
Import ListNotations.
Local Open Scope list_scope.

Record ccase := {
  q_random : bool; q_all : bool; q_hint : hint; q_val : pyval; q_draw : Z;
  q_found : bool }.           (* beartype's error path produced a violation (true) / desynchronised (false) *)

Definition check_ccase (k : ccase) : bool :=
  Bool.eqb (find_cause {| is_random := q_random k |} (q_all k) (q_draw k) pb_table (q_hint k) (q_val k)) (q_found k)
  && wf (q_val k).

Fixpoint cfailing_from (i : nat) (ks : list ccase) : list nat :=
  match ks with
  | [] => []
  | k :: r => if check_ccase k then cfailing_from (S i) r else i :: cfailing_from (S i) r
  end.
Definition cfailing (ks : list ccase) : list nat := cfailing_from 0 ks.
