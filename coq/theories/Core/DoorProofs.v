(* C19 proofs about the model of is_subhint (Core/Door.v). *)
From Coq Require Import List ZArith Bool Arith String Lia.
From BT Require Import Gen.ClassTable Gen.SignSets Core.PyVal Core.Expr Core.Hint Core.ClassFacts Core.Induct Core.Door.
Import ListNotations.
Local Open Scope list_scope.

(* ------------------------------------------------------------ three-valued all / any *)

Lemma any3_RT {A} (f : A -> r3) l : any3 f l = RT -> exists x, In x l /\ f x = RT.
Proof.
  induction l as [|a l IH]; cbn; [discriminate|]. destruct (f a) eqn:E; try discriminate.
  - intros _. exists a. auto.
  - intros H. destruct (IH H) as (x & Hin & Hx). exists x. auto.
Qed.

Lemma any3_not_RF {A} (f : A -> r3) l x : In x l -> f x <> RF -> any3 f l <> RF.
Proof.
  induction l as [|a l IH]; cbn; [tauto|]. intros [->|Hin] Hx.
  - destruct (f x); congruence.
  - destruct (f a); try congruence. now apply IH.
Qed.

Lemma all3_RT {A} (f : A -> r3) l : all3 f l = RT -> forall x, In x l -> f x = RT.
Proof.
  induction l as [|a l IH]; cbn; [tauto|]. destruct (f a) eqn:E; try discriminate.
  intros H x [<-|Hin]; auto.
Qed.

Lemma all3_not_RF {A} (f : A -> r3) l : (forall x, In x l -> f x <> RF) -> all3 f l <> RF.
Proof.
  induction l as [|a l IH]; cbn; [discriminate|]. intros H.
  destruct (f a) eqn:E; try congruence.
  - apply IH. intros x Hx. apply H. now right.
  - exfalso. apply (H a); auto.
Qed.

Lemma all3_2_RT f l m : all3_2 f l m = RT -> List.length l = List.length m ->
  forall i x y, nth_error l i = Some x -> nth_error m i = Some y -> f x y = RT.
Proof.
  revert m. induction l as [|a l IH]; intros [|b m]; cbn; try discriminate.
  - intros _ _ i x y H. destruct i; discriminate.
  - destruct (f a b) eqn:E; try discriminate. intros H Hl i x y Hx Hy.
    destruct i as [|i]; cbn in *.
    + inversion Hx; inversion Hy; subst. exact E.
    + apply (IH m H ltac:(lia) i); auto.
Qed.

Lemma all3_2_same_not_RF f l : (forall x, In x l -> f x x <> RF) -> all3_2 f l l <> RF.
Proof.
  induction l as [|a l IH]; cbn; [discriminate|]. intros H.
  destruct (f a a) eqn:E; try congruence.
  - apply IH. intros x Hx. apply H. now right.
  - exfalso. apply (H a); auto.
Qed.

(* ------------------------------------------------------------ 1. is_subhint(h, h) never answers False *)

Definition lit_ok (v : pyval) : bool :=
  match v with VNone | VBool _ | VInt _ | VStr _ | VBytes _ => true | _ => false end.

Fixpoint vexp_ok (v : vexp) : bool :=
  match v with
  | VEqual x => py_eq x x
  | VAttr _ w | VNot w => vexp_ok w
  | VAnd a b | VOr a b => vexp_ok a && vexp_ok b
  | _ => true
  end.

(* hints the model speaks about: class identifiers from the class table, scalar literal members,
   IsEqual payloads that equal themselves, signs of the sign tables *)
Fixpoint door_ok (h : hint) : bool :=
  match h with
  | HCls c | HShallow c => Nat.ltb c class_count
  | HUnion hs | HTuple hs =>
      (fix all (l : list hint) : bool := match l with [] => true | x :: l' => door_ok x && all l' end) hs
  | HCont s ch => issub (sign_origin s) (sign_origin s) && door_ok ch
  | HCounter ch => door_ok ch
  | HMap m k v => issub (map_origin m) (map_origin m) && door_ok k && door_ok v
  | HAnnot mh vs => door_ok mh && forallb vexp_ok vs
  | HType cs => forallb (fun c => Nat.ltb c class_count) cs
  | HLiteral vs => forallb lit_ok vs
  | HAny => true
  end.

Lemma door_ok_list l :
  (fix all (l : list hint) : bool := match l with [] => true | x :: l' => door_ok x && all l' end) l = true ->
  forall x, In x l -> door_ok x = true.
Proof.
  induction l as [|a l IH]; [intros _ x []|]. intros H x [<-|Hin]; apply andb_true_iff in H as [H1 H2]; auto.
Qed.

Lemma py_eq_refl_lit v : lit_ok v = true -> py_eq v v = true.
Proof.
  destruct v; cbn; try discriminate; intros _; unfold scalar_eq; cbn; try apply Z.eqb_refl; try apply String.eqb_refl.
  - reflexivity.
Qed.

Lemma nats_eq_refl cs : nats_eq cs cs = true.
Proof. unfold nats_eq. induction cs as [|c cs IH]; [reflexivity|]. now rewrite Nat.eqb_refl. Qed.

Lemma vexp_same_refl v : vexp_same v v = true.
Proof.
  induction v; cbn [vexp_same]; rewrite ?IHv, ?IHv1, ?IHv2; try reflexivity.
  - apply Nat.eqb_refl.
  - now rewrite String.eqb_refl.
  - apply val_same_refl.
  - apply nats_eq_refl.
  - apply nats_eq_refl.
Qed.

Lemma vexp_memo_eq_refl v : vexp_memo v = true -> vexp_ok v = true -> vexp_memo_eq v v = true.
Proof.
  induction v; cbn [vexp_memo vexp_ok vexp_memo_eq]; try discriminate; intros Hm Hk.
  - rewrite String.eqb_refl. now apply IHv.
  - exact Hk.
  - apply nats_eq_refl.
  - apply nats_eq_refl.
Qed.

Lemma vexp_eqb_refl v : vexp_ok v = true -> vexp_eqb v v = true.
Proof.
  intros Hk. unfold vexp_eqb. destruct (vexp_memo v) eqn:E; cbn [andb].
  - now apply vexp_memo_eq_refl.
  - apply vexp_same_refl.
Qed.

Lemma vexps_eqb_refl vs : forallb vexp_ok vs = true -> vexps_eqb vs vs = true.
Proof.
  induction vs as [|v vs IH]; [reflexivity|]. cbn. intros H. apply andb_true_iff in H as [H1 H2].
  now rewrite (vexp_eqb_refl v H1), IH.
Qed.

Lemma same_sign_refl h : match kind_of h with KSub | KTupleVar => same_sign h h = true | _ => True end.
Proof.
  destruct h; cbn [kind_of same_sign]; try exact I; try apply Nat.eqb_refl; try reflexivity.
  destruct (Nat.eqb s s_Tuple); apply Nat.eqb_refl.
Qed.

Lemma sub_cls_refl n c : c < class_count -> sub n (HCls c) (HCls c) <> RF.
Proof.
  intros Hc. destruct n as [|n]; [discriminate|].
  cbn [sub is_any orb branches any3 args_ignorable origin andb]. rewrite (issub_refl c Hc). discriminate.
Qed.

Lemma sub_cls_union_refl n cs : forallb (fun c => Nat.ltb c class_count) cs = true ->
  sub n (HUnion (map HCls cs)) (HUnion (map HCls cs)) <> RF.
Proof.
  intros Hok. destruct n as [|n]; [discriminate|]. cbn [sub is_any orb]. apply all3_not_RF. intros this Hin.
  apply (any3_not_RF _ _ this Hin). apply in_map_iff in Hin as (c & <- & Hc).
  rewrite forallb_forall in Hok. apply sub_cls_refl. apply Nat.ltb_lt. now apply Hok.
Qed.

Lemma type_child_refl n cs : forallb (fun c => Nat.ltb c class_count) cs = true ->
  all3_2 (sub n) (children (HType cs)) (children (HType cs)) <> RF.
Proof.
  intros Hok. cbn [children].
  destruct cs as [|c [|d cs']].
  - cbn [all3_2]. pose proof (sub_cls_union_refl n [] Hok) as G. destruct (sub n (HUnion (map HCls [])) (HUnion (map HCls []))); congruence.
  - cbn [all3_2]. cbn [forallb] in Hok. rewrite andb_true_r in Hok. apply Nat.ltb_lt in Hok.
    pose proof (sub_cls_refl n c Hok) as G. destruct (sub n (HCls c) (HCls c)); congruence.
  - cbn [all3_2]. pose proof (sub_cls_union_refl n (c :: d :: cs') Hok) as G.
    destruct (sub n (HUnion (map HCls (c :: d :: cs'))) (HUnion (map HCls (c :: d :: cs')))); congruence.
Qed.

Definition refl_goal (h : hint) : Prop :=
  forall n, door_ok h = true -> sub n h h <> RF /\ eqh n h h <> RF.

Lemma and3_same_not_RF a : a <> RF -> and3 a (fun _ => a) <> RF.
Proof. destruct a; cbn; congruence. Qed.

(* the generic (mutual subhint) equality *)
Lemma eqh_generic n h : sub n h h <> RF -> and3 (sub n h h) (fun _ => sub n h h) <> RF.
Proof. apply and3_same_not_RF. Qed.

Theorem refl_never_false h : refl_goal h.
Proof.
  induction h using hint_ind2; intros n Hok; (destruct n as [|n]; [split; cbn; discriminate|]).
  - split; [cbn; discriminate|]. destruct n; cbn; discriminate.
  - (* class *)
    cbn [door_ok] in Hok. apply Nat.ltb_lt in Hok.
    assert (G : forall k, sub k (HCls c) (HCls c) <> RF) by (intros k; now apply sub_cls_refl).
    split; [apply G|]. cbn [eqh kind_of]. apply eqh_generic, G.
  - (* shallow subscripted hints *)
    cbn [door_ok] in Hok. apply Nat.ltb_lt in Hok.
    assert (G : forall k, sub k (HShallow c) (HShallow c) <> RF).
    { intros [|k]; [discriminate|].
      cbn [sub is_any orb branches any3 args_ignorable origin children forallb kind_of wrapper_instance].
      rewrite (issub_refl c Hok). discriminate. }
    split; [apply G|]. cbn [eqh kind_of args_ignorable children forallb andb origin]. rewrite Nat.eqb_refl. discriminate.
  - (* union *)
    assert (G : forall k, sub k (HUnion hs) (HUnion hs) <> RF).
    { intros [|k]; [discriminate|]. cbn [sub is_any orb]. apply all3_not_RF. intros this Hin.
      apply (any3_not_RF _ hs this Hin). rewrite Forall_forall in H. apply H; [exact Hin|].
      cbn [door_ok] in Hok. now apply (door_ok_list hs). }
    split; [apply G|]. cbn [eqh kind_of]. apply eqh_generic, G.
  - (* one-argument containers *)
    cbn [door_ok] in Hok. apply andb_true_iff in Hok as [Ho Hch].
    assert (K : wrapper_instance (kind_of (HCont s h)) (kind_of (HCont s h)) = true)
      by (cbn [kind_of]; destruct (Nat.eqb s s_Tuple); reflexivity).
    split.
    + cbn [sub is_any orb branches any3 origin]. rewrite Ho. cbn [negb].
      destruct (args_ignorable (HCont s h)); [discriminate|]. rewrite K.
      cbn [negb children List.length Nat.eqb all3_2].
      destruct (IHh n Hch) as [G _]. destruct (sub n h h); try congruence; discriminate.
    + pose proof (same_sign_refl (HCont s h)) as SS.
      cbn [eqh]. destruct (kind_of (HCont s h)) eqn:Ek; try (cbn [kind_of] in Ek; destruct (Nat.eqb s s_Tuple); discriminate).
      * destruct (args_ignorable (HCont s h)); cbn [andb]; [rewrite Nat.eqb_refl; discriminate|].
        rewrite SS. cbn [negb orb children List.length Nat.eqb all3_2].
        destruct (IHh n Hch) as [_ G]. destruct (eqh n h h); try congruence; discriminate.
      * destruct (args_ignorable (HCont s h)); cbn [andb]; [rewrite Nat.eqb_refl; discriminate|].
        rewrite SS. cbn [negb orb children List.length Nat.eqb all3_2].
        destruct (IHh n Hch) as [_ G]. destruct (eqh n h h); try congruence; discriminate.
  - (* mappings *)
    cbn [door_ok] in Hok. apply andb_true_iff in Hok as [Hok Hv]. apply andb_true_iff in Hok as [Ho Hk].
    destruct (IHh1 n Hk) as [S1 E1]. destruct (IHh2 n Hv) as [S2 E2]. split.
    + cbn [sub is_any orb branches any3 origin]. rewrite Ho. cbn [negb].
      destruct (args_ignorable (HMap s h1 h2)); [discriminate|].
      cbn [kind_of wrapper_instance negb children List.length Nat.eqb all3_2].
      destruct (sub n h1 h1); try congruence; try discriminate.
      destruct (sub n h2 h2); try congruence; discriminate.
    + cbn [eqh kind_of]. destruct (args_ignorable (HMap s h1 h2)); cbn [andb]; [rewrite Nat.eqb_refl; discriminate|].
      cbn [same_sign]. rewrite Nat.eqb_refl. cbn [negb orb children List.length Nat.eqb all3_2].
      destruct (eqh n h1 h1); try congruence; try discriminate.
      destruct (eqh n h2 h2); try congruence; discriminate.
  - (* Counter *)
    cbn [door_ok] in Hok. destruct (IHh n Hok) as [S1 E1]. split.
    + cbn [sub is_any orb branches any3 origin].
      replace (issub counter_origin counter_origin) with true by (vm_compute; reflexivity).
      cbn [negb]. destruct (args_ignorable (HCounter h)); [discriminate|].
      cbn [kind_of wrapper_instance negb children List.length Nat.eqb all3_2].
      destruct (sub n h h); try congruence; discriminate.
    + cbn [eqh kind_of]. destruct (args_ignorable (HCounter h)); cbn [andb]; [rewrite Nat.eqb_refl; discriminate|].
      cbn [same_sign negb orb children List.length Nat.eqb all3_2].
      destruct (eqh n h h); try congruence; discriminate.
  - (* fixed tuples *)
    cbn [door_ok] in Hok. pose proof (door_ok_list hs Hok) as Hall.
    assert (G : forall k, sub k (HTuple hs) (HTuple hs) <> RF).
    { intros [|k]; [discriminate|].
      cbn [sub is_any orb branches any3 args_ignorable kind_of]. rewrite Nat.eqb_refl. cbn [negb].
      assert (G : all3_2 (sub k) hs hs <> RF).
      { apply all3_2_same_not_RF. intros x Hx. rewrite Forall_forall in H. apply H; [exact Hx|now apply Hall]. }
      destruct (all3_2 (sub k) hs hs); try congruence; discriminate. }
    split; [apply G|]. cbn [eqh kind_of]. apply eqh_generic, G.
  - (* literals *)
    cbn [door_ok] in Hok.
    assert (E : forallb (fun v => existsb (fun w => py_eq v w) vs) vs = true).
    { apply forallb_forall. intros v Hv. apply existsb_exists. exists v. split; [exact Hv|].
      rewrite forallb_forall in Hok. now apply py_eq_refl_lit, Hok. }
    assert (G : forall k, sub k (HLiteral vs) (HLiteral vs) <> RF).
    { intros [|k]; [discriminate|]. cbn [sub is_any orb]. rewrite E. discriminate. }
    split; [apply G|]. cbn [eqh kind_of]. apply eqh_generic, G.
  - (* type[...] *)
    cbn [door_ok] in Hok. split.
    + cbn [sub is_any orb branches any3 origin].
      replace (issub c_type c_type) with true by (vm_compute; reflexivity). cbn [negb].
      destruct (args_ignorable (HType cs)); [discriminate|].
      cbn [kind_of wrapper_instance negb]. rewrite Nat.eqb_refl. cbn [negb].
      pose proof (type_child_refl n cs Hok) as G.
      destruct (all3_2 (sub n) (children (HType cs)) (children (HType cs))); try congruence; discriminate.
    + cbn [eqh kind_of]. destruct (args_ignorable (HType cs)); cbn [andb]; [rewrite Nat.eqb_refl; discriminate|].
      cbn [same_sign negb orb]. rewrite Nat.eqb_refl. cbn [negb].
      (* equality of the children: classes and unions of classes compare by mutual subhint *)
      cbn [children]. destruct cs as [|c [|d cs']]; cbn [all3_2].
      * destruct n as [|n]; [discriminate|]. cbn [eqh kind_of].
        pose proof (sub_cls_union_refl n [] Hok) as G. destruct (sub n (HUnion (map HCls [])) (HUnion (map HCls []))); cbn; congruence.
      * destruct n as [|n]; [discriminate|]. cbn [eqh kind_of]. cbn [forallb] in Hok. rewrite andb_true_r in Hok. apply Nat.ltb_lt in Hok.
        pose proof (sub_cls_refl n c Hok) as G. destruct (sub n (HCls c) (HCls c)); cbn; congruence.
      * destruct n as [|n]; [discriminate|]. cbn [eqh kind_of].
        pose proof (sub_cls_union_refl n (c :: d :: cs') Hok) as G.
        destruct (sub n (HUnion (map HCls (c :: d :: cs'))) (HUnion (map HCls (c :: d :: cs')))); cbn; congruence.
  - (* Annotated *)
    cbn [door_ok] in Hok. apply andb_true_iff in Hok as [Hm Hv].
    destruct (IHh n Hm) as [S1 E1]. pose proof (vexps_eqb_refl vs Hv) as EV. split.
    + cbn [sub is_any orb branches any3].
      destruct (sub n h h) eqn:Es; try congruence; try discriminate.
      rewrite Nat.eqb_refl. cbn [negb]. rewrite EV. discriminate.
    + cbn [eqh kind_of]. destruct (eqh n h h); cbn [and3]; try congruence; try discriminate.
      rewrite EV. discriminate.
Qed.

(* ------------------------------------------------------------ 2. transitivity on flat hints *)

(* classes and unions of classes *)
Definition flat (cs : list nat) : hint := match cs with [c] => HCls c | _ => HUnion (map HCls cs) end.

Definition sub_flat (xs ys : list nat) : bool := forallb (fun x => existsb (issub x) ys) xs.

Lemma sub_cls_cls n c d : sub (S n) (HCls c) (HCls d) = r3_of (issub c d).
Proof. cbn [sub is_any orb branches any3 args_ignorable origin andb]. destruct (issub c d); reflexivity. Qed.

Lemma any3_classes c ds :
  any3 (fun br => if is_any br then RT else r3_of (args_ignorable br && issub c (origin br))) (map HCls ds)
  = r3_of (existsb (issub c) ds).
Proof.
  induction ds as [|d ds IH]; [reflexivity|]. cbn [map any3 is_any args_ignorable origin andb existsb].
  destruct (issub c d); cbn [r3_of orb]; [reflexivity|exact IH].
Qed.

Lemma sub_cls_union n c ds : sub (S n) (HCls c) (HUnion (map HCls ds)) = r3_of (existsb (issub c) ds).
Proof. cbn [sub is_any orb branches]. apply any3_classes. Qed.

Lemma sub_cls_flat n c ds : sub (S n) (HCls c) (flat ds) = r3_of (existsb (issub c) ds).
Proof.
  unfold flat. destruct ds as [|d [|d' ds]].
  - reflexivity.
  - rewrite sub_cls_cls. cbn [existsb]. now rewrite orb_false_r.
  - apply sub_cls_union.
Qed.

Lemma all3_r3 {A} (g : A -> bool) l : all3 (fun x => r3_of (g x)) l = r3_of (forallb g l).
Proof. induction l as [|a l IH]; [reflexivity|]. cbn. destruct (g a); cbn; [exact IH|reflexivity]. Qed.

Lemma any3_r3 {A} (g : A -> bool) l : any3 (fun x => r3_of (g x)) l = r3_of (existsb g l).
Proof. induction l as [|a l IH]; [reflexivity|]. cbn. destruct (g a); cbn; [reflexivity|exact IH]. Qed.

Lemma all3_ext {A} (f g : A -> r3) l : (forall x, In x l -> f x = g x) -> all3 f l = all3 g l.
Proof.
  induction l as [|a l IH]; [reflexivity|]. intros H. cbn. rewrite (H a (or_introl eq_refl)).
  destruct (g a); try reflexivity. apply IH. intros x Hx. apply H. now right.
Qed.

Lemma any3_ext {A} (f g : A -> r3) l : (forall x, In x l -> f x = g x) -> any3 f l = any3 g l.
Proof.
  induction l as [|a l IH]; [reflexivity|]. intros H. cbn. rewrite (H a (or_introl eq_refl)).
  destruct (g a); try reflexivity. apply IH. intros x Hx. apply H. now right.
Qed.

Lemma sub_flat_flat n xs ys : sub (S (S n)) (flat xs) (flat ys) = r3_of (sub_flat xs ys).
Proof.
  unfold sub_flat. destruct xs as [|x [|x' xs]].
  - (* the empty union *) unfold flat at 1. cbn [map]. cbn [sub is_any orb all3]. destruct (is_any (flat ys)); reflexivity.
  - unfold flat at 1. rewrite sub_cls_flat. cbn [forallb]. now rewrite andb_true_r.
  - unfold flat at 1. remember (x :: x' :: xs) as l eqn:El.
    assert (G : sub (S (S n)) (HUnion (map HCls l)) (flat ys)
                = all3 (fun this => sub (S n) this (flat ys)) (map HCls l)).
    { assert (U : forall ds, sub (S (S n)) (HUnion (map HCls l)) (HUnion (map HCls ds))
                             = all3 (fun this => sub (S n) this (HUnion (map HCls ds))) (map HCls l)).
      { intros ds. cbn [sub is_any orb]. apply all3_ext. intros this Hin. apply in_map_iff in Hin as (c & <- & _).
        change (any3 (fun that => sub (S n) (HCls c) that) (map HCls ds) = sub (S n) (HCls c) (HUnion (map HCls ds))).
        rewrite sub_cls_union.
        rewrite (any3_ext _ (fun that => r3_of (match that with HCls d => issub c d | _ => false end))).
        - rewrite any3_r3. f_equal. clear. induction ds as [|d ds IH]; [reflexivity|]. cbn [map existsb]. now rewrite IH.
        - intros that Hin. apply in_map_iff in Hin as (d & <- & _). apply sub_cls_cls. }
      unfold flat. destruct ys as [|y [|y' ys']]; [apply U|reflexivity|apply U]. }
    rewrite G. rewrite (all3_ext _ (fun this => r3_of (match this with HCls c => existsb (issub c) ys | _ => false end))).
    + rewrite all3_r3. f_equal. clear. induction l as [|c l IH]; [reflexivity|]. cbn [map forallb]. now rewrite IH.
    + intros this Hin. apply in_map_iff in Hin as (c & <- & _). apply sub_cls_flat.
Qed.

Theorem flat_transitive n m k xs ys zs :
  ~ In c_Hashable zs ->
  sub (S (S n)) (flat xs) (flat ys) = RT -> sub (S (S m)) (flat ys) (flat zs) = RT ->
  sub (S (S k)) (flat xs) (flat zs) = RT.
Proof.
  rewrite !sub_flat_flat. intros Hh H1 H2.
  assert (E1 : sub_flat xs ys = true) by (destruct (sub_flat xs ys); [reflexivity|discriminate]).
  assert (E2 : sub_flat ys zs = true) by (destruct (sub_flat ys zs); [reflexivity|discriminate]).
  replace (sub_flat xs zs) with true; [reflexivity|]. symmetry. unfold sub_flat in *.
  rewrite forallb_forall in *. intros x Hx. specialize (E1 x Hx). apply existsb_exists in E1 as (y & Hy & Hxy).
  specialize (E2 y Hy). apply existsb_exists in E2 as (z & Hz & Hyz).
  apply existsb_exists. exists z. split; [exact Hz|].
  apply (issub_trans x y z); auto. intros ->. now apply Hh.
Qed.

(* ------------------------------------------------------------ 3. refutations (known findings) *)

(* F13: through typing.Any the relation is not transitive *)
Lemma trans_refuted_through_any :
  is_subhint (HCls c_int) HAny = RT /\ is_subhint HAny (HCls c_str) = RT /\ is_subhint (HCls c_int) (HCls c_str) = RF.
Proof. vm_compute. repeat split. Qed.

(* F12 (fixed in the repository): unrelated metahints no longer compare as subhints *)
Lemma annotated_unrelated_rejected :
  let v := VInst [c_object] in
  is_subhint (HAnnot (HCls c_str) [v]) (HAnnot (HCls c_int) [v]) = RF
  /\ is_subhint (HAnnot (HCls c_bool) [v]) (HAnnot (HCls c_int) [v]) = RT.
Proof. vm_compute. split; reflexivity. Qed.

(* F25: a union mixing a mapping hint with a one-argument hint of a wider origin is not even
   comparable with itself: is_subhint raises *)
Lemma refl_raises_on_arity_clash :
  let h := HUnion [HCont s_Collection (HCls c_str); HMap m_Dict (HCls c_str) (HCls c_int)] in
  is_subhint h h = RX.
Proof. vm_compute. reflexivity. Qed.

(* ------------------------------------------------------------ 4. soundness on simple hints *)
From BT Require Import Core.Check Core.GenProofs Core.Sound.

(* classes other than object and Hashable, non-empty unions of non-unions, one-argument containers,
   mappings and fixed tuples of such: no Any, no ignorable child *)
Fixpoint simple (h : hint) : bool :=
  match h with
  | HCls c => negb (Nat.eqb c c_object) && negb (Nat.eqb c c_Hashable)
  | HUnion hs =>
      match hs with [] => false | _ => true end &&
      (fix all (l : list hint) : bool :=
         match l with [] => true | x :: l' => simple x && negb (match x with HUnion _ => true | _ => false end) && all l' end) hs
  | HCont s ch => simple ch && negb (Nat.eqb (sign_origin s) c_Hashable)
  | HMap m k v => simple k && simple v && negb (Nat.eqb (map_origin m) c_Hashable)
  | HTuple hs =>
      (fix all (l : list hint) : bool := match l with [] => true | x :: l' => simple x && all l' end) hs
  | _ => false
  end.

Lemma simple_union_members hs : simple (HUnion hs) = true ->
  forall x, In x hs -> simple x = true /\ match x with HUnion _ => False | _ => True end.
Proof.
  cbn [simple]. intros H. apply andb_true_iff in H as [_ H]. revert H.
  induction hs as [|a l IH]; [intros _ x []|]. intros H x [<-|Hin].
  - apply andb_true_iff in H as [H _]. apply andb_true_iff in H as [H1 H2]. split; [exact H1|].
    destruct a; try exact I. discriminate.
  - apply andb_true_iff in H as [_ H]. now apply IH.
Qed.

Lemma simple_tuple_members hs : simple (HTuple hs) = true -> forall x, In x hs -> simple x = true.
Proof.
  cbn [simple]. induction hs as [|a l IH]; [intros _ x []|]. intros H x [<-|Hin]; apply andb_true_iff in H as [H1 H2]; auto.
Qed.

Lemma simple_not_ignorable h : simple h = true -> ignorable h = false.
Proof.
  induction h using hint_ind2; cbn [simple ignorable]; try discriminate; try reflexivity.
  - intros Hs. apply andb_true_iff in Hs as [Hs _]. now apply negb_true_iff in Hs.
  - intros Hs. apply andb_true_iff in Hs as [_ Hs]. induction H as [|a l Ha Hl IH]; [reflexivity|].
    apply andb_true_iff in Hs as [Hs1 Hs2]. apply andb_true_iff in Hs1 as [Hs1 _].
    rewrite (Ha Hs1). cbn [orb]. now apply IH.
Qed.

Lemma simple_not_any h : simple h = true -> is_any h = false.
Proof. destruct h; cbn; try reflexivity. discriminate. Qed.

Lemma simple_origin h : simple h = true -> origin h <> c_Hashable.
Proof.
  destruct h; cbn [simple origin]; intros Hs; try discriminate;
    apply andb_true_iff in Hs as [_ Hs]; apply negb_true_iff in Hs; now apply Nat.eqb_neq.
Qed.

Lemma isinst_trans x c d : d <> c_Hashable -> isinst x [c] = true -> issub c d = true -> isinst x [d] = true.
Proof. rewrite !isinst_single. intros Hd H1 H2. now apply (issub_trans _ c d). Qed.

(* a simple hint whose arguments are all ignorable is a class *)
Lemma simple_args_ignorable br : simple br = true -> args_ignorable br = true -> exists d, br = HCls d.
Proof.
  destruct br; cbn [simple args_ignorable children forallb]; intros Hs Ha; try discriminate.
  - now exists c.
  - exfalso. apply andb_true_iff in Hs as [Hne Hs]. destruct hs as [|a l]; [discriminate|].
    cbn [forallb] in Ha. apply andb_true_iff in Ha as [Ha _].
    apply andb_true_iff in Hs as [Hs _]. apply andb_true_iff in Hs as [Hs _].
    now rewrite (simple_not_ignorable a Hs) in Ha.
  - exfalso. apply andb_true_iff in Hs as [Hs _]. rewrite andb_true_r in Ha. now rewrite (simple_not_ignorable br Hs) in Ha.
  - exfalso. apply andb_true_iff in Hs as [Hs _]. apply andb_true_iff in Hs as [Hs _]. apply andb_true_iff in Ha as [Ha _].
    now rewrite (simple_not_ignorable br1 Hs) in Ha.
Qed.

Section Soundness.
  Variable pb : nat -> pyval -> bool.

  Definition snd_goal (n : nat) : Prop :=
    forall a b x, simple a = true -> simple b = true -> sub n a b = RT -> sat pb a x = true -> sat pb b x = true.

  (* an object satisfying one branch of b satisfies b *)
  Lemma sat_branch b br x : simple b = true -> In br (branches b) -> sat pb br x = true -> sat pb b x = true.
  Proof.
    intros Hs Hin Hbr. destruct b; cbn [branches] in Hin; try (destruct Hin as [<-|[]]; exact Hbr).
    rewrite sat_union_unfold. clear Hs. induction hs as [|a l IH]; [destruct Hin|]. cbn [sat_any].
    destruct Hin as [<-|Hin]; [now rewrite Hbr|]. rewrite (IH Hin). apply orb_true_r.
  Qed.

  Lemma branch_simple b br : simple b = true -> In br (branches b) -> simple br = true.
  Proof.
    intros Hs Hin. destruct b; cbn [branches] in Hin; try (destruct Hin as [<-|[]]; exact Hs).
    now apply (simple_union_members hs Hs).
  Qed.

  Lemma sat_all2_map (hs hs' : list hint) l :
    List.length hs = List.length hs' ->
    (forall i h h' y, nth_error hs i = Some h -> nth_error hs' i = Some h' -> sat pb h y = true -> sat pb h' y = true) ->
    sat_all2 pb hs l = true -> sat_all2 pb hs' l = true.
  Proof.
    revert hs' l. induction hs as [|h hs IH]; intros [|h' hs'] l Hlen Hstep Hall; try discriminate.
    - exact Hall.
    - destruct l as [|y l]; [discriminate|]. cbn [sat_all2] in *. apply andb_true_iff in Hall as [H1 H2].
      rewrite (Hstep 0 h h' y eq_refl eq_refl H1). cbn [andb].
      apply IH; [cbn in Hlen; lia| |exact H2].
      intros i a a' z Ha Ha'. apply (Hstep (S i)); assumption.
  Qed.

  Lemma sat_all2_forall (hs : list hint) ch l :
    (forall h y, In h hs -> sat pb h y = true -> sat pb ch y = true) ->
    sat_all2 pb hs l = true -> forallb (sat pb ch) l = true.
  Proof.
    revert l. induction hs as [|h hs IH]; intros [|y l] Hstep Hall; try discriminate; [reflexivity|].
    cbn [sat_all2] in Hall. apply andb_true_iff in Hall as [H1 H2]. cbn [forallb].
    rewrite (Hstep h y (or_introl eq_refl) H1). cbn [andb]. apply IH; [|exact H2].
    intros a z Ha. apply Hstep. now right.
  Qed.

  Theorem sound_simple n : snd_goal n.
  Proof.
    induction n as [|n IH]; intros a b x Ha Hb Hsub Hsat; [discriminate|].
    cbn [sub] in Hsub. rewrite (simple_not_any a Ha), (simple_not_any b Hb) in Hsub. cbn [orb] in Hsub.
    destruct a as [| c | c | hs | s ch | m k v | k | hs | vs | cs | mh vs]; try discriminate.
    - (* a class *)
      apply any3_RT in Hsub as (br & Hin & Hbr). pose proof (branch_simple b br Hb Hin) as Hsb.
      rewrite (simple_not_any br Hsb) in Hbr.
      destruct (args_ignorable br) eqn:Eig; cbn [andb r3_of] in Hbr; [|discriminate].
      destruct (issub c (origin br)) eqn:Ei; [|discriminate].
      destruct (simple_args_ignorable br Hsb Eig) as (d & ->). cbn [origin] in Ei.
      apply (sat_branch b (HCls d) x Hb Hin). cbn [sat] in *.
      apply (isinst_trans x c d); auto. apply (simple_origin (HCls d) Hsb).
    - (* a union *)
      rewrite sat_union_unfold in Hsat.
      assert (Hex : exists this, In this hs /\ sat pb this x = true).
      { clear -Hsat. induction hs as [|a l IHl]; [discriminate|]. cbn [sat_any] in Hsat.
        apply orb_true_iff in Hsat as [H|H]; [exists a; split; [now left|exact H]|].
        destruct (IHl H) as (t & Hin & Ht). exists t. split; [now right|exact Ht]. }
      destruct Hex as (this & Hin & Hthis).
      pose proof (all3_RT _ _ Hsub this Hin) as Hone.
      destruct (simple_union_members hs Ha this Hin) as [Hst _].
      destruct b as [| d | d | bs | t ch' | m' k' v' | k' | bs | ws | ds | mh' ws]; try discriminate;
        try (now apply (IH this _ x Hst Hb Hone Hthis)).
      apply any3_RT in Hone as (that & Hin' & Hthat).
      destruct (simple_union_members bs Hb that Hin') as [Hsthat _].
      apply (sat_branch (HUnion bs) that x Hb Hin'). now apply (IH this that x).
    - (* a one-argument container *)
      apply any3_RT in Hsub as (br & Hin & Hbr). pose proof (branch_simple b br Hb Hin) as Hsb.
      rewrite (simple_not_any br Hsb) in Hbr. apply (sat_branch b br x Hb Hin).
      destruct (issub (origin (HCont s ch)) (origin br)) eqn:Eo; cbn [negb] in Hbr; [|discriminate].
      cbn [sat] in Hsat. apply andb_true_iff in Hsat as [Hi Hitems]. cbn [origin] in Eo.
      destruct (args_ignorable br) eqn:Eig.
      + destruct (simple_args_ignorable br Hsb Eig) as (d & ->). cbn [sat origin] in *.
        apply (isinst_trans x (sign_origin s) d); auto. apply (simple_origin (HCls d) Hsb).
      + destruct (wrapper_instance (kind_of (HCont s ch)) (kind_of br)) eqn:Ew; cbn [negb] in Hbr; [|discriminate].
        destruct br as [| d | d | bs | t ch' | m' k' v' | k' | bs | ws | ds | mh' ws]; try discriminate;
          try (cbn [kind_of] in Ew; destruct (Nat.eqb s s_Tuple); discriminate).
        * cbn [children List.length Nat.eqb negb all3_2] in Hbr.
          destruct (sub n ch ch') eqn:Ech; try discriminate.
          cbn [simple] in Ha, Hsb. apply andb_true_iff in Ha as [Hach _]. apply andb_true_iff in Hsb as [Hsch Hso].
          cbn [sat]. cbn [origin] in Eo.
          rewrite (isinst_trans x (sign_origin s) (sign_origin t)); auto;
            [|apply negb_true_iff in Hso; now apply Nat.eqb_neq].
          cbn [andb]. destruct (coll_items x) as [l|]; [|reflexivity].
          rewrite forallb_forall in *. intros y Hy. apply (IH ch ch' y); auto.
    - (* a mapping *)
      apply any3_RT in Hsub as (br & Hin & Hbr). pose proof (branch_simple b br Hb Hin) as Hsb.
      rewrite (simple_not_any br Hsb) in Hbr. apply (sat_branch b br x Hb Hin).
      destruct (issub (origin (HMap m k v)) (origin br)) eqn:Eo; cbn [negb] in Hbr; [|discriminate].
      cbn [sat] in Hsat. apply andb_true_iff in Hsat as [Hi Hitems]. cbn [origin] in Eo.
      destruct (args_ignorable br) eqn:Eig.
      + destruct (simple_args_ignorable br Hsb Eig) as (d & ->). cbn [sat origin] in *.
        apply (isinst_trans x (map_origin m) d); auto. apply (simple_origin (HCls d) Hsb).
      + destruct (wrapper_instance (kind_of (HMap m k v)) (kind_of br)) eqn:Ew; cbn [negb] in Hbr; [|discriminate].
        destruct br as [| d | d | bs | t ch' | m' k' v' | k' | bs | ws | ds | mh' ws]; try discriminate.
        * cbn [children List.length Nat.eqb negb all3_2] in Hbr.
          destruct (sub n k k') eqn:Ek; try discriminate. destruct (sub n v v') eqn:Ev; try discriminate.
          cbn [simple] in Ha, Hsb.
          apply andb_true_iff in Ha as [Ha _]. apply andb_true_iff in Ha as [Hak Hav].
          apply andb_true_iff in Hsb as [Hsb Hso]. apply andb_true_iff in Hsb as [Hsk Hsv].
          cbn [sat]. cbn [origin] in Eo.
          rewrite (isinst_trans x (map_origin m) (map_origin m')); auto;
            [|apply negb_true_iff in Hso; now apply Nat.eqb_neq].
          cbn [andb]. destruct x; try reflexivity.
          rewrite forallb_forall in *. intros kv Hkv. specialize (Hitems kv Hkv).
          apply andb_true_iff in Hitems as [H1 H2].
          rewrite (IH k k' (fst kv) Hak Hsk Ek H1), (IH v v' (snd kv) Hav Hsv Ev H2). reflexivity.
    - (* a fixed tuple *)
      apply any3_RT in Hsub as (br & Hin & Hbr). pose proof (branch_simple b br Hb Hin) as Hsb.
      rewrite (simple_not_any br Hsb) in Hbr. apply (sat_branch b br x Hb Hin).
      rewrite sat_tuple_unfold in Hsat. apply andb_true_iff in Hsat as [Hi Hall].
      destruct (items_of x) as [l|] eqn:El; [|discriminate].
      destruct (args_ignorable br) eqn:Eig.
      + destruct (issub c_tuple (origin br)) eqn:Eo; [|discriminate].
        destruct (simple_args_ignorable br Hsb Eig) as (d & ->). cbn [sat origin] in *.
        apply (isinst_trans x c_tuple d); auto. apply (simple_origin (HCls d) Hsb).
      + destruct br as [| d | d | bs | t ch' | m' k' v' | k' | bs | ws | ds | mh' ws]; try discriminate;
          cbn [kind_of] in Hbr.
        * (* variadic tuple *)
          destruct (Nat.eqb t s_Tuple) eqn:Et; [|discriminate]. apply Nat.eqb_eq in Et. subst t.
          cbn [simple] in Hsb. apply andb_true_iff in Hsb as [Hsch _].
          cbn [sat]. replace (sign_origin s_Tuple) with c_tuple by reflexivity. rewrite Hi. cbn [andb].
          unfold coll_items. rewrite El. destruct (issub (type_of x) c_Collection); [|reflexivity].
          apply (sat_all2_forall hs ch' l); [|exact Hall].
          intros h y Hh Hy. apply (IH h ch' y); auto; [now apply (simple_tuple_members hs Ha)|].
          exact (all3_RT _ _ Hbr h Hh).
        * (* fixed tuple *)
          destruct (Nat.eqb (List.length hs) (List.length bs)) eqn:Elen; cbn [negb] in Hbr; [|discriminate].
          apply Nat.eqb_eq in Elen. rewrite sat_tuple_unfold, Hi, El. cbn [andb].
          apply (sat_all2_map hs bs l Elen); [|exact Hall].
          intros i h h' y Hh Hh' Hy. apply (IH h h' y); auto.
          -- apply (simple_tuple_members hs Ha). eapply nth_error_In; eauto.
          -- apply (simple_tuple_members bs Hsb). eapply nth_error_In; eauto.
          -- exact (all3_2_RT _ _ _ Hbr Elen i h h' Hh Hh').
  Qed.
End Soundness.
