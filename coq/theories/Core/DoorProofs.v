(* C19 proofs about the model of is_subhint (Core/Door.v). *)
From Coq Require Import List ZArith Bool Arith String Lia.
From BT Require Import Gen.ClassTable Gen.SignSets Core.PyVal Core.Expr Core.Hint Core.ClassFacts Core.Induct Core.Door.
Import ListNotations.
Local Open Scope list_scope.

(* ------------------------------------------------------------ three-valued all / any *)

Lemma any3_RT {A} (f : A -> r3) l : any3 f l = RT -> exists x, In x l /\ f x = RT.
Proof.
  induction l as [|a l IH]; cbn; [discriminate|]. destruct (f a) eqn:E; try discriminate.
  - intros _. exists a. auto.
  - intros H. destruct (IH H) as (x & Hin & Hx). exists x. auto.
Qed.

Lemma any3_not_RF {A} (f : A -> r3) l x : In x l -> f x <> RF -> any3 f l <> RF.
Proof.
  induction l as [|a l IH]; cbn; [tauto|]. intros [->|Hin] Hx.
  - destruct (f x); congruence.
  - destruct (f a); try congruence. now apply IH.
Qed.

Lemma all3_RT {A} (f : A -> r3) l : all3 f l = RT -> forall x, In x l -> f x = RT.
Proof.
  induction l as [|a l IH]; cbn; [tauto|]. destruct (f a) eqn:E; try discriminate.
  intros H x [<-|Hin]; auto.
Qed.

Lemma all3_not_RF {A} (f : A -> r3) l : (forall x, In x l -> f x <> RF) -> all3 f l <> RF.
Proof.
  induction l as [|a l IH]; cbn; [discriminate|]. intros H.
  destruct (f a) eqn:E; try congruence.
  - apply IH. intros x Hx. apply H. now right.
  - exfalso. apply (H a); auto.
Qed.

Lemma all3_2_RT f l m : all3_2 f l m = RT -> List.length l = List.length m ->
  forall i x y, nth_error l i = Some x -> nth_error m i = Some y -> f x y = RT.
Proof.
  revert m. induction l as [|a l IH]; intros [|b m]; cbn; try discriminate.
  - intros _ _ i x y H. destruct i; discriminate.
  - destruct (f a b) eqn:E; try discriminate. intros H Hl i x y Hx Hy.
    destruct i as [|i]; cbn in *.
    + inversion Hx; inversion Hy; subst. exact E.
    + apply (IH m H ltac:(lia) i); auto.
Qed.

Lemma all3_2_same_not_RF f l : (forall x, In x l -> f x x <> RF) -> all3_2 f l l <> RF.
Proof.
  induction l as [|a l IH]; cbn; [discriminate|]. intros H.
  destruct (f a a) eqn:E; try congruence.
  - apply IH. intros x Hx. apply H. now right.
  - exfalso. apply (H a); auto.
Qed.

(* ------------------------------------------------------------ 1. is_subhint(h, h) never answers False *)

Definition lit_ok (v : pyval) : bool :=
  match v with VNone | VBool _ | VInt _ | VStr _ | VBytes _ => true | _ => false end.

Fixpoint vexp_ok (v : vexp) : bool :=
  match v with
  | VEqual x => py_eq x x
  | VAttr _ w | VNot w => vexp_ok w
  | VAnd a b | VOr a b => vexp_ok a && vexp_ok b
  | _ => true
  end.

(* hints the model speaks about: class identifiers from the class table, scalar literal members,
   IsEqual payloads that equal themselves, signs of the sign tables *)
Fixpoint door_ok (h : hint) : bool :=
  match h with
  | HCls c | HShallow c => Nat.ltb c class_count
  | HUnion hs | HTuple hs =>
      (fix all (l : list hint) : bool := match l with [] => true | x :: l' => door_ok x && all l' end) hs
  | HCont s ch => issub (sign_origin s) (sign_origin s) && door_ok ch
  | HCounter ch => door_ok ch
  | HMap m k v => issub (map_origin m) (map_origin m) && door_ok k && door_ok v
  | HAnnot mh vs => door_ok mh && forallb vexp_ok vs
  | HType cs => forallb (fun c => Nat.ltb c class_count) cs
  | HLiteral vs => forallb lit_ok vs
  | HAny => true
  end.

Lemma door_ok_list l :
  (fix all (l : list hint) : bool := match l with [] => true | x :: l' => door_ok x && all l' end) l = true ->
  forall x, In x l -> door_ok x = true.
Proof.
  induction l as [|a l IH]; [intros _ x []|]. intros H x [<-|Hin]; apply andb_true_iff in H as [H1 H2]; auto.
Qed.

Lemma py_eq_refl_lit v : lit_ok v = true -> py_eq v v = true.
Proof.
  destruct v; cbn; try discriminate; intros _; unfold scalar_eq; cbn; try apply Z.eqb_refl; try apply String.eqb_refl.
  - reflexivity.
Qed.

Lemma nats_eq_refl cs : nats_eq cs cs = true.
Proof. unfold nats_eq. induction cs as [|c cs IH]; [reflexivity|]. now rewrite Nat.eqb_refl. Qed.

Lemma vexp_same_refl v : vexp_same v v = true.
Proof.
  induction v; cbn [vexp_same]; rewrite ?IHv, ?IHv1, ?IHv2; try reflexivity.
  - apply Nat.eqb_refl.
  - now rewrite String.eqb_refl.
  - apply val_same_refl.
  - apply nats_eq_refl.
  - apply nats_eq_refl.
Qed.

Lemma vexp_memo_eq_refl v : vexp_memo v = true -> vexp_ok v = true -> vexp_memo_eq v v = true.
Proof.
  induction v; cbn [vexp_memo vexp_ok vexp_memo_eq]; try discriminate; intros Hm Hk.
  - rewrite String.eqb_refl. now apply IHv.
  - exact Hk.
  - apply nats_eq_refl.
  - apply nats_eq_refl.
Qed.

Lemma vexp_eqb_refl v : vexp_ok v = true -> vexp_eqb v v = true.
Proof.
  intros Hk. unfold vexp_eqb. destruct (vexp_memo v) eqn:E; cbn [andb].
  - now apply vexp_memo_eq_refl.
  - apply vexp_same_refl.
Qed.

Lemma vexps_eqb_refl vs : forallb vexp_ok vs = true -> vexps_eqb vs vs = true.
Proof.
  induction vs as [|v vs IH]; [reflexivity|]. cbn. intros H. apply andb_true_iff in H as [H1 H2].
  now rewrite (vexp_eqb_refl v H1), IH.
Qed.

Lemma same_sign_refl h : match kind_of h with KSub | KTupleVar => same_sign h h = true | _ => True end.
Proof.
  destruct h; cbn [kind_of same_sign]; try exact I; try apply Nat.eqb_refl; try reflexivity.
  destruct (Nat.eqb s s_Tuple); apply Nat.eqb_refl.
Qed.

Lemma sub_cls_refl n c : c < class_count -> sub n (HCls c) (HCls c) <> RF.
Proof.
  intros Hc. destruct n as [|n]; [discriminate|].
  cbn [sub is_any orb branches any3 args_ignorable origin andb]. rewrite (issub_refl c Hc). discriminate.
Qed.

Lemma sub_cls_union_refl n cs : forallb (fun c => Nat.ltb c class_count) cs = true ->
  sub n (HUnion (map HCls cs)) (HUnion (map HCls cs)) <> RF.
Proof.
  intros Hok. destruct n as [|n]; [discriminate|]. cbn [sub is_any orb]. apply all3_not_RF. intros this Hin.
  apply (any3_not_RF _ _ this Hin). apply in_map_iff in Hin as (c & <- & Hc).
  rewrite forallb_forall in Hok. apply sub_cls_refl. apply Nat.ltb_lt. now apply Hok.
Qed.

Lemma type_child_refl n cs : forallb (fun c => Nat.ltb c class_count) cs = true ->
  all3_2 (sub n) (children (HType cs)) (children (HType cs)) <> RF.
Proof.
  intros Hok. cbn [children].
  destruct cs as [|c [|d cs']].
  - cbn [all3_2]. pose proof (sub_cls_union_refl n [] Hok) as G. destruct (sub n (HUnion (map HCls [])) (HUnion (map HCls []))); congruence.
  - cbn [all3_2]. cbn in Hok. rewrite andb_true_r in Hok. apply Nat.ltb_lt in Hok.
    pose proof (sub_cls_refl n c Hok) as G. destruct (sub n (HCls c) (HCls c)); congruence.
  - cbn [all3_2]. pose proof (sub_cls_union_refl n (c :: d :: cs') Hok) as G.
    destruct (sub n (HUnion (map HCls (c :: d :: cs'))) (HUnion (map HCls (c :: d :: cs')))); congruence.
Qed.

Definition refl_goal (h : hint) : Prop :=
  forall n, door_ok h = true -> sub n h h <> RF /\ eqh n h h <> RF.

Lemma and3_same_not_RF a : a <> RF -> and3 a (fun _ => a) <> RF.
Proof. destruct a; cbn; congruence. Qed.

(* the generic (mutual subhint) equality *)
Lemma eqh_generic n h : sub n h h <> RF -> and3 (sub n h h) (fun _ => sub n h h) <> RF.
Proof. apply and3_same_not_RF. Qed.

Theorem refl_never_false h : refl_goal h.
Proof.
  induction h using hint_ind2; intros n Hok; (destruct n as [|n]; [split; discriminate|]).
  - split; [discriminate|]. cbn [eqh kind_of]. cbn. discriminate.
  - (* class *)
    cbn [door_ok] in Hok. apply Nat.ltb_lt in Hok.
    assert (G : forall k, sub k (HCls c) (HCls c) <> RF) by (intros k; now apply sub_cls_refl).
    split; [apply G|]. cbn [eqh kind_of]. apply eqh_generic, G.
  - (* shallow subscripted hints *)
    cbn [door_ok] in Hok. apply Nat.ltb_lt in Hok.
    assert (G : forall k, sub k (HShallow c) (HShallow c) <> RF).
    { intros [|k]; [discriminate|].
      cbn [sub is_any orb branches any3 args_ignorable origin children forallb kind_of wrapper_instance].
      rewrite (issub_refl c Hok). discriminate. }
    split; [apply G|]. cbn [eqh kind_of args_ignorable children forallb andb origin]. rewrite Nat.eqb_refl. discriminate.
  - (* union *)
    assert (G : forall k, sub k (HUnion hs) (HUnion hs) <> RF).
    { intros [|k]; [discriminate|]. cbn [sub is_any orb]. apply all3_not_RF. intros this Hin.
      apply (any3_not_RF _ hs this Hin). rewrite Forall_forall in H. apply H; [exact Hin|].
      cbn [door_ok] in Hok. now apply (door_ok_list hs). }
    split; [apply G|]. cbn [eqh kind_of]. apply eqh_generic, G.
  - (* one-argument containers *)
    cbn [door_ok] in Hok. apply andb_true_iff in Hok as [Ho Hch].
    assert (K : wrapper_instance (kind_of (HCont s h)) (kind_of (HCont s h)) = true)
      by (cbn [kind_of]; destruct (Nat.eqb s s_Tuple); reflexivity).
    split.
    + cbn [sub is_any orb branches any3 origin]. rewrite Ho. cbn [negb].
      destruct (args_ignorable (HCont s h)); [discriminate|]. rewrite K.
      cbn [negb children List.length Nat.eqb all3_2].
      destruct (IHh n Hch) as [G _]. destruct (sub n h h); try congruence; discriminate.
    + pose proof (same_sign_refl (HCont s h)) as SS.
      cbn [eqh]. destruct (kind_of (HCont s h)) eqn:Ek; try (cbn [kind_of] in Ek; destruct (Nat.eqb s s_Tuple); discriminate).
      * destruct (args_ignorable (HCont s h)); cbn [andb]; [rewrite Nat.eqb_refl; discriminate|].
        rewrite SS. cbn [negb orb children List.length Nat.eqb all3_2].
        destruct (IHh n Hch) as [_ G]. destruct (eqh n h h); try congruence; discriminate.
      * destruct (args_ignorable (HCont s h)); cbn [andb]; [rewrite Nat.eqb_refl; discriminate|].
        rewrite SS. cbn [negb orb children List.length Nat.eqb all3_2].
        destruct (IHh n Hch) as [_ G]. destruct (eqh n h h); try congruence; discriminate.
  - (* mappings *)
    cbn [door_ok] in Hok. apply andb_true_iff in Hok as [Hok Hv]. apply andb_true_iff in Hok as [Ho Hk].
    destruct (IHh1 n Hk) as [S1 E1]. destruct (IHh2 n Hv) as [S2 E2]. split.
    + cbn [sub is_any orb branches any3 origin]. rewrite Ho. cbn [negb].
      destruct (args_ignorable (HMap s h1 h2)); [discriminate|].
      cbn [kind_of wrapper_instance negb children List.length Nat.eqb all3_2].
      destruct (sub n h1 h1); try congruence; try discriminate.
      destruct (sub n h2 h2); try congruence; discriminate.
    + cbn [eqh kind_of]. destruct (args_ignorable (HMap s h1 h2)); cbn [andb]; [rewrite Nat.eqb_refl; discriminate|].
      cbn [same_sign]. rewrite Nat.eqb_refl. cbn [negb orb children List.length Nat.eqb all3_2].
      destruct (eqh n h1 h1); try congruence; try discriminate.
      destruct (eqh n h2 h2); try congruence; discriminate.
  - (* Counter *)
    cbn [door_ok] in Hok. destruct (IHh n Hok) as [S1 E1]. split.
    + cbn [sub is_any orb branches any3 origin].
      replace (issub counter_origin counter_origin) with true by (vm_compute; reflexivity).
      cbn [negb]. destruct (args_ignorable (HCounter h)); [discriminate|].
      cbn [kind_of wrapper_instance negb children List.length Nat.eqb all3_2].
      destruct (sub n h h); try congruence; discriminate.
    + cbn [eqh kind_of]. destruct (args_ignorable (HCounter h)); cbn [andb]; [rewrite Nat.eqb_refl; discriminate|].
      cbn [same_sign negb orb children List.length Nat.eqb all3_2].
      destruct (eqh n h h); try congruence; discriminate.
  - (* fixed tuples *)
    cbn [door_ok] in Hok. pose proof (door_ok_list hs Hok) as Hall.
    assert (G : forall k, sub k (HTuple hs) (HTuple hs) <> RF).
    { intros [|k]; [discriminate|].
      cbn [sub is_any orb branches any3 args_ignorable kind_of]. rewrite Nat.eqb_refl. cbn [negb].
      assert (G : all3_2 (sub k) hs hs <> RF).
      { apply all3_2_same_not_RF. intros x Hx. rewrite Forall_forall in H. now apply H. }
      destruct (all3_2 (sub k) hs hs); try congruence; discriminate. }
    split; [apply G|]. cbn [eqh kind_of]. apply eqh_generic, G.
  - (* literals *)
    cbn [door_ok] in Hok.
    assert (E : forallb (fun v => existsb (fun w => py_eq v w) vs) vs = true).
    { apply forallb_forall. intros v Hv. apply existsb_exists. exists v. split; [exact Hv|].
      rewrite forallb_forall in Hok. now apply py_eq_refl_lit, Hok. }
    assert (G : forall k, sub k (HLiteral vs) (HLiteral vs) <> RF).
    { intros [|k]; [discriminate|]. cbn [sub is_any orb]. rewrite E. discriminate. }
    split; [apply G|]. cbn [eqh kind_of]. apply eqh_generic, G.
  - (* type[...] *)
    cbn [door_ok] in Hok. split.
    + cbn [sub is_any orb branches any3 origin].
      replace (issub c_type c_type) with true by (vm_compute; reflexivity). cbn [negb].
      destruct (args_ignorable (HType cs)); [discriminate|].
      cbn [kind_of wrapper_instance negb]. rewrite Nat.eqb_refl. cbn [negb].
      pose proof (type_child_refl n cs Hok) as G.
      destruct (all3_2 (sub n) (children (HType cs)) (children (HType cs))); try congruence; discriminate.
    + cbn [eqh kind_of]. destruct (args_ignorable (HType cs)); cbn [andb]; [rewrite Nat.eqb_refl; discriminate|].
      cbn [same_sign negb orb]. rewrite Nat.eqb_refl. cbn [negb].
      (* equality of the children: classes and unions of classes compare by mutual subhint *)
      cbn [children]. destruct cs as [|c [|d cs']]; cbn [all3_2].
      * destruct n as [|n]; [discriminate|]. cbn [eqh kind_of].
        pose proof (sub_cls_union_refl n [] Hok) as G. destruct (sub n (HUnion (map HCls [])) (HUnion (map HCls []))); cbn; congruence.
      * destruct n as [|n]; [discriminate|]. cbn [eqh kind_of]. cbn in Hok. rewrite andb_true_r in Hok. apply Nat.ltb_lt in Hok.
        pose proof (sub_cls_refl n c Hok) as G. destruct (sub n (HCls c) (HCls c)); cbn; congruence.
      * destruct n as [|n]; [discriminate|]. cbn [eqh kind_of].
        pose proof (sub_cls_union_refl n (c :: d :: cs') Hok) as G.
        destruct (sub n (HUnion (map HCls (c :: d :: cs'))) (HUnion (map HCls (c :: d :: cs')))); cbn; congruence.
  - (* Annotated *)
    cbn [door_ok] in Hok. apply andb_true_iff in Hok as [Hm Hv].
    destruct (IHh n Hm) as [S1 E1]. pose proof (vexps_eqb_refl vs Hv) as EV. split.
    + cbn [sub is_any orb branches any3].
      destruct (sub n h h) eqn:Es; cbn [and3]; try congruence; try discriminate.
      destruct (eqh n h h) eqn:Ee; cbn [not3]; try congruence; try discriminate.
      rewrite Nat.eqb_refl. cbn [negb]. rewrite EV. discriminate.
    + cbn [eqh kind_of]. destruct (eqh n h h); cbn [and3]; try congruence; try discriminate.
      rewrite EV. discriminate.
Qed.
