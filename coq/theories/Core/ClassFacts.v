(* Shared core: finite facts about the regenerated class table and sign sets (Python facts,
   checked by computation on every build), and what well-formedness of an object gives. *)
From Coq Require Import List ZArith Bool Arith String Lia.
From BT Require Import Gen.ClassTable Gen.SignSets Core.PyVal Core.Expr Core.Hint Core.Check.
Import ListNotations.
Local Open Scope list_scope.

Definition ids : list nat := seq 0 class_count.

Definition rows_ok : bool :=
  Nat.eqb (List.length issub_matrix) class_count
  && forallb (fun row => Nat.eqb (List.length row) class_count) issub_matrix.
Definition trans_ok : bool :=
  forallb (fun a => forallb (fun b => forallb (fun c =>
    implb (issub a b && issub b c && negb (Nat.eqb c c_Hashable)) (issub a c)) ids) ids) ids.
Definition refl_ok : bool := forallb (fun a => issub a a) ids.

Lemma rows_ok_true : rows_ok = true.
Proof. vm_compute. reflexivity. Qed.
Lemma trans_ok_true : trans_ok = true.
Proof. vm_compute. reflexivity. Qed.
Lemma refl_ok_true : refl_ok = true.
Proof. vm_compute. reflexivity. Qed.

Lemma issub_range a b : issub a b = true -> a < class_count /\ b < class_count.
Proof.
  pose proof rows_ok_true as H. apply andb_true_iff in H as [Hl Hr]. apply Nat.eqb_eq in Hl.
  unfold issub. intros E.
  destruct (Nat.lt_ge_cases a class_count) as [La|La].
  - split; [exact La|].
    destruct (Nat.lt_ge_cases b class_count) as [Lb|Lb]; [exact Lb|].
    rewrite forallb_forall in Hr.
    assert (Hin : In (nth a issub_matrix []) issub_matrix) by (apply nth_In; lia).
    specialize (Hr _ Hin). apply Nat.eqb_eq in Hr.
    rewrite nth_overflow in E by lia. discriminate.
  - rewrite (nth_overflow issub_matrix) in E by lia. destruct b; discriminate.
Qed.

Lemma in_ids a : a < class_count -> In a ids.
Proof. intros. unfold ids. apply in_seq. lia. Qed.

(* issubclass is transitive except towards Hashable (list <= object <= Hashable, but list is
   not Hashable: a class may unset __hash__) *)
Lemma issub_trans a b c : c <> c_Hashable -> issub a b = true -> issub b c = true -> issub a c = true.
Proof.
  intros Hc H1 H2. destruct (issub_range _ _ H1) as [La Lb], (issub_range _ _ H2) as [_ Lc].
  pose proof trans_ok_true as H. unfold trans_ok in H.
  rewrite forallb_forall in H. specialize (H a (in_ids _ La)).
  rewrite forallb_forall in H. specialize (H b (in_ids _ Lb)).
  rewrite forallb_forall in H. specialize (H c (in_ids _ Lc)).
  rewrite H1, H2 in H. apply Nat.eqb_neq in Hc. rewrite Hc in H. exact H.
Qed.

Lemma issub_refl a : a < class_count -> issub a a = true.
Proof.
  intros La. pose proof refl_ok_true as H. unfold refl_ok in H.
  rewrite forallb_forall in H. apply H. now apply in_ids.
Qed.

(* ---- Python facts about the abstract base classes and builtins (computed) ---- *)
Definition abc_ok : bool :=
  issub c_Collection c_Sized && issub c_Collection c_Iterable && issub c_Collection c_Container
  && issub c_Sequence c_Collection && issub c_Mapping c_Collection && issub c_tuple c_Sequence
  && issub c_str c_Sequence && issub c_bytes c_Sequence
  && forallb (fun c => negb (issub c c_Mapping && issub c c_Sequence)) ids
  && forallb (fun c => negb (issub c c_Sized) && negb (issub c c_Iterable) && negb (issub c c_Container)
                      && negb (issub c c_type) && negb (issub c c_Mapping))
             [c_NoneType; c_bool; c_int; c_float]
  && negb (issub c_type c_Sized) && negb (issub c_type c_Iterable) && negb (issub c_type c_Container)
  && negb (issub c_type c_Mapping)
  && negb (issub c_str c_Mapping) && negb (issub c_bytes c_Mapping)
  && negb (issub c_str c_type) && negb (issub c_bytes c_type)
  && issub c_type c_type && issub c_int c_int.

Lemma abc_ok_true : abc_ok = true.
Proof. vm_compute. reflexivity. Qed.

(* ---- facts about beartype's sign tables (regenerated from the repository) ---- *)
Definition signs_ok : bool :=
  forallb (fun s => match sign_family s with
                    | Some FSequence => issub (sign_origin s) c_Sequence
                    | Some FReiterable => issub (sign_origin s) c_Collection
                    | Some FQuasi => true
                    | None => false
                    end) container_signs
  && forallb (fun s => issub (map_origin s) c_Mapping) map_signs
  && issub counter_origin c_Mapping
  && Nat.eqb quasi_collection_abc c_Collection && Nat.eqb quasi_sequence_abc c_Sequence.

Lemma signs_ok_true : signs_ok = true.
Proof. vm_compute. reflexivity. Qed.

Ltac split_andb H :=
  repeat match type of H with (_ && _) = true => let H' := fresh H in apply andb_true_iff in H as [H H'] end.

Lemma sub_Collection_Sized : issub c_Collection c_Sized = true.
Proof. pose proof abc_ok_true as H. unfold abc_ok in H. repeat (apply andb_true_iff in H as [H ?]). assumption. Qed.
Lemma sub_Collection_Iterable : issub c_Collection c_Iterable = true.
Proof. pose proof abc_ok_true as H. unfold abc_ok in H. repeat (apply andb_true_iff in H as [H ?]). assumption. Qed.
Lemma sub_Sequence_Collection : issub c_Sequence c_Collection = true.
Proof. pose proof abc_ok_true as H. unfold abc_ok in H. repeat (apply andb_true_iff in H as [H ?]). assumption. Qed.
Lemma sub_Mapping_Collection : issub c_Mapping c_Collection = true.
Proof. pose proof abc_ok_true as H. unfold abc_ok in H. repeat (apply andb_true_iff in H as [H ?]). assumption. Qed.
Lemma sub_tuple_Sequence : issub c_tuple c_Sequence = true.
Proof. pose proof abc_ok_true as H. unfold abc_ok in H. repeat (apply andb_true_iff in H as [H ?]). assumption. Qed.

Lemma not_Mapping_and_Sequence c : issub c c_Mapping = true -> issub c c_Sequence = true -> False.
Proof.
  intros H1 H2. destruct (issub_range _ _ H1) as [Lc _].
  pose proof abc_ok_true as H. unfold abc_ok in H. repeat (apply andb_true_iff in H as [H ?]).
  match goal with X : forallb (fun c => negb (issub c c_Mapping && issub c c_Sequence)) ids = true |- _ =>
    rewrite forallb_forall in X; specialize (X c (in_ids _ Lc)); rewrite H1, H2 in X; discriminate end.
Qed.

(* derived inclusions *)
Lemma sized_of_collection c : issub c c_Collection = true -> issub c c_Sized = true.
Proof. intros. eapply issub_trans; eauto using sub_Collection_Sized. discriminate. Qed.
Lemma iterable_of_collection c : issub c c_Collection = true -> issub c c_Iterable = true.
Proof. intros. eapply issub_trans; eauto using sub_Collection_Iterable. discriminate. Qed.
Lemma collection_of_sequence c : issub c c_Sequence = true -> issub c c_Collection = true.
Proof. intros. eapply issub_trans; eauto using sub_Sequence_Collection. discriminate. Qed.
Lemma collection_of_mapping c : issub c c_Mapping = true -> issub c c_Collection = true.
Proof. intros. eapply issub_trans; eauto using sub_Mapping_Collection. discriminate. Qed.

(* ---- what a well-formed object's class says about its shape ---- *)

Lemma isinst_single y c : isinst y [c] = issub (type_of y) c.
Proof. unfold isinst. cbn. now rewrite orb_false_r. Qed.

Lemma scalar_class_facts c :
  In c [c_NoneType; c_bool; c_int; c_float] ->
  issub c c_Sized = false /\ issub c c_Iterable = false /\ issub c c_Container = false
  /\ issub c c_type = false /\ issub c c_Mapping = false.
Proof.
  intros Hin. pose proof abc_ok_true as H. unfold abc_ok in H. repeat (apply andb_true_iff in H as [H ?]).
  match goal with X : forallb _ [c_NoneType; c_bool; c_int; c_float] = true |- _ =>
    rewrite forallb_forall in X; specialize (X c Hin);
    repeat (apply andb_true_iff in X as [X ?]);
    repeat match goal with Y : negb _ = true |- _ => apply negb_true_iff in Y end; auto end.
Qed.

Lemma type_class_facts :
  issub c_type c_Sized = false /\ issub c_type c_Iterable = false /\ issub c_type c_Container = false
  /\ issub c_type c_Mapping = false /\ issub c_str c_Mapping = false /\ issub c_bytes c_Mapping = false
  /\ issub c_str c_type = false /\ issub c_bytes c_type = false
  /\ issub c_str c_Sequence = true /\ issub c_bytes c_Sequence = true.
Proof.
  pose proof abc_ok_true as H. unfold abc_ok in H. repeat (apply andb_true_iff in H as [H ?]).
  repeat match goal with Y : negb _ = true |- _ => apply negb_true_iff in Y end. repeat split; auto.
Qed.

Lemma plain_facts c : plain c = true ->
  issub c c_Sized = false /\ issub c c_Iterable = false /\ issub c c_Container = false /\ issub c c_type = false.
Proof.
  unfold plain. intros H. repeat (apply andb_true_iff in H as [H ?]).
  repeat match goal with Y : negb _ = true |- _ => apply negb_true_iff in Y end. auto.
Qed.

(* Sized / Iterable / Container objects have items *)
Lemma items_of_some y c :
  wf y = true -> In c [c_Sized; c_Iterable; c_Container] -> issub (type_of y) c = true ->
  items_of y = Some (items y).
Proof.
  intros Hw Hin Hs. unfold items.
  destruct y as [| b | z | h | s | s | k l | k kvs | k | k attrs]; cbn [items_of]; try reflexivity;
    exfalso; cbn [type_of] in Hs.
  - destruct (scalar_class_facts c_NoneType) as (A & B & C & _); [cbn; tauto|].
    destruct Hin as [<-|[<-|[<-|[]]]]; congruence.
  - destruct (scalar_class_facts c_bool) as (A & B & C & _); [cbn; tauto|].
    destruct Hin as [<-|[<-|[<-|[]]]]; congruence.
  - destruct (scalar_class_facts c_int) as (A & B & C & _); [cbn; tauto|].
    destruct Hin as [<-|[<-|[<-|[]]]]; congruence.
  - destruct (scalar_class_facts c_float) as (A & B & C & _); [cbn; tauto|].
    destruct Hin as [<-|[<-|[<-|[]]]]; congruence.
  - destruct type_class_facts as (A & B & C & _).
    destruct Hin as [<-|[<-|[<-|[]]]]; congruence.
  - cbn in Hw. apply andb_true_iff in Hw as [Hp _]. destruct (plain_facts _ Hp) as (A & B & C & _).
    destruct Hin as [<-|[<-|[<-|[]]]]; congruence.
Qed.
