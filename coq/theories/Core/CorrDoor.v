(* Correspondence glue for C19: beartype.door.is_subhint on generated pairs against [is_subhint].
   Evaluated by vm_compute in generated case files.  No proofs. *)
From Coq Require Import List ZArith Bool Arith String.
From BT Require Import Gen.ClassTable Gen.SignSets Core.PyVal Core.Expr Core.Hint Core.Door.
Import ListNotations.
Local Open Scope list_scope.

Record dcase := { d_a : hint; d_b : hint; d_obs : r3 }.

Definition r3_eqb (x y : r3) : bool :=
  match x, y with RT, RT | RF, RF | RX, RX | RFuel, RFuel => true | _, _ => false end.

Definition check_dcase (k : dcase) : bool := r3_eqb (is_subhint (d_a k) (d_b k)) (d_obs k).

Fixpoint dfailing_from (i : nat) (ks : list dcase) : list nat :=
  match ks with
  | [] => []
  | k :: r => if check_dcase k then dfailing_from (S i) r else i :: dfailing_from (S i) r
  end.
Definition dfailing (ks : list dcase) : list nat := dfailing_from 0 ks.
