(* Shared core: the generated check expression evaluates, on every well-formed object, in
   every state and for every draw, to exactly the sampled semantics [chk] — without raising —
   and leaves the pith variables of enclosing nodes untouched. *)
From Coq Require Import List ZArith Bool Arith String Lia.
From BT Require Import Gen.ClassTable Gen.SignSets Gen.Templates.
From BT Require Import Core.PyVal Core.Expr Core.Hint Core.Check Core.ClassFacts.
From BT Require Export Core.Induct.
Import ListNotations.
Local Open Scope list_scope.

(* ------------------------------------------------------------ shape lemmas *)

Lemma wf_items y x : wf y = true -> In x (items y) -> wf x = true.
Proof.
  unfold items. destruct y as [| b | z | h | s | s | k l | k kvs | k | k attrs]; cbn; try tauto.
  - induction s as [|a s IH]; cbn; [tauto|]. intros _ [<-|H]; [reflexivity|now apply IH].
  - induction s as [|a s IH]; cbn; [tauto|]. intros _ [<-|H]; [reflexivity|now apply IH].
  - intros H Hin. repeat (apply andb_true_iff in H as [H ?]).
    match goal with X : forallb wf l = true |- _ => rewrite forallb_forall in X; now apply X end.
  - intros H Hin. apply andb_true_iff in H as [_ Hf]. rewrite forallb_forall in Hf.
    apply in_map_iff in Hin as ([a b] & <- & Hin). specialize (Hf _ Hin). cbn in Hf.
    apply andb_true_iff in Hf as [Hf _]. apply andb_true_iff in Hf as [Hf _]. exact Hf.
Qed.

Lemma wf_nth y n : wf y = true -> n < List.length (items y) -> wf (nth n (items y) VNone) = true.
Proof. intros Hw Hn. apply (wf_items y); [exact Hw|]. now apply nth_In. Qed.

Lemma py_len_sized y : wf y = true -> issub (type_of y) c_Sized = true ->
  py_len y = Ok (Z.of_nat (List.length (items y))).
Proof.
  intros Hw Hs. unfold py_len. rewrite Hs.
  assert (Hi : items_of y = Some (items y)) by (apply (items_of_some y c_Sized Hw); [cbn; tauto|exact Hs]).
  now rewrite Hi.
Qed.

Lemma wf_mapping_shape y : wf y = true -> issub (type_of y) c_Mapping = true -> exists c kvs, y = VMap c kvs.
Proof.
  intros Hw Hm.
  destruct y as [| b | z | h | s | s | k l | k kvs | k | k attrs]; cbn [type_of] in Hm; try (now eauto); exfalso.
  - cbn [wf] in Hw. repeat (apply andb_true_iff in Hw as [Hw ?]).
    match goal with X : negb (issub k c_Mapping) = true |- _ => rewrite Hm in X; discriminate end.
  - cbn [wf] in Hw. apply andb_true_iff in Hw as [Hp _]. destruct (plain_facts _ Hp) as (A & _).
    rewrite (sized_of_collection _ (collection_of_mapping _ Hm)) in A. discriminate.
Qed.

Lemma wf_type_shape y : wf y = true -> issub (type_of y) c_type = true -> exists c, y = VCls c.
Proof.
  intros Hw Hm.
  destruct y as [| b | z | h | s | s | k l | k kvs | k | k attrs]; cbn [type_of] in Hm; try (now eauto); exfalso.
  - cbn [wf] in Hw. repeat (apply andb_true_iff in Hw as [Hw ?]).
    match goal with X : negb (issub k c_type) = true |- _ => rewrite Hm in X; discriminate end.
  - cbn [wf] in Hw. repeat (apply andb_true_iff in Hw as [Hw ?]).
    match goal with X : negb (issub k c_type) = true |- _ => rewrite Hm in X; discriminate end.
  - cbn [wf] in Hw. apply andb_true_iff in Hw as [Hp _]. destruct (plain_facts _ Hp) as (_ & _ & _ & A). congruence.
Qed.

Lemma py_index_sequence y z : wf y = true -> issub (type_of y) c_Sequence = true ->
  (0 <= z < Z.of_nat (List.length (items y)))%Z ->
  py_index y (VInt z) = Ok (nth (Z.to_nat z) (items y) VNone).
Proof.
  intros Hw Hs Hz. unfold py_index.
  assert (Hi : items_of y = Some (items y)).
  { apply (items_of_some y c_Sized Hw); [cbn; tauto|].
    apply sized_of_collection, collection_of_sequence, Hs. }
  destruct y as [| b | z0 | h | s | s | k l | k kvs | k | k attrs];
    try (rewrite Hs, Hi; destruct (0 <=? z)%Z eqn:E; [|lia];
         rewrite (nth_error_nth' _ VNone) by lia; reflexivity).
  exfalso. cbn [wf] in Hw. apply andb_true_iff in Hw as [Hw _]. apply andb_true_iff in Hw as [Hm _].
  exact (not_Mapping_and_Sequence _ Hm Hs).
Qed.

Lemma py_first_iterable y : wf y = true -> issub (type_of y) c_Iterable = true -> items y <> [] ->
  py_first y = Ok (first y).
Proof.
  intros Hw Hs Hne. unfold py_first, first. rewrite Hs.
  assert (Hi : items_of y = Some (items y)) by (apply (items_of_some y c_Iterable Hw); [cbn; tauto|exact Hs]).
  rewrite Hi. destruct (items y); [congruence|reflexivity].
Qed.

Lemma lookup_head k v kvs : py_eq k k = true -> lookup k ((k, v) :: kvs) = Some v.
Proof. intros H. cbn. now rewrite H. Qed.

(* ------------------------------------------------------------ environments *)

Definition upd (E : nat -> option pyval) (i : nat) (y : pyval) : nat -> option pyval :=
  fun k => if Nat.eqb k i then Some y else E k.

(* protocol operations that cannot disturb the object they are applied to: len() of a Sized
   object, indexing a Sequence within bounds or a mapping at a key it holds (so __missing__
   cannot fire), and next(iter(.)) only of re-iterable Collections (never of a one-shot
   iterator or generator) *)
Definition safe_op (t : top) : Prop :=
  match t with
  | TLen v => issub (type_of v) c_Sized = true
  | TItem v i =>
      match v with
      | VMap _ kvs => lookup i kvs <> None
      | _ => issub (type_of v) c_Sequence = true /\
             exists z, i = VInt z /\ (0 <= z < Z.of_nat (List.length (items v)))%Z
      end
  | TFirst v => issub (type_of v) c_Collection = true
  | TFirstValue v => issub (type_of v) c_Mapping = true
  | TInst _ | TSub _ | TBool _ | TEq _ _ | TCall _ _ | TAttr _ _ => True
  end.

Lemma safe_item_seq y z : wf y = true -> issub (type_of y) c_Sequence = true ->
  (0 <= z < Z.of_nat (List.length (items y)))%Z -> safe_op (TItem y (VInt z)).
Proof.
  intros Hw Hs Hz. cbn [safe_op].
  destruct y as [| b | z0 | h | s | s | k l | k kvs | k | k attrs]; try (split; [exact Hs|eauto]).
  exfalso. cbn [wf] in Hw. apply andb_true_iff in Hw as [Hw _]. apply andb_true_iff in Hw as [Hm _].
  exact (not_Mapping_and_Sequence _ Hm Hs).
Qed.

Definition agree (n : nat) (E : nat -> option pyval) (s : st) : Prop :=
  (forall k, k < n -> env_get (Pith k) (env s) = E k) /\ Forall safe_op (trace s).

Lemma agree_get n E s k : agree n E s -> k < n -> env_get (Pith k) (env s) = E k.
Proof. intros [H _] L. now apply H. Qed.

Lemma agree_safe n E s : agree n E s -> Forall safe_op (trace s).
Proof. now intros [_ H]. Qed.

Lemma agree_mono m n E s : m <= n -> agree n E s -> agree m E s.
Proof. intros L [H T]. split; [|exact T]. intros k Hk. apply H. lia. Qed.

Lemma agree_log n E t s : agree n E s -> safe_op t -> agree n E (log t s).
Proof.
  intros [H T] Hs. split; [exact H|]. unfold log; cbn. apply Forall_app. split; [exact T|]. now constructor.
Qed.

Lemma agree_bind_ge n E s k v : agree n E s -> n <= k -> agree n E (bind (Pith k) v s).
Proof.
  intros [H T] L. split; [|exact T]. intros j Hj. unfold bind; cbn.
  destruct (Nat.eqb j k) eqn:Ej; [apply Nat.eqb_eq in Ej; lia|]. now apply H.
Qed.

Lemma agree_bind n E s v : agree n E s -> agree (S n) (upd E n v) (bind (Pith n) v s).
Proof.
  intros [H T]. split; [|exact T]. intros j Hj. unfold bind, upd; cbn.
  destruct (Nat.eqb j n) eqn:Ej; [reflexivity|]. apply Nat.eqb_neq in Ej. apply H. lia.
Qed.

Lemma agree_upd_below n E s i y : agree n (upd E i y) s -> n <= i -> agree n E s.
Proof.
  intros [H T] L. split; [|exact T]. intros k Hk. rewrite (H k Hk). unfold upd.
  destruct (Nat.eqb k i) eqn:Ek; [apply Nat.eqb_eq in Ek; lia|reflexivity].
Qed.

Lemma agree_upd_same n E s i y : agree n E s -> E i = Some y -> agree n (upd E i y) s.
Proof.
  intros [H T] He. split; [|exact T]. intros k Hk. rewrite (H k Hk). unfold upd.
  destruct (Nat.eqb k i) eqn:Ek; [apply Nat.eqb_eq in Ek; now subst|reflexivity].
Qed.

(* discharge "agree ... (log t (bind x v (log t' s)))" goals *)
Ltac safe_tac := cbn [safe_op]; auto.
Ltac solve_agree :=
  repeat match goal with
         | |- agree _ _ (log _ _) => apply agree_log; [|safe_tac]
         | |- agree (S _) (upd _ _ _) (bind _ _ _) => apply agree_bind
         end; try eassumption.

Section Correct.
  Variable cf : gconf.
  Variable r : Z.
  Variable pb : nat -> pyval -> bool.
  Notation preds := (preds_of pb).
  Notation ev := (eval r preds).

  Lemma ev_var n E s i y : agree n E s -> i < n -> E i = Some y -> ev (EVar (Pith i)) s = (Ok y, s).
  Proof. intros H L He. cbn. rewrite (agree_get _ _ _ _ H L), He. reflexivity. Qed.

  Definition node_i (pith : expr) (idx : nat) : nat := if simple pith then idx else S idx.
  Definition node_assign (pith : expr) (idx : nat) : expr :=
    if simple pith then pith else tpl_assign pith (Pith (S idx)).

  (* what a node may assume about its pith expression: in every state that agrees with E on the
     first p pith variables it evaluates (once bound) to y and establishes Pith i = y *)
  Definition pith_triple (pith : expr) (idx : nat) (y : pyval) (p : nat) (E : nat -> option pyval) : Prop :=
    let i := node_i pith idx in
    p <= S idx /\ (i < p -> E i = Some y) /\
    forall s, agree p E s ->
      exists s1, ev (node_assign pith idx) s = (Ok y, s1) /\ agree (S i) (upd E i y) s1.

  Definition post (pith : expr) (idx : nat) (y : pyval) (p : nat) (E : nat -> option pyval) (s2 : st) : Prop :=
    if simple pith then agree (S (node_i pith idx)) (upd E (node_i pith idx) y) s2 else agree p E s2.

  Lemma post_of_agree pith idx y p E s :
    p <= S idx -> agree (S (node_i pith idx)) (upd E (node_i pith idx) y) s -> post pith idx y p E s.
  Proof.
    intros L H. unfold post, node_i in *. destruct (simple pith); [exact H|].
    apply (agree_upd_below _ _ _ (S idx) y); [|lia]. eapply agree_mono; [|exact H]. lia.
  Qed.

  Lemma post_log pith idx y p E t s : safe_op t -> post pith idx y p E s -> post pith idx y p E (log t s).
  Proof. unfold post. intros Hs. destruct (simple pith); intros H; solve_agree. Qed.

  (* the raw pith expression (used by leaf nodes instead of the assignment) *)
  Lemma raw_pith pith idx y p E s :
    pith_triple pith idx y p E -> agree p E s ->
    exists s1, ev pith s = (Ok y, s1) /\ post pith idx y p E s1.
  Proof.
    intros (L & _ & H) Ha. destruct (H s Ha) as (s1 & E1 & A1).
    unfold post, node_assign, node_i in *. destruct (simple pith) eqn:Es.
    - exists s1. auto.
    - unfold tpl_assign in E1. cbn [eval] in E1.
      destruct (ev pith s) as [[v|x] s0] eqn:Ep; [|discriminate]. inversion E1; subst. exists s0. split; [reflexivity|].
      split; [|exact (agree_safe _ _ _ A1)].
      intros k Hk. pose proof (agree_get _ _ _ k A1) as A1k. unfold bind, upd in A1k. cbn in A1k.
      destruct (Nat.eqb k (S idx)) eqn:Ek; [apply Nat.eqb_eq in Ek; lia|]. apply A1k. lia.
  Qed.

  (* what every node's code guarantees (ignorable hints are elided by their parents) *)
  Definition node_ok (h : hint) : Prop :=
    ignorable h = false ->
    forall pith idx y p E,
      pith_triple pith idx y p E -> wf y = true ->
      forall s, agree p E s ->
        exists s2, ev (gen cf h pith idx) s = (Ok (VBool (chk cf r pb h y)), s2) /\ post pith idx y p E s2.

  Lemma leaf_instance c pith idx y p E s :
    pith_triple pith idx y p E -> agree p E s ->
    exists s2, ev (tpl_instance [c] pith) s = (Ok (VBool (isinst y [c])), s2) /\ post pith idx y p E s2.
  Proof.
    intros Ht Ha. destruct (raw_pith _ _ _ _ _ _ Ht Ha) as (s1 & E1 & P1).
    exists (log (TInst y) s1). unfold tpl_instance. cbn [eval]. rewrite E1. split; [reflexivity|apply post_log; [exact I|assumption]].
  Qed.

  Lemma ok_any : node_ok HAny.
  Proof. intros Hi. discriminate. Qed.

  Lemma ok_cls c : node_ok (HCls c).
  Proof. intros _ pith idx y p E Ht Hw s Ha. cbn [gen chk]. now apply leaf_instance. Qed.

  Lemma ok_shallow c : node_ok (HShallow c).
  Proof. intros _ pith idx y p E Ht Hw s Ha. cbn [gen chk]. now apply leaf_instance. Qed.

  (* ---------------- evaluation steps ---------------- *)
  Lemma ev_isinst e cs s y s1 : ev e s = (Ok y, s1) ->
    ev (EIsInst e cs) s = (Ok (VBool (isinst y cs)), log (TInst y) s1).
  Proof. intros H. cbn [eval]. now rewrite H. Qed.
  Lemma ev_and a b s va s1 : ev a s = (Ok va, s1) ->
    ev (EAnd a b) s = if truthy va then ev b s1 else (Ok va, s1).
  Proof. intros H. cbn [eval]. now rewrite H. Qed.
  Lemma ev_or a b s va s1 : ev a s = (Ok va, s1) ->
    ev (EOr a b) s = if truthy va then (Ok va, s1) else ev b s1.
  Proof. intros H. cbn [eval]. now rewrite H. Qed.
  Lemma ev_not e s v s1 : ev e s = (Ok v, s1) ->
    ev (ENot e) s = (Ok (VBool (negb (truthy v))), if is_container v then log (TBool v) s1 else s1).
  Proof. intros H. cbn [eval]. now rewrite H. Qed.
  Lemma ev_len e s v s1 n : ev e s = (Ok v, s1) -> py_len v = Ok n ->
    ev (ELen e) s = (Ok (VInt n), log (TLen v) s1).
  Proof. intros H L. cbn [eval]. now rewrite H, L. Qed.
  Lemma ev_index e i s v s1 iv s2 x : ev e s = (Ok v, s1) -> ev i s1 = (Ok iv, s2) -> py_index v iv = Ok x ->
    ev (EIndex e i) s = (Ok x, log (TItem v iv) s2).
  Proof. intros H1 H2 H3. cbn [eval]. now rewrite H1, H2, H3. Qed.
  Lemma ev_first e s v s1 x : ev e s = (Ok v, s1) -> py_first v = Ok x ->
    ev (EFirst e) s = (Ok x, log (TFirst v) s1).
  Proof. intros H1 H2. cbn [eval]. now rewrite H1, H2. Qed.
  Lemma ev_first_value e s v s1 x : ev e s = (Ok v, s1) -> py_first_value v = Ok x ->
    ev (EFirstValue e) s = (Ok x, log (TFirstValue v) s1).
  Proof. intros H1 H2. cbn [eval]. now rewrite H1, H2. Qed.
  Lemma ev_walrus x e s v s1 : ev e s = (Ok v, s1) -> ev (EWalrus x e) s = (Ok v, bind x v s1).
  Proof. intros H. cbn [eval]. now rewrite H. Qed.
  Lemma ev_let x e s v s1 : ev e s = (Ok v, s1) -> ev (ELet x e) s = (Ok (VBool true), bind x v s1).
  Proof. intros H. cbn [eval]. now rewrite H. Qed.
  Lemma ev_eq a b s va s1 vb s2 : ev a s = (Ok va, s1) -> ev b s1 = (Ok vb, s2) ->
    ev (EEq a b) s = (Ok (VBool (py_eq va vb)), log (TEq va vb) s2).
  Proof. intros H1 H2. cbn [eval]. now rewrite H1, H2. Qed.

  Lemma ev_mod a b s x s1 y0 s2 : ev a s = (Ok (VInt x), s1) -> ev b s1 = (Ok (VInt y0), s2) -> y0 <> 0%Z ->
    ev (EMod a b) s = (Ok (VInt (x mod y0)), s2).
  Proof.
    intros H1 H2 H3. cbn [eval]. rewrite H1, H2. destruct (Z.eqb_spec y0 0); [contradiction|reflexivity].
  Qed.

  Lemma ev_v i E y s : agree (S i) (upd E i y) s -> ev (EVar (Pith i)) s = (Ok y, s).
  Proof. intros H. cbn [eval]. rewrite (agree_get _ _ _ i H) by lia. unfold upd. now rewrite Nat.eqb_refl. Qed.

  Lemma node_enter pith idx y p E s :
    pith_triple pith idx y p E -> agree p E s ->
    exists s1, ev (node_assign pith idx) s = (Ok y, s1)
               /\ agree (S (node_i pith idx)) (upd E (node_i pith idx) y) s1.
  Proof. intros (_ & _ & H) Ha. exact (H s Ha). Qed.

  Lemma triple_le pith idx y p E : pith_triple pith idx y p E -> p <= S idx.
  Proof. now intros (L & _). Qed.

  (* a compound child pith expression that reads only the current pith variable *)
  Lemma child_triple i E1 e y' :
    simple e = false ->
    (forall s, agree (S i) E1 s -> exists s', ev e s = (Ok y', s') /\ agree (S i) E1 s') ->
    pith_triple e i y' (S i) E1.
  Proof.
    intros Hs H. unfold pith_triple, node_i, node_assign. rewrite Hs. split; [lia|]. split; [lia|].
    intros s Ha. destruct (H s Ha) as (s' & Ee & A'). exists (bind (Pith (S i)) y' s'). split.
    - unfold tpl_assign. now apply ev_walrus.
    - now apply agree_bind.
  Qed.

  (* a child that is handed the (already bound) current pith variable itself *)
  Lemma var_triple i E y : pith_triple (EVar (Pith i)) i y (S i) (upd E i y).
  Proof.
    unfold pith_triple, node_i, node_assign. cbn [simple]. split; [lia|]. split.
    - intros _. unfold upd. now rewrite Nat.eqb_refl.
    - intros s Ha. exists s. split; [now apply (ev_v i E)|].
      apply agree_upd_same; [exact Ha|]. unfold upd. now rewrite Nat.eqb_refl.
  Qed.

  Lemma post_var_child i E y s2 :
    post (EVar (Pith i)) i y (S i) (upd E i y) s2 -> agree (S i) (upd E i y) s2.
  Proof.
    unfold post, node_i. cbn [simple]. intros [H T]. split; [|exact T]. intros k Hk. rewrite (H k Hk). unfold upd.
    destruct (Nat.eqb k i); reflexivity.
  Qed.

  Lemma post_compound_child i E1 e y' s2 : simple e = false -> post e i y' (S i) E1 s2 -> agree (S i) E1 s2.
  Proof. unfold post. now intros ->. Qed.

  (* sampling a sequence *)
  Lemma seq_child_eval i E1 y s :
    wf y = true -> issub (type_of y) c_Sequence = true -> items y <> [] -> E1 i = Some y ->
    agree (S i) E1 s ->
    exists s', ev (seq_child cf (EVar (Pith i))) s = (Ok (sample cf r y), s') /\ agree (S i) E1 s'.
  Proof.
    intros Hw Hs Hne He Ha.
    assert (Hv : forall s0, agree (S i) E1 s0 -> ev (EVar (Pith i)) s0 = (Ok y, s0)).
    { intros s0 H0. cbn [eval]. rewrite (agree_get _ _ _ i H0) by lia. now rewrite He. }
    assert (Hlen : py_len y = Ok (Z.of_nat (List.length (items y)))).
    { apply py_len_sized; [exact Hw|]. now apply sized_of_collection, collection_of_sequence. }
    assert (Hpos : (0 < Z.of_nat (List.length (items y)))%Z) by (destruct (items y); [congruence|cbn; lia]).
    unfold seq_child, sample. destruct (is_random cf).
    - unfold tpl_sequence_child_random.
      eexists. split.
      + eapply ev_index; [apply Hv; exact Ha| |].
        * eapply ev_mod; [cbn [eval]; reflexivity|eapply ev_len; [apply Hv; exact Ha|exact Hlen]|lia].
        * rewrite py_index_sequence; [|exact Hw|exact Hs|apply Z.mod_pos_bound; exact Hpos].
          destruct (items y); [congruence|reflexivity].
      + apply agree_log; [apply agree_log; [exact Ha|]|].
        * cbn [safe_op]. now apply sized_of_collection, collection_of_sequence.
        * apply safe_item_seq; [exact Hw|exact Hs|apply Z.mod_pos_bound; exact Hpos].
    - unfold tpl_sequence_child_first. eexists. split.
      + eapply ev_index; [apply Hv; exact Ha|cbn [eval]; reflexivity|].
        rewrite py_index_sequence; [reflexivity|exact Hw|exact Hs|lia].
      + apply agree_log; [exact Ha|]. apply safe_item_seq; [exact Hw|exact Hs|lia].
  Qed.

  Lemma wf_first y : wf y = true -> items y <> [] -> wf (first y) = true.
  Proof. intros Hw Hne. unfold first. apply wf_nth; [exact Hw|]. destruct (items y); [congruence|cbn; lia]. Qed.

  Lemma wf_sample y : wf y = true -> items y <> [] -> wf (sample cf r y) = true.
  Proof.
    intros Hw Hne. unfold sample. destruct (is_random cf); [|now apply wf_first].
    destruct (items y) as [|a l] eqn:El; [congruence|]. rewrite <- El. apply wf_nth; [exact Hw|].
    assert (0 < Z.of_nat (List.length (items y)))%Z by (rewrite El; cbn; lia).
    pose proof (Z.mod_pos_bound r _ H). lia.
  Qed.

  Lemma len0_items y : len0 y = match items y with [] => true | _ => false end.
  Proof. reflexivity. Qed.

  (* the shared shape of the sequence and reiterable snippets *)
  Lemma container_generic s0 ch (mk : expr -> expr) (sel : pyval -> pyval) :
    node_ok ch -> ignorable ch = false ->
    (forall v, simple (mk v) = false) ->
    (forall y, wf y = true -> isinst y [sign_origin s0] = true -> issub (type_of y) c_Sized = true) ->
    (forall y i E1 s, wf y = true -> isinst y [sign_origin s0] = true -> items y <> [] ->
        E1 i = Some y -> agree (S i) E1 s ->
        exists s', ev (mk (EVar (Pith i))) s = (Ok (sel y), s') /\ agree (S i) E1 s') ->
    (forall y, wf y = true -> items y <> [] -> wf (sel y) = true) ->
    forall pith idx y p E, pith_triple pith idx y p E -> wf y = true -> forall s, agree p E s ->
      exists s2,
        ev (tpl_container (gen cf ch (mk (EVar (Pith (node_i pith idx)))) (node_i pith idx))
                          [sign_origin s0] (node_assign pith idx) (EVar (Pith (node_i pith idx)))) s
        = (Ok (VBool (isinst y [sign_origin s0] && (len0 y || chk cf r pb ch (sel y)))), s2)
        /\ post pith idx y p E s2.
  Proof.
    intros IH Hig Hsimple Hsized Hsel Hwsel pith idx y p E Ht Hw s Ha.
    destruct (node_enter _ _ _ _ _ _ Ht Ha) as (s1 & Eas & A1).
    set (i := node_i pith idx) in *. set (E1 := upd E i y) in *.
    assert (HE1 : E1 i = Some y) by (unfold E1, upd; now rewrite Nat.eqb_refl).
    unfold tpl_container.
    rewrite (ev_and _ _ _ _ _ (ev_isinst _ [sign_origin s0] _ _ _ Eas)). cbn [truthy].
    destruct (isinst y [sign_origin s0]) eqn:Ei; cbn [andb].
    2: { exists (log (TInst y) s1). split; [reflexivity|].
         apply post_of_agree; [eapply triple_le; eauto|]. solve_agree. }
    pose proof (Hsized y Hw Ei) as Hs.
    pose proof (py_len_sized y Hw Hs) as Hlen.
    assert (A2 : agree (S i) E1 (log (TInst y) s1)) by solve_agree.
    rewrite (ev_or _ _ _ _ _ (ev_not _ _ _ _ (ev_len _ _ _ _ _ (ev_v i E y _ A2) Hlen))).
    cbn [truthy negb is_container]. rewrite len0_items.
    destruct (items y) as [|a l] eqn:El.
    - cbn. eexists. split; [reflexivity|].
      apply post_of_agree; [eapply triple_le; eauto|]. solve_agree.
    - cbn [List.length]. replace (Z.of_nat (S (List.length l)) =? 0)%Z with false by (symmetry; apply Z.eqb_neq; lia).
      cbn [negb orb].
      assert (Hne : items y <> []) by (rewrite El; discriminate).
      assert (A3 : agree (S i) E1 (log (TLen y) (log (TInst y) s1))) by solve_agree.
      assert (Htr : pith_triple (mk (EVar (Pith i))) i (sel y) (S i) E1).
      { apply child_triple; [apply Hsimple|]. intros s0' A0. now apply (Hsel y i E1 s0' Hw Ei Hne HE1 A0). }
      destruct (IH Hig _ _ _ _ _ Htr (Hwsel y Hw Hne) _ A3) as (s4 & Eev & P4).
      rewrite Eev. exists s4. split; [reflexivity|].
      apply post_of_agree; [eapply triple_le; eauto|].
      exact (post_compound_child _ _ _ _ _ (Hsimple _) P4).
  Qed.

  Lemma family_seq_origin s0 : sign_family s0 = Some FSequence -> issub (sign_origin s0) c_Sequence = true.
  Proof.
    intros H. do 40 (destruct s0 as [|s0]; [cbn in H |- *; first [discriminate|vm_compute; reflexivity]|]).
    cbn in H. discriminate.
  Qed.

  Lemma family_reit_origin s0 : sign_family s0 = Some FReiterable -> issub (sign_origin s0) c_Collection = true.
  Proof.
    intros H. do 40 (destruct s0 as [|s0]; [cbn in H |- *; first [discriminate|vm_compute; reflexivity]|]).
    cbn in H. discriminate.
  Qed.

  Lemma gen_cont_unfold s0 ch pith idx : ignorable ch = false ->
    gen cf (HCont s0 ch) pith idx =
    match sign_family s0 with
    | Some FSequence =>
        tpl_container (gen cf ch (seq_child cf (EVar (Pith (node_i pith idx)))) (node_i pith idx))
                      [sign_origin s0] (node_assign pith idx) (EVar (Pith (node_i pith idx)))
    | Some FReiterable =>
        tpl_container (gen cf ch (tpl_reiterable_child (EVar (Pith (node_i pith idx)))) (node_i pith idx))
                      [sign_origin s0] (node_assign pith idx) (EVar (Pith (node_i pith idx)))
    | Some FQuasi =>
        tpl_quasiiterable [quasi_collection_abc]
          (gen cf ch (EVar (Pith (S (node_i pith idx)))) (S (node_i pith idx))) [sign_origin s0]
          (Pith (S (node_i pith idx))) (node_assign pith idx) (EVar (Pith (node_i pith idx)))
          [quasi_sequence_abc] (seq_child cf (EVar (Pith (node_i pith idx))))
    | None => ETrue
    end.
  Proof. intros H. cbn [gen]. rewrite H. reflexivity. Qed.

  Lemma seq_child_simple v : simple (seq_child cf v) = false.
  Proof. unfold seq_child. destruct (is_random cf); reflexivity. Qed.

  Lemma ok_cont_sequence s0 ch :
    node_ok ch -> ignorable ch = false -> sign_family s0 = Some FSequence -> node_ok (HCont s0 ch).
  Proof.
    intros IH Hig Hf _ pith idx y p E Ht Hw s Ha.
    rewrite gen_cont_unfold by exact Hig. cbn [chk]. rewrite Hig, Hf.
    apply (container_generic s0 ch (seq_child cf) (sample cf r)); auto using seq_child_simple, wf_sample.
    - intros y0 Hw0 Hi0. rewrite isinst_single in Hi0.
      apply sized_of_collection, collection_of_sequence.
      eapply issub_trans; [discriminate|exact Hi0|now apply family_seq_origin].
    - intros y0 i E1 s1 Hw0 Hi0 Hne HE A. rewrite isinst_single in Hi0.
      apply seq_child_eval; auto.
      eapply issub_trans; [discriminate|exact Hi0|now apply family_seq_origin].
  Qed.

  Lemma ok_cont_reiterable s0 ch :
    node_ok ch -> ignorable ch = false -> sign_family s0 = Some FReiterable -> node_ok (HCont s0 ch).
  Proof.
    intros IH Hig Hf _ pith idx y p E Ht Hw s Ha.
    rewrite gen_cont_unfold by exact Hig. cbn [chk]. rewrite Hig, Hf.
    apply (container_generic s0 ch tpl_reiterable_child first); auto using wf_first.
    - intros y0 Hw0 Hi0. rewrite isinst_single in Hi0. apply sized_of_collection.
      eapply issub_trans; [discriminate|exact Hi0|now apply family_reit_origin].
    - intros y0 i E1 s1 Hw0 Hi0 Hne HE A. rewrite isinst_single in Hi0.
      assert (Hc : issub (type_of y0) c_Collection = true)
        by (eapply issub_trans; [discriminate|exact Hi0|now apply family_reit_origin]).
      eexists. split.
      + unfold tpl_reiterable_child. eapply ev_first.
        * cbn [eval]. rewrite (agree_get _ _ _ i A) by lia. rewrite HE. reflexivity.
        * apply py_first_iterable; auto. now apply iterable_of_collection.
      + solve_agree.
  Qed.

  (* ---------------- quasi-iterables (Iterable / Container / Reversible) ---------------- *)
  Lemma agree_child_back i E1 y' s : agree (S (S i)) (upd E1 (S i) y') s -> agree (S i) E1 s.
  Proof. intros H. apply (agree_upd_below _ _ _ (S i) y'); [|lia]. eapply agree_mono; [|exact H]. lia. Qed.

  Lemma ok_cont_quasi s0 ch :
    node_ok ch -> ignorable ch = false -> sign_family s0 = Some FQuasi -> node_ok (HCont s0 ch).
  Proof.
    intros IH Hig Hf _ pith idx y p E Ht Hw s Ha.
    rewrite gen_cont_unfold by exact Hig. cbn [chk]. rewrite Hig, Hf.
    destruct (node_enter _ _ _ _ _ _ Ht Ha) as (s1 & Eas & A1).
    set (i := node_i pith idx) in *. set (E1 := upd E i y) in *.
    assert (HE1 : E1 i = Some y) by (unfold E1, upd; now rewrite Nat.eqb_refl).
    assert (Hqc : quasi_collection_abc = c_Collection) by reflexivity.
    assert (Hqs : quasi_sequence_abc = c_Sequence) by reflexivity.
    unfold tpl_quasiiterable.
    rewrite (ev_and _ _ _ _ _ (ev_isinst _ [sign_origin s0] _ _ _ Eas)). cbn [truthy].
    destruct (isinst y [sign_origin s0]) eqn:Ei; cbn [andb].
    2: { exists (log (TInst y) s1). split; [reflexivity|].
         apply post_of_agree; [eapply triple_le; eauto|]. solve_agree. }
    assert (A2 : agree (S i) E1 (log (TInst y) s1)) by solve_agree.
    rewrite (ev_or _ _ _ _ _ (ev_not _ _ _ _ (ev_isinst _ [quasi_collection_abc] _ _ _ (ev_v i E y _ A2)))).
    cbn [truthy negb is_container].
    destruct (isinst y [quasi_collection_abc]) eqn:Ec; cbn [negb orb].
    2: { eexists. split; [reflexivity|]. apply post_of_agree; [eapply triple_le; eauto|]. solve_agree. }
    rewrite Hqc, isinst_single in Ec.
    pose proof (sized_of_collection _ Ec) as Hsz.
    pose proof (py_len_sized y Hw (sized_of_collection _ Ec)) as Hlen.
    assert (A3 : agree (S i) E1 (log (TInst y) (log (TInst y) s1))) by solve_agree.
    rewrite (ev_or _ _ _ _ _ (ev_not _ _ _ _ (ev_len _ _ _ _ _ (ev_v i E y _ A3) Hlen))).
    cbn [truthy negb is_container]. rewrite len0_items.
    destruct (items y) as [|a l] eqn:El.
    { cbn. eexists. split; [reflexivity|]. apply post_of_agree; [eapply triple_le; eauto|]. solve_agree. }
    cbn [List.length]. replace (Z.of_nat (S (List.length l)) =? 0)%Z with false by (symmetry; apply Z.eqb_neq; lia).
    cbn [negb orb].
    assert (Hne : items y <> []) by (rewrite El; discriminate).
    set (s4 := log (TLen y) (log (TInst y) (log (TInst y) s1))).
    assert (A4 : agree (S i) E1 s4) by (unfold s4; solve_agree).
    (* the item selection: binds Pith (S i) *)
    set (y' := if isinst y [quasi_sequence_abc] then sample cf r y else first y).
    assert (Hsel : exists s5, ev (EOr (EAnd (EIsInst (EVar (Pith i)) [quasi_sequence_abc])
                                        (ELet (Pith (S i)) (seq_child cf (EVar (Pith i)))))
                                  (ELet (Pith (S i)) (EFirst (EVar (Pith i))))) s4
                         = (Ok (VBool true), s5) /\ agree (S (S i)) (upd E1 (S i) y') s5).
    { unfold y'.
      pose proof (ev_and _ (ELet (Pith (S i)) (seq_child cf (EVar (Pith i)))) _ _ _
                    (ev_isinst _ [quasi_sequence_abc] _ _ _ (ev_v i E y _ A4))) as Hand.
      cbn [truthy] in Hand.
      assert (A5 : agree (S i) E1 (log (TInst y) s4)) by solve_agree.
      destruct (isinst y [quasi_sequence_abc]) eqn:Es.
      - rewrite Hqs, isinst_single in Es.
        destruct (seq_child_eval i E1 y _ Hw Es Hne HE1 A5) as (s6 & E6 & A6).
        rewrite (ev_let _ _ _ _ _ E6) in Hand. rewrite (ev_or _ _ _ _ _ Hand). cbn [truthy].
        eexists. split; [reflexivity|]. now apply agree_bind.
      - rewrite (ev_or _ _ _ _ _ Hand). cbn [truthy].
        erewrite ev_let; [|eapply ev_first; [apply (ev_v i E y _ A5)|]].
        2: { apply py_first_iterable; auto. now apply iterable_of_collection. }
        eexists. split; [reflexivity|]. solve_agree. }
    destruct Hsel as (s5 & E5 & A5).
    rewrite (ev_and _ _ _ _ _ E5). cbn [truthy].
    assert (Hwy' : wf y' = true).
    { unfold y'. destruct (isinst y [quasi_sequence_abc]); [now apply wf_sample|now apply wf_first]. }
    destruct (IH Hig _ _ _ _ _ (var_triple (S i) E1 y') Hwy' _ A5) as (s6 & E6 & P6).
    rewrite E6. exists s6. split; [reflexivity|].
    apply post_of_agree; [eapply triple_le; eauto|].
    apply (agree_child_back i E1 y'). now apply post_var_child.
  Qed.

  (* ---------------- mappings ---------------- *)
  Lemma map_origin_mapping s0 : In s0 map_signs -> issub (map_origin s0) c_Mapping = true.
  Proof.
    intros Hin. pose proof signs_ok_true as H. unfold signs_ok in H.
    repeat (apply andb_true_iff in H as [H ?]).
    match goal with X : forallb (fun s => issub (map_origin s) c_Mapping) map_signs = true |- _ =>
      rewrite forallb_forall in X; now apply X end.
  Qed.

  Lemma counter_origin_mapping : issub counter_origin c_Mapping = true.
  Proof.
    pose proof signs_ok_true as H. unfold signs_ok in H. repeat (apply andb_true_iff in H as [H ?]). assumption.
  Qed.

  Lemma mapping_view y o : wf y = true -> isinst y [o] = true -> issub o c_Mapping = true ->
    issub (type_of y) c_Mapping = true /\ exists c kvs, y = VMap c kvs.
  Proof.
    intros Hw Hi Ho. rewrite isinst_single in Hi.
    assert (Hm : issub (type_of y) c_Mapping = true) by (eapply issub_trans; [discriminate|exact Hi|exact Ho]).
    split; [exact Hm|]. now apply wf_mapping_shape.
  Qed.

  Lemma wf_map_head c k x rest : wf (VMap c ((k, x) :: rest)) = true ->
    wf k = true /\ wf x = true /\ py_eq k k = true.
  Proof.
    cbn [wf forallb fst snd]. intros H. apply andb_true_iff in H as [_ H]. apply andb_true_iff in H as [H _].
    apply andb_true_iff in H as [H H3]. apply andb_true_iff in H as [H1 H2]. auto.
  Qed.

  Lemma mapping_generic o (kvcode : expr -> nat -> expr) (B : pyval -> bool) :
    issub o c_Mapping = true ->
    (forall y i E1 s, wf y = true -> isinst y [o] = true -> items y <> [] -> E1 i = Some y ->
        agree (S i) E1 s ->
        exists s', ev (kvcode (EVar (Pith i)) i) s = (Ok (VBool (B y)), s') /\ agree (S i) E1 s') ->
    forall pith idx y p E, pith_triple pith idx y p E -> wf y = true -> forall s, agree p E s ->
      exists s2,
        ev (tpl_mapping (kvcode (EVar (Pith (node_i pith idx))) (node_i pith idx)) [o]
                        (node_assign pith idx) (EVar (Pith (node_i pith idx)))) s
        = (Ok (VBool (isinst y [o] && (len0 y || B y))), s2) /\ post pith idx y p E s2.
  Proof.
    intros Ho Hkv pith idx y p E Ht Hw s Ha.
    destruct (node_enter _ _ _ _ _ _ Ht Ha) as (s1 & Eas & A1).
    set (i := node_i pith idx) in *. set (E1 := upd E i y) in *.
    assert (HE1 : E1 i = Some y) by (unfold E1, upd; now rewrite Nat.eqb_refl).
    unfold tpl_mapping.
    rewrite (ev_and _ _ _ _ _ (ev_isinst _ [o] _ _ _ Eas)). cbn [truthy].
    destruct (isinst y [o]) eqn:Ei; cbn [andb].
    2: { exists (log (TInst y) s1). split; [reflexivity|].
         apply post_of_agree; [eapply triple_le; eauto|]. solve_agree. }
    destruct (mapping_view y o Hw Ei Ho) as (Hm & _).
    pose proof (sized_of_collection _ (collection_of_mapping _ Hm)) as Hsz.
    pose proof (py_len_sized y Hw (sized_of_collection _ (collection_of_mapping _ Hm))) as Hlen.
    assert (A2 : agree (S i) E1 (log (TInst y) s1)) by solve_agree.
    rewrite (ev_or _ _ _ _ _ (ev_not _ _ _ _ (ev_len _ _ _ _ _ (ev_v i E y _ A2) Hlen))).
    cbn [truthy negb is_container]. rewrite len0_items.
    destruct (items y) as [|a l] eqn:El.
    - cbn. eexists. split; [reflexivity|].
      apply post_of_agree; [eapply triple_le; eauto|]. solve_agree.
    - cbn [List.length]. replace (Z.of_nat (S (List.length l)) =? 0)%Z with false by (symmetry; apply Z.eqb_neq; lia).
      cbn [negb orb].
      assert (Hne : items y <> []) by (rewrite El; discriminate).
      assert (A3 : agree (S i) E1 (log (TLen y) (log (TInst y) s1))) by solve_agree.
      destruct (Hkv y i E1 _ Hw Ei Hne HE1 A3) as (s4 & E4 & A4).
      rewrite E4. exists s4. split; [reflexivity|].
      apply post_of_agree; [eapply triple_le; eauto|]. exact A4.
  Qed.

  (* evaluating the three child pith expressions of a non-empty mapping *)
  Lemma map_first_key y o i E1 s :
    wf y = true -> isinst y [o] = true -> issub o c_Mapping = true -> items y <> [] -> E1 i = Some y ->
    agree (S i) E1 s ->
    ev (EFirst (EVar (Pith i))) s = (Ok (first y), log (TFirst y) s) /\ wf (first y) = true.
  Proof.
    intros Hw Hi Ho Hne HE A. destruct (mapping_view y o Hw Hi Ho) as (Hm & _). split.
    - eapply ev_first; [cbn [eval]; rewrite (agree_get _ _ _ i A) by lia; now rewrite HE|].
      apply py_first_iterable; auto. now apply iterable_of_collection, collection_of_mapping.
    - now apply wf_first.
  Qed.

  Lemma map_first_value y o i E1 s :
    wf y = true -> isinst y [o] = true -> issub o c_Mapping = true -> items y <> [] -> E1 i = Some y ->
    agree (S i) E1 s ->
    ev (EFirstValue (EVar (Pith i))) s = (Ok (first_value y), log (TFirstValue y) s)
    /\ wf (first_value y) = true.
  Proof.
    intros Hw Hi Ho Hne HE A. destruct (mapping_view y o Hw Hi Ho) as (Hm & c & kvs & ->).
    destruct kvs as [|[k x] rest]; [cbn in Hne; congruence|].
    destruct (wf_map_head _ _ _ _ Hw) as (_ & Hx & _). split; [|exact Hx].
    eapply ev_first_value; [cbn [eval]; rewrite (agree_get _ _ _ i A) by lia; now rewrite HE|reflexivity].
  Qed.

  Lemma map_key_value y o i E2 s :
    wf y = true -> isinst y [o] = true -> issub o c_Mapping = true -> items y <> [] ->
    E2 i = Some y -> E2 (S i) = Some (first y) -> agree (S (S i)) E2 s ->
    ev (tpl_mapping_key_value_child (EVar (Pith i)) (EVar (Pith (S i)))) s
      = (Ok (value_of_first_key y), log (TItem y (first y)) s)
    /\ wf (value_of_first_key y) = true /\ safe_op (TItem y (first y)).
  Proof.
    intros Hw Hi Ho Hne HE HE' A. destruct (mapping_view y o Hw Hi Ho) as (Hm & c & kvs & ->).
    destruct kvs as [|[k x] rest]; [cbn in Hne; congruence|].
    destruct (wf_map_head _ _ _ _ Hw) as (_ & Hx & Hk).
    assert (Hv : value_of_first_key (VMap c ((k, x) :: rest)) = x).
    { unfold value_of_first_key, first, items. cbn [items_of map fst nth]. now rewrite (lookup_head _ _ _ Hk). }
    rewrite Hv. split; [|split; [exact Hx|]].
    2: { cbn [safe_op]. unfold first, items. cbn [items_of map fst nth].
         rewrite (lookup_head _ _ _ Hk). discriminate. }
    unfold tpl_mapping_key_value_child. eapply ev_index.
    - cbn [eval]. rewrite (agree_get _ _ _ i A) by lia. now rewrite HE.
    - cbn [eval]. rewrite (agree_get _ _ _ (S i) A) by lia. now rewrite HE'.
    - unfold py_index, first, items. cbn [items_of map fst nth]. now rewrite (lookup_head _ _ _ Hk).
  Qed.

  Lemma upd_other E i j y : i <> j -> upd E j y i = E i.
  Proof. intros H. unfold upd. destruct (Nat.eqb i j) eqn:Ej; [apply Nat.eqb_eq in Ej; congruence|reflexivity]. Qed.
  Lemma upd_self E i y : upd E i y i = Some y.
  Proof. unfold upd. now rewrite Nat.eqb_refl. Qed.

  (* the key-and-value snippet, with an arbitrary (total) check of the value *)
  Lemma key_value_code o k (valcode : expr -> nat -> expr) (Bv : pyval -> bool) :
    issub o c_Mapping = true -> node_ok k -> ignorable k = false ->
    (forall y' i E2 e s, simple e = false -> wf y' = true ->
        (forall s0, agree (S i) E2 s0 -> exists s1, ev e s0 = (Ok y', s1) /\ agree (S i) E2 s1) ->
        agree (S i) E2 s ->
        exists s', ev (valcode e i) s = (Ok (VBool (Bv y')), s') /\ agree (S i) E2 s') ->
    forall y i E1 s, wf y = true -> isinst y [o] = true -> items y <> [] -> E1 i = Some y ->
      agree (S i) E1 s ->
      exists s', ev (tpl_mapping_key_value (gen cf k (EVar (Pith (S i))) (S i))
                       (valcode (tpl_mapping_key_value_child (EVar (Pith i)) (EVar (Pith (S i)))) (S i))
                       (EVar (Pith i)) (Pith (S i))) s
                 = (Ok (VBool (chk cf r pb k (first y) && Bv (value_of_first_key y))), s')
                 /\ agree (S i) E1 s'.
  Proof.
    intros Ho IHk Hik Hval y i E1 s Hw Hi Hne HE A.
    destruct (map_first_key y o i E1 s Hw Hi Ho Hne HE A) as (Ef & Hwf).
    unfold tpl_mapping_key_value.
    rewrite (ev_and _ _ _ _ _ (ev_let _ _ _ _ _ Ef)). cbn [truthy].
    set (E2 := upd E1 (S i) (first y)).
    assert (Hcoll : issub (type_of y) c_Collection = true).
    { destruct (mapping_view y o Hw Hi Ho) as (Hm & _). now apply collection_of_mapping. }
    assert (A2 : agree (S (S i)) E2 (bind (Pith (S i)) (first y) (log (TFirst y) s))) by (unfold E2; solve_agree).
    destruct (IHk Hik _ _ _ _ _ (var_triple (S i) E1 (first y)) Hwf _ A2) as (s3 & E3 & P3).
    apply post_var_child in P3.
    rewrite (ev_and _ _ _ _ _ E3). cbn [truthy].
    destruct (chk cf r pb k (first y)); cbn [andb].
    - assert (HE2i : E2 i = Some y) by (unfold E2; rewrite upd_other by lia; exact HE).
      assert (HE2s : E2 (S i) = Some (first y)) by apply upd_self.
      destruct (map_key_value y o i E2 s3 Hw Hi Ho Hne HE2i HE2s P3) as (_ & Hwv & Hsafe).
      destruct (Hval (value_of_first_key y) (S i) E2
                  (tpl_mapping_key_value_child (EVar (Pith i)) (EVar (Pith (S i)))) s3 eq_refl Hwv) as (s4 & E4 & A4).
      + intros s0 A0. destruct (map_key_value y o i E2 s0 Hw Hi Ho Hne HE2i HE2s A0) as (Ee & _).
        eexists. split; [exact Ee|now apply agree_log].
      + exact P3.
      + exists s4. split; [exact E4|]. now apply (agree_child_back i E1 (first y)).
    - exists s3. split; [reflexivity|]. now apply (agree_child_back i E1 (first y)).
  Qed.

  (* a value check produced by the generator itself *)
  Lemma valcode_gen vh : node_ok vh -> ignorable vh = false ->
    forall y' i E2 e s, simple e = false -> wf y' = true ->
      (forall s0, agree (S i) E2 s0 -> exists s1, ev e s0 = (Ok y', s1) /\ agree (S i) E2 s1) ->
      agree (S i) E2 s ->
      exists s', ev (gen cf vh e i) s = (Ok (VBool (chk cf r pb vh y')), s') /\ agree (S i) E2 s'.
  Proof.
    intros IH Hig y' i E2 e s Hs Hw He A.
    destruct (IH Hig _ _ _ _ _ (child_triple i E2 e y' Hs He) Hw _ A) as (s' & E' & P').
    exists s'. split; [exact E'|]. exact (post_compound_child _ _ _ _ _ Hs P').
  Qed.

  (* ... or the fixed isinstance(value, int) of Counter hints *)
  Lemma valcode_int :
    forall y' i E2 e s, simple e = false -> wf y' = true ->
      (forall s0, agree (S i) E2 s0 -> exists s1, ev e s0 = (Ok y', s1) /\ agree (S i) E2 s1) ->
      agree (S i) E2 s ->
      exists s', ev ((fun e (_ : nat) => tpl_instance [c_int] e) e i) s
                 = (Ok (VBool (isinst y' [c_int])), s') /\ agree (S i) E2 s'.
  Proof.
    intros y' i E2 e s Hs Hw He A. destruct (He s A) as (s1 & E1 & A1).
    exists (log (TInst y') s1). split; [unfold tpl_instance; now apply ev_isinst|solve_agree].
  Qed.

  Lemma gen_map_unfold s0 k vh pith idx :
    gen cf (HMap s0 k vh) pith idx =
    match ignorable k, ignorable vh with
    | true, true => tpl_instance [map_origin s0] pith
    | false, false =>
        tpl_mapping
          (tpl_mapping_key_value (gen cf k (EVar (Pith (S (node_i pith idx)))) (S (node_i pith idx)))
             (gen cf vh (tpl_mapping_key_value_child (EVar (Pith (node_i pith idx)))
                           (EVar (Pith (S (node_i pith idx))))) (S (node_i pith idx)))
             (EVar (Pith (node_i pith idx))) (Pith (S (node_i pith idx))))
          [map_origin s0] (node_assign pith idx) (EVar (Pith (node_i pith idx)))
    | false, true =>
        tpl_mapping (tpl_mapping_key_only (gen cf k (tpl_mapping_key_only_child (EVar (Pith (node_i pith idx))))
                                               (node_i pith idx)))
                    [map_origin s0] (node_assign pith idx) (EVar (Pith (node_i pith idx)))
    | true, false =>
        tpl_mapping (tpl_mapping_value_only (gen cf vh (tpl_mapping_value_only_child (EVar (Pith (node_i pith idx))))
                                                 (node_i pith idx)))
                    [map_origin s0] (node_assign pith idx) (EVar (Pith (node_i pith idx)))
    end.
  Proof. reflexivity. Qed.

  Lemma ok_map s0 k vh : node_ok k -> node_ok vh -> In s0 map_signs -> node_ok (HMap s0 k vh).
  Proof.
    intros IHk IHv Hin _ pith idx y p E Ht Hw s Ha.
    pose proof (map_origin_mapping s0 Hin) as Ho.
    rewrite gen_map_unfold. cbn [chk].
    destruct (ignorable k) eqn:Hik, (ignorable vh) eqn:Hiv.
    - (* both ignorable: isinstance only *)
      destruct (leaf_instance (map_origin s0) _ _ _ _ _ _ Ht Ha) as (s2 & E2 & P2).
      exists s2. split; [|exact P2]. rewrite E2. do 3 f_equal.
      destruct (isinst y [map_origin s0]); cbn; [now rewrite orb_true_r|reflexivity].
    - (* value only *)
      apply (mapping_generic (map_origin s0)
               (fun v i => tpl_mapping_value_only (gen cf vh (tpl_mapping_value_only_child v) i))
               (fun y => true && chk cf r pb vh (first_value y)) Ho); auto.
      intros y0 i E1 s1 Hw0 Hi0 Hne HE A.
      destruct (mapping_view y0 _ Hw0 Hi0 Ho) as (Hm0 & _).
      destruct (map_first_value y0 _ i E1 s1 Hw0 Hi0 Ho Hne HE A) as (_ & Hwv).
      unfold tpl_mapping_value_only, tpl_mapping_value_only_child. cbn [andb].
      apply (valcode_gen vh IHv Hiv); auto.
      intros s0' A0. destruct (map_first_value y0 _ i E1 s0' Hw0 Hi0 Ho Hne HE A0) as (Ee & _).
      eexists. split; [exact Ee|solve_agree].
    - (* key only *)
      apply (mapping_generic (map_origin s0)
               (fun v i => tpl_mapping_key_only (gen cf k (tpl_mapping_key_only_child v) i))
               (fun y => chk cf r pb k (first y) && true) Ho); auto.
      intros y0 i E1 s1 Hw0 Hi0 Hne HE A.
      destruct (mapping_view y0 _ Hw0 Hi0 Ho) as (Hm0 & _).
      pose proof (collection_of_mapping _ Hm0) as Hc0.
      destruct (map_first_key y0 _ i E1 s1 Hw0 Hi0 Ho Hne HE A) as (_ & Hwv).
      unfold tpl_mapping_key_only, tpl_mapping_key_only_child. rewrite andb_true_r.
      apply (valcode_gen k IHk Hik); auto.
      intros s0' A0. destruct (map_first_key y0 _ i E1 s0' Hw0 Hi0 Ho Hne HE A0) as (Ee & _).
      eexists. split; [exact Ee|solve_agree].
    - (* key and value *)
      apply (mapping_generic (map_origin s0)
               (fun v i => tpl_mapping_key_value (gen cf k (EVar (Pith (S i))) (S i))
                             (gen cf vh (tpl_mapping_key_value_child v (EVar (Pith (S i)))) (S i)) v (Pith (S i)))
               (fun y => chk cf r pb k (first y) && chk cf r pb vh (value_of_first_key y)) Ho); auto.
      intros y0 i E1 s1 Hw0 Hi0 Hne HE A.
      apply (key_value_code (map_origin s0) k (fun e i => gen cf vh e i) (chk cf r pb vh) Ho IHk Hik
               (valcode_gen vh IHv Hiv)); auto.
  Qed.

  Lemma ok_counter k : node_ok k -> node_ok (HCounter k).
  Proof.
    intros IHk _ pith idx y p E Ht Hw s Ha.
    pose proof counter_origin_mapping as Ho. cbn [gen chk].
    change (if simple pith then idx else S idx) with (node_i pith idx).
    change (if simple pith then pith else tpl_assign pith (Pith (S idx))) with (node_assign pith idx).
    destruct (ignorable k) eqn:Hik.
    - apply (mapping_generic counter_origin
               (fun v i => tpl_mapping_value_only (tpl_instance [c_int] (tpl_mapping_value_only_child v)))
               (fun y => true && isinst (first_value y) [c_int]) Ho); auto.
      intros y0 i E1 s1 Hw0 Hi0 Hne HE A.
      destruct (mapping_view y0 _ Hw0 Hi0 Ho) as (Hm0 & _).
      destruct (map_first_value y0 _ i E1 s1 Hw0 Hi0 Ho Hne HE A) as (Ee & _).
      unfold tpl_mapping_value_only, tpl_mapping_value_only_child, tpl_instance. cbn [andb].
      eexists. split; [apply ev_isinst; exact Ee|solve_agree].
    - apply (mapping_generic counter_origin
               (fun v i => tpl_mapping_key_value (gen cf k (EVar (Pith (S i))) (S i))
                             (tpl_instance [c_int] (tpl_mapping_key_value_child v (EVar (Pith (S i))))) v (Pith (S i)))
               (fun y => chk cf r pb k (first y) && isinst (value_of_first_key y) [c_int]) Ho); auto.
      intros y0 i E1 s1 Hw0 Hi0 Hne HE A.
      apply (key_value_code counter_origin k (fun e (_ : nat) => tpl_instance [c_int] e)
               (fun y' => isinst y' [c_int]) Ho IHk Hik valcode_int); auto.
  Qed.

  (* ---------------- type[...] ---------------- *)
  Lemma ok_type cs : node_ok (HType cs).
  Proof.
    intros _ pith idx y p E Ht Hw s Ha. cbn [gen chk].
    change (if simple pith then idx else S idx) with (node_i pith idx).
    change (if simple pith then pith else tpl_assign pith (Pith (S idx))) with (node_assign pith idx).
    destruct (node_enter _ _ _ _ _ _ Ht Ha) as (s1 & Eas & A1).
    set (i := node_i pith idx) in *.
    unfold tpl_subclass.
    rewrite (ev_and _ _ _ _ _ (ev_isinst _ [c_type] _ _ _ Eas)). cbn [truthy].
    destruct (isinst y [c_type]) eqn:Ei; cbn [andb].
    2: { exists (log (TInst y) s1). split; [reflexivity|].
         apply post_of_agree; [eapply triple_le; eauto|]. solve_agree. }
    rewrite isinst_single in Ei. destruct (wf_type_shape y Hw Ei) as (c & ->).
    assert (A2 : agree (S i) (upd E i (VCls c)) (log (TInst (VCls c)) s1)) by solve_agree.
    cbn [eval]. rewrite (agree_get _ _ _ i A2) by lia. rewrite upd_self. cbn [issubcls].
    eexists. split; [reflexivity|].
    apply post_of_agree; [eapply triple_le; eauto|]. solve_agree.
  Qed.

  (* ---------------- chains of and / or ---------------- *)
  Lemma join_cons2 op a b l : join op (a :: b :: l) = op a (join op (b :: l)).
  Proof. reflexivity. Qed.

  Lemma join_or_eval (Inv : st -> Prop) (l : list expr) (bs : list bool) :
    Forall2 (fun e b => forall s, Inv s -> exists s', ev e s = (Ok (VBool b), s') /\ Inv s') l bs ->
    l <> [] ->
    forall s, Inv s -> exists s', ev (join EOr l) s = (Ok (VBool (existsb (fun b => b) bs)), s') /\ Inv s'.
  Proof.
    induction 1 as [|e b l bs He Hl IH]; intros Hne s Hs; [congruence|].
    destruct (He s Hs) as (s1 & E1 & I1).
    destruct l as [|e2 l].
    - inversion Hl; subst. cbn. exists s1. rewrite orb_false_r. auto.
    - rewrite join_cons2, (ev_or _ _ _ _ _ E1). cbn [truthy existsb].
      destruct b; cbn [orb].
      + exists s1. auto.
      + apply IH; [discriminate|exact I1].
  Qed.

  Lemma join_and_eval (Inv : st -> Prop) (l : list expr) (bs : list bool) :
    Forall2 (fun e b => forall s, Inv s -> exists s', ev e s = (Ok (VBool b), s') /\ Inv s') l bs ->
    l <> [] ->
    forall s, Inv s -> exists s', ev (join EAnd l) s = (Ok (VBool (forallb (fun b => b) bs)), s') /\ Inv s'.
  Proof.
    induction 1 as [|e b l bs He Hl IH]; intros Hne s Hs; [congruence|].
    destruct (He s Hs) as (s1 & E1 & I1).
    destruct l as [|e2 l].
    - inversion Hl; subst. cbn. exists s1. rewrite andb_true_r. auto.
    - rewrite join_cons2, (ev_and _ _ _ _ _ E1). cbn [truthy forallb].
      destruct b; cbn [andb].
      + apply IH; [discriminate|exact I1].
      + exists s1. auto.
  Qed.

  (* ---------------- Literal[...] ---------------- *)
  Lemma isinst_dedup y l : isinst y (dedup l) = isinst y l.
  Proof.
    unfold isinst. induction l as [|x l IH]; [reflexivity|]. cbn [dedup].
    destruct (existsb (Nat.eqb x) l) eqn:Ex.
    - rewrite IH. cbn [existsb]. apply existsb_exists in Ex as (x' & Hin & Hx). apply Nat.eqb_eq in Hx. subst x'.
      destruct (issub (type_of y) x) eqn:Es; [|reflexivity]. cbn. apply existsb_exists. eauto.
    - cbn [existsb]. now rewrite IH.
  Qed.

  Lemma ok_literal vs : node_ok (HLiteral vs).
  Proof.
    intros _ pith idx y p E Ht Hw s Ha. cbn [gen chk].
    change (if simple pith then idx else S idx) with (node_i pith idx).
    change (if simple pith then pith else tpl_assign pith (Pith (S idx))) with (node_assign pith idx).
    destruct (node_enter _ _ _ _ _ _ Ht Ha) as (s1 & Eas & A1).
    set (i := node_i pith idx) in *.
    unfold tpl_literal_outer_op, tpl_literal_prefix, tpl_literal_inner_op.
    rewrite (ev_and _ _ _ _ _ (ev_isinst _ _ _ _ _ Eas)). cbn [truthy]. rewrite isinst_dedup.
    destruct (isinst y (map type_of vs)) eqn:Ei; cbn [andb].
    2: { exists (log (TInst y) s1). split; [reflexivity|].
         apply post_of_agree; [eapply triple_le; eauto|]. solve_agree. }
    destruct vs as [|v0 vs]; [discriminate|].
    assert (A2 : agree (S i) (upd E i y) (log (TInst y) s1)) by solve_agree.
    destruct (join_or_eval (agree (S i) (upd E i y))
                (map (fun l => tpl_literal_item l (EVar (Pith i))) (v0 :: vs))
                (map (py_eq y) (v0 :: vs))) with (s := log (TInst y) s1) as (s3 & E3 & A3).
    - clear. induction (v0 :: vs) as [|v l IH]; cbn [map]; constructor; [|exact IH].
      intros s Hs. unfold tpl_literal_item. eexists. split.
      + eapply ev_eq; [apply (ev_v i E y _ Hs)|cbn [eval]; reflexivity].
      + solve_agree.
    - discriminate.
    - exact A2.
    - rewrite E3. exists s3. split.
      + do 3 f_equal. clear. induction (v0 :: vs) as [|v l IH]; [reflexivity|]. cbn. now rewrite IH.
      + apply post_of_agree; [eapply triple_le; eauto|]. exact A3.
  Qed.

  (* ---------------- fixed-length tuples ---------------- *)
  Definition tuple_kids (i : nat) (v : expr) :=
    fix go (l : list hint) (n : Z) : list expr :=
      match l with
      | [] => []
      | h' :: l' =>
          if ignorable h' then go l' (n + 1)%Z
          else gen cf h' (tpl_tuple_child n v) i :: go l' (n + 1)%Z
      end.

  Definition tuple_chk (y : pyval) :=
    fix go (l : list hint) (n : nat) : bool :=
      match l with
      | [] => true
      | h' :: l' => (if ignorable h' then true else chk cf r pb h' (nth n (items y) VNone)) && go l' (S n)
      end.

  Lemma gen_tuple_unfold h0 hs pith idx :
    gen cf (HTuple (h0 :: hs)) pith idx =
    join tpl_tuple_op (tpl_tuple_prefix (node_assign pith idx)
                       :: tpl_tuple_len (Z.of_nat (List.length (h0 :: hs))) (EVar (Pith (node_i pith idx)))
                       :: tuple_kids (node_i pith idx) (EVar (Pith (node_i pith idx))) (h0 :: hs) 0%Z).
  Proof. reflexivity. Qed.

  Lemma chk_tuple_unfold hs y :
    chk cf r pb (HTuple hs) y =
    isinst y [c_tuple] && Nat.eqb (List.length (items y)) (List.length hs) && tuple_chk y hs 0.
  Proof. reflexivity. Qed.

  Lemma wf_sized_shape y : wf y = true -> issub (type_of y) c_Sequence = true -> type_of y <> c_str ->
    type_of y <> c_bytes ->
    (exists c l, y = VCont c l /\ issub c c_Sized = true) \/ (exists s, y = VStr s) \/ (exists s, y = VBytes s).
  Proof.
    intros Hw Hs _ _.
    destruct y as [| b | z | h | s | s | k l | k kvs | k | k attrs]; cbn [type_of] in Hs; try (now eauto);
      try (exfalso; now discriminate).
    - left. exists k, l. split; [reflexivity|]. now apply sized_of_collection, collection_of_sequence.
    - exfalso. cbn [wf] in Hw. apply andb_true_iff in Hw as [Hw _]. apply andb_true_iff in Hw as [Hm _].
      exact (not_Mapping_and_Sequence _ Hm Hs).
    - exfalso. cbn [wf] in Hw. apply andb_true_iff in Hw as [Hp _]. destruct (plain_facts _ Hp) as (A & _).
      rewrite (sized_of_collection _ (collection_of_sequence _ Hs)) in A. discriminate.
  Qed.

  Lemma py_eq_int a b : py_eq (VInt a) (VInt b) = (a =? b)%Z.
  Proof.
    change (py_eq (VInt a) (VInt b)) with (2 * a =? 2 * b)%Z.
    destruct (Z.eqb_spec a b), (Z.eqb_spec (2 * a) (2 * b)); try reflexivity; lia.
  Qed.

  Lemma truthy_tuple y : wf y = true -> issub (type_of y) c_tuple = true ->
    truthy y = negb (Nat.eqb (List.length (items y)) 0).
  Proof.
    intros Hw Ht.
    assert (Hs : issub (type_of y) c_Sequence = true)
      by (eapply issub_trans; [discriminate|exact Ht|apply sub_tuple_Sequence]).
    destruct y as [| b | z | h | s | s | k l | k kvs | k | k attrs]; cbn [type_of] in Ht;
      try (exfalso; now discriminate).
    - cbn [type_of] in Hs. unfold items. cbn [truthy items_of].
      rewrite (sized_of_collection _ (collection_of_sequence _ Hs)). now destruct l.
    - exfalso. cbn [wf] in Hw. apply andb_true_iff in Hw as [Hw _]. apply andb_true_iff in Hw as [Hm _].
      exact (not_Mapping_and_Sequence _ Hm Hs).
    - exfalso. cbn [wf] in Hw. apply andb_true_iff in Hw as [Hp _]. destruct (plain_facts _ Hp) as (A & _).
      cbn [type_of] in Hs. rewrite (sized_of_collection _ (collection_of_sequence _ Hs)) in A. discriminate.
  Qed.

  Lemma is_container_tuple y : wf y = true -> issub (type_of y) c_tuple = true -> is_container y = true.
  Proof.
    intros Hw Ht.
    assert (Hs : issub (type_of y) c_Sequence = true)
      by (eapply issub_trans; [discriminate|exact Ht|apply sub_tuple_Sequence]).
    destruct y as [| b | z | h | s | s | k l | k kvs | k | k attrs]; cbn [type_of] in Ht; try reflexivity;
      try (exfalso; now discriminate).
    exfalso. cbn [wf] in Hw. apply andb_true_iff in Hw as [Hp _]. destruct (plain_facts _ Hp) as (A & _).
    cbn [type_of] in Hs. rewrite (sized_of_collection _ (collection_of_sequence _ Hs)) in A. discriminate.
  Qed.

  (* the children of a tuple whose length is right *)
  Lemma tuple_kids_eval i E1 y : wf y = true -> issub (type_of y) c_Sequence = true -> E1 i = Some y ->
    forall l n, Forall node_ok l -> n + List.length l <= List.length (items y) ->
    exists bs,
      Forall2 (fun e b => forall s, agree (S i) E1 s -> exists s', ev e s = (Ok (VBool b), s') /\ agree (S i) E1 s')
              (tuple_kids i (EVar (Pith i)) l (Z.of_nat n)) bs
      /\ forallb (fun b => b) bs = tuple_chk y l n.
  Proof.
    intros Hw Hs HE l. induction l as [|h' l IH]; intros n Hok Hlen.
    - exists []. split; [constructor|reflexivity].
    - inversion Hok as [|? ? Hh Hl]; subst. cbn [List.length] in Hlen.
      destruct (IH (S n) Hl ltac:(lia)) as (bs & Hbs & Hall).
      cbn [tuple_kids tuple_chk]. replace (Z.of_nat n + 1)%Z with (Z.of_nat (S n)) by lia.
      destruct (ignorable h') eqn:Hig.
      + exists bs. split; [exact Hbs|exact Hall].
      + exists (chk cf r pb h' (nth n (items y) VNone) :: bs). split; [|cbn; now rewrite Hall].
        constructor; [|exact Hbs].
        intros s A. apply (valcode_gen h' Hh Hig); auto.
        * apply wf_nth; [exact Hw|lia].
        * intros s0 A0. unfold tpl_tuple_child. eexists. split.
          -- eapply ev_index; [cbn [eval]; rewrite (agree_get _ _ _ i A0) by lia; now rewrite HE|cbn [eval]; reflexivity|].
             rewrite py_index_sequence; [|exact Hw|exact Hs|lia]. now rewrite Nat2Z.id.
          -- apply agree_log; [exact A0|]. apply safe_item_seq; [exact Hw|exact Hs|lia].
  Qed.

  Lemma tuple_kids_nil_chk i v y l : forall n m, tuple_kids i v l n = [] -> tuple_chk y l m = true.
  Proof.
    induction l as [|h' l IH]; intros n m H; [reflexivity|]. cbn [tuple_kids tuple_chk] in *.
    destruct (ignorable h'); [|discriminate]. cbn. now apply (IH (n + 1)%Z).
  Qed.

  Lemma ok_tuple hs : Forall node_ok hs -> node_ok (HTuple hs).
  Proof.
    intros IH _ pith idx y p E Ht Hw s Ha. rewrite chk_tuple_unfold.
    destruct (node_enter _ _ _ _ _ _ Ht Ha) as (s1 & Eas & A1).
    set (i := node_i pith idx) in *. set (E1 := upd E i y) in *.
    assert (HE1 : E1 i = Some y) by (unfold E1, upd; now rewrite Nat.eqb_refl).
    destruct hs as [|h0 hs].
    - (* tuple[()] *)
      cbn [gen].
      change (if simple pith then idx else S idx) with (node_i pith idx).
      change (if simple pith then pith else tpl_assign pith (Pith (S idx))) with (node_assign pith idx).
      fold i. unfold tpl_tuple_op, tpl_tuple_prefix, tpl_tuple_empty.
      rewrite (ev_and _ _ _ _ _ (ev_isinst _ [c_tuple] _ _ _ Eas)). cbn [truthy].
      destruct (isinst y [c_tuple]) eqn:Ei; cbn [andb].
      2: { exists (log (TInst y) s1). split; [reflexivity|].
           apply post_of_agree; [eapply triple_le; eauto|]. solve_agree. }
      rewrite isinst_single in Ei.
      assert (A2 : agree (S i) E1 (log (TInst y) s1)) by solve_agree.
      rewrite (ev_not _ _ _ _ (ev_v i E y _ A2)). rewrite (truthy_tuple y Hw Ei), (is_container_tuple y Hw Ei).
      rewrite negb_involutive. cbn [List.length tuple_chk]. rewrite andb_true_r.
      eexists. split; [reflexivity|]. apply post_of_agree; [eapply triple_le; eauto|]. solve_agree.
    - rewrite gen_tuple_unfold. fold i. unfold tpl_tuple_op.
      rewrite join_cons2. unfold tpl_tuple_prefix at 1.
      rewrite (ev_and _ _ _ _ _ (ev_isinst _ [c_tuple] _ _ _ Eas)). cbn [truthy].
      destruct (isinst y [c_tuple]) eqn:Ei; cbn [andb].
      2: { exists (log (TInst y) s1). split; [reflexivity|].
           apply post_of_agree; [eapply triple_le; eauto|]. solve_agree. }
      rewrite isinst_single in Ei.
      assert (Hs : issub (type_of y) c_Sequence = true)
        by (eapply issub_trans; [discriminate|exact Ei|apply sub_tuple_Sequence]).
      pose proof (sized_of_collection _ (collection_of_sequence _ Hs)) as Hsz.
      pose proof (py_len_sized y Hw (sized_of_collection _ (collection_of_sequence _ Hs))) as Hlen.
      assert (A2 : agree (S i) E1 (log (TInst y) s1)) by solve_agree.
      assert (Elen : ev (tpl_tuple_len (Z.of_nat (List.length (h0 :: hs))) (EVar (Pith i))) (log (TInst y) s1)
                     = (Ok (VBool (Nat.eqb (List.length (items y)) (List.length (h0 :: hs)))),
                        log (TEq (VInt (Z.of_nat (List.length (items y)))) (VInt (Z.of_nat (List.length (h0 :: hs)))))
                            (log (TLen y) (log (TInst y) s1)))).
      { unfold tpl_tuple_len. erewrite ev_eq; [|eapply ev_len; [apply (ev_v i E y _ A2)|exact Hlen]|cbn [eval]; reflexivity].
        rewrite py_eq_int. do 3 f_equal.
        destruct (Nat.eqb_spec (List.length (items y)) (List.length (h0 :: hs))) as [->|N];
          [apply Z.eqb_refl|apply Z.eqb_neq; lia]. }
      set (s3 := log _ (log (TLen y) (log (TInst y) s1))) in Elen.
      assert (A3 : agree (S i) E1 s3) by (unfold s3; solve_agree).
      destruct (tuple_kids i (EVar (Pith i)) (h0 :: hs) 0%Z) as [|k1 ks] eqn:Ek.
      + (* every position ignorable *)
        cbn [join]. rewrite Elen. exists s3. split.
        * rewrite (tuple_kids_nil_chk i _ y _ _ 0 Ek). now rewrite andb_true_r.
        * apply post_of_agree; [eapply triple_le; eauto|]. exact A3.
      + rewrite join_cons2, (ev_and _ _ _ _ _ Elen). cbn [truthy].
        destruct (Nat.eqb_spec (List.length (items y)) (List.length (h0 :: hs))) as [Hl|Hl]; cbn [andb].
        2: { exists s3. split; [reflexivity|]. apply post_of_agree; [eapply triple_le; eauto|]. exact A3. }
        destruct (tuple_kids_eval i E1 y Hw Hs HE1 (h0 :: hs) 0 IH ltac:(lia)) as (bs & Hbs & Hall).
        change (Z.of_nat 0) with 0%Z in Hbs. rewrite Ek in Hbs.
        destruct (join_and_eval (agree (S i) E1) (k1 :: ks) bs Hbs ltac:(discriminate) s3 A3) as (s4 & E4 & A4).
        rewrite E4, Hall. exists s4. split; [reflexivity|].
        apply post_of_agree; [eapply triple_le; eauto|]. exact A4.
  Qed.

  (* ---------------- unions ---------------- *)
  Definition union_nonpep (hs : list hint) : list nat :=
    dedup (flat_map (fun h' => match nonpep_class h' with Some c => [c] | None => [] end) hs).

  Definition union_peps (assign v : expr) (i : nat) (has_nonpep : bool) :=
    fix go (l : list hint) (first : bool) : list expr :=
      match l with
      | [] => []
      | h' :: l' =>
          match nonpep_class h' with
          | Some _ => go l' first
          | None => gen cf h' (if first && negb has_nonpep then assign else v) i :: go l' false
          end
      end.

  Lemma gen_union_unfold hs pith idx :
    gen cf (HUnion hs) pith idx =
    let nonpep := union_nonpep hs in
    let has_nonpep := match nonpep with [] => false | _ => true end in
    let peps := union_peps (node_assign pith idx) (EVar (Pith (node_i pith idx))) (node_i pith idx) has_nonpep hs true in
    let has_pep := match peps with [] => false | _ => true end in
    join tpl_union_op
      ((if has_nonpep then [tpl_union_nonpep nonpep (if has_pep then node_assign pith idx else pith)] else []) ++ peps).
  Proof. reflexivity. Qed.

  Definition union_any (y : pyval) :=
    fix any (l : list hint) : bool := match l with [] => false | h' :: l' => chk cf r pb h' y || any l' end.

  Lemma chk_union_unfold hs y : chk cf r pb (HUnion hs) y = union_any y hs.
  Proof. reflexivity. Qed.

  Definition pep_results (y : pyval) (hs : list hint) : list bool :=
    flat_map (fun h' => match nonpep_class h' with Some _ => [] | None => [chk cf r pb h' y] end) hs.

  Lemma union_any_split y hs :
    union_any y hs = isinst y (union_nonpep hs) || existsb (fun b => b) (pep_results y hs).
  Proof.
    unfold union_nonpep. rewrite isinst_dedup. unfold isinst. induction hs as [|h' hs IH]; [reflexivity|].
    cbn [union_any]. rewrite IH. clear IH. unfold pep_results. cbn [flat_map].
    remember (existsb (issub (type_of y))
                (flat_map (fun h' => match nonpep_class h' with Some c => [c] | None => [] end) hs)) as A.
    remember (existsb (fun b => b)
                (flat_map (fun h' => match nonpep_class h' with Some _ => [] | None => [chk cf r pb h' y] end) hs)) as B.
    destruct h'; cbn [nonpep_class app existsb]; rewrite <- ?HeqA, <- ?HeqB;
      try (destruct (chk cf r pb _ y), A, B; reflexivity).
    cbn [chk]. unfold isinst. cbn [existsb]. destruct (issub (type_of y) c), A, B; reflexivity.
  Qed.

  Lemma simple_assign pith idx : simple (node_assign pith idx) = true.
  Proof. unfold node_assign. destruct (simple pith) eqn:E; [exact E|reflexivity]. Qed.

  Lemma assign_triple pith idx y p E :
    pith_triple pith idx y p E -> pith_triple (node_assign pith idx) (node_i pith idx) y p E.
  Proof.
    intros (L & Hi & H). unfold pith_triple.
    assert (Hn : node_i (node_assign pith idx) (node_i pith idx) = node_i pith idx)
      by (unfold node_i at 1; now rewrite simple_assign).
    assert (Ha : node_assign (node_assign pith idx) (node_i pith idx) = node_assign pith idx)
      by (unfold node_assign at 1; now rewrite simple_assign).
    rewrite Hn, Ha. split; [|split].
    - unfold node_i. destruct (simple pith); lia.
    - intros Hlt. apply Hi. exact Hlt.
    - exact H.
  Qed.

  Lemma post_assign_child pith idx y p E s2 :
    post (node_assign pith idx) (node_i pith idx) y p E s2 ->
    agree (S (node_i pith idx)) (upd E (node_i pith idx) y) s2.
  Proof.
    unfold post. rewrite simple_assign.
    assert (Hn : node_i (node_assign pith idx) (node_i pith idx) = node_i pith idx)
      by (unfold node_i at 1; now rewrite simple_assign).
    now rewrite Hn.
  Qed.

  Lemma dedup_nil l : dedup l = [] -> l = [].
  Proof.
    induction l as [|x l IH]; [reflexivity|]. cbn [dedup]. destruct (existsb (Nat.eqb x) l) eqn:Ex; [|discriminate].
    intros H. rewrite (IH H) in Ex. discriminate.
  Qed.

  Definition all_unignorable (l : list hint) : Prop := forall h', In h' l -> ignorable h' = false.

  Lemma union_children_unignorable hs : ignorable (HUnion hs) = false -> all_unignorable hs.
  Proof.
    cbn [ignorable]. induction hs as [|h hs IH]; intros H h' Hin; [destruct Hin|].
    apply orb_false_iff in H as [H1 H2]. destruct Hin as [<-|Hin]; [exact H1|now apply IH].
  Qed.

  (* the PEP children that are handed the bound pith variable *)
  Lemma peps_eval_v assign i E y hn : wf y = true ->
    forall l first, first && negb hn = false -> Forall node_ok l -> all_unignorable l ->
    Forall2 (fun e b => forall s, agree (S i) (upd E i y) s ->
                          exists s', ev e s = (Ok (VBool b), s') /\ agree (S i) (upd E i y) s')
            (union_peps assign (EVar (Pith i)) i hn l first) (pep_results y l).
  Proof.
    intros Hw l. induction l as [|h' l IH]; intros first Hf Hok Hun; [constructor|].
    inversion Hok as [|? ? Hh Hl]; subst. cbn [union_peps pep_results flat_map].
    assert (Hun' : all_unignorable l) by (intros x Hx; apply Hun; now right).
    destruct (nonpep_class h') eqn:En; cbn [app].
    - now apply IH.
    - constructor; [|now apply IH].
      rewrite Hf. intros s A.
      destruct (Hh (Hun h' (or_introl eq_refl)) _ _ _ _ _ (var_triple i E y) Hw _ A) as (s' & E' & P').
      exists s'. split; [exact E'|now apply post_var_child].
  Qed.

  Lemma ok_union hs : hs <> [] -> Forall node_ok hs -> node_ok (HUnion hs).
  Proof.
    intros Hne IH Hig pith idx y p E Ht Hw s Ha.
    pose proof (union_children_unignorable hs Hig) as Hun.
    rewrite gen_union_unfold, chk_union_unfold, union_any_split. cbn zeta.
    set (i := node_i pith idx). set (E1 := upd E i y).
    unfold tpl_union_op, tpl_union_nonpep.
    destruct (union_nonpep hs) as [|c0 cs] eqn:Enp.
    - (* only PEP children: the first one carries the assignment *)
      cbn [app]. change (isinst y []) with false. cbn [orb].
      destruct hs as [|h0 hs']; [congruence|].
      assert (En0 : nonpep_class h0 = None).
      { unfold union_nonpep in Enp. apply dedup_nil in Enp. cbn [flat_map] in Enp.
        destruct (nonpep_class h0); [discriminate|reflexivity]. }
      assert (Hpr : pep_results y (h0 :: hs') = chk cf r pb h0 y :: pep_results y hs')
        by (unfold pep_results; cbn [flat_map]; now rewrite En0).
      rewrite Hpr. cbn [union_peps]. rewrite En0. cbn [andb negb app].
      inversion IH as [|? ? Hh0 Hl]; subst.
      destruct (Hh0 (Hun h0 (or_introl eq_refl)) _ _ _ _ _ (assign_triple _ _ _ _ _ Ht) Hw _ Ha) as (s2 & E2 & P2).
      apply post_assign_child in P2. fold i in P2. fold E1 in P2.
      assert (Hrest := peps_eval_v (node_assign pith idx) i E y false Hw hs' false eq_refl Hl
                         (fun x Hx => Hun x (or_intror Hx))).
      fold i. fold i in E2.
      destruct (union_peps (node_assign pith idx) (EVar (Pith i)) i false hs' false) as [|e1 es] eqn:Ep.
      + assert (Hnil : pep_results y hs' = []) by (inversion Hrest; congruence).
        rewrite Hnil. cbn [join existsb]. rewrite E2, orb_false_r.
        exists s2. split; [reflexivity|].
        apply post_of_agree; [eapply triple_le; eauto|]. exact P2.
      + rewrite join_cons2, (ev_or _ _ _ _ _ E2). cbn [truthy existsb].
        destruct (chk cf r pb h0 y); cbn [orb].
        * exists s2. split; [reflexivity|]. apply post_of_agree; [eapply triple_le; eauto|]. exact P2.
        * destruct (join_or_eval (agree (S i) E1) (e1 :: es) _ Hrest ltac:(discriminate) s2 P2) as (s3 & E3 & A3).
          rewrite E3. exists s3. split; [reflexivity|].
          apply post_of_agree; [eapply triple_le; eauto|]. exact A3.
    - (* some plain classes: one isinstance against all of them comes first *)
      assert (Hpeps := peps_eval_v (node_assign pith idx) i E y true Hw hs true (andb_false_r _) IH Hun).
      fold i.
      destruct (union_peps (node_assign pith idx) (EVar (Pith i)) i true hs true) as [|e1 es] eqn:Ep.
      + assert (Hnil : pep_results y hs = []) by (inversion Hpeps; congruence).
        rewrite Hnil. cbn [app join existsb]. rewrite orb_false_r.
        destruct (raw_pith _ _ _ _ _ _ Ht Ha) as (s1 & Ep1 & P1).
        rewrite (ev_isinst _ _ _ _ _ Ep1). eexists. split; [reflexivity|apply post_log; [exact I|assumption]].
      + cbn [app]. rewrite join_cons2.
        destruct (node_enter _ _ _ _ _ _ Ht Ha) as (s1 & Eas & A1). fold i in A1. fold E1 in A1.
        rewrite (ev_or _ _ _ _ _ (ev_isinst _ _ _ _ _ Eas)). cbn [truthy].
        destruct (isinst y (c0 :: cs)); cbn [orb].
        * eexists. split; [reflexivity|]. apply post_of_agree; [eapply triple_le; eauto|]. solve_agree.
        * assert (A2 : agree (S i) E1 (log (TInst y) s1)) by solve_agree.
          destruct (join_or_eval (agree (S i) E1) (e1 :: es) _ Hpeps ltac:(discriminate) _ A2) as (s3 & E3 & A3).
          rewrite E3. exists s3. split; [reflexivity|].
          apply post_of_agree; [eapply triple_le; eauto|]. exact A3.
  Qed.

  (* ---------------- validators (beartype.vale) and Annotated ---------------- *)
  Lemma path_eqb_eq a : forall b, path_eqb a b = true <-> a = b.
  Proof.
    induction a as [|x a IH]; intros [|y b]; cbn; split; intros H; try discriminate; try reflexivity.
    - apply andb_true_iff in H as [H1 H2]. apply String.eqb_eq in H1. apply IH in H2. now subst.
    - inversion H; subst. rewrite String.eqb_refl. cbn. now apply IH.
  Qed.

  Lemma var_eqb_eq a b : var_eqb a b = true <-> a = b.
  Proof.
    destruct a as [n|n p], b as [m|m q]; cbn; split; intros H; try discriminate.
    - apply Nat.eqb_eq in H. now subst.
    - inversion H. apply Nat.eqb_refl.
    - apply andb_true_iff in H as [H1 H2]. apply Nat.eqb_eq in H1. apply path_eqb_eq in H2. now subst.
    - inversion H; subst. rewrite Nat.eqb_refl. cbn. now apply path_eqb_eq.
  Qed.

  Lemma env_get_bind_same x v s : env_get x (env (bind x v s)) = Some v.
  Proof. unfold bind; cbn. now rewrite (proj2 (var_eqb_eq x x) eq_refl). Qed.

  Lemma env_get_bind_other x y v s : x <> y -> env_get x (env (bind y v s)) = env_get x (env s).
  Proof.
    intros H. unfold bind; cbn. destruct (var_eqb x y) eqn:E; [apply var_eqb_eq in E; congruence|reflexivity].
  Qed.

  (* x is a temporary created below obj: its name strictly extends obj's *)
  Definition extends (obj x : var) : Prop :=
    match obj, x with
    | Pith n, Tmp m p => n = m /\ p <> []
    | Tmp n p, Tmp m q => n = m /\ exists suf, suf <> [] /\ q = p ++ suf
    | _, _ => False
    end.

  Lemma extends_irrefl x : ~ extends x x.
  Proof.
    destruct x as [n|n p]; cbn; [tauto|]. intros (_ & suf & Hne & E).
    assert (List.length p = List.length (p ++ suf)) by now rewrite <- E.
    rewrite app_length in H. destruct suf; [congruence|cbn in H; lia].
  Qed.

  Lemma extends_attr obj n : extends obj (attr_tmp obj n).
  Proof.
    destruct obj as [k|k p]; cbn; (split; [reflexivity|]); [discriminate|].
    exists [n]. split; [discriminate|reflexivity].
  Qed.

  Lemma extends_trans a b c : extends a b -> extends b c -> extends a c.
  Proof.
    destruct a as [n|n p], b as [m|m q], c as [k|k t]; cbn; try tauto.
    - intros (-> & Hq) (-> & suf & Hs & ->). split; [reflexivity|]. destruct q; [congruence|discriminate].
    - intros (-> & s1 & H1 & ->) (-> & s2 & H2 & ->). split; [reflexivity|].
      exists (s1 ++ s2). split; [destruct s1; [congruence|discriminate]|now rewrite app_assoc].
  Qed.

  Lemma not_extends_pith obj k : ~ extends obj (Pith k).
  Proof. destruct obj; cbn; tauto. Qed.

  Lemma wf_getattr y n a : wf y = true -> py_getattr y n = Some a -> wf a = true.
  Proof.
    destruct y; cbn [py_getattr]; try discriminate. cbn [wf]. intros H Ha.
    apply andb_true_iff in H as [_ H]. induction attrs as [|[k v] l IH]; cbn in *; [discriminate|].
    apply andb_true_iff in H as [Hv Hl]. destruct (String.eqb k n); [now inversion Ha; subst|now apply IH].
  Qed.

  (* the inline code of a validator computes its boolean meaning, binds only temporaries of
     its own, and performs only harmless operations *)
  Lemma vcode_correct v : forall obj y s,
    wf y = true -> env_get obj (env s) = Some y -> Forall safe_op (trace s) ->
    exists s', ev (vcode v obj) s = (Ok (VBool (vmean pb v y)), s')
               /\ (forall x, ~ extends obj x -> env_get x (env s') = env_get x (env s))
               /\ Forall safe_op (trace s').
  Proof.
    induction v as [f|n w IH|o|cs|cs|a IHa b IHb|a IHa b IHb|a IHa]; intros obj y s Hw He Ht; cbn [vcode vmean].
    - exists (log (TCall f y) s). cbn [eval]. rewrite He. unfold preds_of. repeat split; auto.
      unfold log; cbn. apply Forall_app. split; [exact Ht|now repeat constructor].
    - unfold tpl_vale_isattr. cbn [eval]. rewrite He.
      destruct (py_getattr y n) as [a|] eqn:Ea.
      + set (s1 := bind (attr_tmp obj n) a (log (TAttr y n) s)).
        assert (Ht1 : Forall safe_op (trace s1)).
        { unfold s1, bind, log; cbn. apply Forall_app. split; [exact Ht|now repeat constructor]. }
        destruct (IH (attr_tmp obj n) a s1 (wf_getattr _ _ _ Hw Ea) (env_get_bind_same _ _ _) Ht1)
          as (s2 & E2 & F2 & T2).
        cbn [truthy]. rewrite E2. exists s2. repeat split; auto.
        intros x Hx. rewrite F2.
        * unfold s1. rewrite env_get_bind_other; [reflexivity|]. intros ->. apply Hx, extends_attr.
        * intros Hx'. apply Hx. eapply extends_trans; [apply extends_attr|exact Hx'].
      + cbn [truthy]. eexists. repeat split; auto.
        unfold log; cbn. apply Forall_app. split; [exact Ht|now repeat constructor].
    - unfold tpl_vale_isequal. cbn [eval]. rewrite He. eexists. repeat split; auto.
      unfold log; cbn. apply Forall_app. split; [exact Ht|now repeat constructor].
    - unfold tpl_vale_isinstance. cbn [eval]. rewrite He. eexists. repeat split; auto.
      unfold log; cbn. apply Forall_app. split; [exact Ht|now repeat constructor].
    - unfold tpl_vale_issubclass. cbn [eval]. rewrite He. cbn [truthy].
      destruct (isinst y [c_type]) eqn:Ei; cbn [andb].
      + rewrite isinst_single in Ei. destruct (wf_type_shape y Hw Ei) as (c & ->).
        cbn [env log]. rewrite He. cbn [issubcls]. eexists. repeat split; auto.
        unfold log; cbn. apply Forall_app. split; [apply Forall_app; split; [exact Ht|now repeat constructor]|now repeat constructor].
      + eexists. repeat split; auto.
        unfold log; cbn. apply Forall_app. split; [exact Ht|now repeat constructor].
    - destruct (IHa obj y s Hw He Ht) as (s1 & E1 & F1 & T1). cbn [eval]. rewrite E1. cbn [truthy].
      destruct (vmean pb a y); cbn [andb].
      + assert (He1 : env_get obj (env s1) = Some y) by (rewrite F1; [exact He|apply extends_irrefl]).
        destruct (IHb obj y s1 Hw He1 T1) as (s2 & E2 & F2 & T2). rewrite E2. exists s2. repeat split; auto.
        intros x Hx. now rewrite F2, F1.
      + exists s1. repeat split; auto.
    - destruct (IHa obj y s Hw He Ht) as (s1 & E1 & F1 & T1). cbn [eval]. rewrite E1. cbn [truthy].
      destruct (vmean pb a y); cbn [orb].
      + exists s1. repeat split; auto.
      + assert (He1 : env_get obj (env s1) = Some y) by (rewrite F1; [exact He|apply extends_irrefl]).
        destruct (IHb obj y s1 Hw He1 T1) as (s2 & E2 & F2 & T2). rewrite E2. exists s2. repeat split; auto.
        intros x Hx. now rewrite F2, F1.
    - destruct (IHa obj y s Hw He Ht) as (s1 & E1 & F1 & T1). cbn [eval]. rewrite E1. cbn [truthy is_container].
      exists s1. repeat split; auto.
  Qed.

  (* all validators of an Annotated hint, applied to a bound pith variable *)
  Lemma validators_eval vs i E1 y : wf y = true -> E1 i = Some y ->
    Forall2 (fun e b => forall s, agree (S i) E1 s -> exists s', ev e s = (Ok (VBool b), s') /\ agree (S i) E1 s')
            (map (fun w => vcode w (Pith i)) vs) (map (fun w => vmean pb w y) vs).
  Proof.
    intros Hw HE. induction vs as [|w vs IH]; cbn [map]; constructor; [|exact IH].
    intros s A.
    assert (He : env_get (Pith i) (env s) = Some y) by (rewrite (agree_get _ _ _ i A) by lia; exact HE).
    destruct (vcode_correct w (Pith i) y s Hw He (agree_safe _ _ _ A)) as (s' & E' & F' & T').
    exists s'. split; [exact E'|]. split; [|exact T'].
    intros k Hk. rewrite F' by apply not_extends_pith. now apply (agree_get _ _ _ k A).
  Qed.

  Lemma forallb_id_map {A} (f : A -> bool) l : forallb (fun b => b) (map f l) = forallb f l.
  Proof. induction l as [|x l IH]; [reflexivity|]. cbn. now rewrite IH. Qed.

  Lemma ok_annot mh vs : node_ok mh -> vs <> [] -> node_ok (HAnnot mh vs).
  Proof.
    intros IH Hne _ pith idx y p E Ht Hw s Ha. cbn [gen chk].
    change (if simple pith then idx else S idx) with (node_i pith idx).
    change (if simple pith then pith else tpl_assign pith (Pith (S idx))) with (node_assign pith idx).
    set (i := node_i pith idx). set (E1 := upd E i y).
    assert (HE1 : E1 i = Some y) by (unfold E1, upd; now rewrite Nat.eqb_refl).
    unfold tpl_annotated_op. rewrite <- (forallb_id_map (fun v => vmean pb v y) vs).
    assert (Hvs := validators_eval vs i E1 y Hw HE1).
    assert (Hmne : map (fun w => vcode w (Pith i)) vs <> []) by (destruct vs; [congruence|discriminate]).
    destruct (ignorable mh) eqn:Hig.
    - destruct (is_ident pith) as [x|] eqn:Eid.
      + (* the pith is already a variable: by the generator's invariant it is the current one *)
        destruct pith; try discriminate. inversion Eid; subst x0.
        destruct (node_enter _ _ _ _ _ _ Ht Ha) as (s1 & Eas & A1). fold i in A1. fold E1 in A1.
        unfold node_assign in Eas. cbn [simple eval] in Eas.
        destruct (env_get x (env s)) as [y0|] eqn:Ex; [|discriminate]. inversion Eas; subst y0 s1. clear Eas.
        (* every validator sees x = y and leaves the pith variables alone *)
        assert (Hvx : Forall2 (fun e b => forall s0, (agree (S i) E1 s0 /\ env_get x (env s0) = Some y) ->
                          exists s', ev e s0 = (Ok (VBool b), s') /\ (agree (S i) E1 s' /\ env_get x (env s') = Some y))
                        (map (fun w => vcode w x) vs) (map (fun w => vmean pb w y) vs)).
        { clear Hvs Hmne Hne. induction vs as [|w vs IHvs]; cbn [map]; constructor; [|exact IHvs].
          intros s0 [A0 Hx0].
          destruct (vcode_correct w x y s0 Hw Hx0 (agree_safe _ _ _ A0)) as (s' & E' & F' & T').
          exists s'. split; [exact E'|]. split.
          - split; [|exact T']. intros k Hk. rewrite F' by apply not_extends_pith. now apply (agree_get _ _ _ k A0).
          - rewrite F' by apply extends_irrefl. exact Hx0. }
        destruct (join_and_eval (fun s0 => agree (S i) E1 s0 /\ env_get x (env s0) = Some y)
                    _ _ Hvx ltac:(destruct vs; [congruence|discriminate]) s (conj A1 Ex)) as (s2 & E2 & A2 & _).
        rewrite E2. exists s2. split; [reflexivity|].
        apply post_of_agree; [eapply triple_le; eauto|]. exact A2.
      + (* a compound pith: localise it first *)
        destruct (node_enter _ _ _ _ _ _ Ht Ha) as (s1 & Eas & A1). fold i in A1. fold E1 in A1.
        assert (Eis : ev (tpl_annotated_pith (node_assign pith idx) (EVar (Pith i))) s = (Ok (VBool true), s1)).
        { unfold tpl_annotated_pith. cbn [eval]. rewrite Eas. rewrite (agree_get _ _ _ i A1) by lia. rewrite HE1.
          now rewrite val_same_refl. }
        destruct (map (fun w => vcode w (Pith i)) vs) as [|e1 es] eqn:Em; [congruence|].
        rewrite join_cons2, (ev_and _ _ _ _ _ Eis). cbn [truthy].
        destruct (join_and_eval (agree (S i) E1) (e1 :: es) _ Hvs ltac:(discriminate) s1 A1) as (s2 & E2 & A2).
        rewrite E2. exists s2. split; [reflexivity|].
        apply post_of_agree; [eapply triple_le; eauto|]. exact A2.
    - (* an unignorable metahint is checked first, on the assignment *)
      destruct (IH Hig _ _ _ _ _ (assign_triple _ _ _ _ _ Ht) Hw _ Ha) as (s1 & E1' & P1).
      apply post_assign_child in P1. fold i in P1. fold E1 in P1. fold i in E1'.
      destruct (map (fun w => vcode w (Pith i)) vs) as [|e1 es] eqn:Em; [congruence|].
      rewrite join_cons2, (ev_and _ _ _ _ _ E1'). cbn [truthy].
      destruct (chk cf r pb mh y); cbn [andb].
      + destruct (join_and_eval (agree (S i) E1) (e1 :: es) _ Hvs ltac:(discriminate) s1 P1) as (s2 & E2 & A2).
        rewrite E2. exists s2. split; [reflexivity|].
        apply post_of_agree; [eapply triple_le; eauto|]. exact A2.
      + exists s1. split; [reflexivity|]. apply post_of_agree; [eapply triple_le; eauto|]. exact P1.
  Qed.

  (* ---------------- all hints ---------------- *)
  (* members of a Literal are None, bools, ints, strs or bytes (PEP 586) *)
  Definition lit_scalar (v : pyval) : bool :=
    match v with VNone | VBool _ | VInt _ | VStr _ | VBytes _ => true | _ => false end.

  Fixpoint hint_ok (h : hint) : bool :=
    match h with
    | HAny | HCls _ | HShallow _ | HType _ => true
    | HLiteral vs => forallb lit_scalar vs
    | HAnnot mh vs => match vs with [] => false | _ => true end && hint_ok mh
    | HUnion hs =>
        match hs with [] => false | _ => true end &&
        (fix all (l : list hint) : bool := match l with [] => true | x :: l' => hint_ok x && all l' end) hs
    | HCont s ch => match sign_family s with Some _ => true | None => false end && hint_ok ch
    | HMap s k v => existsb (Nat.eqb s) map_signs && hint_ok k && hint_ok v
    | HCounter k => hint_ok k
    | HTuple hs =>
        (fix all (l : list hint) : bool := match l with [] => true | x :: l' => hint_ok x && all l' end) hs
    end.

  Lemma ok_cont s0 ch : node_ok ch -> sign_family s0 <> None -> node_ok (HCont s0 ch).
  Proof.
    intros IH Hf. destruct (ignorable ch) eqn:Hig.
    - intros _ pith idx y p E Ht Hw s Ha. cbn [gen chk]. rewrite Hig. now apply leaf_instance.
    - destruct (sign_family s0) as [[| |]|] eqn:Ef; [| | |congruence].
      + now apply ok_cont_sequence.
      + now apply ok_cont_reiterable.
      + now apply ok_cont_quasi.
  Qed.

  Lemma forall_ok l :
    Forall (fun h => hint_ok h = true -> node_ok h) l ->
    (fix all (l : list hint) : bool := match l with [] => true | x :: l' => hint_ok x && all l' end) l = true ->
    Forall node_ok l.
  Proof.
    induction 1 as [|x l Hx Hl IHl]; intros Hall; [constructor|].
    apply andb_true_iff in Hall as [H1 H2]. constructor; [now apply Hx|now apply IHl].
  Qed.

  Theorem gen_correct h : hint_ok h = true -> node_ok h.
  Proof.
    induction h using hint_ind2; intros Hok.
    - apply ok_any.
    - apply ok_cls.
    - apply ok_shallow.
    - cbn [hint_ok] in Hok. apply andb_true_iff in Hok as [Hne Hall].
      apply ok_union; [destruct hs; [discriminate|discriminate]|now apply forall_ok].
    - cbn [hint_ok] in Hok. apply andb_true_iff in Hok as [Hf Hc].
      apply ok_cont; [now apply IHh|]. destruct (sign_family s); [discriminate|discriminate].
    - cbn [hint_ok] in Hok. apply andb_true_iff in Hok as [Hok Hv]. apply andb_true_iff in Hok as [Hs Hk].
      apply ok_map; [now apply IHh1|now apply IHh2|].
      apply existsb_exists in Hs as (x & Hin & Hx). apply Nat.eqb_eq in Hx. now subst.
    - apply ok_counter. now apply IHh.
    - apply ok_tuple. cbn [hint_ok] in Hok. now apply forall_ok.
    - apply ok_literal.
    - apply ok_type.
    - cbn [hint_ok] in Hok. apply andb_true_iff in Hok as [Hne Hm].
      apply ok_annot; [now apply IHh|destruct vs; [discriminate|discriminate]].
  Qed.

  (* ---- the whole checker: for every well-formed hint and object, every draw and every user
          callable table, the generated expression returns exactly [check], never raising ---- *)
  Lemma root_run h x :
    hint_ok h = true -> wf x = true -> ignorable h = false ->
    exists s2, ev (gen cf h (EVar (Pith 0)) 0) (st0 x) = (Ok (VBool (chk cf r pb h x)), s2)
               /\ Forall safe_op (trace s2).
  Proof.
    intros Hok Hw Hig.
    pose (E := fun k : nat => if Nat.eqb k 0 then Some x else None).
    assert (Ht : pith_triple (EVar (Pith 0)) 0 x 1 E).
    { unfold pith_triple, node_i, node_assign. cbn [simple]. split; [lia|]. split; [reflexivity|].
      intros s A. exists s. split.
      - cbn [eval]. rewrite (agree_get _ _ _ 0 A) by lia. reflexivity.
      - split; [|exact (agree_safe _ _ _ A)].
        intros k Hk. rewrite (agree_get _ _ _ k A Hk). unfold upd, E. destruct k; [reflexivity|lia]. }
    assert (Ha : agree 1 E (st0 x)).
    { split; [|constructor]. intros k Hk. destruct k; [reflexivity|lia]. }
    destruct (gen_correct h Hok Hig _ _ _ _ _ Ht Hw _ Ha) as (s2 & E2 & P2).
    exists s2. split; [exact E2|]. unfold post in P2. cbn [simple] in P2. exact (agree_safe _ _ _ P2).
  Qed.

  (* ---- the whole checker: for every well-formed hint and object, every draw and every user
          callable table, the generated expression returns exactly [check], never raising ---- *)
  Theorem check_expr_correct h x :
    hint_ok h = true -> wf x = true ->
    verdict r preds (check_expr cf h) x = Ok (check cf r pb h x).
  Proof.
    intros Hok Hw. unfold verdict, check_expr, check. destruct (ignorable h) eqn:Hig; [reflexivity|].
    destruct (root_run h x Hok Hw Hig) as (s2 & E2 & _). rewrite E2. reflexivity.
  Qed.

  (* ---- ... and every protocol operation it performs on the objects it inspects is safe:
          len() only of Sized objects, indexing only in range / at present keys, and
          next(iter(.)) only of re-iterable Collections ---- *)
  Theorem check_expr_trace_safe h x :
    hint_ok h = true -> wf x = true ->
    Forall safe_op (trace_of r preds (check_expr cf h) x).
  Proof.
    intros Hok Hw. unfold trace_of, check_expr. destruct (ignorable h) eqn:Hig; [constructor|].
    destruct (root_run h x Hok Hw Hig) as (s2 & E2 & T2). now rewrite E2.
  Qed.
End Correct.
