(* C03 proofs: whenever the generated check rejects, the explanation path finds a cause (no
   desynchronisation), under both strategies; and whatever it reports is a genuine violation of
   the hint's full-depth meaning. *)
From Coq Require Import List ZArith Bool Arith String Lia.
From BT Require Import Gen.ClassTable Gen.SignSets Gen.Templates.
From BT Require Import Core.PyVal Core.Expr Core.Hint Core.Check Core.ClassFacts Core.GenProofs Core.Sound Core.Cause.
Import ListNotations.
Local Open Scope list_scope.

Section CauseProofs.
  Variable cf : gconf.
  Variable ai : bool.
  Variable r : Z.
  Variable pb : nat -> pyval -> bool.

  Notation fc := (fc cf ai r pb).
  Notation chk := (chk cf r pb).

  (* ------------------------------------------------------------ no desynchronisation *)

  Definition nd (h : hint) : Prop :=
    hint_ok h = true -> forall y, wf y = true -> chk h y = false -> fc h y = true.

  Lemma items_nonempty y : len0 y = false -> items y <> [].
  Proof. rewrite len0_items. destruct (items y); [discriminate|discriminate]. Qed.

  Lemma nd_cont s ch : nd ch -> nd (HCont s ch).
  Proof.
    intros IH Hok y Hw Hc. cbn [hint_ok] in Hok. apply andb_true_iff in Hok as [Hf Hch].
    cbn [chk] in Hc. cbn [Cause.fc].
    destruct (isinst y [sign_origin s]) eqn:Hi; [|reflexivity]. cbn [negb orb].
    destruct (ignorable ch) eqn:Hig; [congruence|]. cbn [orb].
    pose proof Hi as Hi'. rewrite isinst_single in Hi'.
    destruct (sign_family s) as [[| |]|] eqn:Ef; [| | |discriminate]; cbn [andb] in Hc.
    - assert (Hcoll : isinst y [c_Collection] = true).
      { rewrite isinst_single. apply collection_of_sequence.
        eapply issub_trans; [discriminate|exact Hi'|now apply family_seq_origin]. }
      rewrite Hcoll. cbn [negb orb]. apply orb_false_iff in Hc as [Hl Hc]. rewrite Hl.
      pose proof (items_nonempty y Hl) as Hne.
      assert (Hx : fc ch (sample cf r y) = true) by (apply IH; [exact Hch|now apply wf_sample|exact Hc]).
      destruct ai; [|exact Hx]. apply existsb_exists. exists (sample cf r y). split; [now apply sample_in|exact Hx].
    - assert (Hcoll : isinst y [c_Collection] = true).
      { rewrite isinst_single. eapply issub_trans; [discriminate|exact Hi'|now apply family_reit_origin]. }
      rewrite Hcoll. cbn [negb orb]. apply orb_false_iff in Hc as [Hl Hc]. rewrite Hl.
      pose proof (items_nonempty y Hl) as Hne.
      assert (Hx : fc ch (first y) = true) by (apply IH; [exact Hch|now apply wf_first|exact Hc]).
      destruct ai; [|exact Hx]. apply existsb_exists. exists (first y). split; [now apply first_in|exact Hx].
    - change quasi_collection_abc with c_Collection in Hc.
      apply orb_false_iff in Hc as [Hc Hx]. apply orb_false_iff in Hc as [Hcoll Hl].
      apply negb_false_iff in Hcoll. rewrite Hcoll, Hl. cbn [negb orb].
      pose proof (items_nonempty y Hl) as Hne. unfold cause_item.
      assert (Hy : fc ch (if isinst y [quasi_sequence_abc] then sample cf r y else first y) = true).
      { apply IH; [exact Hch| |exact Hx]. destruct (isinst y [quasi_sequence_abc]); [now apply wf_sample|now apply wf_first]. }
      destruct ai; [|exact Hy]. apply existsb_exists.
      exists (if isinst y [quasi_sequence_abc] then sample cf r y else first y). split; [|exact Hy].
      destruct (isinst y [quasi_sequence_abc]); [now apply sample_in|now apply first_in].
  Qed.

  Lemma nd_map s k v : nd k -> nd v -> nd (HMap s k v).
  Proof.
    intros IHk IHv Hok y Hw Hc. cbn [hint_ok] in Hok.
    apply andb_true_iff in Hok as [Hok Hv]. apply andb_true_iff in Hok as [Hsg Hk].
    apply existsb_exists in Hsg as (s' & Hin & Hx). apply Nat.eqb_eq in Hx. subst s'.
    cbn [chk] in Hc. cbn [Cause.fc].
    destruct (isinst y [map_origin s]) eqn:Hi; [|reflexivity]. cbn [negb orb andb] in *.
    destruct (mapping_view y _ Hw Hi (map_origin_mapping s Hin)) as (_ & c & kvs & ->).
    destruct kvs as [|[k0 x0] rest]; [discriminate|].
    destruct (wf_map_head _ _ _ _ Hw) as (Hwk & Hwx & _).
    destruct (map_head_values _ _ _ _ Hw) as (E1 & E2 & E3).
    replace (len0 (VMap c ((k0, x0) :: rest))) with false in * by reflexivity. cbn [orb] in Hc.
    rewrite E1, E2, E3 in Hc.
    assert (Hone : (negb (ignorable k) && fc k k0) || (negb (ignorable v) && fc v x0) = true).
    { destruct (ignorable k) eqn:Hik; cbn [negb andb orb] in *.
      - destruct (ignorable v) eqn:Hiv; [discriminate|]. cbn [negb andb]. now apply IHv.
      - apply andb_false_iff in Hc as [Hc|Hc].
        + rewrite (IHk Hk k0 Hwk Hc). reflexivity.
        + destruct (ignorable v) eqn:Hiv; [discriminate|]. cbn [negb andb]. rewrite (IHv Hv x0 Hwx Hc). apply orb_true_r. }
    destruct ai; [|exact Hone]. cbn [existsb fst snd]. rewrite Hone. reflexivity.
  Qed.

  Lemma nd_counter k : nd k -> nd (HCounter k).
  Proof.
    intros IHk Hok y Hw Hc. cbn [hint_ok] in Hok. cbn [chk] in Hc. cbn [Cause.fc].
    destruct (isinst y [counter_origin]) eqn:Hi; [|reflexivity]. cbn [negb orb andb] in *.
    destruct (mapping_view y _ Hw Hi counter_origin_mapping) as (_ & c & kvs & ->).
    destruct kvs as [|[k0 x0] rest]; [discriminate|].
    destruct (wf_map_head _ _ _ _ Hw) as (Hwk & Hwx & _).
    destruct (map_head_values _ _ _ _ Hw) as (E1 & E2 & E3).
    replace (len0 (VMap c ((k0, x0) :: rest))) with false in * by reflexivity. cbn [orb] in Hc.
    rewrite E1, E2, E3 in Hc.
    assert (Hone : (negb (ignorable k) && fc k k0) || negb (isinst x0 [c_int]) = true).
    { destruct (ignorable k) eqn:Hik; cbn [negb andb orb] in *.
      - now rewrite Hc.
      - apply andb_false_iff in Hc as [Hc|Hc].
        + rewrite (IHk Hok k0 Hwk Hc). reflexivity.
        + rewrite Hc. apply orb_true_r. }
    destruct ai; [|exact Hone]. cbn [existsb fst snd]. rewrite Hone. reflexivity.
  Qed.

  Lemma nd_tuple hs : Forall nd hs -> nd (HTuple hs).
  Proof.
    intros IH Hok y Hw Hc. cbn [hint_ok] in Hok. cbn [chk] in Hc. cbn [Cause.fc].
    destruct (isinst y [c_tuple]) eqn:Hi; [|reflexivity]. cbn [negb orb andb] in *.
    destruct (Nat.eqb (List.length (items y)) (List.length hs)) eqn:Hl; [|reflexivity]. cbn [negb orb andb] in *.
    apply Nat.eqb_eq in Hl.
    assert (G : forall l n, Forall nd l ->
              (fix all (l : list hint) : bool := match l with [] => true | x :: l' => hint_ok x && all l' end) l = true ->
              n + List.length l = List.length (items y) ->
              (fix go (l : list hint) (n : nat) : bool :=
                 match l with
                 | [] => true
                 | h' :: l' => (if ignorable h' then true else chk h' (nth n (items y) VNone)) && go l' (S n)
                 end) l n = false ->
              (fix go (l : list hint) (n : nat) : bool :=
                 match l with
                 | [] => false
                 | h' :: l' => (negb (ignorable h') && fc h' (nth n (items y) VNone)) || go l' (S n)
                 end) l n = true).
    { clear Hc Hok IH. induction l as [|h' l IHl]; intros n Hnd Hall Hlen Hgo; [discriminate|].
      inversion Hnd as [|? ? Hh Hrest]; subst. apply andb_true_iff in Hall as [Hokh Hall].
      apply andb_false_iff in Hgo as [Hgo|Hgo].
      - destruct (ignorable h'); [discriminate|]. cbn [negb andb].
        rewrite (Hh Hokh (nth n (items y) VNone)); [reflexivity| |exact Hgo].
        apply wf_nth; [exact Hw|]. cbn [List.length] in Hlen. lia.
      - rewrite (IHl (S n) Hrest Hall); [apply orb_true_r| |exact Hgo]. cbn [List.length] in Hlen. lia. }
    apply G; auto.
  Qed.

  Lemma nd_union hs : Forall nd hs -> nd (HUnion hs).
  Proof.
    intros IH Hok y Hw Hc. cbn [hint_ok] in Hok. apply andb_true_iff in Hok as [_ Hok].
    cbn [chk] in Hc. cbn [Cause.fc].
    induction IH as [|h' l Hh Hl IHl]; [reflexivity|].
    apply andb_true_iff in Hok as [Hokh Hok]. apply orb_false_iff in Hc as [Hc1 Hc2].
    rewrite (Hh Hokh y Hw Hc1). cbn [andb]. now apply IHl.
  Qed.

  Lemma nd_literal vs : nd (HLiteral vs).
  Proof.
    intros Hok y Hw Hc. cbn [chk] in Hc. cbn [Cause.fc]. apply negb_true_iff.
    destruct (existsb (fun v => isinst y [type_of v] && py_eq y v) vs) eqn:E; [|reflexivity].
    apply existsb_exists in E as (v & Hin & Hv). apply andb_true_iff in Hv as [Hi He].
    exfalso. apply andb_false_iff in Hc as [Hc|Hc].
    - unfold isinst in Hc, Hi. cbn [existsb] in Hi. rewrite orb_false_r in Hi.
      assert (existsb (issub (type_of y)) (map type_of vs) = true); [|congruence].
      apply existsb_exists. exists (type_of v). split; [now apply in_map|exact Hi].
    - assert (existsb (py_eq y) vs = true); [|congruence]. apply existsb_exists. now exists v.
  Qed.

  Lemma nd_annot mh vs : nd mh -> nd (HAnnot mh vs).
  Proof.
    intros IH Hok y Hw Hc. cbn [hint_ok] in Hok. apply andb_true_iff in Hok as [_ Hok].
    cbn [chk] in Hc. cbn [Cause.fc]. apply andb_false_iff in Hc as [Hc|Hc].
    - destruct (ignorable mh); [discriminate|]. cbn [negb andb]. now rewrite (IH Hok y Hw Hc).
    - assert (E : existsb (fun v => negb (vmean pb v y)) vs = true); [|rewrite E; apply orb_true_r].
      clear -Hc. induction vs as [|v l IHl]; [discriminate|]. cbn in *.
      destruct (vmean pb v y); [cbn in *; now apply IHl|reflexivity].
  Qed.

  Theorem no_desync h : nd h.
  Proof.
    induction h using hint_ind2.
    - intros _ y _ H. discriminate.
    - intros _ y _ H. cbn in *. now rewrite H.
    - intros _ y _ H. cbn in *. now rewrite H.
    - now apply nd_union.
    - now apply nd_cont.
    - now apply nd_map.
    - now apply nd_counter.
    - now apply nd_tuple.
    - apply nd_literal.
    - intros _ y _ H. cbn [chk] in H. cbn [Cause.fc].
      destruct (isinst y [c_type]); [|reflexivity]. cbn [andb negb orb] in *. now rewrite H.
    - now apply nd_annot.
  Qed.

  Theorem rejection_is_explained h y :
    hint_ok h = true -> wf y = true -> check cf r pb h y = false ->
    explain cf ai r pb h y = SViolation.
  Proof.
    intros Hok Hw Hc. unfold explain, find_cause. unfold check in Hc.
    destruct (ignorable h); [discriminate|]. now rewrite (no_desync h Hok y Hw Hc).
  Qed.

  (* ------------------------------------------------------------ reported causes are genuine *)

  Definition gn (h : hint) : Prop :=
    hint_ok h = true -> forall y, wf y = true -> sat pb h y = true -> fc h y = false.

  Lemma existsb_false_forall {A} (f : A -> bool) l : (forall x, In x l -> f x = false) -> existsb f l = false.
  Proof. induction l as [|a l IH]; intros H; [reflexivity|]. cbn. rewrite (H a (or_introl eq_refl)). apply IH. intros x Hx. apply H. now right. Qed.

  Lemma gn_cont s ch : gn ch -> gn (HCont s ch).
  Proof.
    intros IH Hok y Hw Hs. cbn [hint_ok] in Hok. apply andb_true_iff in Hok as [Hf Hch].
    cbn [sat] in Hs. apply andb_true_iff in Hs as [Hi Hitems]. cbn [Cause.fc]. rewrite Hi. cbn [negb orb].
    destruct (ignorable ch); [reflexivity|]. cbn [orb].
    destruct (isinst y [c_Collection]) eqn:Hc; [|reflexivity]. cbn [negb orb].
    destruct (len0 y) eqn:Hl; [reflexivity|].
    rewrite isinst_single in Hc. rewrite (coll_items_some y Hw Hc) in Hitems. rewrite forallb_forall in Hitems.
    pose proof (items_nonempty y Hl) as Hne.
    assert (Hall : forall x, In x (items y) -> fc ch x = false).
    { intros x Hx. apply IH; [exact Hch|now apply (wf_items y)|now apply Hitems]. }
    destruct (sign_family s) as [fam|]; [|reflexivity].
    destruct ai; [now apply existsb_false_forall|]. apply Hall.
    destruct fam; cbn [cause_item]; [now apply sample_in|now apply first_in|].
    destruct (isinst y [quasi_sequence_abc]); [now apply sample_in|now apply first_in].
  Qed.

  Lemma wf_map_all c kvs : wf (VMap c kvs) = true -> forall kx, In kx kvs -> wf (fst kx) = true /\ wf (snd kx) = true.
  Proof.
    cbn [wf]. intros H kx Hin. apply andb_true_iff in H as [_ H]. rewrite forallb_forall in H.
    specialize (H kx Hin). apply andb_true_iff in H as [H _]. now apply andb_true_iff in H.
  Qed.

  Lemma gn_map s k v : gn k -> gn v -> gn (HMap s k v).
  Proof.
    intros IHk IHv Hok y Hw Hs. cbn [hint_ok] in Hok.
    apply andb_true_iff in Hok as [Hok Hv]. apply andb_true_iff in Hok as [Hsg Hk].
    cbn [sat] in Hs. apply andb_true_iff in Hs as [Hi Hkv]. cbn [Cause.fc]. rewrite Hi. cbn [negb orb].
    destruct (len0 y); [reflexivity|]. destruct y as [| | | | | | |c kvs| |]; try reflexivity.
    rewrite forallb_forall in Hkv.
    assert (Hone : forall kx, In kx kvs ->
              (negb (ignorable k) && fc k (fst kx)) || (negb (ignorable v) && fc v (snd kx)) = false).
    { intros kx Hin. specialize (Hkv kx Hin). apply andb_true_iff in Hkv as [H1 H2].
      destruct (wf_map_all c kvs Hw kx Hin) as [W1 W2].
      rewrite (IHk Hk _ W1 H1), (IHv Hv _ W2 H2). now rewrite !andb_false_r. }
    destruct ai; [now apply existsb_false_forall|]. destruct kvs as [|kx rest]; [reflexivity|]. apply Hone. now left.
  Qed.

  Lemma gn_counter k : gn k -> gn (HCounter k).
  Proof.
    intros IHk Hok y Hw Hs. cbn [hint_ok] in Hok.
    cbn [sat] in Hs. apply andb_true_iff in Hs as [Hi Hkv]. cbn [Cause.fc]. rewrite Hi. cbn [negb orb].
    destruct (len0 y); [reflexivity|]. destruct y as [| | | | | | |c kvs| |]; try reflexivity.
    rewrite forallb_forall in Hkv.
    assert (Hone : forall kx, In kx kvs ->
              (negb (ignorable k) && fc k (fst kx)) || negb (isinst (snd kx) [c_int]) = false).
    { intros kx Hin. specialize (Hkv kx Hin). apply andb_true_iff in Hkv as [H1 H2].
      destruct (wf_map_all c kvs Hw kx Hin) as [W1 W2].
      rewrite (IHk Hok _ W1 H1), H2. now rewrite andb_false_r. }
    destruct ai; [now apply existsb_false_forall|]. destruct kvs as [|kx rest]; [reflexivity|]. apply Hone. now left.
  Qed.

  Lemma gn_tuple hs : Forall gn hs -> gn (HTuple hs).
  Proof.
    intros IH Hok y Hw Hs. cbn [hint_ok] in Hok. rewrite sat_tuple_unfold in Hs.
    apply andb_true_iff in Hs as [Hi Hall]. cbn [Cause.fc]. rewrite Hi. cbn [negb orb].
    destruct (items_of y) as [l|] eqn:El; [|discriminate].
    assert (Hit : items y = l) by (unfold items; now rewrite El).
    assert (G : forall hl pre suf, items y = pre ++ suf -> Forall gn hl ->
              (fix all (l : list hint) : bool := match l with [] => true | x :: l' => hint_ok x && all l' end) hl = true ->
              sat_all2 pb hl suf = true ->
              List.length suf = List.length hl /\
              (fix go (l : list hint) (n : nat) : bool :=
                 match l with
                 | [] => false
                 | h' :: l' => (negb (ignorable h') && fc h' (nth n (items y) VNone)) || go l' (S n)
                 end) hl (List.length pre) = false).
    { induction hl as [|h' hl IHl]; intros pre suf Hpre Hg Hokl Hs2.
      - destruct suf; [split; reflexivity|discriminate].
      - destruct suf as [|x suf]; [discriminate|]. cbn [sat_all2] in Hs2. apply andb_true_iff in Hs2 as [Hx Hrest].
        inversion Hg as [|? ? Hh Hg']; subst. apply andb_true_iff in Hokl as [Hokh Hokl].
        assert (Hn : nth (List.length pre) (items y) VNone = x) by (rewrite Hpre, app_nth2, Nat.sub_diag; [reflexivity|lia]).
        assert (Hwx : wf x = true) by (apply (wf_items y); [exact Hw|]; rewrite Hpre; apply in_or_app; right; now left).
        destruct (IHl (pre ++ [x]) suf) as (Hlen & Hgo); auto; [now rewrite <- app_assoc|].
        split; [cbn; now rewrite Hlen|].
        rewrite Hn, (Hh Hokh x Hwx Hx), andb_false_r. cbn [orb].
        rewrite app_length in Hgo. cbn [List.length] in Hgo. now rewrite Nat.add_1_r in Hgo. }
    destruct (G hs [] l Hit IH Hok Hall) as (Hlen & Hgo).
    rewrite <- Hit in Hlen. rewrite Hlen, Nat.eqb_refl. cbn [negb orb]. exact Hgo.
  Qed.

  Lemma gn_union hs : Forall gn hs -> gn (HUnion hs).
  Proof.
    intros IH Hok y Hw Hs. cbn [hint_ok] in Hok. apply andb_true_iff in Hok as [_ Hok].
    rewrite sat_union_unfold in Hs. cbn [Cause.fc].
    induction IH as [|h' l Hh Hl IHl]; [discriminate|].
    apply andb_true_iff in Hok as [Hokh Hok]. cbn [sat_any] in Hs. apply orb_true_iff in Hs as [Hs|Hs].
    - now rewrite (Hh Hokh y Hw Hs).
    - rewrite (IHl Hok Hs). apply andb_false_r.
  Qed.

  Lemma gn_literal vs : gn (HLiteral vs).
  Proof.
    intros Hok y Hw Hs. cbn [hint_ok] in Hok. cbn [sat] in Hs. cbn [Cause.fc]. apply negb_false_iff.
    apply existsb_exists in Hs as (v & Hin & Hm). unfold lit_member in Hm.
    apply andb_true_iff in Hm as [Heq Hty]. apply Nat.eqb_eq in Hty.
    rewrite forallb_forall in Hok. apply existsb_exists. exists v. split; [exact Hin|].
    rewrite Heq, andb_true_r. unfold isinst. cbn [existsb]. rewrite orb_false_r, Hty.
    apply literal_class_refl. now apply Hok.
  Qed.

  Lemma gn_annot mh vs : gn mh -> gn (HAnnot mh vs).
  Proof.
    intros IH Hok y Hw Hs. cbn [hint_ok] in Hok. apply andb_true_iff in Hok as [_ Hok].
    cbn [sat] in Hs. apply andb_true_iff in Hs as [Hm Hv]. cbn [Cause.fc].
    rewrite (IH Hok y Hw Hm), andb_false_r. cbn [orb]. apply existsb_false_forall.
    intros v Hin. rewrite forallb_forall in Hv. now rewrite (Hv v Hin).
  Qed.

  Theorem cause_genuine h : gn h.
  Proof.
    induction h using hint_ind2.
    - intros _ y _ _. reflexivity.
    - intros _ y _ H. cbn in *. now rewrite H.
    - intros _ y _ H. cbn in *. now rewrite H.
    - now apply gn_union.
    - now apply gn_cont.
    - now apply gn_map.
    - now apply gn_counter.
    - now apply gn_tuple.
    - apply gn_literal.
    - intros _ y Hw Hs. cbn [sat] in Hs. cbn [Cause.fc].
      destruct y; cbn [issubcls] in Hs; try discriminate. cbn [issubcls]. rewrite Hs.
      replace (isinst (VCls c) [c_type]) with true by (vm_compute; reflexivity). reflexivity.
    - now apply gn_annot.
  Qed.

  Theorem explained_violation_is_real h y :
    hint_ok h = true -> wf y = true -> find_cause cf ai r pb h y = true -> sat pb h y = false.
  Proof.
    intros Hok Hw Hf. unfold find_cause in Hf. destruct (ignorable h); [discriminate|].
    destruct (sat pb h y) eqn:Hs; [|reflexivity]. now rewrite (cause_genuine h Hok y Hw Hs) in Hf.
  Qed.
End CauseProofs.
