(* Shared core: the universe of Python objects the check models talk about, and the
   protocol operations (len, indexing, iteration, ==, isinstance) on them.
   Class facts come from the regenerated Gen/ClassTable.v.  No proofs here. *)
From Coq Require Import List ZArith Bool Arith Ascii String.
From BT Require Import Gen.ClassTable.
Import ListNotations.
Local Open Scope list_scope.

Inductive pyval :=
| VNone
| VBool (b : bool)
| VInt (z : Z)
| VFloat (halves : Z)                       (* the float halves/2 *)
| VStr (s : string)
| VBytes (s : string)
| VCont (c : nat) (items : list pyval)      (* an object whose iteration yields [items]: list, tuple,
                                               set, deque, views, user collections, and one-shot
                                               iterators/generators (class not a Collection) *)
| VMap (c : nat) (kvs : list (pyval * pyval)) (* dict-like: keys in iteration order *)
| VCls (c : nat)                            (* a class object *)
| VObj (c : nat) (attrs : list (string * pyval)).  (* an instance with attributes *)

Definition type_of (v : pyval) : nat :=
  match v with
  | VNone => c_NoneType | VBool _ => c_bool | VInt _ => c_int | VFloat _ => c_float
  | VStr _ => c_str | VBytes _ => c_bytes
  | VCont c _ => c | VMap c _ => c | VCls _ => c_type | VObj c _ => c
  end.

(* isinstance(v, (c1, ..., cn)) *)
Definition isinst (v : pyval) (cs : list nat) : bool := existsb (issub (type_of v)) cs.

(* issubclass(v, (c1, ..., cn)) for a class object v *)
Definition issubcls (v : pyval) (cs : list nat) : option bool :=
  match v with
  | VCls c => Some (existsb (issub c) cs)
  | _ => None                                 (* TypeError: issubclass() arg 1 must be a class *)
  end.

(* numeric value in halves, for the bool/int/float tower *)
Definition num_halves (v : pyval) : option Z :=
  match v with
  | VBool b => Some (if b then 2 else 0)%Z
  | VInt z => Some (2 * z)%Z
  | VFloat h => Some h
  | _ => None
  end.

(* object identity, approximated structurally: `a is b` for two references to one object *)
Fixpoint val_same (a b : pyval) {struct a} : bool :=
  match a, b with
  | VNone, VNone => true
  | VBool x, VBool y => Bool.eqb x y
  | VInt x, VInt y => Z.eqb x y
  | VFloat x, VFloat y => Z.eqb x y
  | VStr s, VStr t => String.eqb s t
  | VBytes s, VBytes t => String.eqb s t
  | VCont c l, VCont d m =>
      Nat.eqb c d &&
      (fix go (l m : list pyval) : bool :=
         match l, m with
         | [], [] => true
         | x :: l', y :: m' => val_same x y && go l' m'
         | _, _ => false
         end) l m
  | VMap c l, VMap d m =>
      Nat.eqb c d &&
      (fix go (l m : list (pyval * pyval)) : bool :=
         match l, m with
         | [], [] => true
         | (k, x) :: l', (k', y) :: m' => val_same k k' && val_same x y && go l' m'
         | _, _ => false
         end) l m
  | VCls c, VCls d => Nat.eqb c d
  | VObj c l, VObj d m =>
      Nat.eqb c d &&
      (fix go (l m : list (string * pyval)) : bool :=
         match l, m with
         | [], [] => true
         | (k, x) :: l', (k', y) :: m' => String.eqb k k' && val_same x y && go l' m'
         | _, _ => false
         end) l m
  | _, _ => false
  end.

(* Python == between an arbitrary object and a *scalar* (what Literal[...] members and
   dictionary keys are); containers and instances compare unequal to scalars (user-defined
   __eq__ is not modelled). *)
Definition scalar_eq (a b : pyval) : bool :=
  match num_halves a, num_halves b with
  | Some x, Some y => Z.eqb x y
  | Some _, None | None, Some _ => false
  | None, None =>
      match a, b with
      | VNone, VNone => true
      | VStr s, VStr t => String.eqb s t
      | VBytes s, VBytes t => String.eqb s t
      | VCls c, VCls d => Nat.eqb c d
      | VObj _ _, VObj _ _ => val_same a b    (* instances compare by identity, approximated
                                                 structurally (the generators never put two
                                                 structurally equal instances into one mapping) *)
      | _, _ => false
      end
  end.

(* ... extended to hashable containers used as dictionary keys (tuples, frozensets): same
   class and pairwise equal items in iteration order *)
Fixpoint py_eq (a b : pyval) {struct a} : bool :=
  match a, b with
  | VCont c l, VCont d m =>
      Nat.eqb c d &&
      (fix go (l m : list pyval) : bool :=
         match l, m with
         | [], [] => true
         | x :: l', y :: m' => py_eq x y && go l' m'
         | _, _ => false
         end) l m
  | _, _ => scalar_eq a b
  end.

Fixpoint chars (s : string) : list pyval :=
  match s with
  | EmptyString => []
  | String c s' => VStr (String c EmptyString) :: chars s'
  end.

Fixpoint byte_ints (s : string) : list pyval :=
  match s with
  | EmptyString => []
  | String c s' => VInt (Z.of_nat (nat_of_ascii c)) :: byte_ints s'
  end.

(* what iterating the object yields, if it is iterable at all *)
Definition items_of (v : pyval) : option (list pyval) :=
  match v with
  | VCont _ l => Some l
  | VMap _ kvs => Some (map fst kvs)
  | VStr s => Some (chars s)
  | VBytes s => Some (byte_ints s)
  | _ => None
  end.

Inductive pyexc := TypeError | IndexError | StopIteration | KeyError | AttributeError | NameError
                 | ZeroDivisionError | UserExc (n : nat).

Inductive res (A : Type) := Ok (a : A) | Exc (e : pyexc).
Arguments Ok {A} a.
Arguments Exc {A} e.

(* len(v) *)
Definition py_len (v : pyval) : res Z :=
  if issub (type_of v) c_Sized then
    match items_of v with
    | Some l => Ok (Z.of_nat (List.length l))
    | None => Exc TypeError
    end
  else Exc TypeError.

Fixpoint lookup (k : pyval) (kvs : list (pyval * pyval)) : option pyval :=
  match kvs with
  | [] => None
  | (k', v) :: r => if py_eq k' k then Some v else lookup k r
  end.

(* v[i] *)
Definition py_index (v i : pyval) : res pyval :=
  match v with
  | VMap _ kvs =>
      match lookup i kvs with Some x => Ok x | None => Exc KeyError end
  | _ =>
      if issub (type_of v) c_Sequence then
        match items_of v, i with
        | Some l, VInt z =>
            if (0 <=? z)%Z then
              match nth_error l (Z.to_nat z) with Some x => Ok x | None => Exc IndexError end
            else Exc IndexError          (* negative indices are never generated by the checker *)
        | _, _ => Exc TypeError
        end
      else Exc TypeError
  end.

(* next(iter(v)) *)
Definition py_first (v : pyval) : res pyval :=
  if issub (type_of v) c_Iterable then
    match items_of v with
    | Some (x :: _) => Ok x
    | Some [] => Exc StopIteration
    | None => Exc TypeError
    end
  else Exc TypeError.

(* next(iter(v.values())) *)
Definition py_first_value (v : pyval) : res pyval :=
  match v with
  | VMap _ ((_, x) :: _) => Ok x
  | VMap _ [] => Exc StopIteration
  | _ => Exc AttributeError
  end.

(* bool(v) *)
Definition truthy (v : pyval) : bool :=
  match v with
  | VNone => false
  | VBool b => b
  | VInt z => negb (Z.eqb z 0)
  | VFloat h => negb (Z.eqb h 0)
  | VStr s => negb (String.eqb s EmptyString)
  | VBytes s => negb (String.eqb s EmptyString)
  | VCont c l => if issub c c_Sized then match l with [] => false | _ => true end else true
  | VMap _ kvs => match kvs with [] => false | _ => true end
  | VCls _ | VObj _ _ => true
  end.

Fixpoint attr_get (n : string) (attrs : list (string * pyval)) : option pyval :=
  match attrs with
  | [] => None
  | (k, v) :: r => if String.eqb k n then Some v else attr_get n r
  end.

(* getattr(v, n, SENTINEL) is not SENTINEL *)
Definition py_getattr (v : pyval) (n : string) : option pyval :=
  match v with
  | VObj _ attrs => attr_get n attrs
  | _ => None
  end.
