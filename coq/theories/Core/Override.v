(* C18 model: hint-rewriting configuration options.
   [expand] mirrors what reduction does lazily at every node of the hint tree
   (beartype/_check/convert/_reduce/redmain.py:_reduce_hint_overrides is the first reducer tried
   for every hint and every child hint; _redrecurse.py guards a key against being overridden
   again anywhere below its own replacement; codepep484604union.py flattens unions that
   children reduce to).  [subst1] is the specification: one simultaneous pass replacing every
   occurrence of a key by its value, as one would edit the hints by hand.  No proofs here. *)
From Coq Require Import List ZArith Bool Arith String.
From BT Require Import Gen.ClassTable Gen.SignSets Core.PyVal Core.Expr Core.Hint Core.Check.
Import ListNotations.
Local Open Scope list_scope.

(* equality of hints as dictionary keys (typing objects compare structurally).  Annotated hints
   are never keys in the modelled universe; unions compare with their members in order. *)
Fixpoint hint_eqb (a b : hint) {struct a} : bool :=
  match a, b with
  | HAny, HAny => true
  | HCls c, HCls d | HShallow c, HShallow d => Nat.eqb c d
  | HUnion l, HUnion m | HTuple l, HTuple m =>
      (fix go (l m : list hint) : bool :=
         match l, m with
         | [], [] => true
         | x :: l', y :: m' => hint_eqb x y && go l' m'
         | _, _ => false
         end) l m
  | HCont s x, HCont t y => Nat.eqb s t && hint_eqb x y
  | HMap s k v, HMap t k' v' => Nat.eqb s t && hint_eqb k k' && hint_eqb v v'
  | HCounter k, HCounter k' => hint_eqb k k'
  | HLiteral l, HLiteral m =>
      (fix go (l m : list pyval) : bool :=
         match l, m with
         | [], [] => true
         | x :: l', y :: m' => val_same x y && go l' m'
         | _, _ => false
         end) l m
  | HType cs, HType ds =>
      (fix go (l m : list nat) : bool :=
         match l, m with
         | [], [] => true
         | x :: l', y :: m' => Nat.eqb x y && go l' m'
         | _, _ => false
         end) cs ds
  | _, _ => false
  end.

Definition overrides := list (hint * hint).

Fixpoint ov_get (ov : overrides) (h : hint) : option hint :=
  match ov with
  | [] => None
  | (k, v) :: r => if hint_eqb k h then Some v else ov_get r h
  end.

Definition guarded (g : list hint) (h : hint) : bool := existsb (hint_eqb h) g.

(* typing.Union flattens nested unions; so does the union code generator for unions that child
   hints reduce to ... *)
Fixpoint dedup_cls (seen : list nat) (l : list hint) : list hint :=
  match l with
  | [] => []
  | HCls c :: r => if existsb (Nat.eqb c) seen then dedup_cls seen r else HCls c :: dedup_cls (c :: seen) r
  | x :: r => x :: dedup_cls seen r
  end.

(* ... and both keep one copy of a class listed twice (typing by ==, the generator by collecting
   the plain classes of a union in a dictionary) *)
Definition mk_union (hs : list hint) : hint :=
  HUnion (dedup_cls [] (flat_map (fun h => match h with HUnion l => l | _ => [h] end) hs)).

(* the classes a type[...] argument may be rewritten to *)
Definition classes_of (h : hint) : option (list nat) :=
  match h with
  | HCls c => Some [c]
  | HUnion l =>
      fold_right (fun x acc => match x, acc with HCls c, Some r => Some (c :: r) | _, _ => None end) (Some []) l
  | _ => None
  end.

Section Expand.
  Variable ov : overrides.

  (* [expand n g h]: the hint effectively checked for [h] below replacements of the keys [g];
     [n] bounds the number of nested replacements (at most one per key: see Proofs) *)
  Fixpoint expand (n : nat) (g : list hint) (h : hint) {struct n} : hint :=
    match n with
    | 0 => h
    | S n' =>
        (fix walk (h : hint) : hint :=
           let over :=
             match ov_get ov h with
             | Some b => if guarded g h then None else Some (expand n' (h :: g) b)
             | None => None
             end in
           match over with
           | Some b' => b'
           | None =>
               match h with
               | HUnion hs => mk_union (map walk hs)
               | HCont s ch => HCont s (walk ch)
               | HMap s k v => HMap s (walk k) (walk v)
               | HCounter k => HCounter (walk k)
               | HTuple hs => HTuple (map walk hs)
               | HAnnot mh vs => HAnnot (walk mh) vs
               | HType cs =>
                   HType (flat_map (fun c =>
                            match ov_get ov (HCls c) with
                            | Some b =>
                                if guarded g (HCls c) then [c]
                                else match classes_of (expand n' (HCls c :: g) b) with
                                     | Some l => l
                                     | None => [c]       (* outside the modelled universe *)
                                     end
                            | None => [c]
                            end) cs)
               | _ => h
               end
           end) h
    end.

  (* the specification: rewrite the hints by hand, once, everywhere *)
  Fixpoint subst1 (h : hint) {struct h} : hint :=
    match ov_get ov h with
    | Some b => b
    | None =>
        match h with
        | HUnion hs => mk_union (map subst1 hs)
        | HCont s ch => HCont s (subst1 ch)
        | HMap s k v => HMap s (subst1 k) (subst1 v)
        | HCounter k => HCounter (subst1 k)
        | HTuple hs => HTuple (map subst1 hs)
        | HAnnot mh vs => HAnnot (subst1 mh) vs
        | HType cs =>
            HType (flat_map (fun c =>
                     match ov_get ov (HCls c) with
                     | Some b => match classes_of b with Some l => l | None => [c] end
                     | None => [c]
                     end) cs)
        | _ => h
        end
    end.

  Definition fuel : nat := S (List.length ov).

  (* the hint a configuration with these overrides effectively checks *)
  Definition effective (h : hint) : hint := expand fuel [] h.

  (* replacements are stable: rewriting inside a replacement (its own key guarded) changes
     nothing.  True of {float: float | int}-style overrides and of the numeric tower; false
     when one replacement mentions another key (the code then chains the two). *)
  Definition stable : Prop :=
    forall k b, In (k, b) ov -> expand (List.length ov) [k] b = b.
End Expand.

(* is_pep484_tower=True (beartype/_conf/_confoverrides.py: Pep484TowerFloat / Pep484TowerComplex) *)
Definition tower_ov : overrides :=
  [ (HCls c_float, HUnion [HCls c_float; HCls c_int]);
    (HCls c_complex, HUnion [HCls c_complex; HCls c_float; HCls c_int]) ].

(* the check under a configuration with overrides *)
Definition chk_ov (ov : overrides) (cf : gconf) (r : Z) (pb : nat -> pyval -> bool) (h : hint) (y : pyval) : bool :=
  check cf r pb (effective ov h) y.
