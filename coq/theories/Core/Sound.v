(* Shared core: the sampled check [chk] never rejects an object that satisfies the hint at full
   depth (C01), whatever the draw; plus the detection lemmas of C02. Pure functional proofs. *)
From Coq Require Import List ZArith Bool Arith String Lia.
From BT Require Import Gen.ClassTable Gen.SignSets Gen.Templates.
From BT Require Import Core.PyVal Core.Expr Core.Hint Core.Check Core.ClassFacts Core.GenProofs.
Import ListNotations.
Local Open Scope list_scope.

Definition sat_any (pb : nat -> pyval -> bool) (x : pyval) :=
  fix any (l : list hint) : bool := match l with [] => false | h' :: l' => sat pb h' x || any l' end.

Definition sat_all2 (pb : nat -> pyval -> bool) :=
  fix all2 (hl : list hint) (ys : list pyval) : bool :=
    match hl, ys with
    | [], [] => true
    | h' :: hl', y :: ys' => sat pb h' y && all2 hl' ys'
    | _, _ => false
    end.

Lemma sat_union_unfold pb hs x : sat pb (HUnion hs) x = sat_any pb x hs.
Proof. reflexivity. Qed.

Lemma sat_tuple_unfold pb hs x :
  sat pb (HTuple hs) x = isinst x [c_tuple] && match items_of x with Some l => sat_all2 pb hs l | None => false end.
Proof. reflexivity. Qed.

Section Sound.
  Variable cf : gconf.
  Variable r : Z.
  Variable pb : nat -> pyval -> bool.

  Lemma first_in y : items y <> [] -> In (first y) (items y).
  Proof. unfold first. destruct (items y); [congruence|]. intros _. now left. Qed.

  Lemma sample_in y : items y <> [] -> In (sample cf r y) (items y).
  Proof.
    intros Hne. unfold sample. destruct (is_random cf); [|now apply first_in].
    destruct (items y) as [|a l] eqn:El; [congruence|]. rewrite <- El. apply nth_In.
    assert (0 < Z.of_nat (List.length (items y)))%Z by (rewrite El; cbn; lia).
    pose proof (Z.mod_pos_bound r _ H). lia.
  Qed.

  Lemma coll_items_some y : wf y = true -> issub (type_of y) c_Collection = true ->
    coll_items y = Some (items y).
  Proof.
    intros Hw Hc. unfold coll_items. rewrite Hc.
    apply (items_of_some y c_Sized Hw); [cbn; tauto|now apply sized_of_collection].
  Qed.

  Lemma literal_class_refl v : lit_scalar v = true -> issub (type_of v) (type_of v) = true.
  Proof. destruct v; cbn [lit_scalar]; intros H; try discriminate; vm_compute; reflexivity. Qed.

  Definition sound (h : hint) : Prop :=
    hint_ok h = true -> forall y, wf y = true -> sat pb h y = true -> chk cf r pb h y = true.

  Lemma sound_items ch y sel :
    sound ch -> hint_ok ch = true -> wf y = true -> forallb (sat pb ch) (items y) = true ->
    In sel (items y) -> chk cf r pb ch sel = true.
  Proof.
    intros IH Hok Hw Hall Hin. rewrite forallb_forall in Hall.
    apply IH; [exact Hok|now apply (wf_items y)|now apply Hall].
  Qed.

  Lemma sound_cont s ch : sound ch -> sound (HCont s ch).
  Proof.
    intros IH Hok y Hw Hs. cbn [hint_ok] in Hok. apply andb_true_iff in Hok as [Hf Hch].
    cbn [sat] in Hs. apply andb_true_iff in Hs as [Hi Hitems]. cbn [chk].
    destruct (ignorable ch); [exact Hi|].
    pose proof Hi as Hi'. rewrite isinst_single in Hi'.
    destruct (sign_family s) as [[| |]|] eqn:Ef; [| | |discriminate].
    - assert (Hc : issub (type_of y) c_Collection = true).
      { apply collection_of_sequence. eapply issub_trans; [discriminate|exact Hi'|now apply family_seq_origin]. }
      rewrite (coll_items_some y Hw Hc) in Hitems. rewrite Hi. cbn [andb]. rewrite len0_items.
      destruct (items y) as [|a l] eqn:El; [reflexivity|]. cbn [orb]. rewrite <- El in Hitems.
      apply (sound_items ch y); auto. apply sample_in. rewrite El. discriminate.
    - assert (Hc : issub (type_of y) c_Collection = true)
        by (eapply issub_trans; [discriminate|exact Hi'|now apply family_reit_origin]).
      rewrite (coll_items_some y Hw Hc) in Hitems. rewrite Hi. cbn [andb]. rewrite len0_items.
      destruct (items y) as [|a l] eqn:El; [reflexivity|]. cbn [orb]. rewrite <- El in Hitems.
      apply (sound_items ch y); auto. apply first_in. rewrite El. discriminate.
    - rewrite Hi. cbn [andb].
      change quasi_collection_abc with c_Collection. change quasi_sequence_abc with c_Sequence.
      destruct (isinst y [c_Collection]) eqn:Ec; [|reflexivity]. cbn [negb orb].
      rewrite isinst_single in Ec. rewrite (coll_items_some y Hw Ec) in Hitems. rewrite len0_items.
      destruct (items y) as [|a l] eqn:El; [reflexivity|]. cbn [orb]. rewrite <- El in Hitems.
      apply (sound_items ch y); auto.
      destruct (isinst y [c_Sequence]); [apply sample_in|apply first_in]; rewrite El; discriminate.
  Qed.

  Lemma map_head_values c k x rest :
    wf (VMap c ((k, x) :: rest)) = true ->
    first (VMap c ((k, x) :: rest)) = k /\ first_value (VMap c ((k, x) :: rest)) = x
    /\ value_of_first_key (VMap c ((k, x) :: rest)) = x.
  Proof.
    intros Hw. destruct (wf_map_head _ _ _ _ Hw) as (_ & _ & Hk). repeat split.
    unfold value_of_first_key, first, items. cbn [items_of map fst nth]. now rewrite (lookup_head _ _ _ Hk).
  Qed.

  Lemma sound_map s k v : sound k -> sound v -> sound (HMap s k v).
  Proof.
    intros IHk IHv Hok y Hw Hs. cbn [hint_ok] in Hok.
    apply andb_true_iff in Hok as [Hok Hv]. apply andb_true_iff in Hok as [Hsg Hk].
    apply existsb_exists in Hsg as (s' & Hin & Hx). apply Nat.eqb_eq in Hx. subst s'.
    cbn [sat] in Hs. apply andb_true_iff in Hs as [Hi Hkv]. cbn [chk]. rewrite Hi. cbn [andb].
    destruct (mapping_view y _ Hw Hi (map_origin_mapping s Hin)) as (_ & c & kvs & ->).
    destruct kvs as [|[k0 x0] rest]; [reflexivity|].
    cbn [forallb fst snd] in Hkv. apply andb_true_iff in Hkv as [H0 _]. apply andb_true_iff in H0 as [Hk0 Hx0].
    destruct (wf_map_head _ _ _ _ Hw) as (Hwk & Hwx & _).
    destruct (map_head_values _ _ _ _ Hw) as (-> & -> & ->).
    replace (len0 (VMap c ((k0, x0) :: rest))) with false by reflexivity. cbn [orb].
    apply andb_true_iff. split.
    - destruct (ignorable k); [reflexivity|]. now apply IHk.
    - destruct (ignorable v); [reflexivity|]. destruct (ignorable k); now apply IHv.
  Qed.

  Lemma sound_counter k : sound k -> sound (HCounter k).
  Proof.
    intros IHk Hok y Hw Hs. cbn [hint_ok] in Hok.
    cbn [sat] in Hs. apply andb_true_iff in Hs as [Hi Hkv]. cbn [chk]. rewrite Hi. cbn [andb].
    destruct (mapping_view y _ Hw Hi counter_origin_mapping) as (_ & c & kvs & ->).
    destruct kvs as [|[k0 x0] rest]; [reflexivity|].
    cbn [forallb fst snd] in Hkv. apply andb_true_iff in Hkv as [H0 _]. apply andb_true_iff in H0 as [Hk0 Hx0].
    destruct (wf_map_head _ _ _ _ Hw) as (Hwk & Hwx & _).
    destruct (map_head_values _ _ _ _ Hw) as (-> & -> & ->).
    replace (len0 (VMap c ((k0, x0) :: rest))) with false by reflexivity. cbn [orb].
    apply andb_true_iff. split.
    - destruct (ignorable k); [reflexivity|]. now apply IHk.
    - destruct (ignorable k); exact Hx0.
  Qed.

  Lemma sound_union hs : Forall sound hs -> sound (HUnion hs).
  Proof.
    intros IH Hok y Hw Hs. cbn [hint_ok] in Hok. apply andb_true_iff in Hok as [_ Hall].
    rewrite sat_union_unfold in Hs. rewrite chk_union_unfold.
    induction IH as [|h l Hh Hl IHl]; [discriminate|].
    apply andb_true_iff in Hall as [H1 H2]. cbn [sat_any union_any] in *.
    apply orb_true_iff in Hs as [Hs|Hs]; apply orb_true_iff; [left; now apply Hh|right; now apply IHl].
  Qed.

  Lemma sat_all2_tuple y hs : wf y = true -> Forall sound hs ->
    (fix all (l : list hint) : bool := match l with [] => true | x :: l' => hint_ok x && all l' end) hs = true ->
    forall pre l, items y = pre ++ l -> sat_all2 pb hs l = true ->
      List.length l = List.length hs /\ tuple_chk cf r pb y hs (List.length pre) = true.
  Proof.
    intros Hw IH. induction IH as [|h hs Hh Hl IHl]; intros Hall pre l Hit Hs.
    - destruct l; [split; reflexivity|discriminate].
    - destruct l as [|a l]; [discriminate|]. cbn [sat_all2] in Hs. apply andb_true_iff in Hs as [Ha Hs].
      apply andb_true_iff in Hall as [H1 H2].
      destruct (IHl H2 (pre ++ [a]) l) as (Hlen & Hchk); [now rewrite <- app_assoc|exact Hs|].
      split; [cbn; lia|]. cbn [tuple_chk]. rewrite app_length in Hchk. cbn in Hchk.
      replace (List.length pre + 1) with (S (List.length pre)) in Hchk by lia. rewrite Hchk, andb_true_r.
      destruct (ignorable h); [reflexivity|].
      assert (Hn : nth (List.length pre) (items y) VNone = a) by (rewrite Hit, app_nth2, Nat.sub_diag by lia; reflexivity).
      rewrite Hn. apply Hh; [exact H1| |exact Ha].
      apply (wf_items y a Hw). rewrite Hit. apply in_or_app. right. now left.
  Qed.

  Lemma sound_tuple hs : Forall sound hs -> sound (HTuple hs).
  Proof.
    intros IH Hok y Hw Hs. cbn [hint_ok] in Hok. rewrite sat_tuple_unfold in Hs.
    apply andb_true_iff in Hs as [Hi Hall]. rewrite chk_tuple_unfold, Hi. cbn [andb].
    destruct (items_of y) as [l|] eqn:El; [|discriminate].
    assert (Hit : items y = l) by (unfold items; now rewrite El).
    destruct (sat_all2_tuple y hs Hw IH Hok [] l Hit Hall) as (Hlen & Hchk).
    rewrite Hit, Hlen, Nat.eqb_refl. exact Hchk.
  Qed.

  Lemma sound_literal vs : sound (HLiteral vs).
  Proof.
    intros Hok y Hw Hs. cbn [hint_ok] in Hok. cbn [sat] in Hs. cbn [chk].
    apply existsb_exists in Hs as (v & Hin & Hm). unfold lit_member in Hm.
    apply andb_true_iff in Hm as [Heq Hty]. apply Nat.eqb_eq in Hty.
    rewrite forallb_forall in Hok. apply andb_true_iff. split.
    - unfold isinst. apply existsb_exists. exists (type_of v). split; [now apply in_map|].
      rewrite Hty. apply literal_class_refl. now apply Hok.
    - apply existsb_exists. now exists v.
  Qed.

  Lemma sound_type cs : sound (HType cs).
  Proof.
    intros _ y Hw Hs. cbn [sat] in Hs. cbn [chk].
    destruct y; cbn [issubcls] in Hs; try discriminate. cbn [issubcls]. rewrite Hs.
    apply andb_true_iff. split; [vm_compute; reflexivity|reflexivity].
  Qed.

  Theorem chk_sound h : sound h.
  Proof.
    induction h using hint_ind2.
    - intros _ y _ _. reflexivity.
    - intros _ y _ Hs. exact Hs.
    - intros _ y _ Hs. exact Hs.
    - now apply sound_union.
    - now apply sound_cont.
    - now apply sound_map.
    - now apply sound_counter.
    - now apply sound_tuple.
    - apply sound_literal.
    - apply sound_type.
    - intros Hok y Hw Hs. cbn [hint_ok] in Hok. apply andb_true_iff in Hok as [_ Hm].
      cbn [sat] in Hs. apply andb_true_iff in Hs as [Hs1 Hs2]. cbn [chk]. rewrite Hs2, andb_true_r.
      destruct (ignorable h); [reflexivity|]. now apply IHh.
  Qed.

  Lemma ignorable_sat h : ignorable h = true -> forall y, sat pb h y = true -> True.
  Proof. trivial. Qed.

  Theorem check_sound h y :
    hint_ok h = true -> wf y = true -> sat pb h y = true -> check cf r pb h y = true.
  Proof. intros Hok Hw Hs. unfold check. destruct (ignorable h); [reflexivity|now apply chk_sound]. Qed.
End Sound.
