(* C11 — Only beartype's own exceptions for bad hints; user exceptions pass through.
   Property theorems only; proofs live in C11/Proofs.v.  The class table (Gen/ExcTree.v) is regenerated from
   beartype.roar and from the raise statements under beartype/ on every run.  "Whatever object is supplied as a type
   hint" is proved for the root-level validation the model covers (is_hint / die_unless_hint over every object as the
   abstraction sees it); for subscripted hints with malformed children the property is decided on the implementation
   by a generator of malformed hints whose observations are judged by [phase_ok] over the same class table
   (harness/props/c11.py).  PARTIAL: see DESIGN.md 5/C11. *)
From Coq Require Import List Bool String.
From BT Require Import Gen.ExcTree C11.Exc C11.Proofs.
Import ListNotations.
Local Open Scope string_scope.

(* 1. The taxonomy: every exported class is a BeartypeException or a BeartypeWarning and not underscore-prefixed;
      BeartypeDecor...Exception / BeartypeCall...Exception classes sit under their roots; no class is both;
      every class raised by name under beartype/ is a BeartypeException; none is a TypeError in disguise. *)
Theorem C11_taxonomy :
  forallb (fun c => descends c r_exc || descends c r_warn) public_classes = true /\
  forallb (fun c => negb (is_private c)) public_classes = true /\
  forallb (fun c => implb (String.prefix "BeartypeDecor" c && suffix "Exception" c) (descends c r_decor)) beartype_classes = true /\
  forallb (fun c => implb (String.prefix "BeartypeCall" c && suffix "Exception" c) (descends c r_call)) beartype_classes = true /\
  forallb (fun c => implb (suffix "Violation" c) (descends c "BeartypeHintViolation")) beartype_classes = true /\
  forallb (fun c => implb (is_warning_cls c) (descends c r_warn)) beartype_classes = true /\
  forallb (fun c => negb (descends c r_decor && descends c r_call)) beartype_classes = true /\
  forallb (fun c => descends c r_exc) raised_beartype_classes = true /\
  forallb (fun c => negb (descends c "TypeError")) beartype_classes = true.
Proof.
  exact (conj public_rooted (conj public_not_private (conj decor_named_rooted (conj call_named_rooted (conj violations_rooted
        (conj warnings_rooted (conj phases_disjoint (conj raised_classes_rooted no_beartype_type_error)))))))).
Qed.
Print Assumptions C11_taxonomy.

(* 2. Builtin exceptions are raised by name only where Python's own protocols prescribe them, within the audited budget. *)
Theorem C11_builtin_raises_audited :
  forallb (fun p => match find (fun q => String.eqb (fst q) (fst p)) builtin_raise_budget with
                    | Some q => Nat.leb (snd p) (snd q) | None => false end) raised_builtin_classes = true.
Proof. exact builtin_raises_within_budget. Qed.
Print Assumptions C11_builtin_raises_audited.

(* 3. Validation of whatever is passed as a hint: the tester and the raiser agree, and the raiser raises only a public
      beartype exception: the class its caller named or one of two fixed decoration-time classes. *)
Theorem C11_validation_agrees : forall r ec h, is_hint r h = true <-> die_unless_hint r ec h = Ret tt.
Proof. exact validation_agrees. Qed.
Print Assumptions C11_validation_agrees.

Theorem C11_validation_raises_beartype : forall r ec h e,
  acceptable ec = true -> die_unless_hint r ec h = Raise e -> exists c, e = EBear c /\ acceptable c = true.
Proof. exact validation_acceptable. Qed.
Print Assumptions C11_validation_raises_beartype.

(* 4. callable_cached never changes what its function does, exceptions included, whatever the history of calls and
      whether or not the arguments are hashable. *)
Theorem C11_memoisation_transparent : forall (f : key -> res nat) ks, cached_run f memo0 ks = map f ks.
Proof. exact cached_transparent_from_empty. Qed.
Print Assumptions C11_memoisation_transparent.

(* 5. Entry points: decoration raises only public BeartypeDecorException subclasses; is_bearable / die_if_unbearable
      additionally only the violation or the very exception a user hook raised; a decorated call returns what the body
      does, raises the violation, or passes on the hook's exception. *)
Theorem C11_decoration : forall h, match decorate h with Ret _ => True | Raise e => ok_decor e end.
Proof. exact decorate_outcomes. Qed.
Print Assumptions C11_decoration.

Theorem C11_is_bearable : forall h hs,
  match is_bearable h hs with Ret _ => True | Raise e => ok_decor e \/ In e (hook_excs hs) end.
Proof. exact is_bearable_outcomes. Qed.
Print Assumptions C11_is_bearable.

Theorem C11_die_if_unbearable : forall h hs,
  match die_if_unbearable h hs with
  | Ret _ => True
  | Raise e => ok_decor e \/ In e (hook_excs hs) \/ (e = EBear "BeartypeDoorHintViolation" /\ is_bearable h hs = Ret false)
  end.
Proof. exact die_if_unbearable_outcomes. Qed.
Print Assumptions C11_die_if_unbearable.

(* 6. User exceptions propagate unchanged: from the wrapped body when the check passes, from the first raising hook. *)
Theorem C11_body_exception_unchanged : forall hs e, run_hooks hs = Ret true -> call_decorated hs (Raise e) = Raise e.
Proof. exact body_exception_unchanged. Qed.
Print Assumptions C11_body_exception_unchanged.

Theorem C11_hook_exception_unchanged : forall pre e post body,
  Forall (fun h => h = HAns true) pre -> call_decorated (pre ++ HRaise e :: post) body = Raise e.
Proof. exact hook_exception_unchanged. Qed.
Print Assumptions C11_hook_exception_unchanged.

Theorem C11_call_outcomes : forall hs body,
  call_decorated hs body = body \/
  (call_decorated hs body = Raise (EBear "BeartypeCallHintParamViolation") /\ run_hooks hs = Ret false) \/
  (exists e, call_decorated hs body = Raise e /\ In e (hook_excs hs)).
Proof. exact call_outcomes. Qed.
Print Assumptions C11_call_outcomes.
