(* C06 — Hook scoping follows the nearest registered package after any hook history.
   Property theorems only; proofs live in C06/Proofs.v.  The model (C06/Trie.v) is tied to
   beartype/claw/_package/* by harness/props/c06.py on every run; Gen/C06Builtin.v is
   regenerated from the repository. *)
From Coq Require Import List String Bool.
From BT Require Import C06.Trie C06.Spec C06.Proofs Gen.C06Builtin.
Import ListNotations.
Local Open Scope string_scope.

(* 1. For every history the trie registry answers every query, reports every per-call
      outcome and holds the path hook exactly as the flat specification does. *)
Theorem C06_refines : forall builtin ops queries,
  Forall op_ok ops ->
  snd (run (init builtin) ops) = snd (spec_run (spec_init builtin) ops) /\
  observe (fst (run (init builtin) ops)) queries
  = spec_observe (fst (spec_run (spec_init builtin) ops)) queries.
Proof. exact refines. Qed.
Print Assumptions C06_refines.

(* 2. What the specification's lookup means: skipped / nearest registered ancestor / beartype_all *)
Theorem C06_lookup_skipped : forall a n sk,
  In sk (s_skip a) -> is_prefix sk n = true -> spec_get_conf a n = None.
Proof. exact spec_lookup_skipped. Qed.
Print Assumptions C06_lookup_skipped.

Theorem C06_lookup_nearest : forall a p q c,
  existsb (fun sk => is_prefix sk (p ++ q)%list) (s_skip a) = false ->
  p <> [] -> lookup p (s_reg a) = Some c ->
  (forall q', q' <> [] -> is_prefix q' q = true -> lookup (p ++ q')%list (s_reg a) = None) ->
  spec_get_conf a (p ++ q)%list = Some c.
Proof. exact spec_lookup_nearest. Qed.
Print Assumptions C06_lookup_nearest.

Theorem C06_lookup_all : forall a n,
  existsb (fun sk => is_prefix sk n) (s_skip a) = false ->
  (forall q, q <> [] -> is_prefix q n = true -> lookup q (s_reg a) = None) ->
  spec_get_conf a n = s_all a.
Proof. exact spec_lookup_all. Qed.
Print Assumptions C06_lookup_all.

(* 3. Re-registration with an equal configuration changes nothing. *)
Theorem C06_idempotent : forall a o a1,
  match o with OAll _ | OPkgs _ _ => True | _ => False end ->
  spec_step a o = (a1, ROk) -> spec_step a1 o = (a1, ROk).
Proof. exact spec_idempotent. Qed.
Print Assumptions C06_idempotent.

(* 4. A conflicting registration raises and leaves the registry as it was — on the trie
      model, in any state (the mid-way raise of the whitelisting loop is unreachable after
      the read-only pre-check). *)
Theorem C06_conflict_atomic : forall s o s', step s o = (s', RConflict) -> s' = s.
Proof. exact conflict_atomic. Qed.
Print Assumptions C06_conflict_atomic.

(* 5. Leaving a beartyping() block restores the beartype_all configuration and block stack
      that preceded it, for every well-nested body; an empty block whose configuration
      skips no package restores the whole registry, path hook included. *)
Theorem C06_context_restore_root : forall a c body,
  spec_inv a -> Forall op_ok body -> balanced 0 body = true ->
  let a' := fst (spec_run a (OEnter c :: body ++ [OExit])) in
  s_all a' = s_all a /\ s_stack a' = s_stack a.
Proof. exact context_restore_root. Qed.
Print Assumptions C06_context_restore_root.

Theorem C06_reachable_inv : forall builtin ops,
  Forall op_ok ops -> spec_inv (fst (spec_run (spec_init builtin) ops)).
Proof. intros. apply spec_run_inv; [apply spec_inv_init|assumption]. Qed.
Print Assumptions C06_reachable_inv.

Theorem C06_context_restore_partial : forall a c,
  spec_inv a -> cskip c = [] -> fst (spec_run a [OEnter c; OExit]) = a.
Proof. exact context_restore_exact. Qed.
Print Assumptions C06_context_restore_partial.

(* The full-strength reading ("restores exactly the state that preceded it", for every
   configuration) is FALSE of the faithful model: packages skipped by the block's
   configuration stay skipped (known finding F2b). *)
Definition C06_context_restore_full : Prop :=
  forall builtin ops c queries, Forall op_ok ops ->
    observe (fst (run (init builtin) (ops ++ [OEnter c; OExit])%list)) queries
    = observe (fst (run (init builtin) ops)) queries.

Definition conf0 : conf := {| cid := 0; cskip := []; cwarn := None; cvia := false |}.
Definition conf_skip_a : conf := {| cid := 0; cskip := [["a"]]; cwarn := None; cvia := false |}.

Theorem C06_context_restore_full_refuted : ~ C06_context_restore_full.
Proof.
  intros H. specialize (H [] [OAll conf0] conf_skip_a [["a"; "b"]]).
  assert (Hok : Forall op_ok [OAll conf0]) by (repeat constructor).
  specialize (H Hok). vm_compute in H. discriminate.
Qed.
Print Assumptions C06_context_restore_full_refuted.

(* ---- non-vacuity: concrete reachable states meet the hypotheses above ---- *)
Definition confB : conf := {| cid := 1; cskip := [["a"; "c"]]; cwarn := Some 2; cvia := false |}.
Definition demo_ops : list op :=
  [OPkgs [["a"]; ["a"; "b"]] conf0; OEnter confB; OPkgs [["b"]] confB; OExit; OAll confB; OPkgs [["a"]] confB].

Example C06_demo_ok : Forall op_ok demo_ops.
Proof. repeat constructor; try discriminate; cbn; intros p [<-|[<-|[]]] || intros p [<-|[]]; discriminate. Qed.

Example C06_demo_runs :
  snd (run (init builtin_excluded) demo_ops) = [ROk; ROk; ROk; ROk; ROk; RConflict]
  /\ observe (fst (run (init builtin_excluded) demo_ops)) [["a"; "b"; "x"]; ["a"; "c"]; ["b"; "q"]; ["zz"]; ["beartype"; "door"]]
     = ([Some (hookable conf0); None; Some confB; Some confB; None], true).
Proof. vm_compute. split; reflexivity. Qed.

Example C06_balanced_nonvacuous :
  balanced 0 [OPkgs [["b"]] confB; OEnter conf0; OExit] = true
  /\ spec_inv (fst (spec_run (spec_init builtin_excluded) [OPkgs [["a"]] conf0])).
Proof. split; [reflexivity|]. apply C06_reachable_inv. repeat constructor; try discriminate. intros p [<-|[]]; discriminate. Qed.
