(* C12 — Validator algebra: generated code, is_valid and boolean meaning coincide.
   Property theorems only (proofs: Core/GenProofs.v). *)
From Coq Require Import List ZArith Bool String Lia.
From BT Require Import Gen.ClassTable Gen.SignSets Gen.Templates.
From BT Require Import Core.PyVal Core.Expr Core.Hint Core.Check Core.GenProofs Core.Sound Core.Detect.
Import ListNotations.
Local Open Scope list_scope.

(* 1. The inline code generated from a validator expression of any nesting depth, applied to
      a local variable holding a well-formed object, evaluates — for every state, draw and
      table of (total, boolean) user callables — to the boolean meaning of the expression:
      & is and, | is or, ~ is not, IsAttr means the attribute exists and its value satisfies
      the inner validator; it never raises. *)
Theorem C12_code_is_meaning : forall r pb v obj y s,
  wf y = true -> env_get obj (env s) = Some y -> Forall safe_op (trace s) ->
  exists s', eval r (preds_of pb) (vcode v obj) s = (Ok (VBool (vmean pb v y)), s').
Proof.
  intros r pb v obj y s Hw He Ht.
  destruct (vcode_correct r pb v obj y s Hw He Ht) as (s' & E & _). eauto.
Qed.
Print Assumptions C12_code_is_meaning.

(* 2. The temporaries an IsAttr creates never clobber a live variable: evaluating a
      validator's code changes only variables whose names strictly extend the name of the
      variable it was applied to. *)
Theorem C12_temporaries_fresh : forall r pb v obj y s s' res,
  wf y = true -> env_get obj (env s) = Some y -> Forall safe_op (trace s) ->
  eval r (preds_of pb) (vcode v obj) s = (res, s') ->
  forall x, ~ extends obj x -> env_get x (env s') = env_get x (env s).
Proof.
  intros r pb v obj y s s' res Hw He Ht Hev x Hx.
  destruct (vcode_correct r pb v obj y s Hw He Ht) as (s2 & E & F & _).
  rewrite Hev in E. inversion E; subst. now apply F.
Qed.
Print Assumptions C12_temporaries_fresh.

(* 3. Checking Annotated[T, V1, ..., Vn]: the generated check accepts exactly when the sampled
      check of T accepts and every Vi holds under its boolean meaning; with T a plain class (or
      object/Any) that is exactly "the object satisfies T and every Vi". *)
Theorem C12_annotated : forall cf r pb mh vs x,
  hint_ok (HAnnot mh vs) = true -> wf x = true ->
  verdict r (preds_of pb) (check_expr cf (HAnnot mh vs)) x
  = Ok ((if ignorable mh then true else chk cf r pb mh x) && forallb (fun v => vmean pb v x) vs).
Proof.
  intros cf r pb mh vs x Hok Hw. rewrite (check_expr_correct cf r pb _ x Hok Hw). reflexivity.
Qed.
Print Assumptions C12_annotated.

Theorem C12_annotated_exact : forall cf r pb c vs x,
  vs <> [] -> wf x = true -> c <> c_object ->
  verdict r (preds_of pb) (check_expr cf (HAnnot (HCls c) vs)) x = Ok (sat pb (HAnnot (HCls c) vs) x).
Proof.
  intros cf r pb c vs x Hne Hw Hc. rewrite C12_annotated; [|cbn; destruct vs; [congruence|reflexivity]|exact Hw].
  cbn [sat chk ignorable]. apply Nat.eqb_neq in Hc. now rewrite Hc.
Qed.
Print Assumptions C12_annotated_exact.

Theorem C12_annotated_object : forall cf r pb vs x,
  vs <> [] -> wf x = true ->
  verdict r (preds_of pb) (check_expr cf (HAnnot HAny vs)) x = Ok (sat pb (HAnnot HAny vs) x).
Proof.
  intros cf r pb vs x Hne Hw. rewrite C12_annotated; [|cbn; destruct vs; [congruence|reflexivity]|exact Hw].
  reflexivity.
Qed.
Print Assumptions C12_annotated_object.

(* 4. a failed validator rejects whatever the draw (C02) *)
Theorem C12_failed_validator_rejects : forall cf pb mh vs v x r,
  In v vs -> vmean pb v x = false -> chk cf r pb (HAnnot mh vs) x = false.
Proof. exact reject_validator. Qed.
Print Assumptions C12_failed_validator_rejects.

(* ---- non-vacuity: nested IsAttr with shared prefixes, under a container (non-identifier pith) ---- *)
Definition pb12 (f : nat) (v : pyval) : bool := match f, v with 0, VInt z => (0 <? z)%Z | _, _ => false end.
Definition v12 : vexp :=
  VAnd (VAttr "x" (VOr (VAttr "y" (VEqual (VInt 1))) (VIs 0))) (VNot (VInst [c_int])).
Definition o12 (inner : pyval) : pyval := VObj c_UserA [("x", inner)].

Example C12_demo :
  let h := HCont s_List (HAnnot HAny [v12; VAttr "x" (VNot (VEqual VNone))]) in
  hint_ok h = true /\
  map (fun x => (vmean pb12 v12 x,
                 verdict 0 (preds_of pb12) (check_expr {| is_random := true |} h) (VCont c_list [x])))
      [o12 (VInt 5); o12 (VInt 0); o12 (VObj c_UserB [("y", VInt 1)]); o12 VNone; VInt 3; VObj c_UserC []]
  = [(true, Ok true); (false, Ok false); (true, Ok true); (false, Ok false); (false, Ok false); (false, Ok false)].
Proof. vm_compute. split; reflexivity. Qed.
