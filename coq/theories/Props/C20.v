(* C20 — An inferred hint always accepts the object it was inferred from.
   Property theorems only; proofs live in C20/Proofs.v.  [infer_hint] (C20/Infer.v) models
   beartype.bite.infer_hint under its default strategy over the per-class classification
   regenerated from beartype/bite into Gen/InferTable.v; on every run the real inferred hints are
   read back into the grammar and compared with the model's, and is_bearable(obj,
   infer_hint(obj)) with the model's check (harness/props/c20.py). *)
From Coq Require Import List ZArith Bool String.
From BT Require Import Gen.ClassTable Core.PyVal Core.Hint Core.Check Core.GenProofs Core.Sound.
From BT Require Import C20.Fac Gen.InferTable C20.Infer C20.Proofs.
Import ListNotations.

(* 1. Full depth: for every object of the modelled universe (scalars, classes, instances, every
      classified container and mapping class at any nesting and mix of item types, views,
      user-defined collections, one-shot iterators) whose Counters count in integers, the
      inferred hint is satisfied by the object itself — at the root (short tuples become
      fixed-length hints) and nested alike. *)
Theorem C20_inferred_hint_accepts : forall pb x root,
  modelled x = true -> counters_hold_ints x = true -> sat pb (infer root x) x = true.
Proof. intros pb x root. exact (infer_accepts pb x root). Qed.
Print Assumptions C20_inferred_hint_accepts.

(* 2. Hence is_bearable never rejects it, whatever the draw and sampler mode. *)
Theorem C20_is_bearable : forall cf r pb x,
  modelled x = true -> counters_hold_ints x = true -> wf x = true -> hint_ok (infer_hint x) = true ->
  check cf r pb (infer_hint x) x = true.
Proof.
  intros cf r pb x Hm Hc Hw Hok. apply check_sound; auto. now apply infer_accepts.
Qed.
Print Assumptions C20_is_bearable.

(* 3. The restriction on Counters is necessary (known finding F20): Counter({'a': 1.5}) is
      inferred as Counter[str], which demands integer counts. *)
Theorem C20_counter_refuted : forall pb,
  let x := VMap c_Counter [(VStr "a", VFloat 3)] in
  modelled x = true /\ sat pb (infer_hint x) x = false.
Proof. exact counter_refuted. Qed.
Print Assumptions C20_counter_refuted.

(* 4. The regenerated classification is coherent: every class is an instance of what the hint
      factory chosen for it checks (this is the obligation the dict.items() defect broke). *)
Theorem C20_table_coherent : table_ok = true.
Proof. exact table_ok_true. Qed.
Print Assumptions C20_table_coherent.

(* Non-vacuity: a root tuple holding a heterogeneous list, a dict view and a user-defined mapping. *)
Example C20_example :
  let x := VCont c_tuple [VCont c_list [VInt 1; VStr "a"; VNone];
                          VCont c_dict_items [VCont c_tuple [VInt 1; VFloat 2]];
                          VMap c_UserMap [(VStr "k", VCont c_set [])]] in
  modelled x = true /\ counters_hold_ints x = true /\ wf x = true /\ hint_ok (infer_hint x) = true.
Proof. vm_compute. repeat split. Qed.
