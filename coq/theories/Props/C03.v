(* C03 — All entry points agree; every rejection is the configured, explained violation.
   Property theorems only; proofs live in Core/GenProofs.v and Core/CauseProofs.v.
   Every entry point (is_bearable, die_if_unbearable, TypeHint.*, parameter and return checks)
   evaluates the one expression [check_expr cf h] generated for (hint, configuration): compared
   with beartype on all six entry points on every run.  [find_cause] models the hand-written
   explanation path of beartype/_check/error (compared with the real error path, invoked
   directly on every generated case, on every run). *)
From Coq Require Import List ZArith Bool String.
From BT Require Import Core.PyVal Core.Expr Core.Hint Core.Check Core.GenProofs Core.Cause Core.CauseProofs.
Import ListNotations.

(* 1. One verdict: the generated expression evaluates, for every hint, well-formed object, draw
      and sampler mode, to [check] — a function of (configuration, hint, object, draw) only, not
      of the entry point — without raising. *)
Theorem C03_one_verdict : forall cf r pb h x,
  hint_ok h = true -> wf x = true ->
  verdict r (preds_of pb) (check_expr cf h) x = Ok (check cf r pb h x).
Proof. exact check_expr_correct. Qed.
Print Assumptions C03_one_verdict.

(* 2. No desynchronisation: whenever that verdict is a rejection, the explanation path re-walking
      the hint with the same draw finds a cause — under strategy O1 and under On alike — so the
      rejection surfaces as a violation, never as the internal desynchronisation error. *)
Theorem C03_rejection_is_explained : forall cf all_items r pb h y,
  hint_ok h = true -> wf y = true -> check cf r pb h y = false ->
  explain cf all_items r pb h y = SViolation.
Proof. exact rejection_is_explained. Qed.
Print Assumptions C03_rejection_is_explained.

(* 3. What the explanation path reports is a genuine violation of the hint's published meaning. *)
Theorem C03_explanation_is_genuine : forall cf all_items r pb h y,
  hint_ok h = true -> wf y = true -> find_cause cf all_items r pb h y = true -> sat pb h y = false.
Proof. exact explained_violation_is_real. Qed.
Print Assumptions C03_explanation_is_genuine.

(* Non-vacuity: a list of ints holding a str at the sampled position is rejected and explained,
   and an accepted object has no cause. *)
Example C03_example :
  let h := HCont Gen.SignSets.s_List (HCls Gen.ClassTable.c_int) in
  let bad := VCont Gen.ClassTable.c_list [VInt 1; VStr "a"%string] in
  hint_ok h = true /\ wf bad = true
  /\ check {| is_random := true |} 1 (fun _ _ => false) h bad = false
  /\ find_cause {| is_random := true |} false 1 (fun _ _ => false) h bad = true
  /\ find_cause {| is_random := true |} false 0 (fun _ _ => false) h bad = false
  /\ find_cause {| is_random := true |} true 0 (fun _ _ => false) h bad = true.
Proof. vm_compute. repeat split. Qed.
