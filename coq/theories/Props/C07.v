(* C07 — String and postponed annotations are checked exactly like evaluated ones.
   Property theorems only; proofs live in C07/Proofs.v.  The model (C07/Fwd.v) is the name-resolution machine behind string
   annotations: the forward scope at decoration, proxies, their resolution order and memo at check time.  PARTIAL: parsing the
   annotation text (eval) and frame introspection are CPython's; what a resolved class then means inside a larger hint is the
   shared core's matter (C01-C03).  On every run generated programs (9 hint shapes x module / closure depth 1-3 / method of
   classes nested 1-3 deep, decorated per method or per class x quoted, partly quoted, postponed and evaluated spellings x
   defined before decoration, after it, after the first call, never) are executed and their verdicts compared with the model
   and with the evaluated hint (harness/props/c07.py). *)
From Coq Require Import List Bool Arith.
From BT Require Import C07.Fwd C07.Proofs.
Import ListNotations.

(* 1. A name Python itself can see at the point of definition (class body, enclosing function, module, builtins) means in the
      string exactly what it means evaluated, for every later history of definitions, redefinitions and calls. *)
Theorem C07_string_eq_evaluated : forall w builtins globals plocals s n c st es,
  lookup n (s_class_names s) = None ->
  py_lookup builtins globals plocals s n = Some c ->
  run w (decorate builtins globals plocals s n) n st es = map (evaluated w c) (calls es).
Proof. exact string_eq_evaluated. Qed.
Print Assumptions C07_string_eq_evaluated.

(* 2. The class being defined can be named by its methods (class decoration). *)
Theorem C07_self_reference : forall w builtins globals plocals s n c st es,
  lookup n (s_class_attrs s) = None -> lookup n (s_class_names s) = Some c ->
  run w (decorate builtins globals plocals s n) n st es = map (evaluated w c) (calls es).
Proof. exact self_reference_resolves. Qed.
Print Assumptions C07_self_reference.

(* 3. A name nobody has defined raises the forward-reference exception at the check that needs it and leaves no trace. *)
Theorem C07_unresolved_raises : forall w n st oc,
  memo st = None -> lookup n (globals st) = None ->
  step w (Proxy false) n st (Call oc) = (st, Some FwdRefError).
Proof. exact unresolved_raises_and_forgets. Qed.
Print Assumptions C07_unresolved_raises.

Theorem C07_unresolved_raises_nested : forall w n st oc,
  memo st = None -> lookup n (globals st) = None -> parent_alive st = true -> lookup n (parent_locals st) = None ->
  step w (Proxy true) n st (Call oc) = (st, Some FwdRefError).
Proof. exact nested_unresolved_while_parent_runs. Qed.
Print Assumptions C07_unresolved_raises_nested.

(* 4. Once defined (module global, or local of the still running enclosing function) the next check is the evaluated one,
      without re-decoration; and it stays that, like an evaluated annotation. *)
Theorem C07_deferred_global : forall w hp n st c oc,
  memo st = None -> lookup n (globals st) = Some c ->
  snd (step w (Proxy hp) n st (Call oc)) = Some (evaluated w c oc) /\
  memo (fst (step w (Proxy hp) n st (Call oc))) = Some (RReal c).
Proof. exact deferred_global_usable. Qed.
Print Assumptions C07_deferred_global.

Theorem C07_deferred_local : forall w n st c oc,
  memo st = None -> lookup n (globals st) = None -> parent_alive st = true -> lookup n (parent_locals st) = Some c ->
  snd (step w (Proxy true) n st (Call oc)) = Some (evaluated w c oc) /\
  memo (fst (step w (Proxy true) n st (Call oc))) = Some (RReal c).
Proof. exact deferred_local_usable. Qed.
Print Assumptions C07_deferred_local.

Theorem C07_resolved_is_sticky : forall w hp n c es st,
  memo st = Some (RReal c) -> run w (Proxy hp) n st es = map (evaluated w c) (calls es).
Proof. exact resolved_is_sticky. Qed.
Print Assumptions C07_resolved_is_sticky.

(* 5. The whole life of a module-level deferred name, for every history. *)
Theorem C07_module_life : forall w n es st,
  (memo st = None \/ exists c, memo st = Some (RReal c)) ->
  run w (Proxy false) n st es = spec_module w n (globals st) (memo_cls (memo st)) es.
Proof. exact module_proxy_spec. Qed.
Print Assumptions C07_module_life.

(* 6. Where the code departs from the property (machine-checked witnesses, replayed on the implementation every run):
      nested callables whose enclosing frame is gone get a name-matching stand-in instead of an exception (F38), the stand-in
      is remembered after the name is defined (F38), and a class defined late in a function that has returned is matched by
      name only (F39). *)
Theorem C07_nested_unresolved_refuted :
  run w0 (Proxy true) 7 gone [Call 3] = [Fail] /\ run w0 (Proxy false) 7 gone [Call 3] = [FwdRefError].
Proof. exact nested_unresolved_no_exception_refuted. Qed.
Print Assumptions C07_nested_unresolved_refuted.

Theorem C07_fake_sticky_refuted :
  run w0 (Proxy true) 7 gone [Call 3; DefGlobal 7 1; Call 1; Call 4] = [Fail; Pass; Pass] /\ evaluated w0 1 4 = Fail.
Proof. exact fake_is_sticky_refuted. Qed.
Print Assumptions C07_fake_sticky_refuted.

Theorem C07_late_local_refuted :
  run w0 (Proxy true) 7 {| globals := []; parent_alive := true; parent_locals := []; memo := None |}
      [DefLocal 7 1; ParentReturns; Call 1; Call 2; Call 3; Call 4] = [Pass; Pass; Fail; Pass] /\
  map (evaluated w0 1) [1; 2; 3; 4] = [Pass; Pass; Fail; Fail].
Proof. exact late_local_after_return_refuted. Qed.
Print Assumptions C07_late_local_refuted.
