(* C15 — The public API is safe to use from many threads under every interleaving.
   Property theorems only; proofs live in C15/Proofs.v.  [step_locked] (C15/Conc.v) is the
   get-or-create-under-a-lock discipline of BeartypeConf.__new__, of the TypeHint wrapper cache and of
   hook registration, at the granularity of its five steps, for any number of threads and any
   schedule; [step_unlocked] is @callable_cached.  On every run real threads are driven through
   the public API under a seeded line-level scheduler (sys.settrace) and their outcomes are checked
   against these statements (harness/props/c15.py). *)
From Coq Require Import List Bool Arith.
From BT Require Import C15.Conc C15.Proofs.
Import ListNotations.

(* 1. Under every interleaving of any number of threads, every two completed calls for one key are
      handed one and the same object (equal configurations / equal hashable hints yield one shared
      object), which is the object the table records. *)
Theorem C15_locked_agreement : forall keys sched t1 t2 th1 th2 o1 o2,
  let s := run step_locked (init 0 keys) sched in
  nth_error (threads s) t1 = Some th1 -> nth_error (threads s) t2 = Some th2 ->
  pc th1 = 5 -> pc th2 = 5 -> tkey th1 = tkey th2 ->
  tresult th1 = Some o1 -> tresult th2 = Some o2 -> o1 = o2.
Proof. exact locked_agreement. Qed.
Print Assumptions C15_locked_agreement.

(* 2. No deadlock: in every reachable state with an unfinished call some thread can take a step. *)
Theorem C15_locked_progress : forall keys sched,
  let s := run step_locked (init 0 keys) sched in
  (exists t th, nth_error (threads s) t = Some th /\ pc th < 5) -> exists t, moves s t.
Proof. exact locked_progress. Qed.
Print Assumptions C15_locked_progress.

(* 3. The lock is what makes it so: the same steps without it hand two callers of one key two
      different objects under one schedule (this is @callable_cached: harmless only for callables
      whose results are interchangeable). *)
Theorem C15_unlocked_refuted :
  let s := run step_unlocked (init 1 [7; 7]) [0; 1; 0; 0; 1; 1] in
  map tresult (threads s) = [Some 0; Some 1].
Proof. exact unlocked_refuted. Qed.
Print Assumptions C15_unlocked_refuted.

(* Non-vacuity: three threads, two keys, an interleaved schedule run to completion. *)
Example C15_example :
  let s := run step_locked (init 0 [3; 3; 4]) [0; 1; 0; 2; 0; 0; 0; 1; 1; 1; 1; 2; 1; 2; 2; 2; 2; 2] in
  map tresult (threads s) = [Some 0; Some 0; Some 1] /\ map pc (threads s) = [5; 5; 5].
Proof. split; reflexivity. Qed.
