(* C18 — Hint-rewriting options behave exactly like rewriting the hints by hand.
   Property theorems only; proofs live in Core/OverrideProofs.v.  [effective] models the lazily
   applied, recursion-guarded override reduction of beartype/_check/convert/_reduce (compared
   with beartype under BeartypeConf(hint_overrides=..., is_pep484_tower=...) on every run, on
   verdicts, protocol traces and the generated code itself); [subst1] is one simultaneous
   rewriting pass over the hint, at every nesting depth. *)
From Coq Require Import List ZArith Bool.
From BT Require Import Gen.ClassTable Gen.SignSets Core.PyVal Core.Expr Core.Hint Core.Check Core.GenProofs Core.Override Core.OverrideProofs.
Import ListNotations.

(* 1. hint_overrides: whenever the replacements are stable (rewriting inside a replacement,
      with its own key protected, changes nothing — e.g. {A: A | B}, {A: B} with B mentioning no
      key), every check under the configuration is the check of the hand-rewritten hint under the
      same sampler mode and draw. *)
Theorem C18_overrides : forall ov cf r pb h y,
  stable ov -> chk_ov ov cf r pb h y = check cf r pb (subst1 ov h) y.
Proof. exact check_under_overrides. Qed.
Print Assumptions C18_overrides.

(* ... the expression beartype generates under the configuration evaluates to exactly that
   check, and an object satisfying the hand-rewritten hint at full depth is never rejected. *)
Theorem C18_generated_code : forall ov cf r pb h y,
  stable ov -> hint_ok (subst1 ov h) = true -> wf y = true ->
  verdict r (preds_of pb) (check_expr cf (effective ov h)) y = Ok (check cf r pb (subst1 ov h) y).
Proof. exact generated_code_under_overrides. Qed.
Print Assumptions C18_generated_code.

Theorem C18_no_false_alarm : forall ov cf r pb h y,
  stable ov -> hint_ok (subst1 ov h) = true -> wf y = true ->
  sat pb (subst1 ov h) y = true -> chk_ov ov cf r pb h y = true.
Proof. exact no_false_alarm_under_overrides. Qed.
Print Assumptions C18_no_false_alarm.

(* 2. is_pep484_tower=True: float means float | int and complex means complex | float | int at
      every nesting depth. *)
Theorem C18_tower : forall cf r pb h y,
  chk_ov tower_ov cf r pb h y = check cf r pb (subst1 tower_ov h) y.
Proof. exact check_under_tower. Qed.
Print Assumptions C18_tower.

Theorem C18_tower_float : forall pb x,
  sat pb (subst1 tower_ov (HCls c_float)) x = isinst x [c_float; c_int].
Proof. exact tower_float. Qed.
Print Assumptions C18_tower_float.

Theorem C18_tower_complex : forall pb x,
  sat pb (subst1 tower_ov (HCls c_complex)) x = isinst x [c_complex; c_float; c_int].
Proof. exact tower_complex. Qed.
Print Assumptions C18_tower_complex.

(* 3. Replacements that mention another key are rewritten again by the code (chained), which
      one simultaneous pass does not do: the stability hypothesis of (1) is necessary. *)
Theorem C18_chained_differs :
  effective chained_ov (HCls c_float) = HUnion [HCls c_float; HCls c_int; HCls c_str]
  /\ subst1 chained_ov (HCls c_float) = HUnion [HCls c_float; HCls c_int].
Proof. exact chained_differs. Qed.
Print Assumptions C18_chained_differs.

(* Non-vacuity: the tower rewrites below a list, a mapping and a fixed tuple. *)
Example C18_example :
  subst1 tower_ov (HTuple [HCont s_List (HCls c_float); HMap m_Dict (HCls c_str) (HCls c_complex)])
  = HTuple [HCont s_List (HUnion [HCls c_float; HCls c_int]);
            HMap m_Dict (HCls c_str) (HUnion [HCls c_complex; HCls c_float; HCls c_int])]
  /\ effective tower_ov (HCont s_List (HCls c_float)) = HCont s_List (HUnion [HCls c_float; HCls c_int])
  /\ stable [(HCls c_int, HCont s_List (HCls c_int))].
Proof.
  repeat split. intros k b [H|[]]. inversion H; subst. reflexivity.
Qed.
