(* C17 — Configurations are memoised, comparable and validated the same way every time.
   Property theorems only; proofs in C17/Proofs.v; model C17/Conf.v tied to
   beartype/_conf/confmain.py by harness/props/c17.py on every run. *)
From Coq Require Import List ZArith Bool String.
From BT Require Import Gen.C17Facts C17.Conf C17.Proofs Gen.C17Init.
Import ListNotations.
Local Open Scope list_scope.

(* The memo beartype holds right after `import beartype` is reachable from the empty memo,
   so every invariant below applies to every memo a running process can hold. *)
Theorem C17_init_reachable : snd (run None [] init_calls) = init_memo.
Proof. vm_compute. reflexivity. Qed.
Print Assumptions C17_init_reachable.

Theorem C17_reachable_ok : forall env ops done os m,
  run_ops env init_memo done ops = (os, m) -> memo_ok m.
Proof.
  intros env ops done os m H. eapply run_ops_inv; [|exact H].
  rewrite <- C17_init_reachable. destruct (run None [] init_calls) as [o m0] eqn:E.
  eapply run_inv; [apply memo_ok_nil|exact E].
Qed.
Print Assumptions C17_reachable_ok.

(* 1. equal keyword arguments (Python ==, any order) give the same object after any history *)
Theorem C17_same_object : forall env m a b i m1,
  new env m a = (OConf i, m1) -> key_eqb (norm env a) (norm env b) = true ->
  new env m1 b = (OConf i, m1).
Proof. exact same_object. Qed.
Print Assumptions C17_same_object.

(* 2. differing arguments give different (hence, by 3, unequal) objects *)
Theorem C17_distinct : forall env m a b i j m1 m2,
  new env m a = (OConf i, m1) -> new env m1 b = (OConf j, m2) ->
  key_eqb (norm env a) (norm env b) = false -> i <> j.
Proof. exact distinct_objects. Qed.
Print Assumptions C17_distinct.

(* 3. == is identity on configurations, so hash agrees with equality *)
Theorem C17_eq_hash : forall m i j, memo_ok m -> conf_eq m i j = true -> i = j.
Proof. exact eq_is_identity. Qed.
Print Assumptions C17_eq_hash.

(* 4. every option of a valid call reads back as passed (after the documented defaulting,
      environment and numeric-tower normalisation computed by mk_kwargs/norm) *)
Theorem C17_readback : forall env m a i m1 kw,
  memo_ok m -> new env m a = (OConf i, m1) -> mk_kwargs (norm env a) = Some kw ->
  exists c, nth_error m1 i = Some c /\ c_key c = norm env a /\ c_kwargs c = kw.
Proof. exact readback_valid. Qed.
Print Assumptions C17_readback.

(* 5. uniform validation, as far as it holds: an invalid value with no valid look-alike is
      rejected with BeartypeConfParamException whatever was created before *)
Theorem C17_uniform_validation_partial : forall env m a,
  memo_ok m -> forallb hashable (norm env a) = true ->
  (forall k, key_eqb k (norm env a) = true -> mk_kwargs k = None) ->
  new env m a = (ORaiseParam, m).
Proof. exact invalid_rejected. Qed.
Print Assumptions C17_uniform_validation_partial.

(* the full-strength clause is FALSE of the faithful model (known findings F6, F7) *)
Definition C17_uniform_validation_full : Prop :=
  forall env m a, memo_ok m ->
    (mk_kwargs (norm env a) = None \/ forallb hashable (norm env a) = false) ->
    fst (new env m a) = ORaiseParam.

Definition with_opt (i : nat) (v : val) : args := set defaults i v.

Theorem C17_uniform_validation_refuted_lookalike : ~ C17_uniform_validation_full.
Proof.
  intros H.
  pose (m := snd (run None [] [with_opt i_debug (VBool true)])).
  assert (Hm : memo_ok m).
  { unfold m. destruct (run None [] [with_opt i_debug (VBool true)]) as [o m0] eqn:E.
    eapply run_inv; [apply memo_ok_nil|exact E]. }
  specialize (H None m (with_opt i_debug (VInt 1)) Hm). vm_compute in H.
  assert (X : OConf 0 = ORaiseParam) by (apply H; left; reflexivity). discriminate.
Qed.
Print Assumptions C17_uniform_validation_refuted_lookalike.

Theorem C17_uniform_validation_refuted_unhashable : ~ C17_uniform_validation_full.
Proof.
  intros H. specialize (H None [] (with_opt i_overrides VDictRaw) memo_ok_nil). vm_compute in H.
  assert (X : ORaiseTypeError = ORaiseParam) by (apply H; right; reflexivity). discriminate.
Qed.
Print Assumptions C17_uniform_validation_refuted_unhashable.

(* 6. BeartypeConf( **conf.kwargs ) is conf — when the three per-kind violation types were
      passed explicitly and is_pep484_tower is off (nothing to materialise) ... *)
Theorem C17_roundtrip_partial : forall env m i c,
  memo_ok m -> nth_error m i = Some c ->
  isnone (get (c_key c) i_vdoor) = false -> isnone (get (c_key c) i_vparam) = false ->
  isnone (get (c_key c) i_vreturn) = false -> get (c_key c) i_tower = VBool false ->
  adjust_color env (get (c_key c) i_color) = get (c_key c) i_color ->
  new env m (kwargs_args c) = (OConf i, m).
Proof. exact roundtrip_partial. Qed.
Print Assumptions C17_roundtrip_partial.

(* ... and FALSE in general (known finding F8): already for the default configuration *)
Definition C17_roundtrip_full : Prop :=
  forall env m a i m1 c, memo_ok m -> new env m a = (OConf i, m1) -> nth_error m1 i = Some c ->
    new env m1 (kwargs_args c) = (OConf i, m1).

Theorem C17_roundtrip_full_refuted : ~ C17_roundtrip_full.
Proof.
  intros H.
  pose (m1 := snd (new None [] defaults)).
  assert (E1 : new None [] defaults = (OConf 0, m1)) by (vm_compute; reflexivity).
  destruct (nth_error m1 0) as [c|] eqn:Ec; [|vm_compute in Ec; discriminate].
  specialize (H None [] defaults 0%nat m1 c memo_ok_nil E1 Ec).
  vm_compute in Ec. inversion Ec; subst c. vm_compute in H. discriminate.
Qed.
Print Assumptions C17_roundtrip_full_refuted.

(* ---- non-vacuity ---- *)
Definition explicit_conf : args :=
  set (set (set (set defaults i_vdoor (VCls 3)) i_vparam (VCls 4)) i_vreturn (VCls 10)) i_debug (VBool true).

Example C17_roundtrip_nonvacuous :
  let m := snd (run None init_memo [explicit_conf]) in
  let i := List.length init_memo in
  match nth_error m i with
  | Some c =>
      fst (run None init_memo [explicit_conf]) = [OConf i] /\
      isnone (get (c_key c) i_vdoor) = false /\ get (c_key c) i_tower = VBool false /\
      new None m (kwargs_args c) = (OConf i, m)
  | None => False
  end.
Proof. vm_compute. repeat split. Qed.

Example C17_same_object_nonvacuous :
  let a := with_opt i_verbosity (VEnum 2 3) in
  let b := with_opt i_verbosity (VInt 3) in     (* IntEnum look-alike: same object *)
  key_eqb (norm None a) (norm None b) = true /\
  let i := List.length init_memo in
  fst (run None init_memo [a; b; a]) = [OConf i; OConf i; OConf i].
Proof. vm_compute. split; reflexivity. Qed.

Example C17_invalid_nonvacuous :
  fst (run None init_memo [with_opt i_strategy (VStr "O1"); with_opt i_skip (VNames ["!bad"])])
  = [ORaiseParam; ORaiseParam].
Proof. vm_compute. reflexivity. Qed.
