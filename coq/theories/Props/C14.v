(* C14 — Answers do not depend on what was asked before (memoisation is invisible).
   Property theorems only; proofs live in C14/Proofs.v.  [erun] / [irun] (C14/Memo.v) model the two
   memoising decorators of beartype/_util/cache/utilcachecall.py over arbitrary operation
   histories (calls with equal / similar / unhashable / failing arguments, garbage collection
   and reuse of identifiers, cache clears); they are compared with the real decorators on
   generated histories on every run, and the public API is compared with itself in a pristine
   interpreter after generated histories (harness/props/c14.py). *)
From Coq Require Import List ZArith Bool String.
From BT Require Import Gen.ClassTable Core.PyVal C14.Memo C14.Proofs.
Import ListNotations.

(* 1. @callable_cached is invisible after any history (equal, similar, unhashable and failing
      arguments, clears) for every callable that cannot tell apart arguments identified by
      Python's == and hash: every answer — value or exception — is the uncached one. *)
Theorem C14_callable_cached_invisible : forall f ops,
  congruent f -> map fst (erun f [] ops) = eref f ops.
Proof. intros f ops Hc. apply callable_cached_invisible; [exact Hc|]. intros k o []. Qed.
Print Assumptions C14_callable_cached_invisible.

(* ... and that hypothesis is necessary. *)
Theorem C14_callable_cached_refuted_when_not_congruent :
  let f := fun v => Ret (VCls (type_of v)) in
  let ops := [ECall (VInt 1); ECall (VBool true)] in
  map fst (erun f [] ops) <> eref f ops.
Proof. exact callable_cached_refuted_when_not_congruent. Qed.
Print Assumptions C14_callable_cached_refuted_when_not_congruent.

(* 2. @method_cached_arg_by_id is invisible after any history of allocations, garbage collections,
      calls and clears in which no object is collected after having been memoised on (the wrappers
      of hashable hints are pinned by the strong wrapper cache). *)
Theorem C14_cached_by_id_invisible_when_pinned : forall f ops,
  wf_ops [] ops = true -> pinned [] ops = true -> irun f [] [] ops = iref f [] ops.
Proof. intros f ops Hw Hp. apply (cached_by_id_invisible_when_pinned f ops [] [] []); auto. intros i o H. discriminate. Qed.
Print Assumptions C14_cached_by_id_invisible_when_pinned.

(* ... and refuted without pinning (known finding F14: wrappers of unhashable hints are not pinned). *)
Theorem C14_cached_by_id_refuted_by_id_reuse :
  let f := fun v => Ret v in
  let ops := [IAlloc 1 (VInt 1); ICall 1; IFree 1; IAlloc 1 (VInt 2); ICall 1] in
  wf_ops [] ops = true /\ irun f [] [] ops <> iref f [] ops.
Proof. exact cached_by_id_refuted_by_id_reuse. Qed.
Print Assumptions C14_cached_by_id_refuted_by_id_reuse.

(* Non-vacuity: a congruent callable with failing arguments, and a pinned history with reuse of the
   identifier of an object that was never memoised on. *)
Example C14_example :
  (forall f, f = (fun v => if py_eq v (VInt 0) then Raise 7 else Ret (VBool (py_eq v (VInt 1)))) ->
     map fst (erun f [] [ECall (VBool false); ECall (VInt 0); EClear; ECall (VFloat 2); ECall (VBool true)])
     = [Raise 7; Raise 7; Ret (VBool true); Ret (VBool true)])
  /\ (let ops := [IAlloc 1 (VInt 1); IFree 1; IAlloc 1 (VInt 2); ICall 1; IAlloc 2 (VInt 3); ICall 2; ICall 1] in
      wf_ops [] ops = true /\ pinned [] ops = true).
Proof. split; [intros f ->; vm_compute; reflexivity|vm_compute; split; reflexivity]. Qed.

(* 5. The table that deduplicates PEP 585 / PEP 604 hints by their representation (F51, repaired): whatever was asked before,
      the hint used means what the hint asked about means; equal hints are still shared; without the equality test a hint over
      a second class of the same name is answered with the first class. *)
From BT Require Import C14.Dedup C14.DedupProofs.
Theorem C14_dedup_invisible : forall hs t, map h_meaning (run dedup_checked t hs) = map h_meaning hs.
Proof. exact dedup_invisible. Qed.
Print Assumptions C14_dedup_invisible.

Theorem C14_dedup_shares : forall t a b,
  tget (h_repr a) t = None -> h_repr b = h_repr a -> heq a b = true -> run dedup_checked t [a; b] = [a; a].
Proof. exact dedup_shares. Qed.
Print Assumptions C14_dedup_shares.

Theorem C14_dedup_unchecked_refuted :
  let k1 := {| h_id := 1; h_repr := 7; h_meaning := 100 |} in
  let k2 := {| h_id := 2; h_repr := 7; h_meaning := 200 |} in
  map h_meaning (run dedup_unchecked [] [k1; k2]) = [100; 100] /\
  map h_meaning (run dedup_checked [] [k1; k2]) = [100; 200].
Proof. exact unchecked_refuted. Qed.
Print Assumptions C14_dedup_unchecked_refuted.
