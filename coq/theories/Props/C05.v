(* C05 — The import hook preserves program meaning and equals writing the checks by hand.
   Property theorems only; proofs live in C05/Proofs.v.  [transform] (C05/Ast.v) models the AST
   transformation of beartype.claw over a statement grammar with arbitrary nesting (functions, async
   functions, classes, compound statements with several suites, annotated assignments to names,
   attributes and subscripts, existing decorator stacks, docstrings and __future__ imports); on
   every run generated modules go through the real BeartypeNodeTransformer, the result is read
   back into the grammar and compared with the model's (harness/props/c05.py). *)
From Coq Require Import List Bool Arith.
From BT Require Import C05.Ast C05.Proofs.
Import ListNotations.

(* 1. The transformed module differs from the original only by what the hook adds: removing the
      added import, the added check calls and the added decorators gives the module back. *)
Theorem C05_only_adds : forall cf m, forallb original m = true -> flat_map erase (transform cf m) = m.
Proof. exact erase_transform. Qed.
Print Assumptions C05_only_adds.

(* 2. The one import is placed after the docstring and the __future__ imports (a module holding
      nothing else gets none). *)
Theorem C05_import_after_prologue : forall cf m pro s rest,
  split_prologue m = (pro, s :: rest) ->
  transform cf m = pro ++ SImportStar (line_of s) :: flat_map (visit cf ScModule) (s :: rest)
  /\ forallb is_prologue pro = true /\ is_prologue s = false.
Proof. exact import_after_prologue. Qed.
Print Assumptions C05_import_after_prologue.

Theorem C05_no_import_for_prologue_only : forall cf m, split_prologue m = (m, []) -> transform cf m = m.
Proof. exact no_import_for_prologue_only. Qed.
Print Assumptions C05_no_import_for_prologue_only.

(* 3. No line number is introduced: every node of the transformed module, added ones included,
      carries a line number of the original module. *)
Theorem C05_keeps_lines : forall cf m, incl (flat_map lines (transform cf m)) (flat_map lines m).
Proof. exact transform_keeps_lines. Qed.
Print Assumptions C05_keeps_lines.

(* 4. Evaluation counts: with PEP 526 checks off every original expression is evaluated exactly as
      often as before; with them on, the annotation (where Python evaluates it) and the object of
      an attribute target are evaluated a second time (known finding F29). *)
Theorem C05_evaluates_once_without_pep526 : forall cf s sc,
  pep526 cf = false -> flat_map (evals sc) (visit cf sc s) = evals sc s.
Proof. intros cf s sc H. now apply evals_visit_off. Qed.
Print Assumptions C05_evaluates_once_without_pep526.

Theorem C05_evaluates_twice_refuted :
  let cf := {| pep526 := true; place_func := PLast; place_type := PLast; nondefault := false |} in
  let m := [SAnn (TAttr 1 2) 3 (Some 4) 10] in
  flat_map (evals ScModule) m = [1; 3; 4]
  /\ flat_map (evals ScModule) (transform cf m) = [1; 3; 4; 1; 3].
Proof. exact evals_twice_refuted. Qed.
Print Assumptions C05_evaluates_twice_refuted.

Example C05_example :
  let cf := {| pep526 := true; place_func := PLast; place_type := PFirst; nondefault := true |} in
  transform cf [SDoc 1; SFuture 2;
                SClass 7 [DUser 0] [SFunc false 1 [] true [SAnn (TName 1) 2 (Some 3) 6] 5; SAnn (TName 4) 2 (Some 3) 7] 4;
                SFunc true 2 [DUser 1] true [] 9; SFunc false 3 [] false [] 11]
  = [SDoc 1; SFuture 2; SImportStar 4;
     SClass 7 [DUser 0; DBear true 4]
       [SFunc false 1 [] true [SAnn (TName 1) 2 (Some 3) 6; SCheck (TName 1) 2 true 6] 5; SAnn (TName 4) 2 (Some 3) 7] 4;
     SFunc true 2 [DBear true 9; DUser 1] true [] 9; SFunc false 3 [] false [] 11].
Proof. reflexivity. Qed.
