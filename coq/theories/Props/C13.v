(* C13 — Decorating a class equals decorating its methods; no-op cases are identities.
   Property theorems only; proofs live in C13/Proofs.v.  [dec_cls] / [dec_member] / [dec_func]
   (C13/Decor.v) model what @beartype does to a class dictionary; on every run generated classes
   (plain, class, static and property members, pre-decorated and @no_type_check members, nested and
   foreign classes, inheritance) are decorated for real, as a whole and member by member, and
   compared with the model and with each other call for call (harness/props/c13.py). *)
From Coq Require Import List Bool String.
From BT Require Import C13.Decor C13.Proofs.
Import ListNotations.

(* 1. Decorating a not yet decorated class is decorating each attribute the class itself defines
      (recursively for the classes nested in it; attributes referring to foreign classes and data
      are left alone; inherited attributes are not in the dictionary at all). *)
Theorem C13_class_is_memberwise : forall cf ms,
  noop cf = false ->
  dec_cls cf (Cls false ms) = Cls true (map (fun nm => (fst nm, dec_member cf (snd nm))) ms).
Proof. exact class_is_memberwise. Qed.
Print Assumptions C13_class_is_memberwise.

(* 2. Idempotence: an already decorated class, member or wrapper is returned unchanged. *)
Theorem C13_idempotent : forall cf,
  (forall m, dec_member cf (dec_member cf m) = dec_member cf m) /\
  (forall c, dec_cls cf (dec_cls cf c) = dec_cls cf c).
Proof. exact dec_idempotent. Qed.
Print Assumptions C13_idempotent.

(* 3. Descriptor kinds and attribute names are kept; a wrapper exposes the original. *)
Theorem C13_keeps_kind : forall cf m, kind_of (dec_member cf m) = kind_of m.
Proof. exact dec_keeps_kind. Qed.
Print Assumptions C13_keeps_kind.

Theorem C13_keeps_names : forall cf c, map fst (members_of (dec_cls cf c)) = map fst (members_of c).
Proof. exact dec_keeps_names. Qed.
Print Assumptions C13_keeps_names.

Theorem C13_wrapper_exposes_original : forall cf f g,
  dec_func cf f = Wrapper g -> f = Wrapper g \/ (f = g /\ wrapped_of (dec_func cf f) = Some f).
Proof. exact wrapper_exposes_original. Qed.
Print Assumptions C13_wrapper_exposes_original.

(* 4. Identities: unannotated and @no_type_check callables, the O0 strategy, python -O. *)
Theorem C13_identity_cases : forall cf id ann ntc,
  noop cf = true \/ ntc = true \/ ann = false -> dec_func cf (Plain id ann ntc) = Plain id ann ntc.
Proof. exact identity_cases. Qed.
Print Assumptions C13_identity_cases.

Theorem C13_noop_class_identity : forall cf c, noop cf = true -> dec_cls cf c = c.
Proof. exact noop_class_identity. Qed.
Print Assumptions C13_noop_class_identity.

Example C13_example :
  let cf := {| strategy_O0 := false; python_O := false |} in
  let c := Cls false [("m", MFunc (Plain 1 true false)); ("u", MFunc (Plain 2 false false));
                      ("c", MClassMethod (Plain 3 true false)); ("p", MProperty (Some (Plain 4 true false)) None None);
                      ("N", MNested (Cls false [("n", MStaticMethod (Plain 5 true false))])); ("F", MForeign 9)]%string in
  dec_cls cf c
  = Cls true [("m", MFunc (Wrapper (Plain 1 true false))); ("u", MFunc (Plain 2 false false));
              ("c", MClassMethod (Wrapper (Plain 3 true false)));
              ("p", MProperty (Some (Wrapper (Plain 4 true false))) None None);
              ("N", MNested (Cls true [("n", MStaticMethod (Wrapper (Plain 5 true false)))])); ("F", MForeign 9)]%string.
Proof. reflexivity. Qed.
