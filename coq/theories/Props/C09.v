(* C09 — Call-time checking cost does not grow with container size.
   Property theorems only (proofs: Core/Cost.v, Core/GenProofs.v). *)
From Coq Require Import List ZArith Bool String Lia.
From BT Require Import Gen.ClassTable Gen.SignSets Gen.Templates.
From BT Require Import Core.PyVal Core.Expr Core.Hint Core.Check Core.GenProofs Core.Cost.
Import ListNotations.
Local Open Scope list_scope.

(* The number of items a check reads out of containers (x[i], next(iter(x)),
   next(iter(x.values()))) is bounded by [bound h], a function of the hint alone: for every
   object of any size and nesting, every draw, both sampler modes, on the accepting and on the
   rejecting path alike. *)
Theorem C09_check_bound : forall cf r pb h x,
  hint_ok h = true -> wf x = true ->
  reads (trace_of r (preds_of pb) (check_expr cf h) x) <= bound h.
Proof.
  intros cf r pb h x Hok Hw. unfold trace_of.
  destruct (eval r (preds_of pb) (check_expr cf h) (st0 x)) as [[v|e] s'] eqn:E.
  - eapply check_reads_bounded; eauto.
  - exfalso. pose proof (check_expr_correct cf r pb h x Hok Hw) as H. unfold verdict in H. rewrite E in H.
    discriminate.
Qed.
Print Assumptions C09_check_bound.

(* ... even for objects outside the well-formed universe, whenever the check returns at all *)
Theorem C09_check_bound_any_object : forall cf r preds h x v s',
  eval r preds (check_expr cf h) (st0 x) = (Ok v, s') -> reads (trace s') <= bound h.
Proof. exact check_reads_bounded. Qed.
Print Assumptions C09_check_bound_any_object.

(* what the bound is: at most one item per one-argument container level, one key and its
   value per mapping level, one item per unignorable position of a fixed tuple, summed over
   the members of a union; nothing for classes, literals and type[...] *)
Theorem C09_bound_per_level : forall s ch k v,
  bound (HCont s ch) <= 1 + bound ch /\ bound (HMap s k v) <= 2 + bound k + bound v
  /\ bound (HCounter k) <= 2 + bound k.
Proof.
  intros. cbn [bound]. repeat split; repeat match goal with |- context [ignorable ?h] => destruct (ignorable h) end; lia.
Qed.
Print Assumptions C09_bound_per_level.

(* iterables that are not collections are not iterated at all: every next(iter(.)) is on a
   Collection (see also C10) *)
Theorem C09_noniter : forall cf r pb h x,
  hint_ok h = true -> wf x = true ->
  forall v, In (TFirst v) (trace_of r (preds_of pb) (check_expr cf h) x) -> issub (type_of v) c_Collection = true.
Proof.
  intros cf r pb h x Hok Hw v Hin.
  pose proof (check_expr_trace_safe cf r pb h x Hok Hw) as Hs. rewrite Forall_forall in Hs. exact (Hs _ Hin).
Qed.
Print Assumptions C09_noniter.

(* ---- non-vacuity: the same hint on containers of growing size ---- *)
Definition h9 : hint := HMap m_Dict (HCls c_str) (HCont s_List (HCont s_Set (HCls c_int))).
Definition big (n : nat) : pyval :=
  VMap c_dict (map (fun i => (VStr (String (Ascii.ascii_of_nat (65 + i)) EmptyString),
                              VCont c_list (repeat (VCont c_set (map (fun j => VInt (Z.of_nat j)) (seq 0 n))) n)))
                   (seq 0 n)).
Definition no_preds9 := preds_of (fun _ _ => false).

Example C09_demo :
  bound h9 = 4 /\
  map (fun n => reads (trace_of 7 no_preds9 (check_expr {| is_random := true |} h9) (big n))) [1; 2; 5; 12]
  = [4; 4; 4; 4].
Proof. vm_compute. split; reflexivity. Qed.
