(* C02 — Guaranteed detection: violations the strategy must see are always rejected.
   Property theorems only (proofs: Core/Detect.v over Core/GenProofs.check_expr_correct). *)
From Coq Require Import List ZArith Bool String Lia.
From BT Require Import Gen.ClassTable Gen.SignSets Gen.Templates.
From BT Require Import Core.PyVal Core.Expr Core.Hint Core.Check Core.ClassFacts Core.GenProofs Core.Sound Core.Detect.
Import ListNotations.
Local Open Scope list_scope.

(* the generated code's verdict is the sampled semantics (no exception), so every statement
   below about [chk] is a statement about what the decorated call / door function returns *)
Theorem C02_verdict_is_chk : forall cf r pb h x,
  hint_ok h = true -> wf x = true -> ignorable h = false ->
  verdict r (preds_of pb) (check_expr cf h) x = Ok (chk cf r pb h x).
Proof.
  intros cf r pb h x Hok Hw Hig. rewrite (check_expr_correct cf r pb h x Hok Hw).
  unfold check. now rewrite Hig.
Qed.
Print Assumptions C02_verdict_is_chk.

Theorem C02_toplevel : forall cf r pb h x cs,
  hint_ok h = true -> wf x = true -> ignorable h = false ->
  top_classes h = Some cs -> isinst x cs = false ->
  verdict r (preds_of pb) (check_expr cf h) x = Ok false.
Proof.
  intros. rewrite C02_verdict_is_chk by assumption. f_equal. eapply reject_toplevel; eauto.
Qed.
Print Assumptions C02_toplevel.

Theorem C02_tuple_length : forall cf pb hs x r,
  List.length (items x) <> List.length hs -> chk cf r pb (HTuple hs) x = false.
Proof. exact reject_tuple_length. Qed.
Print Assumptions C02_tuple_length.

Theorem C02_tuple_position : forall cf pb hs x r k h',
  nth_error hs k = Some h' -> ignorable h' = false ->
  chk cf r pb h' (nth k (items x) VNone) = false -> chk cf r pb (HTuple hs) x = false.
Proof. exact reject_tuple_position. Qed.
Print Assumptions C02_tuple_position.

Theorem C02_literal : forall cf pb vs x r,
  (forall v, In v vs -> py_eq x v = false) -> chk cf r pb (HLiteral vs) x = false.
Proof. exact reject_literal. Qed.
Print Assumptions C02_literal.

Theorem C02_type : forall cf pb cs x r, issubcls x cs <> Some true -> chk cf r pb (HType cs) x = false.
Proof. exact reject_type. Qed.
Print Assumptions C02_type.

Theorem C02_union_none : forall cf pb hs x r,
  (forall h', In h' hs -> chk cf r pb h' x = false) -> chk cf r pb (HUnion hs) x = false.
Proof. exact reject_union. Qed.
Print Assumptions C02_union_none.

Theorem C02_all_items_bad : forall cf pb s ch x r,
  ignorable ch = false -> hint_ok (HCont s ch) = true ->
  issub (type_of x) c_Collection = true -> items x <> [] ->
  (forall y, In y (items x) -> chk cf r pb ch y = false) ->
  chk cf r pb (HCont s ch) x = false.
Proof. exact reject_all_items. Qed.
Print Assumptions C02_all_items_bad.

(* every index below 2^32 of a sequence is reached by some 32-bit draw ... *)
Theorem C02_reachable : forall cf pb s ch x i,
  is_random cf = true -> ignorable ch = false -> sign_family s = Some FSequence ->
  i < List.length (items x) -> (Z.of_nat i < 2 ^ 32)%Z ->
  (forall r, chk cf r pb ch (nth i (items x) VNone) = false) ->
  exists r, (0 <= r < 2 ^ 32)%Z /\ chk cf r pb (HCont s ch) x = false.
Proof. exact reach_sequence_item. Qed.
Print Assumptions C02_reachable.

(* ... but "every index is reachable" is FALSE without the bound (known finding F18): *)
Definition C02_reachable_full : Prop :=
  forall (n : Z) (i : Z), (0 <= i < n)%Z -> exists r, (0 <= r < 2 ^ 32)%Z /\ (r mod n = i)%Z.

Theorem C02_reachable_full_refuted : ~ C02_reachable_full.
Proof.
  intros H. destruct (H (2 ^ 33)%Z (2 ^ 32 + 5)%Z ltac:(lia)) as (r & Hr & Hm).
  rewrite Z.mod_small in Hm by lia. lia.
Qed.
Print Assumptions C02_reachable_full_refuted.

Theorem C02_nonrandom_first : forall cf pb s ch x r,
  is_random cf = false -> ignorable ch = false -> sign_family s = Some FSequence ->
  items x <> [] -> chk cf r pb ch (first x) = false -> chk cf r pb (HCont s ch) x = false.
Proof. exact nonrandom_first. Qed.
Print Assumptions C02_nonrandom_first.

Theorem C02_accept_consistent : forall cf pb s ch x r,
  ignorable ch = false -> hint_ok (HCont s ch) = true -> issub (type_of x) c_Collection = true ->
  chk cf r pb (HCont s ch) x = true ->
  items x = [] \/ exists y, In y (items x) /\ chk cf r pb ch y = true.
Proof. exact accept_consistent. Qed.
Print Assumptions C02_accept_consistent.

Theorem C02_ignorable_complete : forall pb h x,
  ignorable h = true -> issub (type_of x) c_object = true -> sat pb h x = true.
Proof. exact ignorable_accepts_all. Qed.
Print Assumptions C02_ignorable_complete.

Theorem C02_validator : forall cf pb mh vs v x r,
  In v vs -> vmean pb v x = false -> chk cf r pb (HAnnot mh vs) x = false.
Proof. exact reject_validator. Qed.
Print Assumptions C02_validator.

(* ---- non-vacuity ---- *)
Example C02_demo_reachable :
  let h := HCont s_List (HCls c_int) in
  let x := VCont c_list [VInt 1; VStr "bad"; VInt 3] in
  let cf := {| is_random := true |} in
  wf x = true /\ hint_ok h = true /\
  map (fun r => chk cf r (fun _ _ => false) h x) [0; 1; 2; 4; 2 ^ 32 - 1]%Z = [true; false; true; false; true]
  /\ chk {| is_random := false |} 1 (fun _ _ => false) h x = true
  /\ chk {| is_random := false |} 1 (fun _ _ => false) h (VCont c_list [VStr "bad"; VInt 3]) = false.
Proof. vm_compute. repeat split. Qed.
