(* C16 — Hooked and unhooked bytecode caches never mix; cached bytecode is never stale.
   Property theorems only; proofs live in C16/Proofs.v.  The model (C16/Cache.v: two cache slots per
   module selected by beartype's marker, CPython's stamp validation, the loader's four steps around the
   patched global) is compared with sequences of real interpreter runs on every run
   (harness/props/c16.py). *)
From Coq Require Import List Bool Arith.
From BT Require Import C16.Cache C16.Proofs.
Import ListNotations.

(* 1. Over every sequence of interpreter runs (any hook state and configuration per run, any source
      edits between runs, starting from empty caches) each run loads bytecode that is transformed
      iff the module is hooked in that run, compiled from the current source. *)
Theorem C16_never_mix_never_stale_source : forall rs, Forall2 run_ok rs (runs fs0 rs).
Proof. intros rs. apply runs_never_mix, inv0. Qed.
Print Assumptions C16_never_mix_never_stale_source.

(* 1w. The same when some of the interpreters run with bytecode writing switched off (-B, PYTHONDONTWRITEBYTECODE): they
       still read the cache files earlier runs left, and what they load is transformed iff hooked, from the current source. *)
Theorem C16_never_mix_never_stale_source_nowrite : forall rs, Forall2 run_ok (map fst rs) (runsw fs0 rs).
Proof. intros rs. apply runsw_never_mix, inv0. Qed.
Print Assumptions C16_never_mix_never_stale_source_nowrite.

(* 2. It is exactly the current configuration applied to the current source whenever all hooked runs
      agree on the options the AST transformation depends on ... *)
Theorem C16_exact_single_akey : forall k rs,
  (forall c s, In (Some c, s) rs -> akey c = k) ->
  runs fs0 rs = map (fun r => expected (fst r) (snd r)) rs.
Proof. intros k rs H. apply (runs_exact_single_akey k); [split; intros s c E; discriminate|exact H]. Qed.
Print Assumptions C16_exact_single_akey.

(* ... and refuted otherwise: the marker does not depend on the configuration (known finding F16a). *)
Theorem C16_conf_stale_refuted :
  let a := {| akey := 1; rkey := 0 |} in
  let b := {| akey := 0; rkey := 0 |} in
  runs fs0 [(Some a, 1); (Some b, 1)] <> map (fun r => expected (fst r) (snd r)) [(Some a, 1); (Some b, 1)].
Proof. exact conf_stale_refuted. Qed.
Print Assumptions C16_conf_stale_refuted.

(* 3. Concurrent imports: serialised imports keep the caches apart; an unhooked import interleaved
      with a hooked one stores untransformed bytecode under the marker, which a later hooked run
      loads (known finding F16b). *)
Theorem C16_serial_imports_keep_inv : forall hk srcH srcU fh fu,
  inv fh -> inv fu ->
  let s1 := crun hk srcH srcU [true; true; true; true; false; false] (cinit fh fu) in
  let s2 := crun hk srcH srcU [false; false; true; true; true; true] (cinit fh fu) in
  inv (fs_u s1) /\ inv (fs_h s1) /\ inv (fs_u s2) /\ inv (fs_h s2) /\ g s1 = GOrig /\ g s2 = GOrig.
Proof. exact serial_imports_keep_inv. Qed.
Print Assumptions C16_serial_imports_keep_inv.

Theorem C16_race_refuted :
  let hk := {| akey := 1; rkey := 0 |} in
  let final := crun hk 1 1 [true; false; false; true; true; true] (cinit fs0 fs0) in
  bear_slot (fs_u final) = Some (1, CPlain 1)
  /\ snd (run1 (fs_u final) (Some hk, 1)) <> expected (Some hk) 1.
Proof. exact race_refuted. Qed.
Print Assumptions C16_race_refuted.
