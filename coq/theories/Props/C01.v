(* C01 — No false alarms: an object that satisfies a hint is always accepted.
   Property theorems only.  Model: Core/{PyVal,Expr,Hint,Check}.v over the regenerated
   Gen/{ClassTable,SignSets,Templates}.v; proofs in Core/{ClassFacts,GenProofs,Sound}.v. *)
From Coq Require Import List ZArith Bool String.
From BT Require Import Gen.ClassTable Gen.SignSets Gen.Templates.
From BT Require Import Core.PyVal Core.Expr Core.Hint Core.Check Core.GenProofs Core.Sound.
Import ListNotations.
Local Open Scope string_scope.

(* For every configuration of the sampler (random or first item), every supported hint of the
   modelled grammar, every well-formed object satisfying the hint at full depth, every draw
   (all of Z, a superset of the 2^32 draws) and whatever the user callables do, the generated
   check expression evaluates without raising and accepts. *)
Theorem C01_no_false_alarm : forall cf r pb h x,
  hint_ok h = true -> wf x = true -> sat pb h x = true ->
  verdict r (preds_of pb) (check_expr cf h) x = Ok true.
Proof.
  intros cf r pb h x Hok Hw Hs.
  rewrite (check_expr_correct cf r pb h x Hok Hw). f_equal. now apply check_sound.
Qed.
Print Assumptions C01_no_false_alarm.

(* The generated expression is total: on any well-formed object it returns a verdict, it never
   raises (no len() of an unsized object, no index out of range, no exhausted iterator ...). *)
Theorem C01_check_total : forall cf r pb h x,
  hint_ok h = true -> wf x = true ->
  verdict r (preds_of pb) (check_expr cf h) x = Ok (check cf r pb h x).
Proof. exact check_expr_correct. Qed.
Print Assumptions C01_check_total.

(* ---- non-vacuity: a nested hint, an object that satisfies it, and one that does not ---- *)
Definition no_pb (f : nat) (v : pyval) : bool := false.
Definition no_preds_demo := preds_of no_pb.

Definition demo_hint : hint :=
  HUnion [HCls c_NoneType;
          HMap m_Dict (HCls c_str)
               (HCont s_List (HUnion [HCls c_int; HTuple [HCls c_str; HCont s_Set (HLiteral [VInt 1; VStr "a"])]]))].

Definition demo_good : pyval :=
  VMap c_dict [(VStr "k", VCont c_list [VInt 3; VCont c_tuple [VStr "x"; VCont c_set [VStr "a"; VInt 1]]])].
Definition demo_bad : pyval :=
  VMap c_dict [(VStr "k", VCont c_list [VInt 3; VCont c_tuple [VStr "x"; VCont c_set [VStr "b"]]])].

Example C01_demo :
  hint_ok demo_hint = true /\ wf demo_good = true /\ sat no_pb demo_hint demo_good = true
  /\ wf demo_bad = true /\ sat no_pb demo_hint demo_bad = false
  /\ verdict 1 no_preds_demo (check_expr {| is_random := true |} demo_hint) demo_bad = Ok false
  /\ verdict 0 no_preds_demo (check_expr {| is_random := true |} demo_hint) demo_bad = Ok true.
Proof. vm_compute. repeat split. Qed.
