(* C04 — The wrapper is transparent and checks each argument against its own parameter.
   Property theorems only; proofs live in C04/Proofs.v.  [bind] (C04/Wrap.v) is CPython's
   argument-binding rule written from the language reference and compared with CPython itself on
   every run; [localize] and [wrapper_forwards_unchanged] (Gen/C04Templates.v) are regenerated
   from beartype/_data/check/code/func/datacodefuncwrap.py on every run; [checked] (the
   enumeration of parameters with their indices) is compared with the isinstance checks the
   real wrapper performs (harness/props/c04.py). *)
From Coq Require Import List String Bool.
From BT Require Import C04.Wrap C04.Proofs Gen.C04Templates.
Import ListNotations.
Local Open Scope string_scope.

(* 1. For every well-formed signature and every call CPython can bind, the wrapper checks,
      against each annotated parameter and in parameter order, exactly the values CPython
      binds to that parameter — however they were passed — and nothing else. *)
Theorem C04_checks_own_parameter : forall s k b,
  sigma_ok s = true -> bind s k = Some b -> checked localize s k = expected s b.
Proof. exact checked_eq_expected. Qed.
Print Assumptions C04_checks_own_parameter.

(* 2. Unpassed defaults are not checked. *)
Theorem C04_defaults_unchecked : forall s k b p,
  sigma_ok s = true -> bind s k = Some b -> b_get p b = Some BDefault ->
  forall vs, In (p, vs) (checked localize s k) -> vs = [].
Proof. exact defaults_unchecked. Qed.
Print Assumptions C04_defaults_unchecked.

(* 3. If every passed value satisfies its parameter's annotation the original is called, once,
      with exactly the call the wrapper received. *)
Theorem C04_transparent : forall s k b ok,
  sigma_ok s = true -> bind s k = Some b ->
  (forall p v, mem p (s_annotated s) = true -> In v (passed_to b p) -> ok p v = true) ->
  wrapper wrapper_forwards_unchanged localize s k ok = OCalled k.
Proof. exact transparent_when_all_pass. Qed.
Print Assumptions C04_transparent.

(* 4. If some value passed to an annotated parameter fails its annotation, the wrapper raises
      a parameter violation (for a value that genuinely fails) and the original never runs. *)
Theorem C04_failing_never_runs : forall s k b ok p v,
  sigma_ok s = true -> bind s k = Some b ->
  In p (map snd (iter_args s)) -> mem p (s_annotated s) = true -> In v (passed_to b p) -> ok p v = false ->
  exists p' v', wrapper wrapper_forwards_unchanged localize s k ok = OViolation p' v'
                /\ ok p' v' = false /\ mem p' (s_annotated s) = true /\ In v' (passed_to b p').
Proof. exact failing_value_never_runs. Qed.
Print Assumptions C04_failing_never_runs.

Theorem C04_violation_is_genuine : forall s k b ok p v,
  sigma_ok s = true -> bind s k = Some b ->
  wrapper wrapper_forwards_unchanged localize s k ok = OViolation p v ->
  ok p v = false /\ mem p (s_annotated s) = true /\ In v (passed_to b p).
Proof. exact violation_is_genuine. Qed.
Print Assumptions C04_violation_is_genuine.

(* 5. A call that cannot bind never runs the original's body: the wrapper either raises a
      parameter violation or forwards the very call, which CPython then rejects. *)
Theorem C04_unbindable_never_runs : forall s k ok fwd lz,
  bind s k = None -> body_runs s (wrapper fwd lz s k ok) = 0.
Proof. exact unbindable_never_runs. Qed.
Print Assumptions C04_unbindable_never_runs.

Theorem C04_only_the_given_call : forall s k ok fwd lz k',
  wrapper fwd lz s k ok = OCalled k' -> k' = k.
Proof. exact runs_at_most_once_with_given_call. Qed.
Print Assumptions C04_only_the_given_call.

(* Non-vacuity: def f(a, /, b, c=.., *args, d, **kwargs) with everything annotated, called as
   f(1, 2, 3, 4, 5, d=6, a=7, z=8): the keyword "a" collides with a positional-only name. *)
Example C04_example :
  let s := {| s_posonly := ["a"]; s_flex := ["b"; "c"]; s_varpos := Some "args"; s_kwonly := ["d"];
              s_varkw := Some "kwargs"; s_defaults := ["c"]; s_annotated := ["a"; "b"; "c"; "args"; "d"; "kwargs"] |} in
  let k := {| c_args := [1; 2; 3; 4; 5]; c_kwargs := [("d", 6); ("a", 7); ("z", 8)] |} in
  sigma_ok s = true /\
  (exists b, bind s k = Some b) /\
  checked localize s k = [("a", [1]); ("b", [2]); ("c", [3]); ("args", [4; 5]); ("d", [6]); ("kwargs", [7; 8])] /\
  bind s {| c_args := [1]; c_kwargs := [("b", 2); ("b", 3)] |} = None /\
  bind s {| c_args := []; c_kwargs := [("a", 1); ("b", 2); ("d", 3)] |} = None.
Proof. cbv zeta. repeat split; try reflexivity. eexists. vm_compute. reflexivity. Qed.
