(* C10 — Checking never modifies or consumes the object being checked.
   Property theorems only (proofs: Core/GenProofs.v). *)
From Coq Require Import List ZArith Bool String Lia.
From BT Require Import Gen.ClassTable Gen.SignSets Gen.Templates.
From BT Require Import Core.PyVal Core.Expr Core.Hint Core.Check Core.GenProofs.
Import ListNotations.
Local Open Scope list_scope.

(* Every protocol operation a check performs on the objects it inspects is one of the
   read-only operations of [safe_op]: isinstance/issubclass, ==, truth value, len() of a Sized
   object, indexing a Sequence within bounds, indexing a mapping at a key it holds, and
   next(iter(.)) / next(iter(.values())) only of re-iterable Collections / Mappings.  (The
   expression language of generated code has no other operation: the template translator
   rejects anything else, so a mutating call in a template is a broken obligation.) *)
Theorem C10_readonly : forall cf r pb h x,
  hint_ok h = true -> wf x = true ->
  Forall safe_op (trace_of r (preds_of pb) (check_expr cf h) x).
Proof. exact check_expr_trace_safe. Qed.
Print Assumptions C10_readonly.

(* no check advances an iterator or generator, or consumes a one-shot iterable *)
Theorem C10_no_iteration_of_nonreiterables : forall cf r pb h x v,
  hint_ok h = true -> wf x = true ->
  In (TFirst v) (trace_of r (preds_of pb) (check_expr cf h) x) \/ In (TFirstValue v) (trace_of r (preds_of pb) (check_expr cf h) x) ->
  issub (type_of v) c_Collection = true.
Proof.
  intros cf r pb h x v Hok Hw Hin.
  pose proof (check_expr_trace_safe cf r pb h x Hok Hw) as Hs. rewrite Forall_forall in Hs.
  destruct Hin as [Hin|Hin]; specialize (Hs _ Hin); cbn [safe_op] in Hs; [exact Hs|].
  now apply Core.ClassFacts.collection_of_mapping.
Qed.
Print Assumptions C10_no_iteration_of_nonreiterables.

(* a mapping is only ever indexed at a key it already holds, so defaultdict.__missing__
   cannot fire and nothing is inserted; a sequence is only ever indexed within its bounds *)
Theorem C10_mapping_key_present : forall cf r pb h x c kvs k,
  hint_ok h = true -> wf x = true ->
  In (TItem (VMap c kvs) k) (trace_of r (preds_of pb) (check_expr cf h) x) -> lookup k kvs <> None.
Proof.
  intros cf r pb h x c kvs k Hok Hw Hin.
  pose proof (check_expr_trace_safe cf r pb h x Hok Hw) as Hs. rewrite Forall_forall in Hs.
  exact (Hs _ Hin).
Qed.
Print Assumptions C10_mapping_key_present.

(* ---- non-vacuity: a generator under Iterable[int] is accepted without being touched, a
        defaultdict is indexed at its first key only ---- *)
Definition no_preds10 := preds_of (fun _ _ => false).

Example C10_demo_generator :
  let h := HCont s_Iterable (HCls c_int) in
  let g := VCont c_generator [VStr "not an int"; VInt 1] in
  wf g = true /\ verdict 3 no_preds10 (check_expr {| is_random := true |} h) g = Ok true
  /\ trace_of 3 no_preds10 (check_expr {| is_random := true |} h) g = [TInst g; TInst g].
Proof. vm_compute. repeat split. Qed.

Example C10_demo_defaultdict :
  let h := HMap m_DefaultDict (HCls c_str) (HCls c_int) in
  let d := VMap c_defaultdict [(VStr "a", VInt 1); (VStr "b", VStr "x")] in
  trace_of 0 no_preds10 (check_expr {| is_random := true |} h) d
  = [TInst d; TLen d; TFirst d; TInst (VStr "a"); TItem d (VStr "a"); TInst (VInt 1)].
Proof. vm_compute. reflexivity. Qed.
