(* C08 — Wrapped coroutines and generators are indistinguishable from the originals.
   Property theorems only; proofs live in C08/Proofs.v.  [obj_op] (C08/AGen.v) is CPython's protocol
   on asynchronous generator objects, [wrapped] beartype's pure-Python "async yield from"; the
   template's control structure is re-read from the repository on every run
   (Gen/C08Template.v), and table-driven generator bodies are run for real, original and
   decorated, against the model (harness/props/c08.py).  Synchronous generators are wrapped by
   `return (yield from ...)` and coroutines by `return await ...`: CPython's own delegation,
   compared on the implementation only. *)
From Coq Require Import List Bool Arith.
From BT Require Import C08.AGen C08.Proofs Gen.C08Template.
Import ListNotations.

(* 1. For every generator body (any resumable automaton, finite or not) and every finite sequence
      of anext / asend / athrow / aclose operations in which GeneratorExit is not thrown by hand,
      and along which the body does not yield while handling GeneratorExit, the decorated
      generator produces exactly the outcomes of the original: same yielded values, same
      StopAsyncIteration, same exceptions, same None results - whether not started, suspended or
      finished. *)
Theorem C08_async_wrapper_indistinguishable : forall b ps,
  async_template_as_modelled = true ->
  no_manual_exit ps = true -> polite (OFresh b) ps = true ->
  run (wrapped b) ps = run (OFresh b) ps.
Proof. intros b ps _ Hn Hp. apply wrapper_indistinguishable; auto. constructor. Qed.
Print Assumptions C08_async_wrapper_indistinguishable.

(* 2. GeneratorExit thrown by hand into a generator that swallows it and returns is where they
      differ (known finding F28). *)
Theorem C08_manual_exit_refuted :
  run (OFresh swallowing) [OpNext; OpThrow GeneratorExit] = [OYield 1; OStop]
  /\ run (wrapped swallowing) [OpNext; OpThrow GeneratorExit] = [OYield 1; ORaise GeneratorExit]
  /\ polite (OFresh swallowing) [OpNext; OpThrow GeneratorExit] = true.
Proof. exact manual_exit_refuted. Qed.
Print Assumptions C08_manual_exit_refuted.
