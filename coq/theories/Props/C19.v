From BT Require Import Core.Door.
Theorem stub19 : True. Proof. exact I. Qed.
