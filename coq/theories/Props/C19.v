(* C19 — is_subhint is a sound preorder and TypeHint wrappers are coherent.
   Property theorems only; proofs live in Core/DoorProofs.v.  [is_subhint] / [sub] (Core/Door.v)
   model beartype.door.TypeHint.is_subhint with its three outcomes (True, False,
   BeartypeDoorIsSubhintException) and are compared with beartype on generated pairs and triples on
   every run (harness/props/c19.py); [sub n] is the model at recursion fuel n, and the theorems
   hold at every fuel. *)
From Coq Require Import List ZArith Bool String.
From BT Require Import Gen.ClassTable Gen.SignSets Core.PyVal Core.Hint Core.Door Core.DoorProofs Core.DoorFuel Core.DoorStable.
Import ListNotations.

(* 1. Reflexivity, three-valued: for every hint of the grammar, is_subhint(h, h) and
      TypeHint(h) == TypeHint(h) never answer False (they answer True, or raise: see 5). *)
Theorem C19_reflexive_never_false : forall h n,
  door_ok h = true -> sub n h h <> RF /\ eqh n h h <> RF.
Proof. intros h n. exact (refl_never_false h n). Qed.
Print Assumptions C19_reflexive_never_false.

(* 2. Transitivity on classes and unions of classes (partial: the full grammar is compared with
      beartype on generated triples only). *)
Theorem C19_transitive_flat_partial : forall n m k xs ys zs,
  ~ In c_Hashable zs ->
  sub (S (S n)) (flat xs) (flat ys) = RT -> sub (S (S m)) (flat ys) (flat zs) = RT ->
  sub (S (S k)) (flat xs) (flat zs) = RT.
Proof. exact flat_transitive. Qed.
Print Assumptions C19_transitive_flat_partial.

(* ... and refuted through typing.Any (known finding F13, by design of gradual typing). *)
Theorem C19_trans_refuted_through_any :
  is_subhint (HCls c_int) HAny = RT /\ is_subhint HAny (HCls c_str) = RT /\ is_subhint (HCls c_int) (HCls c_str) = RF.
Proof. exact trans_refuted_through_any. Qed.
Print Assumptions C19_trans_refuted_through_any.

(* 3. Soundness with respect to checking, on Any-free hints built from classes, unions,
      one-argument containers, mappings and fixed / variadic tuples: whenever is_subhint(A, B)
      answers True, every object satisfying A at full depth satisfies B. *)
Theorem C19_sound_simple : forall pb n a b x,
  simple a = true -> simple b = true -> sub n a b = RT -> sat pb a x = true -> sat pb b x = true.
Proof. intros pb n. exact (sound_simple pb n). Qed.
Print Assumptions C19_sound_simple.

(* ... Annotated hints compare by their metahints and (equal) metadata (F12, fixed in the repository). *)
Theorem C19_annotated_unrelated_rejected :
  let v := VInst [c_object] in
  is_subhint (HAnnot (HCls c_str) [v]) (HAnnot (HCls c_int) [v]) = RF
  /\ is_subhint (HAnnot (HCls c_bool) [v]) (HAnnot (HCls c_int) [v]) = RT.
Proof. exact annotated_unrelated_rejected. Qed.
Print Assumptions C19_annotated_unrelated_rejected.

(* 5. The third outcome is reachable on a hint compared with itself (known finding F25). *)
Theorem C19_reflexivity_raises :
  let h := HUnion [HCont s_Collection (HCls c_str); HMap m_Dict (HCls c_str) (HCls c_int)] in
  is_subhint h h = RX.
Proof. exact refl_raises_on_arity_clash. Qed.
Print Assumptions C19_reflexivity_raises.

(* 6. Fuel adequacy: the model's recursion fuel never runs out, for every pair of hints of the
      grammar.  The three outcomes the theorems above speak about (True, False, the exception) are
      the only answers of [is_subhint] and [hint_equal]; the out-of-fuel value of the totalised
      definitions is unreachable, so no statement above holds through it. *)
Theorem C19_model_never_out_of_fuel : forall a b,
  is_subhint a b <> RFuel /\ hint_equal a b <> RFuel.
Proof. intros a b. split; [exact (is_subhint_has_fuel a b)|exact (hint_equal_has_fuel a b)]. Qed.
Print Assumptions C19_model_never_out_of_fuel.

(* ... so reflexivity, stated on the public functions: is_subhint(h, h) answers True or raises
      (the latter is F25), and TypeHint(h) == TypeHint(h) likewise; nothing else. *)
Theorem C19_reflexive_true_or_raises : forall h, door_ok h = true ->
  (is_subhint h h = RT \/ is_subhint h h = RX) /\ (hint_equal h h = RT \/ hint_equal h h = RX).
Proof.
  intros h Hok. pose proof (C19_model_never_out_of_fuel h h) as [F1 F2].
  unfold is_subhint, hint_equal in *.
  destruct (refl_never_false h (2 * (hsize h + hsize h) + 2) Hok) as [R1 R2].
  split.
  - destruct (sub _ h h); [now left|congruence|now right|congruence].
  - destruct (eqh _ h h); [now left|congruence|now right|congruence].
Qed.
Print Assumptions C19_reflexive_true_or_raises.

(* 7. Fuel independence: an answer of the model at ANY fuel, unless it is "out of fuel", is the
      answer of [is_subhint]; and every fuel at or above the supplied one gives that answer.  The
      theorems above that are stated "at every fuel n" (1, 2, 3) are therefore statements about
      the one function [is_subhint] that the correspondence check compares with beartype. *)
Theorem C19_model_fuel_independent : forall n a b,
  (sub n a b <> RFuel -> sub n a b = is_subhint a b)
  /\ (2 * (hsize a + hsize b) + 2 <= n -> sub n a b = is_subhint a b /\ eqh n a b = hint_equal a b).
Proof.
  intros n a b. split; [exact (sub_any_fuel n a b)|].
  intros Hn. split; [exact (sub_fuel_independent n a b Hn)|exact (eqh_fuel_independent n a b Hn)].
Qed.
Print Assumptions C19_model_fuel_independent.

(* ... hence soundness (3) on the public function itself *)
Theorem C19_sound_simple_public : forall pb a b x,
  simple a = true -> simple b = true -> is_subhint a b = RT -> sat pb a x = true -> sat pb b x = true.
Proof. intros pb a b x Ha Hb. unfold is_subhint. exact (sound_simple pb _ a b x Ha Hb). Qed.
Print Assumptions C19_sound_simple_public.

(* Non-vacuity of (3): list[bool] <= Sequence[int | str] and tuple[bool, str] <= tuple[object-free union, ...]. *)
Example C19_example :
  simple (HCont s_List (HCls c_bool)) = true
  /\ simple (HCont s_Sequence (HUnion [HCls c_int; HCls c_str])) = true
  /\ is_subhint (HCont s_List (HCls c_bool)) (HCont s_Sequence (HUnion [HCls c_int; HCls c_str])) = RT
  /\ is_subhint (HTuple [HCls c_bool; HCls c_str]) (HCont s_Tuple (HUnion [HCls c_int; HCls c_str])) = RT
  /\ is_subhint (HCont s_Sequence (HCls c_int)) (HCont s_List (HCls c_int)) = RF.
Proof. vm_compute. repeat split. Qed.
