(* C20 correspondence glue: beartype's real infer_hint(obj), translated back into the hint
   grammar by harness/impl/c20_impl.py, against the model's [infer_hint]; and is_bearable(obj,
   infer_hint(obj)) against the model's check of the inferred hint.  No proofs. *)
From Coq Require Import List ZArith Bool Arith String.
From BT Require Import Gen.ClassTable Gen.SignSets Core.PyVal Core.Expr Core.Hint Core.Check Core.Corr.
From BT Require Import C20.Fac Gen.InferTable C20.Infer.
Import ListNotations.
Local Open Scope list_scope.

Definition members (h : hint) : list hint := match h with HUnion l => l | _ => [h] end.

Definition nats_eqb (a b : list nat) : bool := list_eqb Nat.eqb a b.

(* equality of hints up to the order and multiplicity of union members (infer_hint builds unions
   from a Python set of hints) *)
Fixpoint hint_equiv (a b : hint) {struct a} : bool :=
  match a with
  | HUnion l =>
      let m := members b in
      forallb (fun x => existsb (hint_equiv x) m) l
      && forallb (fun y => existsb (fun x => hint_equiv x y) l) m
  | HAny => match b with HAny => true | _ => false end
  | HCls c => match b with HCls d => Nat.eqb c d | _ => false end
  | HShallow c => match b with HShallow d => Nat.eqb c d | _ => false end
  | HCont s x => match b with HCont t y => Nat.eqb s t && hint_equiv x y | _ => false end
  | HMap s k v => match b with HMap t k' v' => Nat.eqb s t && hint_equiv k k' && hint_equiv v v' | _ => false end
  | HCounter k => match b with HCounter k' => hint_equiv k k' | _ => false end
  | HTuple l =>
      match b with
      | HTuple m =>
          (fix go (l m : list hint) : bool :=
             match l, m with
             | [], [] => true
             | x :: l', y :: m' => hint_equiv x y && go l' m'
             | _, _ => false
             end) l m
      | _ => false
      end
  | HLiteral _ => false
  | HType cs => match b with HType ds => nats_eqb cs ds | _ => false end
  | HAnnot mh vs =>
      match b, vs with
      | HAnnot mh' [VInst ds], [VInst cs] => hint_equiv mh mh' && nats_eqb cs ds
      | _, _ => false
      end
  end.

Record icase := {
  i_val : pyval;
  i_real : option hint;      (* what beartype inferred, when it could be read back into the grammar *)
  i_bearable : obsv;         (* is_bearable(obj, infer_hint(obj)) with every draw fixed to 0 *)
  i_expect_sat : bool }.     (* the harness's own full-depth judgement of the inferred hint (Python) *)

Definition verdict_of (h : hint) (x : pyval) : obsv :=
  match verdict 0 no_preds (check_expr {| is_random := true |} h) x with
  | Ok true => VTrue | Ok false => VFalse | Exc _ => VExc
  end.

Definition check_icase (k : icase) : bool :=
  modelled (i_val k) && wf (i_val k) &&
  match i_real k with
  | Some h =>
      hint_equiv (infer_hint (i_val k)) h
      && obsv_eqb (verdict_of (infer_hint (i_val k)) (i_val k)) (i_bearable k)
      && Bool.eqb (sat pb_table (infer_hint (i_val k)) (i_val k)) (i_expect_sat k)
      (* the statement of the theorem, evaluated *)
      && (negb (counters_hold_ints (i_val k)) || sat pb_table (infer_hint (i_val k)) (i_val k))
  | None => false
  end.

Fixpoint ifailing_from (i : nat) (ks : list icase) : list nat :=
  match ks with
  | [] => []
  | k :: r => if check_icase k then ifailing_from (S i) r else i :: ifailing_from (S i) r
  end.
Definition ifailing (ks : list icase) : list nat := ifailing_from 0 ks.
