(* C20: hint factories infer_hint chooses per class (shared by the generated table and the model). *)
Inductive ifac :=
| FCont (s : nat)        (* a one-argument container hint factory of sign s: F[item hints] *)
| FMap (m : nat)         (* a mapping hint factory of sign m: F[key hints, value hints] *)
| FCounter               (* collections.Counter[key hints] *)
| FTuple                 (* tuple: fixed at the root when short, else tuple[item hints, ...] *)
| FBare (c : nat)        (* an unsubscripted ABC (Iterator, Generator, Sized ...) *)
| FUnknown.              (* a factory the model does not know: inference is not modelled *)
