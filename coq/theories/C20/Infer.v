(* C20 model: beartype.bite.infer_hint under its default (On) strategy, over the object universe
   of the shared core.  Mirrors beartype/bite/_infermain.py (order of tests), the per-class
   classification regenerated into Gen/InferTable.v, and
   beartype/bite/collection/infercollectionitems.py (item / key / value unions, the fixed-tuple
   rule for short root tuples).  No proofs here. *)
From Coq Require Import List ZArith Bool Arith String.
From BT Require Import Gen.ClassTable Gen.SignSets Core.PyVal Core.Expr Core.Hint C20.Fac Gen.InferTable.
Import ListNotations.
Local Open Scope list_scope.

(* make_hint_pep484604_union over the hints of the items: one hint stays itself *)
Definition mk_u (hs : list hint) : hint :=
  match hs with
  | [h] => h
  | _ => HUnion hs
  end.

(* Annotated[h, IsInstance[cls]] on the collections.abc path *)
Definition wrap (ann : bool) (c : nat) (h : hint) : hint :=
  if ann then HAnnot h [VInst [c]] else h.

Fixpoint infer (root : bool) (x : pyval) {struct x} : hint :=
  match x with
  | VNone | VBool _ | VInt _ | VFloat _ | VStr _ | VBytes _ => HCls (type_of x)
  | VCls c => HType [c]                                  (* isinstance(obj, type): type[obj] *)
  | VObj c _ => HCls c                                   (* no inferer applies: the class *)
  | VCont c items =>
      match infer_table c with
      | None => HCls c
      | Some (f, ann) =>
          wrap ann c
            match f with
            | FBare b => HCls b
            | FTuple =>
                match items with
                | [] => HCls c_tuple
                | _ =>
                    if root && Nat.leb (List.length items) root_tuple_fixed_max
                    then HTuple (map (infer false) items)
                    else HCont s_Tuple (mk_u (map (infer false) items))
                end
            | FCont s =>
                if issub c c_Collection then
                  match items with
                  | [] => HCls (sign_origin s)
                  | _ => HCont s (mk_u (map (infer false) items))
                  end
                else HCls (sign_origin s)                (* not a Collection: the bare ABC *)
            | _ => HAny                                  (* unreachable for well-classified objects *)
            end
      end
  | VMap c kvs =>
      match infer_table c with
      | None => HCls c
      | Some (f, ann) =>
          wrap ann c
            match f with
            | FMap m =>
                match kvs with
                | [] => HCls (map_origin m)
                | _ => HMap m (mk_u (map (fun kv => infer false (fst kv)) kvs))
                              (mk_u (map (fun kv => infer false (snd kv)) kvs))
                end
            | FCounter =>
                match kvs with
                | [] => HCls counter_origin
                | _ => HCounter (mk_u (map (fun kv => infer false (fst kv)) kvs))
                end
            | FCont s =>                                  (* a mapping classified as a plain collection: its keys *)
                match kvs with
                | [] => HCls (sign_origin s)
                | _ => HCont s (mk_u (map (fun kv => infer false (fst kv)) kvs))
                end
            | FBare b => HCls b
            | _ => HAny
            end
      end
  end.

Definition infer_hint (x : pyval) : hint := infer true x.

(* objects whose inference is modelled: classes are classified, shapes fit the classification,
   and (the one semantic restriction, see the refutation in C20/Proofs.v) Counter values are ints *)
Fixpoint modelled (x : pyval) {struct x} : bool :=
  match x with
  | VNone | VBool _ | VInt _ | VFloat _ | VStr _ | VBytes _ => true
  | VCls c => Nat.ltb c class_count
  | VObj c _ => Nat.ltb c class_count && match infer_table c with None => true | Some _ => false end
  | VCont c items =>
      Nat.ltb c class_count &&
      match infer_table c with
      | None => false
      | Some (f, _) => match f with FCont _ | FTuple | FBare _ => true | _ => false end
      end && forallb modelled items
  | VMap c kvs =>
      Nat.ltb c class_count &&
      match infer_table c with
      | None => false
      | Some (f, _) => match f with FMap _ | FCounter | FCont _ => true | _ => false end
      end && forallb (fun kv => modelled (fst kv) && modelled (snd kv)) kvs
  end.

Fixpoint counters_hold_ints (x : pyval) {struct x} : bool :=
  match x with
  | VCont _ items => forallb counters_hold_ints items
  | VMap c kvs =>
      forallb (fun kv => counters_hold_ints (fst kv) && counters_hold_ints (snd kv)) kvs &&
      match infer_table c with
      | Some (FCounter, _) => forallb (fun kv => isinst (snd kv) [c_int]) kvs
      | _ => true
      end
  | _ => true
  end.
