(* C20 proofs: the hint inferred from an object is satisfied by that object at full depth. *)
From Coq Require Import List ZArith Bool Arith String Lia.
From BT Require Import Gen.ClassTable Gen.SignSets Core.PyVal Core.Expr Core.Hint Core.ClassFacts Core.Induct.
From BT Require Import C20.Fac Gen.InferTable C20.Infer.
Import ListNotations.
Local Open Scope list_scope.

(* ------------------------------------------------------------ facts about the regenerated table *)

(* every classified class is an instance of what its factory checks *)
Definition table_ok : bool :=
  forallb (fun c =>
    match infer_table c with
    | None => true
    | Some (f, _) =>
        match f with
        | FCont s => issub c (sign_origin s)
        | FMap m => issub c (map_origin m)
        | FCounter => issub c counter_origin
        | FTuple => issub c c_tuple && issub c (sign_origin s_Tuple)
        | FBare b => issub c b
        | FUnknown => true
        end
    end) ids.

Lemma table_ok_true : table_ok = true.
Proof. vm_compute. reflexivity. Qed.

Lemma table_fact c f ann : c < class_count -> infer_table c = Some (f, ann) ->
  match f with
  | FCont s => issub c (sign_origin s) = true
  | FMap m => issub c (map_origin m) = true
  | FCounter => issub c counter_origin = true
  | FTuple => issub c c_tuple = true /\ issub c (sign_origin s_Tuple) = true
  | FBare b => issub c b = true
  | FUnknown => True
  end.
Proof.
  intros Hc E. pose proof table_ok_true as H. unfold table_ok in H. rewrite forallb_forall in H.
  specialize (H c (in_ids c Hc)). rewrite E in H. destruct f; auto. now apply andb_true_iff in H.
Qed.

Lemma scalar_self x :
  match x with VNone | VBool _ | VInt _ | VFloat _ | VStr _ | VBytes _ => isinst x [type_of x] = true | _ => True end.
Proof. destruct x; try exact I; vm_compute; reflexivity. Qed.

(* ------------------------------------------------------------ unions of item hints *)

Section Accept.
  Variable pb : nat -> pyval -> bool.

  Lemma sat_mk_u_in hs h y : In h hs -> sat pb h y = true -> sat pb (mk_u hs) y = true.
  Proof.
    intros Hin Hs. unfold mk_u. destruct hs as [|a [|b l]].
    - destruct Hin.
    - destruct Hin as [->|[]]. exact Hs.
    - cbn [sat].
      assert (G : forall l0, In h l0 ->
                (fix any (l : list hint) : bool :=
                   match l with [] => false | h' :: l' => sat pb h' y || any l' end) l0 = true).
      { induction l0 as [|a' l0 IH]; intros Hi; [destruct Hi|]. destruct Hi as [E|Hi].
        - subst a'. now rewrite Hs.
        - rewrite (IH Hi). apply orb_true_r. }
      exact (G (a :: b :: l) Hin).
  Qed.

  Definition good (x : pyval) : Prop :=
    forall root, modelled x = true -> counters_hold_ints x = true -> sat pb (infer root x) x = true.

  Lemma all_items_sat items :
    Forall good items -> forallb modelled items = true -> forallb counters_hold_ints items = true ->
    forallb (sat pb (mk_u (map (infer false) items))) items = true.
  Proof.
    intros Hg Hm Hc. apply forallb_forall. intros y Hy.
    rewrite forallb_forall in Hm, Hc. rewrite Forall_forall in Hg.
    apply (sat_mk_u_in _ (infer false y)); [now apply in_map|]. apply Hg; auto.
  Qed.

  Lemma sat_wrap ann c h x : sat pb (wrap ann c h) x = sat pb h x && (if ann then isinst x [c] else true).
  Proof. unfold wrap. destruct ann; cbn [sat forallb vmean]; [now rewrite andb_true_r|now rewrite andb_true_r]. Qed.

  Lemma tuple_all2 items :
    Forall good items -> forallb modelled items = true -> forallb counters_hold_ints items = true ->
    (fix all2 (hl : list hint) (ys : list pyval) : bool :=
       match hl, ys with
       | [], [] => true
       | h' :: hl', y :: ys' => sat pb h' y && all2 hl' ys'
       | _, _ => false
       end) (map (infer false) items) items = true.
  Proof.
    induction 1 as [|y l Hy Hl IH]; intros Hm Hc; [reflexivity|]. cbn [map forallb] in *.
    apply andb_true_iff in Hm as [Hm1 Hm2]. apply andb_true_iff in Hc as [Hc1 Hc2].
    rewrite (Hy false Hm1 Hc1). cbn [andb]. now apply IH.
  Qed.

  Theorem infer_accepts x : good x.
  Proof.
    induction x using pyval_ind2; intros root Hm Hc.
    - exact (scalar_self VNone).
    - exact (scalar_self (VBool b)).
    - exact (scalar_self (VInt z)).
    - exact (scalar_self (VFloat z)).
    - exact (scalar_self (VStr s)).
    - exact (scalar_self (VBytes s)).
    - (* containers *)
      cbn [modelled] in Hm. apply andb_true_iff in Hm as [Hm Hitems]. apply andb_true_iff in Hm as [Hlt Hf].
      apply Nat.ltb_lt in Hlt. cbn [counters_hold_ints] in Hc. cbn [infer].
      destruct (infer_table c) as [[f ann]|] eqn:Et; [|discriminate].
      pose proof (table_fact c f ann Hlt Et) as Hfact.
      rewrite sat_wrap. replace (if ann then isinst (VCont c l) [c] else true) with true
        by (destruct ann; [rewrite isinst_single; cbn [type_of]; now rewrite (issub_refl c Hlt)|reflexivity]).
      rewrite andb_true_r.
      destruct f; try discriminate.
      + (* FCont *)
        destruct (issub c c_Collection) eqn:Ecoll.
        * destruct l as [|a l']; [cbn [sat]; rewrite isinst_single; exact Hfact|].
          cbn [sat]. rewrite isinst_single. cbn [type_of]. rewrite Hfact. cbn [andb].
          unfold coll_items. cbn [type_of]. rewrite Ecoll. cbn [items_of].
          now apply all_items_sat.
        * cbn [sat]. rewrite isinst_single. exact Hfact.
      + (* FTuple *)
        destruct Hfact as [Ht Ho].
        destruct l as [|a l']; [cbn [sat]; rewrite isinst_single; exact Ht|].
        destruct (root && Nat.leb (List.length (a :: l')) root_tuple_fixed_max).
        * cbn [sat]. rewrite isinst_single. cbn [type_of]. rewrite Ht. cbn [andb items_of].
          now apply tuple_all2.
        * cbn [sat]. rewrite isinst_single. cbn [type_of]. rewrite Ho. cbn [andb].
          unfold coll_items. cbn [type_of items_of].
          destruct (issub c c_Collection); [|reflexivity]. now apply all_items_sat.
      + (* FBare *)
        cbn [sat]. rewrite isinst_single. exact Hfact.
    - (* mappings *)
      cbn [modelled] in Hm. apply andb_true_iff in Hm as [Hm Hitems]. apply andb_true_iff in Hm as [Hlt Hf].
      apply Nat.ltb_lt in Hlt. cbn [counters_hold_ints] in Hc. apply andb_true_iff in Hc as [Hc Hints].
      cbn [infer].
      destruct (infer_table c) as [[f ann]|] eqn:Et; [|discriminate].
      pose proof (table_fact c f ann Hlt Et) as Hfact.
      rewrite sat_wrap. replace (if ann then isinst (VMap c kvs) [c] else true) with true
        by (destruct ann; [rewrite isinst_single; cbn [type_of]; now rewrite (issub_refl c Hlt)|reflexivity]).
      rewrite andb_true_r.
      (* every key and value satisfies the union of the inferred key / value hints *)
      assert (Hk : forall kv, In kv kvs ->
                sat pb (mk_u (map (fun kv => infer false (fst kv)) kvs)) (fst kv) = true
                /\ sat pb (mk_u (map (fun kv => infer false (snd kv)) kvs)) (snd kv) = true).
      { intros kv Hin. rewrite Forall_forall in H. destruct (H kv Hin) as [G1 G2].
        rewrite forallb_forall in Hitems, Hc. specialize (Hitems kv Hin). specialize (Hc kv Hin).
        apply andb_true_iff in Hitems as [M1 M2]. apply andb_true_iff in Hc as [C1 C2]. split.
        - apply (sat_mk_u_in _ (infer false (fst kv))); [|now apply G1].
          apply in_map_iff. now exists kv.
        - apply (sat_mk_u_in _ (infer false (snd kv))); [|now apply G2].
          apply in_map_iff. now exists kv. }
      destruct f; try discriminate.
      + (* a mapping classified as a plain collection *)
        destruct kvs as [|kv kvs']; [cbn [sat]; rewrite isinst_single; exact Hfact|].
        cbn [sat]. rewrite isinst_single. cbn [type_of]. rewrite Hfact. cbn [andb].
        unfold coll_items. cbn [type_of items_of]. destruct (issub c c_Collection); [|reflexivity].
        apply forallb_forall. intros y Hy. apply in_map_iff in Hy as (kv0 & <- & Hin). now apply Hk.
      + (* FMap *)
        destruct kvs as [|kv kvs']; [cbn [sat]; rewrite isinst_single; exact Hfact|].
        cbn [sat]. rewrite isinst_single. cbn [type_of]. rewrite Hfact. cbn [andb].
        apply forallb_forall. intros kv0 Hin. destruct (Hk kv0 Hin) as [K1 K2]. now rewrite K1, K2.
      + (* FCounter *)
        destruct kvs as [|kv kvs']; [cbn [sat]; rewrite isinst_single; exact Hfact|].
        cbn [sat]. rewrite (isinst_single (VMap c (kv :: kvs'))). cbn [type_of]. rewrite Hfact. cbn [andb].
        apply forallb_forall. intros kv0 Hin. destruct (Hk kv0 Hin) as [K1 _]. rewrite K1. cbn [andb].
        rewrite forallb_forall in Hints. now apply Hints.
    - (* class objects *)
      cbn [modelled] in Hm. apply Nat.ltb_lt in Hm. cbn [infer sat issubcls existsb]. now rewrite (issub_refl c Hm).
    - (* plain instances *)
      cbn [modelled] in Hm. apply andb_true_iff in Hm as [Hlt _]. apply Nat.ltb_lt in Hlt.
      cbn [infer sat]. rewrite isinst_single. cbn [type_of]. exact (issub_refl c Hlt).
  Qed.
End Accept.

(* ------------------------------------------------------------ the restriction on Counter is necessary *)

(* Counter({'a': 1.5}): the inferred Counter[str] requires integer counts *)
Lemma counter_refuted pb :
  let x := VMap c_Counter [(VStr "a", VFloat 3)] in
  modelled x = true /\ sat pb (infer_hint x) x = false.
Proof. vm_compute. split; reflexivity. Qed.
