(* C17 model: BeartypeConf.__new__ (beartype/_conf/confmain.py:291-1038) with
   default_conf_kwargs / die_if_conf_kwargs_invalid / sanify_conf_kwargs
   (beartype/_conf/conftest.py, _confoverrides.py) and get_is_color (_confget.py).
   Hand-written; tied to the code by harness/props/c17.py (creation histories replayed in
   fresh interpreters).  No proofs here. *)
From Coq Require Import List ZArith Bool Arith Ascii String.
From BT Require Import Gen.C17Facts.
Import ListNotations.
Local Open Scope Z_scope.

(* The universe of Python objects passed as option values (enough for valid values,
   invalid values and equal-but-not-identical look-alikes). *)
Inductive val :=
| VUnpassed                       (* ARG_VALUE_UNPASSED sentinel (default of is_color) *)
| VWarnDefault                    (* _BeartypeConfReduceDecoratorExceptionToWarningDefault *)
| VNone
| VBool (b : bool)
| VInt (z : Z)
| VFloat (z : Z)                  (* the float z.0 *)
| VStr (s : string)
| VNames (l : list string)        (* tuple of dotted identifiers *)
| VNamesList (l : list string)    (* list of them: a Collection, but unhashable *)
| VDictRaw                        (* a plain dict: unhashable *)
| VEnum (fam : nat) (i : nat)     (* fam 0 BeartypeDecorPlace, 1 BeartypeStrategy, 2 BeartypeViolationVerbosity *)
| VCls (k : nat)                  (* class objects: 0-9 exceptions (non-warning), 10-19 warnings, 20+ other classes *)
| VFrozen (items : list (nat * nat)). (* FrozenDict {hint id -> hint id}, keys sorted, unique *)

Definition hint_float := 1%nat.
Definition hint_complex := 2%nat.
Definition hint_tower_float := 101%nat.     (* float | int *)
Definition hint_tower_complex := 102%nat.   (* complex | float | int *)

Definition is_exc_cls (k : nat) : bool := Nat.ltb k 20.          (* issubclass(k, Exception) *)
Definition is_warn_cls (k : nat) : bool := Nat.leb 10 k && Nat.ltb k 20.

Definition cls_door := 0%nat.   (* BeartypeDoorHintViolation *)
Definition cls_param := 1%nat.  (* BeartypeCallHintParamViolation *)
Definition cls_return := 2%nat. (* BeartypeCallHintReturnViolation *)

Fixpoint strs_eqb (a b : list string) : bool :=
  match a, b with
  | [], [] => true
  | x :: a', y :: b' => String.eqb x y && strs_eqb a' b'
  | _, _ => false
  end.

Fixpoint items_eqb (a b : list (nat * nat)) : bool :=
  match a, b with
  | [], [] => true
  | (k, v) :: a', (k', v') :: b' => Nat.eqb k k' && Nat.eqb v v' && items_eqb a' b'
  | _, _ => false
  end.

(* numeric value of bool/int/float look-alikes *)
Definition num_of (v : val) : option Z :=
  match v with
  | VBool b => Some (if b then 1 else 0)
  | VInt z => Some z
  | VFloat z => Some z
  | VEnum f i => if existsb (Nat.eqb f) int_enum_families then Some (Z.of_nat i) else None
  | _ => None
  end.

(* Python == on this universe (what dict lookup uses after hash equality) *)
Definition veq (a b : val) : bool :=
  match num_of a, num_of b with
  | Some x, Some y => Z.eqb x y
  | Some _, None | None, Some _ => false
  | None, None =>
      match a, b with
      | VUnpassed, VUnpassed | VWarnDefault, VWarnDefault | VNone, VNone | VDictRaw, VDictRaw => true
      | VStr s, VStr t => String.eqb s t
      | VNames l, VNames m => strs_eqb l m
      | VNamesList l, VNamesList m => strs_eqb l m
      | VEnum f i, VEnum g j => Nat.eqb f g && Nat.eqb i j
      | VCls k, VCls j => Nat.eqb k j
      | VFrozen x, VFrozen y => items_eqb x y
      | _, _ => false
      end
  end.

(* structural identity (same Python object as far as any read-back can tell) *)
Definition vsame (a b : val) : bool :=
  match a, b with
  | VUnpassed, VUnpassed | VWarnDefault, VWarnDefault | VNone, VNone | VDictRaw, VDictRaw => true
  | VBool x, VBool y => Bool.eqb x y
  | VInt x, VInt y => Z.eqb x y
  | VFloat x, VFloat y => Z.eqb x y
  | VStr s, VStr t => String.eqb s t
  | VNames l, VNames m => strs_eqb l m
  | VNamesList l, VNamesList m => strs_eqb l m
  | VEnum f i, VEnum g j => Nat.eqb f g && Nat.eqb i j
  | VCls k, VCls j => Nat.eqb k j
  | VFrozen x, VFrozen y => items_eqb x y
  | _, _ => false
  end.

Definition hashable (v : val) : bool :=
  match v with VNamesList _ | VDictRaw => false | _ => true end.

(* the 17 options in the order of the conf_args tuple, then the 3 deprecated aliases *)
Definition args := list val.

Definition i_place_func := 0%nat.  Definition i_place_type := 1%nat. Definition i_pep526 := 2%nat.
Definition i_skip := 3%nat.        Definition i_overrides := 4%nat.  Definition i_color := 5%nat.
Definition i_debug := 6%nat.       Definition i_tower := 7%nat.      Definition i_pep557 := 8%nat.
Definition i_random := 9%nat.      Definition i_strategy := 10%nat.  Definition i_vdoor := 11%nat.
Definition i_vparam := 12%nat.     Definition i_vreturn := 13%nat.   Definition i_vtype := 14%nat.
Definition i_verbosity := 15%nat.  Definition i_warncls := 16%nat.
Definition i_dep_func := 17%nat.   Definition i_dep_type := 18%nat.  Definition i_dep_557 := 19%nat.

Definition get (a : args) (i : nat) : val := nth i a VNone.
Fixpoint set (a : args) (i : nat) (v : val) : args :=
  match a, i with
  | [], _ => []
  | _ :: a', O => v :: a'
  | x :: a', S i' => x :: set a' i' v
  end.

Definition defaults : args :=
  [VEnum 0 3; VEnum 0 2; VBool true; VNames []; VFrozen []; VUnpassed; VBool false; VBool false;
   VBool false; VBool true; VEnum 1 2; VNone; VNone; VNone; VNone; VEnum 2 2; VWarnDefault;
   VNone; VNone; VNone].

(* deprecated aliases override their successors when passed (not None) *)
Definition fold_deprecated (a : args) : args :=
  let a1 := match get a i_dep_func with VNone => a | v => set a i_place_func v end in
  let a2 := match get a i_dep_type with VNone => a1 | v => set a1 i_place_type v end in
  let a3 := match get a i_dep_557 with VNone => a2 | v => set a2 i_pep557 v end in
  firstn 17 a3.

(* get_is_color: env = the decoded value of ${BEARTYPE_IS_COLOR}, if set and legal *)
Definition adjust_color (env : option val) (v : val) : val :=
  match env with
  | Some o => o
  | None => match v with VUnpassed => VNone | _ => v end
  end.

Definition key_eqb (a b : args) : bool :=
  (fix go (x y : args) : bool :=
     match x, y with
     | [], [] => true
     | u :: x', w :: y' => veq u w && go x' y'
     | _, _ => false
     end) a b.

Definition key_same (a b : args) : bool :=
  (fix go (x y : args) : bool :=
     match x, y with
     | [], [] => true
     | u :: x', w :: y' => vsame u w && go x' y'
     | _, _ => false
     end) a b.

Definition is_bool (v : val) : bool := match v with VBool _ => true | _ => false end.
Definition is_enum (f : nat) (v : val) : bool := match v with VEnum g _ => Nat.eqb f g | _ => false end.
Definition is_exc (v : val) : bool := match v with VCls k => is_exc_cls k | _ => false end.

(* default_conf_kwargs: None = raise BeartypeConfParamException *)
Definition fill_default (vt : val) (i dflt : nat) (a : args) : args :=
  match get a i with
  | VNone => set a i (match vt with VNone => VCls dflt | v => v end)
  | _ => a
  end.

Definition default_kwargs (a : args) : option args :=
  let vt := get a i_vtype in
  let ok := match vt with VNone => true | v => is_exc v end in
  if negb ok then None else
  Some (fill_default vt i_vreturn cls_return
          (fill_default vt i_vparam cls_param (fill_default vt i_vdoor cls_door a))).

(* is_identifier on dotted names, abstracted: the harness only generates names for which
   "non-empty and not starting with '!'" coincides with beartype's is_identifier *)
Definition ident_ok (s : string) : bool :=
  match s with
  | EmptyString => false
  | String c _ => negb (Ascii.eqb c "!"%char)
  end.

(* die_if_conf_kwargs_invalid, one option at a time (after defaulting) *)
Definition field_ok (i : nat) (v : val) : bool :=
  match i with
  | 0 | 1 => is_enum 0 v
  | 2 | 6 | 7 | 8 | 9 => is_bool v
  | 3 => match v with VNames l => forallb ident_ok l | VNamesList l => forallb ident_ok l | _ => false end
  | 4 => match v with VFrozen _ => true | _ => false end
  | 5 => match v with VNone | VBool _ => true | _ => false end
  | 10 => is_enum 1 v
  | 11 | 12 | 13 => is_exc v
  | 14 => match v with VNone => true | w => is_exc w end
  | 15 => is_enum 2 v
  | 16 => match v with VNone | VWarnDefault => true | VCls k => is_warn_cls k | _ => false end
  | _ => false
  end%nat.

Fixpoint fields_ok (i : nat) (a : args) : bool :=
  match a with
  | [] => true
  | v :: a' => field_ok i v && fields_ok (S i) a'
  end.

Definition valid_kwargs (a : args) : bool := Nat.eqb (List.length a) 17 && fields_ok 0 a.

Fixpoint items_get (k : nat) (l : list (nat * nat)) : option nat :=
  match l with
  | [] => None
  | (k', v) :: l' => if Nat.eqb k k' then Some v else items_get k l'
  end.

Fixpoint items_insert (k v : nat) (l : list (nat * nat)) : list (nat * nat) :=
  match l with
  | [] => [(k, v)]
  | (k', v') :: l' =>
      if Nat.eqb k k' then (k, v) :: l'
      else if Nat.ltb k k' then (k, v) :: (k', v') :: l'
      else (k', v') :: items_insert k v l'
  end.

(* sanify_conf_kwargs (is_pep484_tower folded into hint_overrides) *)
Definition sanify (a : args) : option args :=
  match get a i_tower, get a i_overrides with
  | VBool true, VFrozen items =>
      let bad k tw := match items_get k items with Some v => negb (Nat.eqb v tw) | None => false end in
      if bad hint_float hint_tower_float || bad hint_complex hint_tower_complex then None
      else Some (set a i_overrides
                   (VFrozen (items_insert hint_complex hint_tower_complex
                               (items_insert hint_float hint_tower_float items))))
  | _, _ => Some a
  end.

(* defaulting, validation, sanification: what a fresh call stores as conf.kwargs *)
Definition mk_kwargs (a : args) : option args :=
  match default_kwargs a with
  | None => None
  | Some kw => if valid_kwargs kw then sanify kw else None
  end.

(* a configuration object: the key it was first created under and its read-back values *)
Record confobj := { c_key : args; c_kwargs : args; c_warnset : bool }.
Definition memo := list confobj.      (* _beartype_conf_args_to_conf, in insertion order *)

Inductive outcome :=
| OConf (id : nat)                    (* index of the object in the memo *)
| ORaiseParam                         (* BeartypeConfParamException *)
| ORaiseTypeError                     (* raw TypeError: unhashable value in the key *)
| OSkip.                              (* harness only: round-trip of a call that returned no object *)

Fixpoint find_key (k : args) (m : memo) (i : nat) : option nat :=
  match m with
  | [] => None
  | c :: m' => if key_eqb (c_key c) k then Some i else find_key k m' (S i)
  end.

(* fold the deprecated aliases, then apply ${BEARTYPE_IS_COLOR}: the memo key *)
Definition norm (env : option val) (a0 : args) : args :=
  let a := fold_deprecated a0 in
  set a i_color (adjust_color env (get a i_color)).

Definition new (env : option val) (m : memo) (a0 : args) : outcome * memo :=
  let a := norm env a0 in
  if negb (forallb hashable a) then (ORaiseTypeError, m) else
  match find_key a m 0 with
  | Some i => (OConf i, m)
  | None =>
      match mk_kwargs a with
      | None => (ORaiseParam, m)
      | Some kw =>
          let ws := negb (veq (get a i_warncls) VWarnDefault) in
          (OConf (List.length m), m ++ [{| c_key := a; c_kwargs := kw; c_warnset := ws |}])
      end
  end.

Fixpoint run (env : option val) (m : memo) (h : list args) : list outcome * memo :=
  match h with
  | [] => ([], m)
  | a :: h' => let '(o, m1) := new env m a in
               let '(os, m2) := run env m1 h' in (o :: os, m2)
  end.

(* BeartypeConf.__eq__ / identity between two results *)
Definition conf_eq (m : memo) (i j : nat) : bool :=
  match nth_error m i, nth_error m j with
  | Some a, Some b => key_eqb (c_key a) (c_key b)
  | _, _ => false
  end.

(* conf.kwargs passed back as keyword arguments *)
Definition kwargs_args (c : confobj) : args := c_kwargs c ++ [VNone; VNone; VNone].

(* histories as the harness replays them: fresh calls and BeartypeConf( **r.kwargs ) of an
   earlier result r *)
Inductive cop := CNew (a : args) | CRoundtrip (j : nat).

Fixpoint run_ops (env : option val) (m : memo) (done : list outcome) (ops : list cop)
  : list outcome * memo :=
  match ops with
  | [] => (done, m)
  | o :: ops' =>
      let '(r, m1) :=
        match o with
        | CNew a => new env m a
        | CRoundtrip j =>
            match nth_error done j with
            | Some (OConf id) =>
                match nth_error m id with
                | Some c => new env m (kwargs_args c)
                | None => (OSkip, m)
                end
            | _ => (OSkip, m)
            end
        end in
      run_ops env m1 (done ++ [r]) ops'
  end.
