(* C17 correspondence glue (evaluated by vm_compute in generated case files). *)
From Coq Require Import List ZArith Bool Arith String.
From BT Require Import C17.Conf.
Import ListNotations.

(* what the harness observed for one call *)
Inductive obs :=
| BConf (id : nat) (kwargs props : args) (warnset : bool)
| BParam | BTypeError | BSkip.

Record case := {
  k_env : option val; k_ops : list cop; k_obs : list obs;
  k_eq_pairs : list (nat * nat) }.   (* pairs of calls (i<j) whose results compared == *)

(* properties read back: kwargs, except that the unset decorator-warning sentinel reads as None *)
Definition props_of (kw : args) : args :=
  match get kw i_warncls with VWarnDefault => set kw i_warncls VNone | _ => kw end.

Definition obs_ok (m : memo) (o : outcome) (b : obs) : bool :=
  match o, b with
  | OConf id, BConf id' kw pr ws =>
      Nat.eqb id id' &&
      match nth_error m id with
      | Some c => key_same (c_kwargs c) kw && key_same (props_of (c_kwargs c)) pr && Bool.eqb (c_warnset c) ws
      | None => false
      end
  | ORaiseParam, BParam | ORaiseTypeError, BTypeError | OSkip, BSkip => true
  | _, _ => false
  end.

Fixpoint all2 {A B} (f : A -> B -> bool) (a : list A) (b : list B) : bool :=
  match a, b with
  | [], [] => true
  | x :: a', y :: b' => f x y && all2 f a' b'
  | _, _ => false
  end.

Fixpoint eq_pairs_from (m : memo) (os : list outcome) (i : nat) : list (nat * nat) :=
  match os with
  | [] => []
  | o :: os' =>
      (fix inner (rest : list outcome) (j : nat) : list (nat * nat) :=
         match rest with
         | [] => []
         | o' :: rest' =>
             match o, o' with
             | OConf a, OConf b => if conf_eq m a b then (i, j) :: inner rest' (S j) else inner rest' (S j)
             | _, _ => inner rest' (S j)
             end
         end) os' (S i) ++ eq_pairs_from m os' (S i)
  end.

Definition pair_eqb (a b : nat * nat) : bool := Nat.eqb (fst a) (fst b) && Nat.eqb (snd a) (snd b).

Definition check_case (init : memo) (k : case) : bool :=
  let '(os, m) := run_ops (k_env k) init [] (k_ops k) in
  all2 (obs_ok m) os (k_obs k)
  && all2 pair_eqb (eq_pairs_from m os 0) (k_eq_pairs k).

Fixpoint failing_from (i : nat) (f : case -> bool) (ks : list case) : list nat :=
  match ks with
  | [] => []
  | k :: ks' => if f k then failing_from (S i) f ks' else i :: failing_from (S i) f ks'
  end.

Definition failing (init : memo) (ks : list case) : list nat := failing_from 0 (check_case init) ks.
