(* C17 proofs: the BeartypeConf memo, for every creation history. *)
From Coq Require Import List ZArith Bool Arith Ascii String Lia.
From BT Require Import Gen.C17Facts C17.Conf.
Import ListNotations.
Local Open Scope list_scope.

(* ------------------------------------------------------------ Python == is an equivalence *)

Lemma strs_eqb_eq a : forall b, strs_eqb a b = true <-> a = b.
Proof.
  induction a as [|x a IH]; intros [|y b]; cbn; split; intros H; try discriminate; try reflexivity.
  - apply andb_true_iff in H as [H1 H2]. apply String.eqb_eq in H1. apply IH in H2. now subst.
  - inversion H; subst. rewrite String.eqb_refl. cbn. now apply IH.
Qed.

Lemma items_eqb_eq a : forall b, items_eqb a b = true <-> a = b.
Proof.
  induction a as [|[k v] a IH]; intros [|[k' v'] b]; cbn; split; intros H; try discriminate; try reflexivity.
  - apply andb_true_iff in H as [H H3]. apply andb_true_iff in H as [H1 H2].
    apply Nat.eqb_eq in H1, H2. apply IH in H3. now subst.
  - inversion H; subst. rewrite !Nat.eqb_refl. cbn. now apply IH.
Qed.

(* canonical representative of an ==-class *)
Definition canon (v : val) : val := match num_of v with Some z => VInt z | None => v end.

Lemma num_of_canon_none v : num_of v = None -> canon v = v.
Proof. unfold canon. now intros ->. Qed.

Lemma veq_canon a b : veq a b = true <-> canon a = canon b.
Proof.
  unfold veq, canon.
  destruct (num_of a) as [x|] eqn:Ea, (num_of b) as [y|] eqn:Eb.
  - rewrite Z.eqb_eq. split; congruence.
  - split; [discriminate|]. intros H. subst b. cbn in Eb. discriminate.
  - split; [discriminate|]. intros H. subst a. cbn in Ea. discriminate.
  - destruct a, b; cbn in Ea, Eb; try discriminate;
      try (split; [discriminate|intros H; inversion H; fail]);
      try (split; reflexivity).
    + rewrite String.eqb_eq. split; congruence.
    + rewrite strs_eqb_eq. split; congruence.
    + rewrite strs_eqb_eq. split; congruence.
    + rewrite andb_true_iff, !Nat.eqb_eq. split; [intros [-> ->]; reflexivity|intros H; inversion H; auto].
    + rewrite Nat.eqb_eq. split; congruence.
    + rewrite items_eqb_eq. split; congruence.
Qed.

Lemma veq_refl a : veq a a = true.
Proof. now apply veq_canon. Qed.

Lemma veq_sym a b : veq a b = veq b a.
Proof.
  destruct (veq a b) eqn:E1, (veq b a) eqn:E2; auto.
  - apply veq_canon in E1. symmetry in E1. apply veq_canon in E1. congruence.
  - apply veq_canon in E2. symmetry in E2. apply veq_canon in E2. congruence.
Qed.

Lemma veq_trans a b c : veq a b = true -> veq b c = true -> veq a c = true.
Proof. rewrite !veq_canon. congruence. Qed.

Lemma veq_hashable a b : veq a b = true -> hashable a = hashable b.
Proof.
  intros H. apply veq_canon in H. unfold canon in H.
  destruct (num_of a) eqn:Ea, (num_of b) eqn:Eb.
  - destruct a, b; cbn in *; try discriminate; reflexivity.
  - subst b. discriminate.
  - subst a. discriminate.
  - now subst.
Qed.

(* lifted to keys *)
Lemma key_eqb_refl a : key_eqb a a = true.
Proof. unfold key_eqb. induction a as [|x a IH]; cbn; [reflexivity|]. now rewrite veq_refl, IH. Qed.

Lemma key_eqb_sym a : forall b, key_eqb a b = key_eqb b a.
Proof.
  unfold key_eqb. induction a as [|x a IH]; intros [|y b]; cbn; auto. now rewrite veq_sym, IH.
Qed.

Lemma key_eqb_trans a : forall b c, key_eqb a b = true -> key_eqb b c = true -> key_eqb a c = true.
Proof.
  unfold key_eqb. induction a as [|x a IH]; intros [|y b] [|z c] H1 H2; cbn in *; try discriminate; auto.
  apply andb_true_iff in H1 as [H1 H1'], H2 as [H2 H2'].
  rewrite (veq_trans _ _ _ H1 H2). cbn. eapply IH; eauto.
Qed.

Lemma key_eqb_cong a b c : key_eqb a b = true -> key_eqb c a = key_eqb c b.
Proof.
  intros H. destruct (key_eqb c a) eqn:E1, (key_eqb c b) eqn:E2; auto.
  - rewrite (key_eqb_trans _ _ _ E1 H) in E2. discriminate.
  - rewrite key_eqb_sym in H. rewrite (key_eqb_trans _ _ _ E2 H) in E1. discriminate.
Qed.

Lemma key_eqb_hashable a : forall b, key_eqb a b = true -> forallb hashable a = forallb hashable b.
Proof.
  unfold key_eqb. induction a as [|x a IH]; intros [|y b] H; cbn in *; try discriminate; auto.
  apply andb_true_iff in H as [H1 H2]. now rewrite (veq_hashable _ _ H1), (IH _ H2).
Qed.

(* ------------------------------------------------------------ the memo *)

Lemma find_key_cong k k' m : forall i, key_eqb k k' = true -> find_key k m i = find_key k' m i.
Proof.
  induction m as [|c m IH]; intros i H; cbn; [reflexivity|].
  rewrite (key_eqb_cong _ _ _ H). destruct (key_eqb (c_key c) k'); auto.
Qed.

Lemma find_key_none k m : forall i, find_key k m i = None ->
  forall c, In c m -> key_eqb (c_key c) k = false.
Proof.
  induction m as [|c0 m IH]; intros i H c Hin; [destruct Hin|]. cbn in H.
  destruct (key_eqb (c_key c0) k) eqn:E; [discriminate|].
  destruct Hin as [<-|Hin]; [exact E|]. eapply IH; eauto.
Qed.

Lemma find_key_some k m : forall i j, find_key k m i = Some j ->
  i <= j /\ exists c, nth_error m (j - i) = Some c /\ key_eqb (c_key c) k = true.
Proof.
  induction m as [|c0 m IH]; intros i j H; cbn in H; [discriminate|].
  destruct (key_eqb (c_key c0) k) eqn:E.
  - inversion H; subst. split; [lia|]. exists c0. rewrite Nat.sub_diag. auto.
  - destruct (IH _ _ H) as (Hle & c & Hn & Hk). split; [lia|]. exists c.
    replace (j - i) with (S (j - S i)) by lia. auto.
Qed.

Lemma find_key_app k m l : forall i j, find_key k m i = Some j -> find_key k (m ++ l) i = Some j.
Proof.
  induction m as [|c0 m IH]; intros i j H; cbn in *; [discriminate|].
  destruct (key_eqb (c_key c0) k); auto.
Qed.

Lemma find_key_app_none k m c : forall i, find_key k m i = None ->
  find_key k (m ++ [c]) i = if key_eqb (c_key c) k then Some (i + List.length m) else None.
Proof.
  induction m as [|c0 m IH]; intros i H; cbn in *.
  - rewrite Nat.add_0_r. reflexivity.
  - destruct (key_eqb (c_key c0) k); [discriminate|]. rewrite IH by exact H.
    destruct (key_eqb (c_key c) k); auto. f_equal. lia.
Qed.

(* invariant of every reachable memo *)
Definition conf_ok (c : confobj) : Prop :=
  forallb hashable (c_key c) = true /\ mk_kwargs (c_key c) = Some (c_kwargs c) /\
  c_warnset c = negb (veq (get (c_key c) i_warncls) VWarnDefault).

Definition memo_distinct (m : memo) : Prop :=
  forall i j ci cj, nth_error m i = Some ci -> nth_error m j = Some cj ->
    key_eqb (c_key ci) (c_key cj) = true -> i = j.

Definition memo_ok (m : memo) : Prop := memo_distinct m /\ Forall conf_ok m.

Lemma memo_ok_nil : memo_ok [].
Proof. split; [|constructor]. intros i j ci cj H. destruct i; discriminate. Qed.

Lemma new_inv env m a o m1 : memo_ok m -> new env m a = (o, m1) -> memo_ok m1.
Proof.
  intros [Hd Hf] H. unfold new in H.
  destruct (negb (forallb hashable (norm env a))) eqn:Eh; [inversion H; subst; now split|].
  destruct (find_key (norm env a) m 0) eqn:Ef; [inversion H; subst; now split|].
  destruct (mk_kwargs (norm env a)) as [kw|] eqn:Ek; [|inversion H; subst; now split].
  inversion H; subst; clear H. apply negb_false_iff in Eh. split.
  - intros i j ci cj Hi Hj Hk.
    assert (Hlt : forall n c, nth_error (m ++ [{| c_key := norm env a; c_kwargs := kw; c_warnset := negb (veq (get (norm env a) i_warncls) VWarnDefault) |}]) n = Some c ->
             (n < List.length m /\ nth_error m n = Some c) \/ (n = List.length m /\ c_key c = norm env a)).
    { intros n c Hn. destruct (Nat.lt_ge_cases n (List.length m)) as [L|L].
      - left. split; [exact L|]. now rewrite nth_error_app1 in Hn.
      - right. rewrite nth_error_app2 in Hn by exact L.
        destruct (n - List.length m) as [|q] eqn:Eq; cbn in Hn.
        + inversion Hn; subst. split; [lia|reflexivity].
        + destruct q; discriminate. }
    destruct (Hlt _ _ Hi) as [[Li Ni]|[Ei Ki]], (Hlt _ _ Hj) as [[Lj Nj]|[Ej Kj]].
    + eapply Hd; eauto.
    + exfalso. rewrite Kj in Hk. apply nth_error_In in Ni.
      rewrite (find_key_none _ _ _ Ef _ Ni) in Hk. discriminate.
    + exfalso. rewrite Ki in Hk. rewrite key_eqb_sym in Hk. apply nth_error_In in Nj.
      rewrite (find_key_none _ _ _ Ef _ Nj) in Hk. discriminate.
    + lia.
  - apply Forall_app. split; [exact Hf|]. constructor; [|constructor]. repeat split; cbn; auto.
Qed.

Lemma run_inv env h : forall m os m1, memo_ok m -> run env m h = (os, m1) -> memo_ok m1.
Proof.
  induction h as [|a h IH]; intros m os m1 Hm H; cbn in H; [inversion H; now subst|].
  destruct (new env m a) as [o m0] eqn:E. destruct (run env m0 h) as [os' m2] eqn:E2.
  inversion H; subst. eapply IH; [|exact E2]. eapply new_inv; eauto.
Qed.

(* what a successful call returns *)
Lemma new_conf env m a i m1 :
  new env m a = (OConf i, m1) ->
  exists l c, m1 = m ++ l /\ nth_error m1 i = Some c /\ key_eqb (c_key c) (norm env a) = true.
Proof.
  intros H. unfold new in H.
  destruct (negb (forallb hashable (norm env a))); [discriminate|].
  destruct (find_key (norm env a) m 0) as [j|] eqn:Ef.
  - inversion H; subst. destruct (find_key_some _ _ _ _ Ef) as (_ & c & Hn & Hk).
    rewrite Nat.sub_0_r in Hn. exists [], c. rewrite app_nil_r. auto.
  - destruct (mk_kwargs (norm env a)) as [kw|]; [|discriminate]. inversion H; subst.
    eexists [_], _. split; [reflexivity|]. split.
    + rewrite nth_error_app2 by lia. rewrite Nat.sub_diag. reflexivity.
    + cbn. apply key_eqb_refl.
Qed.

(* ---- 1. equal arguments (in the sense of ==) yield the same object, whatever happened before *)
Theorem same_object env m a b i m1 :
  new env m a = (OConf i, m1) ->
  key_eqb (norm env a) (norm env b) = true ->
  new env m1 b = (OConf i, m1).
Proof.
  intros H Hk. unfold new in *.
  destruct (negb (forallb hashable (norm env a))) eqn:Eh; [discriminate|].
  rewrite <- (key_eqb_hashable _ _ Hk), Eh.
  destruct (find_key (norm env a) m 0) as [j|] eqn:Ef.
  - inversion H; subst. now rewrite <- (find_key_cong _ _ _ _ Hk), Ef.
  - destruct (mk_kwargs (norm env a)) as [kw|]; [|discriminate]. inversion H; subst.
    rewrite <- (find_key_cong _ _ _ _ Hk). rewrite find_key_app_none by exact Ef. cbn.
    now rewrite key_eqb_refl.
Qed.

(* ---- 2. differing arguments yield different objects *)
Theorem distinct_objects env m a b i j m1 m2 :
  new env m a = (OConf i, m1) -> new env m1 b = (OConf j, m2) ->
  key_eqb (norm env a) (norm env b) = false -> i <> j.
Proof.
  intros Ha Hb Hk E. subst j.
  destruct (new_conf _ _ _ _ _ Ha) as (l1 & c1 & E1 & N1 & K1).
  destruct (new_conf _ _ _ _ _ Hb) as (l2 & c2 & E2 & N2 & K2).
  assert (c2 = c1).
  { subst m2. assert (i < List.length m1) by (apply nth_error_Some; congruence).
    rewrite nth_error_app1 in N2 by assumption. congruence. }
  subst c2. rewrite key_eqb_sym in K1. rewrite (key_eqb_trans _ _ _ K1 K2) in Hk. discriminate.
Qed.

(* ---- 3. == between configurations is identity (hence equal objects have equal hashes) *)
Theorem eq_is_identity m i j : memo_ok m -> conf_eq m i j = true -> i = j.
Proof.
  intros [Hd _] H. unfold conf_eq in H.
  destruct (nth_error m i) eqn:Ei, (nth_error m j) eqn:Ej; try discriminate. eapply Hd; eauto.
Qed.

(* ---- 4. validation: uniform for values with no valid look-alike; TypeError for unhashables *)
Theorem invalid_rejected env m a :
  memo_ok m -> forallb hashable (norm env a) = true ->
  (forall k, key_eqb k (norm env a) = true -> mk_kwargs k = None) ->
  new env m a = (ORaiseParam, m).
Proof.
  intros [_ Hf] Hh Hno. unfold new. rewrite Hh. cbn [negb].
  destruct (find_key (norm env a) m 0) as [j|] eqn:Ef.
  - exfalso. destruct (find_key_some _ _ _ _ Ef) as (_ & c & Hn & Hk).
    apply nth_error_In in Hn. rewrite Forall_forall in Hf. destruct (Hf _ Hn) as (_ & Hmk & _).
    rewrite (Hno _ Hk) in Hmk. discriminate.
  - rewrite (Hno _ (key_eqb_refl _)). reflexivity.
Qed.

Theorem unhashable_typeerror env m a :
  forallb hashable (norm env a) = false -> new env m a = (ORaiseTypeError, m).
Proof. intros H. unfold new. now rewrite H. Qed.

(* ---- 5. read-back: the object returned stores the normalisation of a key equal to the call's *)
Theorem readback env m a i m1 :
  memo_ok m -> new env m a = (OConf i, m1) ->
  exists c, nth_error m1 i = Some c /\ key_eqb (c_key c) (norm env a) = true /\
            mk_kwargs (c_key c) = Some (c_kwargs c).
Proof.
  intros Hm H. pose proof (new_inv _ _ _ _ _ Hm H) as [_ Hf].
  destruct (new_conf _ _ _ _ _ H) as (l & c & _ & Hn & Hk). exists c. repeat split; auto.
  rewrite Forall_forall in Hf. apply nth_error_In in Hn. now destruct (Hf _ Hn) as (_ & ? & _).
Qed.

(* valid keys that compare equal are identical: per option ... *)
Definition key_field_ok (i : nat) (v : val) : bool :=
  match i with
  | 11 | 12 | 13 => match v with VNone => true | w => is_exc w end
  | _ => field_ok i v
  end%nat.

Lemma key_field_same i u w :
  key_field_ok i u = true -> key_field_ok i w = true -> veq u w = true -> u = w.
Proof.
  intros Hu Hw H. apply veq_canon in H. unfold canon in H.
  do 17 (destruct i as [|i]; [
    destruct u; cbn in Hu; try discriminate; destruct w; cbn in Hw; try discriminate;
    try (match goal with |- VEnum ?f _ = VEnum ?g _ =>
           destruct f as [|[|[|?]]]; try discriminate; destruct g as [|[|[|?]]]; try discriminate end);
    cbn in H;
    repeat match goal with H : context [existsb ?f ?l] |- _ => destruct (existsb f l) end;
    try discriminate; try congruence;
    try (inversion H; subst; f_equal; lia);
    try (match goal with |- VBool ?a = VBool ?b => destruct a, b; cbn in H; congruence end) |]).
  cbn in Hu. discriminate.
Qed.

Fixpoint key_fields_ok (i : nat) (a : args) : bool :=
  match a with
  | [] => true
  | v :: a' => key_field_ok i v && key_fields_ok (S i) a'
  end.

Lemma key_fields_same a : forall i b,
  key_fields_ok i a = true -> key_fields_ok i b = true -> key_eqb a b = true -> a = b.
Proof.
  unfold key_eqb. induction a as [|u a IH]; intros i [|w b] Ha Hb H; cbn in *; try discriminate; auto.
  apply andb_true_iff in Ha as [Ha1 Ha2], Hb as [Hb1 Hb2], H as [H1 H2].
  f_equal; [eapply key_field_same; eauto|eapply IH; eauto].
Qed.

Lemma length_set a : forall i v, List.length (set a i v) = List.length a.
Proof. induction a as [|x a IH]; intros [|i] v; cbn; auto. Qed.

Lemma fill_default_length vt i d a : List.length (fill_default vt i d a) = List.length a.
Proof. unfold fill_default. destruct (get a i); auto; apply length_set. Qed.

Definition isnone (v : val) : bool := match v with VNone => true | _ => false end.

Lemma isnone_true v : isnone v = true -> v = VNone.
Proof. destruct v; cbn; intros; try discriminate; reflexivity. Qed.

Lemma fill_default_alt vt i d a :
  fill_default vt i d a =
  if isnone (get a i) then set a i (match vt with VNone => VCls d | v => v end) else a.
Proof. unfold fill_default. destruct (get a i); reflexivity. Qed.

Lemma key_field_of_field i v : isnone v = false -> field_ok i v = true -> key_field_ok i v = true.
Proof.
  intros Hn H. unfold key_field_ok.
  do 17 (destruct i as [|i]; [try exact H; destruct v; cbn in *; auto; discriminate|]). exact H.
Qed.

Lemma mk_kwargs_key_ok k kw : mk_kwargs k = Some kw -> List.length k = 17 /\ key_fields_ok 0 k = true.
Proof.
  unfold mk_kwargs. destruct (default_kwargs k) as [d|] eqn:Ed; [|discriminate].
  destruct (valid_kwargs d) eqn:Ev; [|discriminate]. intros _.
  unfold default_kwargs in Ed. cbv zeta in Ed.
  match type of Ed with (if negb ?b then _ else _) = _ => destruct b eqn:Evt end;
    cbn [negb] in Ed; [|discriminate].
  inversion Ed; subst d; clear Ed. unfold valid_kwargs in Ev. apply andb_true_iff in Ev as [El Ev].
  apply Nat.eqb_eq in El. rewrite !fill_default_length in El. split; [exact El|].
  do 17 (destruct k as [|? k]; [discriminate|]). destruct k; [|discriminate]. clear El.
  rewrite !fill_default_alt in Ev.
  unfold get, i_vtype, i_vdoor, i_vparam, i_vreturn in *. cbn [nth] in Ev, Evt.
  destruct (isnone v10) eqn:E10; [apply isnone_true in E10; subst v10|];
  cbn [set nth] in Ev;
  (destruct (isnone v11) eqn:E11; [apply isnone_true in E11; subst v11|]);
  cbn [set nth] in Ev;
  (destruct (isnone v12) eqn:E12; [apply isnone_true in E12; subst v12|]);
  cbn [set nth fields_ok] in Ev;
  repeat match goal with H : (_ && _) = true |- _ => apply andb_true_iff in H as [? ?] end;
  cbn [key_fields_ok];
  repeat (apply andb_true_iff; split); auto;
  try (apply key_field_of_field; assumption).
Qed.

Theorem valid_lookalikes_identical k k' kw kw' :
  mk_kwargs k = Some kw -> mk_kwargs k' = Some kw' -> key_eqb k k' = true -> k = k' /\ kw = kw'.
Proof.
  intros H H' He. destruct (mk_kwargs_key_ok _ _ H) as [_ Hk], (mk_kwargs_key_ok _ _ H') as [_ Hk'].
  assert (k = k') by (eapply key_fields_same; eauto). subst. split; congruence.
Qed.

(* ... so every option of a valid call reads back as (the normalisation of) what was passed *)
Theorem readback_valid env m a i m1 kw :
  memo_ok m -> new env m a = (OConf i, m1) -> mk_kwargs (norm env a) = Some kw ->
  exists c, nth_error m1 i = Some c /\ c_key c = norm env a /\ c_kwargs c = kw.
Proof.
  intros Hm H Hk. destruct (readback _ _ _ _ _ Hm H) as (c & Hn & He & Hc). exists c.
  destruct (valid_lookalikes_identical _ _ _ _ Hc Hk He). auto.
Qed.

(* ---- 6. BeartypeConf( **conf.kwargs ) is conf — when nothing had to be materialised *)
Lemma find_key_distinct m i c :
  memo_distinct m -> nth_error m i = Some c -> find_key (c_key c) m 0 = Some i.
Proof.
  intros Hd Hn. destruct (find_key (c_key c) m 0) as [j|] eqn:Ef.
  - destruct (find_key_some _ _ _ _ Ef) as (_ & c' & Hn' & Hk). rewrite Nat.sub_0_r in Hn'.
    f_equal. eapply Hd; eauto.
  - apply nth_error_In in Hn. pose proof (find_key_none _ _ _ Ef _ Hn) as H.
    rewrite key_eqb_refl in H. discriminate.
Qed.

Theorem roundtrip_partial env m i c :
  memo_ok m -> nth_error m i = Some c ->
  isnone (get (c_key c) i_vdoor) = false -> isnone (get (c_key c) i_vparam) = false ->
  isnone (get (c_key c) i_vreturn) = false -> get (c_key c) i_tower = VBool false ->
  adjust_color env (get (c_key c) i_color) = get (c_key c) i_color ->
  new env m (kwargs_args c) = (OConf i, m).
Proof.
  intros [Hd Hf] Hn H1 H2 H3 Ht Hc.
  pose proof Hn as Hin. apply nth_error_In in Hin. rewrite Forall_forall in Hf.
  destruct (Hf _ Hin) as (Hh & Hmk & _).
  destruct (mk_kwargs_key_ok _ _ Hmk) as [Hl _].
  assert (Hkw : c_kwargs c = c_key c).
  { clear Hf Hd Hn Hin Hh Hc. destruct c as [k kw ws]; cbn [c_key c_kwargs] in *. unfold mk_kwargs, default_kwargs in Hmk.
    cbv zeta in Hmk.
    match type of Hmk with context [if negb ?b then _ else _] => destruct b end; cbn [negb] in Hmk; [|discriminate].
    rewrite (fill_default_alt _ i_vdoor), H1 in Hmk. cbv iota in Hmk.
    rewrite (fill_default_alt _ i_vparam), H2 in Hmk. cbv iota in Hmk.
    rewrite (fill_default_alt _ i_vreturn), H3 in Hmk. cbv iota in Hmk.
    destruct (valid_kwargs k); [|discriminate]. unfold sanify in Hmk. rewrite Ht in Hmk. congruence. }
  assert (Hnorm : norm env (kwargs_args c) = c_key c).
  { unfold kwargs_args. rewrite Hkw. clear Hkw Hmk Hh Hf Hd Hn Hin H1 H2 H3 Ht.
    destruct c as [k kw ws]; cbn [c_key c_kwargs] in *.
    do 17 (destruct k as [|? k]; [discriminate|]). destruct k; [|discriminate].
    unfold norm, fold_deprecated, get, i_dep_func, i_dep_type, i_dep_557, i_color in *.
    cbn [nth app firstn set] in *. now rewrite Hc. }
  unfold new. rewrite Hnorm, Hh. cbn [negb]. now rewrite (find_key_distinct _ _ _ Hd Hn).
Qed.

(* every memo reachable from a well-formed one is well-formed *)
Lemma run_ops_inv env ops : forall m done os m1,
  memo_ok m -> run_ops env m done ops = (os, m1) -> memo_ok m1.
Proof.
  induction ops as [|o ops IH]; intros m done os m1 Hm H; cbn in H; [inversion H; now subst|].
  destruct o as [a|j].
  - destruct (new env m a) as [r m0] eqn:E. eapply IH; [|exact H]. eapply new_inv; eauto.
  - destruct (nth_error done j) as [[id| | |]|]; try (eapply IH; eauto; fail).
    destruct (nth_error m id) as [c|]; [|eapply IH; eauto].
    destruct (new env m (kwargs_args c)) as [r m0] eqn:E. eapply IH; [|exact H]. eapply new_inv; eauto.
Qed.
