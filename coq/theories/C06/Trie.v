(* C06 model: the beartype.claw package registry (hand-written model).

   Mirrors, function by function:
     beartype/claw/_package/clawpkgmain.py   hook_packages, _blacklist_packages,
                                              _whitelist_packages_all/_some
     beartype/claw/_package/clawpkgtrie.py   is_package_blacklisted, iter_packages_trie,
                                              get_package_conf_or_none, is_packages_trie
     beartype/claw/_package/clawpkgcontext.py beartyping()
     beartype/claw/_package/_clawpkgmake.py   make_conf_hookable
   Tied to the code by harness/props/c06.py (lock-step correspondence on histories).
   No proofs in this file: it must keep evaluating when a proof breaks. *)
From Coq Require Import List String Bool Arith.
Import ListNotations.
Local Open Scope string_scope.

Definition name := list string.          (* 'a.b.c'.split('.') *)

Fixpoint name_eqb (a b : name) : bool :=
  match a, b with
  | [], [] => true
  | x :: a', y :: b' => String.eqb x y && name_eqb a' b'
  | _, _ => false
  end.

Fixpoint is_prefix (p n : name) : bool :=
  match p, n with
  | [], _ => true
  | x :: p', y :: n' => String.eqb x y && is_prefix p' n'
  | _ :: _, [] => false
  end.

(* A BeartypeConf, as far as the registry can tell configurations apart:
   [cid] stands for all options the registry does not look at, [cskip] is
   claw_skip_package_names, [cwarn] is warning_cls_on_decorator_exception
   (None = not set by the user; Some 0 = BeartypeClawDecorWarning; Some 1 =
   an explicit None; Some 2 = a user warning class).  [cvia] records that the
   configuration was rebuilt by make_conf_hookable through
   BeartypeConf( **conf.kwargs ): such a rebuilt configuration carries
   materialised defaults in its memo key and so is *unequal* to the
   configuration a user obtains by passing the same options directly (this is
   the C17 round-trip finding; the registry only sees its consequence). *)
Record conf := { cid : nat; cskip : list name; cwarn : option nat; cvia : bool }.

Fixpoint names_eqb (a b : list name) : bool :=
  match a, b with
  | [], [] => true
  | x :: a', y :: b' => name_eqb x y && names_eqb a' b'
  | _, _ => false
  end.

Definition onat_eqb (a b : option nat) : bool :=
  match a, b with
  | None, None => true
  | Some x, Some y => Nat.eqb x y
  | _, _ => false
  end.

Definition conf_eqb (a b : conf) : bool :=
  Nat.eqb (cid a) (cid b) && names_eqb (cskip a) (cskip b) && onat_eqb (cwarn a) (cwarn b)
  && Bool.eqb (cvia a) (cvia b).

Definition oconf_eqb (a b : option conf) : bool :=
  match a, b with
  | None, None => true
  | Some x, Some y => conf_eqb x y
  | _, _ => false
  end.

(* make_conf_hookable *)
Definition hookable (c : conf) : conf :=
  match cwarn c with
  | Some _ => c
  | None => {| cid := cid c; cskip := cskip c; cwarn := Some 0; cvia := true |}
  end.

(* ------------------------------------------------------------------ tries *)

(* PackagesTrieWhitelist: a dict basename -> subtrie plus conf_if_hooked.
   The dict is an association list; lookup finds the first binding, update
   replaces the first binding or appends. *)
Inductive wtrie := WNode : option conf -> list (string * wtrie) -> wtrie.

(* PackagesTrieBlacklist; BLeaf is the PackagesTrieBlacklisted singleton.
   The code can descend *into* the singleton while inserting (mutating it);
   no lookup ever looks inside it, so the model makes BLeaf absorbing. *)
Inductive btrie := BLeaf | BNode : list (string * btrie) -> btrie.

Section Assoc.
  Context {V : Type}.
  Fixpoint assoc (k : string) (l : list (string * V)) : option V :=
    match l with
    | [] => None
    | (k', v) :: l' => if String.eqb k k' then Some v else assoc k l'
    end.
  Fixpoint upd (k : string) (v : V) (l : list (string * V)) : list (string * V) :=
    match l with
    | [] => [(k, v)]
    | (k', v') :: l' => if String.eqb k k' then (k, v) :: l' else (k', v') :: upd k v l'
    end.
End Assoc.

Definition wconf (t : wtrie) : option conf := match t with WNode c _ => c end.
Definition wkids (t : wtrie) : list (string * wtrie) := match t with WNode _ k => k end.
Definition wempty : wtrie := WNode None [].

(* subtrie at a path, None when the walk falls off the trie *)
Fixpoint wt_find (p : name) (t : wtrie) : option wtrie :=
  match p with
  | [] => Some t
  | b :: p' => match assoc b (wkids t) with
               | Some t' => wt_find p' t'
               | None => None
               end
  end.

Definition wt_conf_at (p : name) (t : wtrie) : option conf :=
  match wt_find p t with Some t' => wconf t' | None => None end.

(* _whitelist_packages_some, one name: walk down creating nodes, then
   set conf_if_hooked if unset; None = raise BeartypeClawHookException.
   The nodes created on the way are *kept* when it raises (this is what made
   the unrepaired code non-atomic), so the error case carries the trie. *)
Inductive wres := WOk (t : wtrie) | WRaise (t : wtrie).

Fixpoint wt_insert (p : name) (c : conf) (t : wtrie) : wres :=
  match p with
  | [] => match wconf t with
          | None => WOk (WNode (Some c) (wkids t))
          | Some c' => if conf_eqb c' c then WOk t else WRaise t
          end
  | b :: p' =>
      let sub := match assoc b (wkids t) with Some t' => t' | None => wempty end in
      match wt_insert p' c sub with
      | WOk sub' => WOk (WNode (wconf t) (upd b sub' (wkids t)))
      | WRaise sub' => WRaise (WNode (wconf t) (upd b sub' (wkids t)))
      end
  end.

Fixpoint wt_insert_all (ps : list name) (c : conf) (t : wtrie) : wres :=
  match ps with
  | [] => WOk t
  | p :: ps' => match wt_insert p c t with
                | WOk t' => wt_insert_all ps' c t'
                | WRaise t' => WRaise t'
                end
  end.

(* the read-only conflict pre-check (repair of finding F3) *)
Definition wt_conflict1 (c : conf) (t : wtrie) (p : name) : bool :=
  match wt_conf_at p t with
  | Some c' => negb (conf_eqb c' c)
  | None => false
  end.
Definition wt_conflicts (ps : list name) (c : conf) (t : wtrie) : bool :=
  existsb (wt_conflict1 c t) ps.

(* get_package_conf_or_none, whitelist half: start from the root conf and
   keep the deepest conf met while walking down (iter_packages_trie stops at
   the first missing child). *)
Fixpoint wt_deepest (p : name) (t : wtrie) (acc : option conf) : option conf :=
  match p with
  | [] => acc
  | b :: p' => match assoc b (wkids t) with
               | None => acc
               | Some t' => wt_deepest p' t' (match wconf t' with Some c => Some c | None => acc end)
               end
  end.

(* _blacklist_packages, one name *)
Fixpoint bt_insert (p : name) (t : btrie) : btrie :=
  match t with
  | BLeaf => BLeaf
  | BNode kids =>
      match p with
      | [] => BLeaf            (* not reachable from the API: names are non-empty *)
      | [b] => BNode (upd b BLeaf kids)
      | b :: p' =>
          let sub := match assoc b kids with Some t' => t' | None => BNode [] end in
          BNode (upd b (bt_insert p' sub) kids)
      end
  end.

(* is_package_blacklisted *)
Fixpoint bt_black (p : name) (t : btrie) : bool :=
  match t with
  | BLeaf => true
  | BNode kids =>
      match p with
      | [] => false
      | b :: p' => match assoc b kids with
                   | None => false
                   | Some t' => bt_black p' t'
                   end
      end
  end.

(* ------------------------------------------------------------------ state *)

Record state := {
  wl : wtrie;                          (* claw_state.packages_trie_whitelist *)
  bl : btrie;                          (* claw_state.packages_trie_blacklist *)
  hook : bool;                         (* claw_state.beartype_path_hook is not None *)
  stack : list (option conf * conf)    (* live beartyping() frames: (saved old root conf, hookable conf) *)
}.

Inductive op :=
| OAll (c : conf)                      (* beartype_all(conf=c) *)
| OPkgs (ps : list name) (c : conf)    (* beartype_package(s) / beartype_this_package *)
| OEnter (c : conf)                    (* beartyping(conf=c).__enter__ *)
| OExit.                               (* innermost live beartyping().__exit__ *)

Inductive result := ROk | RConflict | RNoCtx.

Definition result_eqb (a b : result) : bool :=
  match a, b with
  | ROk, ROk | RConflict, RConflict | RNoCtx, RNoCtx => true
  | _, _ => false
  end.

(* built-in exclusions: BLACKLIST_PACKAGE_NAMES | {'beartype'}; regenerated in Gen/C06Builtin.v
   and passed in, so the model itself does not depend on the list *)
Definition init (builtin : list string) : state :=
  {| wl := wempty;
     bl := BNode (map (fun b => (b, BLeaf)) builtin);
     hook := false;
     stack := [] |}.

Definition is_packages_trie (s : state) : bool :=
  match wconf (wl s) with
  | Some _ => true
  | None => match wkids (wl s) with [] => false | _ :: _ => true end
  end.

Definition blacklist_all (ps : list name) (t : btrie) : btrie :=
  fold_left (fun t p => bt_insert p t) ps t.

(* hook_packages under claw_lock, coverage PACKAGES_ALL, conf already hookable *)
Definition hook_all (ch : conf) (s : state) : state * result :=
  match wconf (wl s) with
  | Some c' =>
      if conf_eqb c' ch
      then ({| wl := wl s; bl := blacklist_all (cskip ch) (bl s); hook := true; stack := stack s |}, ROk)
      else (s, RConflict)
  | None =>
      ({| wl := WNode (Some ch) (wkids (wl s)); bl := blacklist_all (cskip ch) (bl s);
          hook := true; stack := stack s |}, ROk)
  end.

Definition step (s : state) (o : op) : state * result :=
  match o with
  | OAll c => hook_all (hookable c) s
  | OPkgs ps c =>
      let ch := hookable c in
      if wt_conflicts ps ch (wl s) then (s, RConflict)
      else
        let b' := blacklist_all (cskip ch) (bl s) in
        match wt_insert_all ps ch (wl s) with
        | WOk t' => ({| wl := t'; bl := b'; hook := true; stack := stack s |}, ROk)
        | WRaise t' => ({| wl := t'; bl := b'; hook := hook s; stack := stack s |}, RConflict)
        end
  | OEnter c =>
      let ch := hookable c in
      let old := wconf (wl s) in
      let s1 := {| wl := WNode None (wkids (wl s)); bl := bl s; hook := hook s;
                   stack := (old, ch) :: stack s |} in
      hook_all ch s1
  | OExit =>
      match stack s with
      | [] => (s, RNoCtx)
      | (old, ch) :: rest =>
          if oconf_eqb (wconf (wl s)) (Some ch)
          then
            let s1 := {| wl := WNode old (wkids (wl s)); bl := bl s; hook := hook s; stack := rest |} in
            if is_packages_trie s1 then (s1, ROk)
            else ({| wl := wl s1; bl := bl s1; hook := false; stack := rest |}, ROk)
          else ({| wl := wl s; bl := bl s; hook := hook s; stack := rest |}, ROk)
      end
  end.

(* get_package_conf_or_none *)
Definition get_conf (s : state) (n : name) : option conf :=
  if bt_black n (bl s) then None
  else wt_deepest n (wl s) (wconf (wl s)).

Fixpoint run (s : state) (ops : list op) : state * list result :=
  match ops with
  | [] => (s, [])
  | o :: ops' => let '(s1, r) := step s o in
                 let '(s2, rs) := run s1 ops' in (s2, r :: rs)
  end.

(* what a client of the registry can observe after a history *)
Definition observe (s : state) (queries : list name) : list (option conf) * bool :=
  (map (get_conf s) queries, hook s).
