(* C06 correspondence glue: compares the model's observations with the ones
   the harness recorded on the implementation; evaluated by vm_compute in
   generated case files.  No proofs. *)
From Coq Require Import List String Bool Arith.
From BT Require Import C06.Trie C06.Spec.
Import ListNotations.

Section ListEq.
  Context {A : Type} (eqb : A -> A -> bool).
  Fixpoint list_eqb (a b : list A) : bool :=
    match a, b with
    | [], [] => true
    | x :: a', y :: b' => eqb x y && list_eqb a' b'
    | _, _ => false
    end.
End ListEq.

Record case := {
  k_ops : list op; k_queries : list name;
  k_results : list result; k_answers : list (option conf); k_hook : bool }.

Definition check_case (builtin : list string) (k : case) : bool :=
  let '(s, rs) := run (init builtin) (k_ops k) in
  list_eqb result_eqb rs (k_results k)
  && list_eqb oconf_eqb (map (get_conf s) (k_queries k)) (k_answers k)
  && Bool.eqb (hook s) (k_hook k).

(* the same through the specification (agrees by C06_refines; evaluated as a
   cross-check of the proof's statement, not instead of it) *)
Definition check_case_spec (builtin : list string) (k : case) : bool :=
  let '(s, rs) := spec_run (spec_init builtin) (k_ops k) in
  list_eqb result_eqb rs (k_results k)
  && list_eqb oconf_eqb (map (spec_get_conf s) (k_queries k)) (k_answers k)
  && Bool.eqb (s_hook s) (k_hook k).

Fixpoint failing_from (i : nat) (f : case -> bool) (ks : list case) : list nat :=
  match ks with
  | [] => []
  | k :: ks' => if f k then failing_from (S i) f ks' else i :: failing_from (S i) f ks'
  end.

Definition failing (builtin : list string) (ks : list case) : list nat :=
  failing_from 0 (fun k => check_case builtin k && check_case_spec builtin k) ks.
