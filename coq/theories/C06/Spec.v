(* C06 specification: the registry as the property text describes it — a flat
   association from dotted names to configurations, a skip set, the
   beartype_all configuration and the hook flag.  Meant to be read in minutes. *)
From Coq Require Import List String Bool Arith.
From BT Require Import C06.Trie.
Import ListNotations.

Fixpoint lookup (n : name) (l : list (name * conf)) : option conf :=
  match l with
  | [] => None
  | (k, c) :: l' => if name_eqb n k then Some c else lookup n l'
  end.

Record spec := {
  s_all : option conf;                    (* beartype_all's configuration, if active *)
  s_reg : list (name * conf);             (* registered package -> configuration *)
  s_skip : list name;                     (* skipped and built-in-excluded packages *)
  s_hook : bool;                          (* beartype's entry is in sys.path_hooks *)
  s_stack : list (option conf * conf)     (* live beartyping() blocks *)
}.

Definition spec_init (builtin : list string) : spec :=
  {| s_all := None; s_reg := []; s_skip := map (fun b => [b]) builtin;
     s_hook := false; s_stack := [] |}.

Definition add_skip (ps : list name) (sk : list name) : list name :=
  fold_left (fun sk p => if existsb (name_eqb p) sk then sk else p :: sk) ps sk.

Definition add_reg (ps : list name) (c : conf) (r : list (name * conf)) : list (name * conf) :=
  fold_left (fun r p => match lookup p r with Some _ => r | None => (p, c) :: r end) ps r.

Definition conflicts (ps : list name) (c : conf) (r : list (name * conf)) : bool :=
  existsb (fun p => match lookup p r with Some c' => negb (conf_eqb c' c) | None => false end) ps.

Definition spec_registered (s : spec) : bool :=
  match s_all s with Some _ => true | None => match s_reg s with [] => false | _ => true end end.

Definition spec_all (ch : conf) (s : spec) : spec * result :=
  match s_all s with
  | Some c' =>
      if conf_eqb c' ch
      then ({| s_all := s_all s; s_reg := s_reg s; s_skip := add_skip (cskip ch) (s_skip s);
               s_hook := true; s_stack := s_stack s |}, ROk)
      else (s, RConflict)
  | None =>
      ({| s_all := Some ch; s_reg := s_reg s; s_skip := add_skip (cskip ch) (s_skip s);
          s_hook := true; s_stack := s_stack s |}, ROk)
  end.

Definition spec_step (s : spec) (o : op) : spec * result :=
  match o with
  | OAll c => spec_all (hookable c) s
  | OPkgs ps c =>
      let ch := hookable c in
      if conflicts ps ch (s_reg s) then (s, RConflict)      (* registry left as it was *)
      else ({| s_all := s_all s; s_reg := add_reg ps ch (s_reg s);
               s_skip := add_skip (cskip ch) (s_skip s); s_hook := true;
               s_stack := s_stack s |}, ROk)
  | OEnter c =>
      let ch := hookable c in
      spec_all ch {| s_all := None; s_reg := s_reg s; s_skip := s_skip s; s_hook := s_hook s;
                     s_stack := (s_all s, ch) :: s_stack s |}
  | OExit =>
      match s_stack s with
      | [] => (s, RNoCtx)
      | (old, ch) :: rest =>
          if oconf_eqb (s_all s) (Some ch)
          then
            let s1 := {| s_all := old; s_reg := s_reg s; s_skip := s_skip s; s_hook := s_hook s;
                         s_stack := rest |} in
            if spec_registered s1 then (s1, ROk)
            else ({| s_all := old; s_reg := s_reg s; s_skip := s_skip s; s_hook := false;
                     s_stack := rest |}, ROk)
          else ({| s_all := s_all s; s_reg := s_reg s; s_skip := s_skip s; s_hook := s_hook s;
                   s_stack := rest |}, ROk)
      end
  end.

(* nearest registered ancestor (the name itself counts), else beartype_all's *)
Fixpoint nearest (pre : name) (rest : name) (r : list (name * conf)) (acc : option conf)
  : option conf :=
  match rest with
  | [] => acc
  | b :: rest' =>
      let pre' := (pre ++ [b])%list in
      nearest pre' rest' r (match lookup pre' r with Some c => Some c | None => acc end)
  end.

Definition spec_get_conf (s : spec) (n : name) : option conf :=
  if existsb (fun sk => is_prefix sk n) (s_skip s) then None
  else nearest [] n (s_reg s) (s_all s).

Fixpoint spec_run (s : spec) (ops : list op) : spec * list result :=
  match ops with
  | [] => (s, [])
  | o :: ops' => let '(s1, r) := spec_step s o in
                 let '(s2, rs) := spec_run s1 ops' in (s2, r :: rs)
  end.

Definition spec_observe (s : spec) (queries : list name) : list (option conf) * bool :=
  (map (spec_get_conf s) queries, s_hook s).
