(* C06 proofs: the trie model refines the flat specification for every history. *)
From Coq Require Import List String Bool Arith Lia.
From BT Require Import C06.Trie C06.Spec.
Import ListNotations.
Local Open Scope list_scope.

(* ------------------------------------------------------------ equalities *)

Lemma name_eqb_refl n : name_eqb n n = true.
Proof. induction n as [|b n IH]; cbn; [reflexivity|]. now rewrite String.eqb_refl, IH. Qed.

Lemma name_eqb_eq a : forall b, name_eqb a b = true -> a = b.
Proof.
  induction a as [|x a IH]; intros [|y b] H; cbn in H; try discriminate; [reflexivity|].
  apply andb_true_iff in H as [H1 H2]. apply String.eqb_eq in H1. f_equal; auto.
Qed.

Lemma name_eqb_neq a b : name_eqb a b = false -> a <> b.
Proof. intros H E. subst. now rewrite name_eqb_refl in H. Qed.

Lemma names_eqb_eq a : forall b, names_eqb a b = true -> a = b.
Proof.
  induction a as [|x a IH]; intros [|y b] H; cbn in H; try discriminate; [reflexivity|].
  apply andb_true_iff in H as [H1 H2]. apply name_eqb_eq in H1. f_equal; auto.
Qed.

Lemma names_eqb_refl a : names_eqb a a = true.
Proof. induction a as [|x a IH]; cbn; [reflexivity|]. now rewrite name_eqb_refl, IH. Qed.

Lemma conf_eqb_refl c : conf_eqb c c = true.
Proof.
  unfold conf_eqb. rewrite Nat.eqb_refl, names_eqb_refl, Bool.eqb_reflx.
  destruct (cwarn c); cbn; [now rewrite Nat.eqb_refl|reflexivity].
Qed.

Lemma conf_eqb_eq a b : conf_eqb a b = true -> a = b.
Proof.
  unfold conf_eqb. intros H.
  apply andb_true_iff in H as [H H4]. apply andb_true_iff in H as [H H3].
  apply andb_true_iff in H as [H1 H2].
  apply Nat.eqb_eq in H1. apply names_eqb_eq in H2. apply Bool.eqb_prop in H4.
  destruct a as [i1 s1 w1 v1], b as [i2 s2 w2 v2]; cbn in *. subst.
  destruct w1 as [x|], w2 as [y|]; cbn in H3; try discriminate; [|reflexivity].
  apply Nat.eqb_eq in H3. now subst.
Qed.

Lemma oconf_eqb_refl c : oconf_eqb c c = true.
Proof. destruct c; cbn; [apply conf_eqb_refl|reflexivity]. Qed.

Lemma oconf_eqb_eq a b : oconf_eqb a b = true -> a = b.
Proof. destruct a, b; cbn; intros H; try discriminate; [f_equal; now apply conf_eqb_eq|reflexivity]. Qed.

(* ------------------------------------------------------------ assoc lists *)

Lemma assoc_upd_same {V} k (v : V) l : assoc k (upd k v l) = Some v.
Proof.
  induction l as [|[k' v'] l IH]; cbn; [now rewrite String.eqb_refl|].
  destruct (String.eqb k k') eqn:E; cbn; [now rewrite String.eqb_refl|now rewrite E].
Qed.

Lemma assoc_upd_other {V} k k' (v : V) l :
  String.eqb k' k = false -> assoc k' (upd k v l) = assoc k' l.
Proof.
  intros N. induction l as [|[k2 v2] l IH]; cbn; [now rewrite N|].
  destruct (String.eqb k k2) eqn:E; cbn.
  - apply String.eqb_eq in E; subst. now rewrite N.
  - destruct (String.eqb k' k2); auto.
Qed.

Lemma upd_not_nil {V} k (v : V) l : upd k v l <> [].
Proof. destruct l as [|[k' v'] l]; cbn; [discriminate|]. destruct (String.eqb k k'); discriminate. Qed.

(* ------------------------------------------------------------ whitelist trie *)

Lemma wt_conf_at_nil t : wt_conf_at [] t = wconf t.
Proof. reflexivity. Qed.

Lemma wt_conf_at_cons b p t :
  wt_conf_at (b :: p) t = match assoc b (wkids t) with Some t' => wt_conf_at p t' | None => None end.
Proof. unfold wt_conf_at; cbn. destruct (assoc b (wkids t)); reflexivity. Qed.

Lemma wt_conf_at_empty p : wt_conf_at p wempty = None.
Proof. destruct p; reflexivity. Qed.

Lemma wt_insert_ok p c : forall t,
  wt_conflict1 c t p = false ->
  exists t', wt_insert p c t = WOk t' /\
    (forall q, wt_conf_at q t' = if name_eqb q p then Some c else wt_conf_at q t) /\
    (wkids t <> [] -> wkids t' <> []) /\ (p <> [] -> wkids t' <> []).
Proof.
  induction p as [|b p IH]; intros t H.
  - unfold wt_conflict1 in H. rewrite wt_conf_at_nil in H. cbn.
    destruct (wconf t) as [c'|] eqn:E.
    + destruct (conf_eqb c' c) eqn:E2; [|discriminate]. apply conf_eqb_eq in E2; subst c'.
      exists t. repeat split; auto; try congruence.
      intros [|x q]; cbn; [exact E|reflexivity].
    + exists (WNode (Some c) (wkids t)). repeat split; auto; try congruence.
      intros [|x q]; cbn; [reflexivity|]. now rewrite !wt_conf_at_cons.
  - unfold wt_conflict1 in H. rewrite wt_conf_at_cons in H. cbn.
    set (sub := match assoc b (wkids t) with Some t' => t' | None => wempty end).
    assert (Hs : wt_conflict1 c sub p = false).
    { unfold wt_conflict1, sub. destruct (assoc b (wkids t)); [exact H|]. now rewrite wt_conf_at_empty. }
    destruct (IH sub Hs) as (sub' & E & Hq & _ & _). rewrite E.
    exists (WNode (wconf t) (upd b sub' (wkids t))). split; [reflexivity|]. split; [|split].
    + intros [|x q]; [reflexivity|]. rewrite wt_conf_at_cons. cbn [wkids name_eqb].
      destruct (String.eqb x b) eqn:Exb.
      * apply String.eqb_eq in Exb; subst x. rewrite assoc_upd_same, Hq. cbn.
        destruct (name_eqb q p); [reflexivity|].
        rewrite wt_conf_at_cons. unfold sub. destruct (assoc b (wkids t)); [reflexivity|apply wt_conf_at_empty].
      * rewrite assoc_upd_other by exact Exb. cbn. now rewrite wt_conf_at_cons.
    + intros _. cbn. apply upd_not_nil.
    + intros _. cbn. apply upd_not_nil.
Qed.

Lemma wt_insert_all_ok ps c : forall t r,
  (forall p, In p ps -> p <> []) ->
  (forall q, q <> [] -> wt_conf_at q t = lookup q r) ->
  wt_conflicts ps c t = false ->
  exists t', wt_insert_all ps c t = WOk t' /\ wconf t' = wconf t /\
    (forall q, q <> [] -> wt_conf_at q t' = lookup q (add_reg ps c r)) /\
    (wkids t <> [] -> wkids t' <> []) /\ (ps <> [] -> wkids t' <> []).
Proof.
  induction ps as [|p ps IH]; intros t r Hne HR Hc.
  - exists t. repeat split; auto; congruence.
  - unfold wt_conflicts in Hc. cbn in Hc. apply orb_false_iff in Hc as [Hc1 Hc2].
    destruct (wt_insert_ok p c t Hc1) as (t1 & E1 & Hq1 & Hk1 & Hk1').
    cbn. rewrite E1.
    assert (Hp : p <> []) by (apply Hne; now left).
    set (r1 := match lookup p r with Some _ => r | None => (p, c) :: r end).
    assert (HR1 : forall q, q <> [] -> wt_conf_at q t1 = lookup q r1).
    { intros q Hqn. rewrite Hq1. unfold r1. destruct (name_eqb q p) eqn:Eqp.
      - apply name_eqb_eq in Eqp; subst q.
        destruct (lookup p r) as [c0|] eqn:El.
        + unfold wt_conflict1 in Hc1. rewrite (HR p Hp), El in Hc1.
          apply negb_false_iff, conf_eqb_eq in Hc1. now subst; rewrite El.
        + cbn. now rewrite name_eqb_refl.
      - destruct (lookup p r) as [c0|] eqn:El; [now apply HR|]. cbn. rewrite Eqp. now apply HR. }
    assert (Hc2' : wt_conflicts ps c t1 = false).
    { unfold wt_conflicts. apply not_true_is_false. intros Hex. apply existsb_exists in Hex as (p' & Hin & Hp').
      unfold wt_conflict1 in Hp'. rewrite Hq1 in Hp'. destruct (name_eqb p' p).
      - now rewrite conf_eqb_refl in Hp'.
      - assert (existsb (wt_conflict1 c t) ps = true) by (apply existsb_exists; exists p'; auto).
        congruence. }
    destruct (IH t1 r1 (fun q Hq => Hne q (or_intror Hq)) HR1 Hc2') as (t' & E & Hw & HR' & Hk & _).
    exists t'. split; [exact E|]. split; [|split; [|split]].
    + rewrite Hw. specialize (Hq1 []). unfold wt_conf_at in Hq1. cbn in Hq1.
      destruct p; [congruence|exact Hq1].
    + exact HR'.
    + auto.
    + intros _. apply Hk, Hk1'. exact Hp.
Qed.

Lemma wt_insert_all_noraise ps c : forall t,
  wt_conflicts ps c t = false -> exists t', wt_insert_all ps c t = WOk t'.
Proof.
  induction ps as [|p ps IH]; intros t Hc; [now exists t|].
  unfold wt_conflicts in Hc. cbn in Hc. apply orb_false_iff in Hc as [Hc1 Hc2].
  destruct (wt_insert_ok p c t Hc1) as (t1 & E1 & Hq1 & _). cbn. rewrite E1. apply IH.
  unfold wt_conflicts. apply not_true_is_false. intros Hex.
  apply existsb_exists in Hex as (p' & Hin & Hp').
  unfold wt_conflict1 in Hp'. rewrite Hq1 in Hp'. destruct (name_eqb p' p).
  - now rewrite conf_eqb_refl in Hp'.
  - assert (existsb (wt_conflict1 c t) ps = true) by (apply existsb_exists; exists p'; auto). congruence.
Qed.

Lemma nearest_none n : forall pre r acc,
  (forall q, q <> [] -> lookup (pre ++ q) r = None) -> nearest pre n r acc = acc.
Proof.
  induction n as [|b n IH]; intros pre r acc H; cbn; [reflexivity|].
  rewrite (H [b]) by discriminate. apply IH. intros q Hq. rewrite <- app_assoc. apply H. discriminate.
Qed.

Lemma wt_deepest_nearest n : forall t pre r acc,
  (forall q, q <> [] -> wt_conf_at q t = lookup (pre ++ q) r) ->
  wt_deepest n t acc = nearest pre n r acc.
Proof.
  induction n as [|b n IH]; intros t pre r acc H; cbn; [reflexivity|].
  destruct (assoc b (wkids t)) as [t'|] eqn:E.
  - assert (Hb := H [b]). rewrite wt_conf_at_cons, E, wt_conf_at_nil in Hb. rewrite <- Hb by discriminate.
    apply IH. intros q Hq. rewrite <- app_assoc. cbn. rewrite <- H by discriminate.
    now rewrite wt_conf_at_cons, E.
  - assert (Hb := H [b]). rewrite wt_conf_at_cons, E in Hb. rewrite <- Hb by discriminate.
    symmetry. apply nearest_none. intros q Hq. rewrite <- app_assoc. cbn.
    rewrite <- H by discriminate. now rewrite wt_conf_at_cons, E.
Qed.

(* ------------------------------------------------------------ blacklist trie *)

Lemma bt_black_leaf n : bt_black n BLeaf = true.
Proof. destruct n; reflexivity. Qed.

Lemma bt_black_node_nil n : bt_black n (BNode []) = false.
Proof. destruct n; reflexivity. Qed.

Lemma bt_insert_black p : forall t n,
  bt_black n (bt_insert p t) = bt_black n t || is_prefix p n.
Proof.
  induction p as [|b p IH]; intros t n.
  - destruct t; cbn; [now rewrite bt_black_leaf|]. rewrite bt_black_leaf. now rewrite orb_true_r.
  - destruct t as [|kids]; [cbn; now rewrite bt_black_leaf|].
    destruct p as [|b' p'].
    + cbn [bt_insert]. destruct n as [|x n]; [reflexivity|]. cbn.
      destruct (String.eqb x b) eqn:E.
      * apply String.eqb_eq in E; subst. rewrite assoc_upd_same, String.eqb_refl. cbn.
        rewrite bt_black_leaf. now rewrite orb_true_r.
      * rewrite assoc_upd_other by exact E. rewrite String.eqb_sym, E. cbn. now rewrite orb_false_r.
    + remember (b' :: p') as pp. cbn [bt_insert]. rewrite Heqpp at 1.
      destruct n as [|x n]; [subst; reflexivity|]. cbn [bt_black is_prefix].
      destruct (String.eqb x b) eqn:E.
      * apply String.eqb_eq in E; subst x. rewrite assoc_upd_same, String.eqb_refl. cbn [andb].
        rewrite IH. destruct (assoc b kids); [reflexivity|]. now rewrite bt_black_node_nil.
      * rewrite assoc_upd_other by exact E. rewrite (String.eqb_sym b x), E. cbn. now rewrite orb_false_r.
Qed.

Lemma blacklist_all_black ps : forall t n,
  bt_black n (blacklist_all ps t) = bt_black n t || existsb (fun p => is_prefix p n) ps.
Proof.
  unfold blacklist_all. induction ps as [|p ps IH]; intros t n; cbn; [now rewrite orb_false_r|].
  rewrite IH, bt_insert_black. now rewrite orb_assoc.
Qed.

Lemma existsb_prefix_mem p sk n :
  existsb (name_eqb p) sk = true -> is_prefix p n = true ->
  existsb (fun s => is_prefix s n) sk = true.
Proof.
  intros H Hp. apply existsb_exists in H as (x & Hin & Hx). apply name_eqb_eq in Hx; subst x.
  apply existsb_exists. now exists p.
Qed.

Lemma add_skip_prefix ps : forall sk n,
  existsb (fun s => is_prefix s n) (add_skip ps sk)
  = existsb (fun s => is_prefix s n) sk || existsb (fun p => is_prefix p n) ps.
Proof.
  unfold add_skip. induction ps as [|p ps IH]; intros sk n; cbn; [now rewrite orb_false_r|].
  rewrite IH. destruct (existsb (name_eqb p) sk) eqn:E.
  - destruct (is_prefix p n) eqn:Ep; cbn; [|reflexivity].
    rewrite (existsb_prefix_mem p sk n E Ep). reflexivity.
  - cbn. rewrite orb_assoc. f_equal. apply orb_comm.
Qed.

(* ------------------------------------------------------------ the simulation *)

Definition names_ok (ps : list name) : Prop := ps <> [] /\ forall p, In p ps -> p <> [].

(* what the public API guarantees about its arguments: a registration names
   at least one package and every package name has at least one component
   ('x'.split('.') is never empty; make_package_names_from_args rejects an
   empty iterable) *)
Definition op_ok (o : op) : Prop :=
  match o with OPkgs ps _ => names_ok ps | _ => True end.

Record R (s : state) (a : spec) : Prop := {
  R_all : wconf (wl s) = s_all a;
  R_reg : forall q, q <> [] -> wt_conf_at q (wl s) = lookup q (s_reg a);
  R_skip : forall n, bt_black n (bl s) = existsb (fun sk => is_prefix sk n) (s_skip a);
  R_hook : hook s = s_hook a;
  R_stack : stack s = s_stack a;
  R_kids : wkids (wl s) = [] <-> s_reg a = []
}.

Lemma R_init builtin : R (init builtin) (spec_init builtin).
Proof.
  split; cbn; auto; try tauto.
  - intros q Hq. destruct q; [congruence|reflexivity].
  - intros n. destruct n as [|x n]; cbn.
    + induction builtin; cbn; auto.
    + induction builtin as [|b bs IH]; cbn; [reflexivity|].
      rewrite (String.eqb_sym b x). destruct (String.eqb x b); cbn; [now rewrite bt_black_leaf|exact IH].
Qed.

Lemma conflicts_agree ps c s a :
  R s a -> (forall p, In p ps -> p <> []) ->
  wt_conflicts ps c (wl s) = conflicts ps c (s_reg a).
Proof.
  intros HR Hne. unfold wt_conflicts, conflicts. induction ps as [|p ps IH]; cbn; [reflexivity|].
  rewrite IH by (intros; apply Hne; now right). f_equal.
  unfold wt_conflict1. rewrite (R_reg _ _ HR) by (apply Hne; now left). reflexivity.
Qed.

Lemma add_reg_nonnil ps c : forall r, r <> [] -> add_reg ps c r <> [].
Proof.
  unfold add_reg. induction ps as [|p ps IH]; intros r Hr; cbn; [exact Hr|].
  apply IH. destruct (lookup p r); [exact Hr|discriminate].
Qed.

Lemma add_reg_nonnil' ps c r : ps <> [] -> add_reg ps c r <> [].
Proof.
  destruct ps as [|p ps]; [congruence|]. intros _. unfold add_reg. cbn. apply add_reg_nonnil.
  destruct (lookup p r) eqn:E; [|discriminate]. destruct r; [discriminate|discriminate].
Qed.

Lemma hook_all_sim ch s a :
  R s a ->
  R (fst (hook_all ch s)) (fst (spec_all ch a)) /\ snd (hook_all ch s) = snd (spec_all ch a).
Proof.
  intros [Ha Hr Hs Hh Hst Hk]. unfold hook_all, spec_all. rewrite <- Ha.
  destruct (wconf (wl s)) as [c'|] eqn:E.
  - destruct (conf_eqb c' ch); cbn; [|split; [split; auto; congruence|reflexivity]].
    split; [|reflexivity]. split; cbn; auto; try congruence.
    intros n. rewrite blacklist_all_black, add_skip_prefix, Hs. reflexivity.
  - cbn. split; [|reflexivity]. split; cbn; auto; try congruence.
    + intros q Hq. rewrite <- (Hr q Hq). destruct q; [congruence|].
      now rewrite !wt_conf_at_cons.
    + intros n. rewrite blacklist_all_black, add_skip_prefix, Hs. reflexivity.
Qed.

Lemma is_trie_agree s a : R s a -> is_packages_trie s = spec_registered a.
Proof.
  intros [Ha Hr Hs Hh Hst Hk]. unfold is_packages_trie, spec_registered. rewrite Ha.
  destruct (s_all a); [reflexivity|].
  destruct (wkids (wl s)) eqn:E1, (s_reg a) eqn:E2; auto.
  - destruct Hk as [Hk _]. specialize (Hk eq_refl). discriminate.
  - destruct Hk as [_ Hk]. specialize (Hk eq_refl). discriminate.
Qed.

Theorem step_sim s a o :
  R s a -> op_ok o ->
  R (fst (step s o)) (fst (spec_step a o)) /\ snd (step s o) = snd (spec_step a o).
Proof.
  intros HR Hok. destruct o as [c|ps c|c|].
  - (* beartype_all *) cbn. now apply hook_all_sim.
  - (* beartype_packages *)
    destruct Hok as [Hne Hall]. cbn [step spec_step].
    rewrite (conflicts_agree ps (hookable c) s a HR Hall).
    destruct (conflicts ps (hookable c) (s_reg a)) eqn:Ec; [now split|].
    rewrite <- (conflicts_agree ps (hookable c) s a HR Hall) in Ec.
    destruct HR as [Ha Hr Hs Hh Hst Hk].
    destruct (wt_insert_all_ok ps (hookable c) (wl s) (s_reg a) Hall Hr Ec)
      as (t' & E & Hw & Hr' & Hk1 & Hk2).
    rewrite E. cbn. split; [|reflexivity]. split; cbn; auto; try congruence.
    + intros n. rewrite blacklist_all_black, add_skip_prefix, Hs. reflexivity.
    + split; intros H.
      * exfalso. now apply (Hk2 Hne).
      * exfalso. now apply (add_reg_nonnil' ps (hookable c) (s_reg a) Hne).
  - (* beartyping: enter *)
    cbn [step spec_step]. apply hook_all_sim.
    destruct HR as [Ha Hr Hs Hh Hst Hk]. split; cbn; auto; try congruence.
    intros q Hq. rewrite <- (Hr q Hq). destruct q; [congruence|]. now rewrite !wt_conf_at_cons.
  - (* beartyping: exit *)
    cbn [step spec_step]. pose proof HR as [Ha Hr Hs Hh Hst Hk]. rewrite <- Hst.
    destruct (stack s) as [|[old ch] rest] eqn:Est; [now split|].
    rewrite <- Ha. destruct (oconf_eqb (wconf (wl s)) (Some ch)) eqn:Eq.
    + assert (HR1 : R {| wl := WNode old (wkids (wl s)); bl := bl s; hook := hook s; stack := rest |}
                      {| s_all := old; s_reg := s_reg a; s_skip := s_skip a; s_hook := s_hook a;
                         s_stack := rest |}).
      { split; cbn; auto. intros q Hq. rewrite <- (Hr q Hq). destruct q; [congruence|].
        now rewrite !wt_conf_at_cons. }
      rewrite (is_trie_agree _ _ HR1).
      match goal with |- context [if ?b then _ else _] => destruct b end; cbn.
      * now split.
      * split; [|reflexivity]. destruct HR1 as [Ha1 Hr1 Hs1 Hh1 Hst1 Hk1]. split; cbn in *; auto.
    + cbn. split; [|reflexivity]. split; cbn; auto.
Qed.

Lemma run_sim ops : forall s a,
  R s a -> Forall op_ok ops ->
  R (fst (run s ops)) (fst (spec_run a ops)) /\ snd (run s ops) = snd (spec_run a ops).
Proof.
  induction ops as [|o ops IH]; intros s a HR Hok; cbn; [now split|].
  inversion Hok as [|? ? Ho Hops]; subst.
  destruct (step_sim s a o HR Ho) as [HR1 Hr1].
  destruct (step s o) as [s1 r1], (spec_step a o) as [a1 r1']. cbn in *.
  destruct (IH s1 a1 HR1 Hops) as [HR2 Hr2].
  destruct (run s1 ops) as [s2 rs], (spec_run a1 ops) as [a2 rs']. cbn in *.
  split; [exact HR2|congruence].
Qed.

Lemma get_conf_sim s a n : R s a -> get_conf s n = spec_get_conf a n.
Proof.
  intros [Ha Hr Hs Hh Hst Hk]. unfold get_conf, spec_get_conf. rewrite Hs, Ha.
  destruct (existsb _ _); [reflexivity|]. apply wt_deepest_nearest. exact Hr.
Qed.

(* -------- the registry refines the specification, for every history -------- *)
Theorem refines builtin ops queries :
  Forall op_ok ops ->
  snd (run (init builtin) ops) = snd (spec_run (spec_init builtin) ops) /\
  observe (fst (run (init builtin) ops)) queries
  = spec_observe (fst (spec_run (spec_init builtin) ops)) queries.
Proof.
  intros Hok. destruct (run_sim ops _ _ (R_init builtin) Hok) as [HR Hrs]. split; [exact Hrs|].
  unfold observe, spec_observe. f_equal; [|apply (R_hook _ _ HR)].
  apply map_ext. intros n. now apply get_conf_sim.
Qed.

(* -------- a conflicting registration changes nothing (trie level, any state) -------- *)
Theorem conflict_atomic s o s' : step s o = (s', RConflict) -> s' = s.
Proof.
  destruct o as [c|ps c|c|]; cbn.
  - unfold hook_all. destruct (wconf (wl s)); [destruct (conf_eqb _ _)|]; intros H; inversion H; reflexivity.
  - destruct (wt_conflicts ps (hookable c) (wl s)) eqn:Ec; [intros H; now inversion H|].
    destruct (wt_insert_all_noraise ps (hookable c) (wl s) Ec) as [t' E]. rewrite E.
    intros H; inversion H.
  - unfold hook_all. cbn. intros H; inversion H.
  - destruct (stack s) as [|[old ch] rest]; [intros H; inversion H|].
    destruct (oconf_eqb _ _); [|intros H; inversion H].
    match goal with |- context [if ?b then _ else _] => destruct b end; intros H; inversion H.
Qed.

(* ------------------------------------------------------------ spec-level laws *)

(* lookup: the three clauses of the property, on the specification *)
Lemma nearest_acc n : forall pre r acc,
  (forall q, q <> [] -> is_prefix q n = true -> lookup (pre ++ q) r = None) ->
  nearest pre n r acc = acc.
Proof.
  induction n as [|b n IH]; intros pre r acc H; cbn; [reflexivity|].
  rewrite (H [b]); [|discriminate|cbn; now rewrite String.eqb_refl].
  apply IH. intros q Hq Hp. rewrite <- app_assoc. apply H; [discriminate|].
  cbn. now rewrite String.eqb_refl.
Qed.

Lemma nearest_app p : forall pre q r acc,
  nearest pre (p ++ q) r acc = nearest (pre ++ p) q r (nearest pre p r acc).
Proof.
  induction p as [|b p IH]; intros pre q r acc; cbn; [now rewrite app_nil_r|].
  rewrite IH. now rewrite <- app_assoc.
Qed.

Lemma nearest_last p : forall pre r acc c,
  p <> [] -> lookup (pre ++ p) r = Some c -> nearest pre p r acc = Some c.
Proof.
  induction p as [|b p IH]; intros pre r acc c Hp H; [congruence|]. cbn.
  destruct p as [|b' p'].
  - cbn. now rewrite H.
  - apply IH; [discriminate|]. now rewrite <- app_assoc.
Qed.

Theorem spec_lookup_skipped a n sk :
  In sk (s_skip a) -> is_prefix sk n = true -> spec_get_conf a n = None.
Proof.
  intros Hin Hp. unfold spec_get_conf.
  assert (E : existsb (fun sk => is_prefix sk n) (s_skip a) = true) by (apply existsb_exists; eauto).
  now rewrite E.
Qed.

Theorem spec_lookup_nearest a p q c :
  existsb (fun sk => is_prefix sk (p ++ q)) (s_skip a) = false ->
  p <> [] -> lookup p (s_reg a) = Some c ->
  (forall q', q' <> [] -> is_prefix q' q = true -> lookup (p ++ q') (s_reg a) = None) ->
  spec_get_conf a (p ++ q) = Some c.
Proof.
  intros Hs Hp Hl Hnone. unfold spec_get_conf. rewrite Hs, nearest_app. cbn.
  rewrite (nearest_last p [] (s_reg a) (s_all a) c Hp Hl). now apply nearest_acc.
Qed.

Theorem spec_lookup_all a n :
  existsb (fun sk => is_prefix sk n) (s_skip a) = false ->
  (forall q, q <> [] -> is_prefix q n = true -> lookup q (s_reg a) = None) ->
  spec_get_conf a n = s_all a.
Proof.
  intros Hs Hnone. unfold spec_get_conf. rewrite Hs. now apply nearest_acc.
Qed.

(* re-registration with an equal configuration changes nothing *)
Lemma lookup_add_reg_mono ps c : forall r p, lookup p r <> None -> lookup p (add_reg ps c r) <> None.
Proof.
  unfold add_reg. induction ps as [|x ps IH]; intros r p H; cbn; [exact H|]. apply IH.
  destruct (lookup x r); [exact H|]. cbn. destruct (name_eqb p x); [discriminate|exact H].
Qed.

Lemma lookup_add_reg_in ps c : forall r p, In p ps -> lookup p (add_reg ps c r) <> None.
Proof.
  unfold add_reg. induction ps as [|x ps IH]; intros r p Hin; [destruct Hin|]. cbn.
  destruct Hin as [->|Hin]; [|now apply IH].
  apply lookup_add_reg_mono. destruct (lookup p r) eqn:E; [now rewrite E|].
  cbn. now rewrite name_eqb_refl.
Qed.

Lemma add_reg_noop ps c : forall r, (forall p, In p ps -> lookup p r <> None) -> add_reg ps c r = r.
Proof.
  unfold add_reg. induction ps as [|x ps IH]; intros r H; cbn; [reflexivity|].
  destruct (lookup x r) eqn:E; [apply IH; intros; apply H; now right|].
  exfalso. apply (H x); [now left|exact E].
Qed.

Lemma add_skip_mono ps : forall sk p, existsb (name_eqb p) sk = true -> existsb (name_eqb p) (add_skip ps sk) = true.
Proof.
  unfold add_skip. induction ps as [|x ps IH]; intros sk p H; cbn; [exact H|]. apply IH.
  destruct (existsb (name_eqb x) sk); [exact H|]. cbn. now rewrite H, orb_true_r.
Qed.

Lemma add_skip_in ps : forall sk p, In p ps -> existsb (name_eqb p) (add_skip ps sk) = true.
Proof.
  unfold add_skip. induction ps as [|x ps IH]; intros sk p Hin; [destruct Hin|]. cbn.
  destruct Hin as [->|Hin]; [|now apply IH]. apply add_skip_mono.
  destruct (existsb (name_eqb p) sk) eqn:E; [exact E|]. cbn. now rewrite name_eqb_refl.
Qed.

Lemma add_skip_noop ps : forall sk, (forall p, In p ps -> existsb (name_eqb p) sk = true) -> add_skip ps sk = sk.
Proof.
  unfold add_skip. induction ps as [|x ps IH]; intros sk H; cbn; [reflexivity|].
  rewrite (H x) by now left. apply IH. intros; apply H; now right.
Qed.

Lemma conflicts_after_add ps c r :
  conflicts ps c r = false -> conflicts ps c (add_reg ps c r) = false.
Proof.
  intros Hc. unfold conflicts in *. apply not_true_is_false. intros Hex.
  apply existsb_exists in Hex as (p & Hin & Hp).
  assert (Hold : match lookup p r with Some c' => negb (conf_eqb c' c) | None => false end = false).
  { apply not_true_is_false. intros Ht. assert (existsb (fun p => match lookup p r with Some c' => negb (conf_eqb c' c) | None => false end) ps = true) by (apply existsb_exists; eauto). congruence. }
  clear Hc Hin. revert r Hp Hold. unfold add_reg. induction ps as [|x ps IH]; intros r Hp Hold; cbn in Hp.
  - congruence.
  - apply (IH _ Hp). destruct (lookup x r) eqn:Ex; [exact Hold|]. cbn.
    destruct (name_eqb p x); [now rewrite conf_eqb_refl|exact Hold].
Qed.

Theorem spec_idempotent a o a1 :
  match o with OAll _ | OPkgs _ _ => True | _ => False end ->
  spec_step a o = (a1, ROk) -> spec_step a1 o = (a1, ROk).
Proof.
  destruct o as [c|ps c|c|]; intros Hk H; try destruct Hk; cbn in *.
  - unfold spec_all in *. destruct (s_all a) as [c'|] eqn:E.
    + destruct (conf_eqb c' (hookable c)) eqn:Ec; inversion H; subst; clear H. cbn. rewrite ?E, Ec.
      rewrite add_skip_noop by (intros; now apply add_skip_in). reflexivity.
    + inversion H; subst; clear H. cbn. rewrite conf_eqb_refl.
      rewrite add_skip_noop by (intros; now apply add_skip_in). reflexivity.
  - destruct (conflicts ps (hookable c) (s_reg a)) eqn:Ec; inversion H; subst; clear H. cbn.
    rewrite (conflicts_after_add _ _ _ Ec).
    rewrite add_skip_noop by (intros; now apply add_skip_in).
    rewrite add_reg_noop by (intros; now apply lookup_add_reg_in). reflexivity.
Qed.

Theorem spec_conflict_atomic a o a1 : spec_step a o = (a1, RConflict) -> a1 = a.
Proof.
  destruct o as [c|ps c|c|]; cbn.
  - unfold spec_all. destruct (s_all a); [destruct (conf_eqb _ _)|]; intros H; now inversion H.
  - destruct (conflicts _ _ _); intros H; now inversion H.
  - unfold spec_all. cbn. intros H; inversion H.
  - destruct (s_stack a) as [|[old ch] rest]; [intros H; inversion H|].
    destruct (oconf_eqb _ _); [|intros H; inversion H].
    match goal with |- context [if ?b then _ else _] => destruct b end; intros H; inversion H.
Qed.

(* ------------------------------------------------------------ beartyping() blocks *)

Fixpoint stack_ok (cur : option conf) (st : list (option conf * conf)) : Prop :=
  match st with
  | [] => True
  | (old, ch) :: rest => cur = Some ch /\ stack_ok old rest
  end.

Definition hook_inv (a : spec) : Prop := s_hook a = spec_registered a.
Definition spec_inv (a : spec) : Prop := stack_ok (s_all a) (s_stack a) /\ hook_inv a.

Lemma spec_inv_init builtin : spec_inv (spec_init builtin).
Proof. split; cbn; [exact I|reflexivity]. Qed.

Lemma spec_all_inv ch a : spec_inv a -> spec_inv (fst (spec_all ch a)).
Proof.
  intros [Hs Hh]. unfold spec_all. destruct (s_all a) as [c'|] eqn:E.
  - destruct (conf_eqb c' ch); cbn; [|split; [now rewrite E|exact Hh]].
    split; cbn; [now rewrite ?E|]. unfold hook_inv, spec_registered. cbn. now rewrite ?E.
  - cbn. split; cbn.
    + destruct (s_stack a) as [|[old c0] rest]; [exact I|]. cbn in Hs. destruct Hs; congruence.
    + reflexivity.
Qed.

Lemma spec_step_inv a o : spec_inv a -> op_ok o -> spec_inv (fst (spec_step a o)).
Proof.
  intros Hi Hok. destruct o as [c|ps c|c|]; cbn [spec_step].
  - now apply spec_all_inv.
  - destruct Hi as [Hs Hh]. destruct (conflicts _ _ _); cbn; [now split|]. split; cbn; [exact Hs|].
    unfold hook_inv, spec_registered. cbn. destruct (s_all a); [reflexivity|].
    destruct Hok as [Hne _]. pose proof (add_reg_nonnil' ps (hookable c) (s_reg a) Hne).
    destruct (add_reg ps (hookable c) (s_reg a)); [congruence|reflexivity].
  - destruct Hi as [Hs Hh]. unfold spec_all. cbn. split; cbn; [now split|reflexivity].
  - destruct Hi as [Hs Hh]. destruct (s_stack a) as [|[old ch] rest] eqn:Est;
      [cbn; split; [now rewrite Est|exact Hh]|].
    cbn in Hs. destruct Hs as [Hcur Hrest]. rewrite Hcur. cbn. rewrite conf_eqb_refl.
    match goal with |- context [if ?b then _ else _] => destruct b eqn:Eb end; cbn.
    + split; cbn; [exact Hrest|]. unfold hook_inv in *. unfold spec_registered in *. cbn in *.
      rewrite Eb, Hh. now rewrite Hcur.
    + split; cbn; [exact Hrest|]. unfold hook_inv. unfold spec_registered in *. cbn in *. now rewrite Eb.
Qed.

Lemma spec_run_inv ops : forall a, spec_inv a -> Forall op_ok ops -> spec_inv (fst (spec_run a ops)).
Proof.
  induction ops as [|o ops IH]; intros a Hi Hok; cbn; [exact Hi|].
  inversion Hok as [|? ? Ho Hops]; subst.
  pose proof (spec_step_inv a o Hi Ho) as H1.
  destruct (spec_step a o) as [a1 r1]. cbn in *.
  specialize (IH a1 H1 Hops). destruct (spec_run a1 ops) as [a2 rs]. exact IH.
Qed.

Lemma spec_run_app ops1 : forall a ops2,
  fst (spec_run a (ops1 ++ ops2)) = fst (spec_run (fst (spec_run a ops1)) ops2).
Proof.
  induction ops1 as [|o ops1 IH]; intros a ops2; cbn; [reflexivity|].
  destruct (spec_step a o) as [a1 r1]. specialize (IH a1 ops2).
  destruct (spec_run a1 (ops1 ++ ops2)) as [a2 rs], (spec_run a1 ops1) as [a3 rs3]. cbn in *. exact IH.
Qed.

(* well-nested bodies: every exit inside the body closes a block opened inside it *)
Fixpoint balanced (d : nat) (ops : list op) : bool :=
  match ops with
  | [] => Nat.eqb d 0
  | OEnter _ :: r => balanced (S d) r
  | OExit :: r => match d with 0 => false | S d' => balanced d' r end
  | _ :: r => balanced d r
  end.

Lemma spec_step_stack a o :
  s_stack (fst (spec_step a o)) =
  match o with
  | OEnter c => (s_all a, hookable c) :: s_stack a
  | OExit => tl (s_stack a)
  | _ => s_stack a
  end.
Proof.
  destruct o as [c|ps c|c|]; cbn.
  - unfold spec_all. destruct (s_all a); [destruct (conf_eqb _ _)|]; reflexivity.
  - destruct (conflicts _ _ _); reflexivity.
  - reflexivity.
  - destruct (s_stack a) as [|[old ch] rest] eqn:Est; [cbn; now rewrite Est|].
    destruct (oconf_eqb _ _); [|reflexivity].
    match goal with |- context [if ?b then _ else _] => destruct b end; reflexivity.
Qed.

Lemma balanced_stack body : forall d a pre base,
  balanced d body = true -> s_stack a = pre ++ base -> List.length pre = d ->
  s_stack (fst (spec_run a body)) = base.
Proof.
  induction body as [|o body IH]; intros d a pre base Hb Hst Hlen; cbn in *.
  - apply Nat.eqb_eq in Hb. subst d. destruct pre; [exact Hst|discriminate].
  - pose proof (spec_step_stack a o) as Hs.
    destruct (spec_step a o) as [a1 r1]. cbn in Hs.
    assert (exists d1 pre1, balanced d1 body = true /\ s_stack a1 = pre1 ++ base /\ List.length pre1 = d1) as (d1 & pre1 & H1 & H2 & H3).
    { destruct o as [c|ps c|c|].
      - exists d, pre. rewrite Hs. auto.
      - exists d, pre. rewrite Hs. auto.
      - exists (S d), ((s_all a, hookable c) :: pre). rewrite Hs, Hst. cbn. auto.
      - destruct d as [|d']; [discriminate|]. destruct pre as [|x pre']; [discriminate|].
        exists d', pre'. rewrite Hs, Hst. cbn in *. auto. }
    specialize (IH d1 a1 pre1 base H1 H2 H3). destruct (spec_run a1 body). exact IH.
Qed.

(* leaving a block restores the beartype_all configuration and the block stack
   that preceded it, whatever well-nested body ran inside *)
Theorem context_restore_root a c body :
  spec_inv a -> Forall op_ok body -> balanced 0 body = true ->
  let a' := fst (spec_run a (OEnter c :: body ++ [OExit])) in
  s_all a' = s_all a /\ s_stack a' = s_stack a.
Proof.
  intros Hi Hok Hb. cbn zeta.
  change (OEnter c :: body ++ [OExit]) with ([OEnter c] ++ body ++ [OExit]).
  rewrite spec_run_app. rewrite spec_run_app.
  set (a1 := fst (spec_run a [OEnter c])).
  assert (Hi1 : spec_inv a1) by (apply spec_run_inv; [exact Hi|repeat constructor]).
  assert (Hst1 : s_stack a1 = (s_all a, hookable c) :: s_stack a).
  { unfold a1. cbn. reflexivity. }
  set (a2 := fst (spec_run a1 body)).
  assert (Hi2 : spec_inv a2) by (apply spec_run_inv; assumption).
  assert (Hst2 : s_stack a2 = (s_all a, hookable c) :: s_stack a).
  { unfold a2. apply (balanced_stack body 0 a1 [] _ Hb); [exact Hst1|reflexivity]. }
  destruct Hi2 as [Hs2 Hh2]. rewrite Hst2 in Hs2. cbn in Hs2. destruct Hs2 as [Hcur _].
  cbn. rewrite Hst2, Hcur. cbn. rewrite conf_eqb_refl.
  match goal with |- context [if ?b then _ else _] => destruct b end; cbn; now split.
Qed.

(* an empty block whose configuration skips nothing is the identity on the whole registry *)
Theorem context_restore_exact a c :
  spec_inv a -> cskip c = [] -> fst (spec_run a [OEnter c; OExit]) = a.
Proof.
  intros [Hs Hh] Hsk. cbn. unfold spec_all. cbn.
  assert (Hk : cskip (hookable c) = []) by (unfold hookable; destruct (cwarn c); exact Hsk).
  rewrite Hk. cbn. rewrite conf_eqb_refl.
  unfold hook_inv in Hh. unfold spec_registered in *. cbn.
  destruct a as [al rg sk hk st]; cbn in *.
  destruct al; [now subst|]. destruct rg; now subst.
Qed.
