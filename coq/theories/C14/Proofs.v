(* C14 proofs: when memoisation is invisible, and the histories on which it is not. *)
From Coq Require Import List ZArith Bool Arith String Lia.
From BT Require Import Gen.ClassTable Core.PyVal C14.Memo.
Import ListNotations.
Local Open Scope list_scope.

Section Proofs.
  Variable f : pyval -> outcome.

  (* ------------------------------------------------------------ @callable_cached *)

  (* the memoised callable cannot tell apart arguments that Python's == (and hash) identify *)
  Definition congruent : Prop :=
    forall k k', hashable k = true -> hashable k' = true -> py_eq k' k = true -> f k' = f k.

  Definition einv (c : ecache) : Prop := forall k o, In (k, o) c -> o = f k /\ hashable k = true.

  Lemma elookup_sound c k o : congruent -> einv c -> hashable k = true -> elookup k c = Some o -> o = f k.
  Proof.
    intros Hc Hinv Hk. induction c as [|[k' o'] c IH]; cbn; [discriminate|].
    destruct (py_eq k' k) eqn:E.
    - intros H. inversion H; subst. destruct (Hinv k' o (or_introl eq_refl)) as [-> Hk']. now apply Hc.
    - apply IH. intros a b Hin. apply Hinv. now right.
  Qed.

  Theorem callable_cached_invisible ops : congruent -> forall c, einv c -> map fst (erun f c ops) = eref f ops.
  Proof.
    intros Hc. induction ops as [|[k|] ops IH]; intros c Hinv; cbn [erun eref map]; [reflexivity| |].
    - unfold ecall. destruct (hashable k) eqn:Hk.
      + destruct (elookup k c) as [o|] eqn:El.
        * cbn [map fst]. rewrite (elookup_sound c k o Hc Hinv Hk El). f_equal. now apply IH.
        * cbn [map fst]. f_equal. apply IH. intros a b [H|H]; [inversion H; subst; auto|now apply Hinv].
      + cbn [map fst]. f_equal. now apply IH.
    - apply IH. intros a b [].
  Qed.

  (* the underlying callable runs at most once per class of equal hashable arguments between clears *)
  Theorem callable_cached_hit c k o : elookup k c = Some o -> hashable k = true -> snd (ecall f c k) = false.
  Proof. intros El Hk. unfold ecall. now rewrite Hk, El. Qed.

  (* ------------------------------------------------------------ @method_cached_arg_by_id *)

  Lemma hget_hdel_same i h : hget i (hdel i h) = None.
  Proof. induction h as [|[j v] h IH]; [reflexivity|]. cbn. destruct (Nat.eqb j i) eqn:E; [exact IH|]. cbn. now rewrite E. Qed.

  Lemma hget_hdel_other i j h : i <> j -> hget j (hdel i h) = hget j h.
  Proof.
    intros Hne. induction h as [|[a v] h IH]; [reflexivity|]. cbn.
    destruct (Nat.eqb a i) eqn:E.
    - apply Nat.eqb_eq in E. subst a. destruct (Nat.eqb i j) eqn:E2; [apply Nat.eqb_eq in E2; congruence|exact IH].
    - cbn. destruct (Nat.eqb a j); [reflexivity|exact IH].
  Qed.

  Definition iinv (h : heap) (c : icache) (called : list nat) : Prop :=
    forall i o, iget i c = Some o -> In i called /\ exists v, hget i h = Some v /\ o = f v.

  Theorem cached_by_id_invisible_when_pinned ops :
    forall h c called, iinv h c called -> wf_ops h ops = true -> pinned called ops = true ->
    irun f h c ops = iref f h ops.
  Proof.
    induction ops as [|[i v|i|i|] ops IH]; intros h c called Hinv Hwf Hpin; cbn [irun iref]; [reflexivity| | | |].
    - (* allocation at a dead identifier *)
      cbn [wf_ops] in Hwf. destruct (hget i h) eqn:Eh; [discriminate|].
      apply (IH _ _ called); auto. intros j o Hj. destruct (Hinv j o Hj) as [Hc (w & Hw & Ho)].
      split; [exact Hc|]. exists w. split; [|exact Ho].
      assert (i <> j) by (intros ->; congruence).
      cbn [hget]. destruct (Nat.eqb i j) eqn:E; [apply Nat.eqb_eq in E; congruence|]. now rewrite hget_hdel_other.
    - (* garbage collection of an object that was never memoised on *)
      cbn [wf_ops pinned] in *. apply andb_true_iff in Hpin as [Hnot Hpin].
      apply (IH _ _ called); auto. intros j o Hj. destruct (Hinv j o Hj) as [Hc (w & Hw & Ho)].
      split; [exact Hc|]. exists w. split; [|exact Ho]. rewrite hget_hdel_other; [exact Hw|].
      intros ->. apply negb_true_iff in Hnot. assert (existsb (Nat.eqb j) called = true); [|congruence].
      apply existsb_exists. exists j. split; [exact Hc|apply Nat.eqb_refl].
    - (* a call *)
      cbn [wf_ops pinned] in *. destruct (hget i h) as [v|] eqn:Eh.
      + destruct (iget i c) as [o|] eqn:Ec.
        * destruct (Hinv i o Ec) as [_ (w & Hw & ->)]. rewrite Eh in Hw. inversion Hw; subst. f_equal.
          apply (IH _ _ (i :: called)); auto. intros j o Hj. destruct (Hinv j o Hj) as [Hc' R]. split; [now right|exact R].
        * f_equal. apply (IH _ _ (i :: called)); auto. intros j o. cbn [iget]. destruct (Nat.eqb i j) eqn:E.
          -- apply Nat.eqb_eq in E. subst j. intros H. inversion H; subst. split; [now left|]. now exists v.
          -- intros Hj. destruct (Hinv j o Hj) as [Hc' R]. split; [now right|exact R].
      + f_equal. apply (IH _ _ (i :: called)); auto. intros j o Hj. destruct (Hinv j o Hj) as [Hc' R]. split; [now right|exact R].
    - (* the caches are cleared *)
      cbn [wf_ops pinned] in *. apply (IH _ _ []); auto. intros j o Hj. discriminate.
  Qed.
End Proofs.

(* ------------------------------------------------------------ refutations *)

(* a callable that distinguishes what == identifies (here: by type) is not memoised invisibly:
   f(True) after f(1) answers as for 1 *)
Lemma callable_cached_refuted_when_not_congruent :
  let f := fun v => Ret (VCls (type_of v)) in
  let ops := [ECall (VInt 1); ECall (VBool true)] in
  map fst (erun f [] ops) <> eref f ops.
Proof. vm_compute. discriminate. Qed.

(* identifiers are reused after garbage collection: a new object at the address of a dead one
   receives the dead one's answer *)
Lemma cached_by_id_refuted_by_id_reuse :
  let f := fun v => Ret v in
  let ops := [IAlloc 1 (VInt 1); ICall 1; IFree 1; IAlloc 1 (VInt 2); ICall 1] in
  wf_ops [] ops = true /\ irun f [] [] ops <> iref f [] ops.
Proof. vm_compute. split; [reflexivity|discriminate]. Qed.
