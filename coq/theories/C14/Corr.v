(* C14 correspondence glue: beartype's memoising decorators driven by operation sequences against
   [erun] / [irun].  Evaluated by vm_compute in generated case files.  No proofs. *)
From Coq Require Import List ZArith Bool Arith String.
From BT Require Import Gen.ClassTable Core.PyVal C14.Memo.
Import ListNotations.
Local Open Scope list_scope.

(* the probe callables of harness/impl/c14_impl.py f_apply *)
Definition f_of (policy : nat) (v : pyval) : outcome :=
  match policy with
  | 0 => Ret (VCls (type_of v))
  | 1 => Ret (VBool (py_eq v (VInt 1)))
  | _ => if py_eq v (VInt 0) then Raise 7 else Ret (VBool true)
  end.

Definition outcome_eqb (a b : outcome) : bool :=
  match a, b with
  | Ret x, Ret y => val_same x y
  | Raise m, Raise n => Nat.eqb m n
  | _, _ => false
  end.

Fixpoint outs_eqb (a b : list (outcome * bool)) : bool :=
  match a, b with
  | [], [] => true
  | (o, r) :: a', (p, s) :: b' => outcome_eqb o p && Bool.eqb r s && outs_eqb a' b'
  | _, _ => false
  end.

Record ecase := { e_policy : nat; e_ops : list eop; e_obs : list (outcome * bool) }.
Definition check_ecase (k : ecase) : bool := outs_eqb (erun (f_of (e_policy k)) [] (e_ops k)) (e_obs k).

Fixpoint iouts_eqb (a b : list (option outcome)) : bool :=
  match a, b with
  | [], [] => true
  | None :: a', None :: b' => iouts_eqb a' b'
  | Some o :: a', Some p :: b' => outcome_eqb o p && iouts_eqb a' b'
  | _, _ => false
  end.

Record idcase := { i_policy : nat; i_ops : list iop; i_obs : list (option outcome) }.
Definition check_idcase (k : idcase) : bool :=
  wf_ops [] (i_ops k) && iouts_eqb (irun (f_of (i_policy k)) [] [] (i_ops k)) (i_obs k).

Fixpoint failing_from {A} (f : A -> bool) (i : nat) (ks : list A) : list nat :=
  match ks with
  | [] => []
  | k :: r => if f k then failing_from f (S i) r else i :: failing_from f (S i) r
  end.
Definition efailing (ks : list ecase) : list nat := failing_from check_ecase 0 ks.
Definition idfailing (ks : list idcase) : list nat := failing_from check_idcase 0 ks.
