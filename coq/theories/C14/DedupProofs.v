From Coq Require Import List Arith Bool.
From BT Require Import C14.Dedup.
Import ListNotations.

(* whatever was asked before, the hint used means what the hint asked about means *)
Lemma checked_step t h : heq (snd (dedup_checked t h)) h = true.
Proof.
  unfold dedup_checked. destruct (cache_or_get t h) as [t' c]. cbn [snd].
  destruct (heq c h) eqn:E; [exact E|]. unfold heq. apply Nat.eqb_refl.
Qed.

Theorem dedup_invisible hs : forall t,
  map h_meaning (run dedup_checked t hs) = map h_meaning hs.
Proof.
  induction hs as [|h hs IH]; intro t; [reflexivity|].
  cbn [run]. pose proof (checked_step t h) as H.
  destruct (dedup_checked t h) as [t' u]. cbn [snd] in H. cbn [map].
  rewrite IH. f_equal. unfold heq in H. apply Nat.eqb_eq in H. exact H.
Qed.

(* ... and equal hints are still shared: a second equal hint is replaced by the first *)
Theorem dedup_shares t a b :
  tget (h_repr a) t = None -> h_repr b = h_repr a -> heq a b = true ->
  run dedup_checked t [a; b] = [a; a].
Proof.
  intros Hn Hr He. cbn [run]. unfold dedup_checked at 1, cache_or_get. rewrite Hn.
  assert (Haa : heq a a = true) by (unfold heq; apply Nat.eqb_refl). rewrite Haa.
  unfold dedup_checked, cache_or_get. cbn [tget]. rewrite Hr, Nat.eqb_refl, He. reflexivity.
Qed.

(* F51: without the equality test, a hint over a second class of the same name is answered with the first class *)
Theorem unchecked_refuted :
  let k1 := {| h_id := 1; h_repr := 7; h_meaning := 100 |} in
  let k2 := {| h_id := 2; h_repr := 7; h_meaning := 200 |} in
  map h_meaning (run dedup_unchecked [] [k1; k2]) = [100; 100] /\
  map h_meaning (run dedup_checked [] [k1; k2]) = [100; 200].
Proof. split; reflexivity. Qed.
