(* C14 model, part 2: the table that deduplicates hints which do not cache themselves (PEP 585 / PEP 604), keyed by
   their representation (beartype/_check/convert/_convcoerce.py: _hint_repr_to_hint, coerce_hint_any).
   A hint here is an abstract object with an identity, a representation (what repr() prints: two different classes of one
   qualified name print alike) and a meaning (which class it checks against).  Equality of hints (==) is equality of meaning.
   [dedup_checked] is the code as repaired (F51): a hit is used only if it equals the hint asked about;
   [dedup_unchecked] is the code before. *)
From Coq Require Import List Arith Bool.
Import ListNotations.

Record hobj := { h_id : nat; h_repr : nat; h_meaning : nat }.
Definition heq (a b : hobj) : bool := Nat.eqb (h_meaning a) (h_meaning b).

Definition table := list (nat * hobj).
Fixpoint tget (r : nat) (t : table) : option hobj :=
  match t with [] => None | (k, h) :: rest => if Nat.eqb k r then Some h else tget r rest end.

(* cache_or_get_cached_value(key=repr(hint), value=hint): the first hint stored under a representation stays *)
Definition cache_or_get (t : table) (h : hobj) : table * hobj :=
  match tget (h_repr h) t with
  | Some c => (t, c)
  | None => ((h_repr h, h) :: t, h)
  end.

Definition dedup_unchecked (t : table) (h : hobj) : table * hobj := cache_or_get t h.

Definition dedup_checked (t : table) (h : hobj) : table * hobj :=
  let '(t', c) := cache_or_get t h in (t', if heq c h then c else h).

(* the hints actually used for a sequence of queries *)
Fixpoint run (d : table -> hobj -> table * hobj) (t : table) (hs : list hobj) : list hobj :=
  match hs with
  | [] => []
  | h :: r => let '(t', u) := d t h in u :: run d t' r
  end.
