(* C14 model: beartype's memoisation disciplines (beartype/_util/cache/utilcachecall.py).
   [ecall] is @callable_cached: a dictionary keyed by the arguments themselves (Python hash/==),
   memoising return values *and* raised exceptions, bypassed for unhashable arguments.
   [icall] is @method_cached_arg_by_id: a dictionary keyed by id(self), id(arg).
   Objects live in a heap of identifiers that may be freed and reused (CPython addresses).
   No proofs here. *)
From Coq Require Import List ZArith Bool Arith String.
From BT Require Import Gen.ClassTable Core.PyVal.
Import ListNotations.
Local Open Scope list_scope.

(* what a call produces: a value or an exception (identified by a tag) *)
Inductive outcome := Ret (v : pyval) | Raise (tag : nat).

(* hashable arguments: scalars, classes, and tuples / frozensets of hashables *)
Fixpoint hashable (v : pyval) : bool :=
  match v with
  | VNone | VBool _ | VInt _ | VFloat _ | VStr _ | VBytes _ | VCls _ => true
  | VCont c l => (Nat.eqb c c_tuple || Nat.eqb c c_frozenset) && forallb hashable l
  | _ => false
  end.

Section Memo.
  Variable f : pyval -> outcome.          (* the memoised callable, as a function of its argument *)

  (* ---------------------------------------------------------------- @callable_cached *)
  Definition ecache := list (pyval * outcome).

  Fixpoint elookup (k : pyval) (c : ecache) : option outcome :=
    match c with
    | [] => None
    | (k', o) :: r => if py_eq k' k then Some o else elookup k r
    end.

  (* returns the new cache, the outcome, and whether the underlying callable ran *)
  Definition ecall (c : ecache) (k : pyval) : ecache * outcome * bool :=
    if hashable k then
      match elookup k c with
      | Some o => (c, o, false)
      | None => ((k, f k) :: c, f k, true)
      end
    else (c, f k, true).                   (* TypeError on hashing: call through, uncached *)

  Inductive eop := ECall (k : pyval) | EClear.

  Fixpoint erun (c : ecache) (ops : list eop) : list (outcome * bool) :=
    match ops with
    | [] => []
    | ECall k :: r => let '(c', o, ran) := ecall c k in (o, ran) :: erun c' r
    | EClear :: r => erun [] r
    end.

  (* what the same operations answer without any cache *)
  Fixpoint eref (ops : list eop) : list outcome :=
    match ops with
    | [] => []
    | ECall k :: r => f k :: eref r
    | EClear :: r => eref r
    end.

  (* ---------------------------------------------------------------- @method_cached_arg_by_id *)
  Definition heap := list (nat * pyval).   (* live objects: identifier -> value *)
  Definition icache := list (nat * outcome).

  Fixpoint hget (i : nat) (h : heap) : option pyval :=
    match h with [] => None | (j, v) :: r => if Nat.eqb j i then Some v else hget i r end.
  Fixpoint hdel (i : nat) (h : heap) : heap :=
    match h with [] => [] | (j, v) :: r => if Nat.eqb j i then hdel i r else (j, v) :: hdel i r end.
  Fixpoint iget (i : nat) (c : icache) : option outcome :=
    match c with [] => None | (j, o) :: r => if Nat.eqb j i then Some o else iget i r end.

  Inductive iop :=
  | IAlloc (i : nat) (v : pyval)           (* a new object with value v is created at identifier i *)
  | IFree (i : nat)                        (* the object at i is garbage-collected *)
  | ICall (i : nat)                        (* the method is called on the object at i *)
  | IClear.

  Fixpoint irun (h : heap) (c : icache) (ops : list iop) : list (option outcome) :=
    match ops with
    | [] => []
    | IAlloc i v :: r => irun ((i, v) :: hdel i h) c r
    | IFree i :: r => irun (hdel i h) c r
    | ICall i :: r =>
        match hget i h with
        | None => None :: irun h c r                       (* no such object: not a call *)
        | Some v =>
            match iget i c with
            | Some o => Some o :: irun h c r
            | None => Some (f v) :: irun h ((i, f v) :: c) r
            end
        end
    | IClear :: r => irun h [] r
    end.

  Fixpoint iref (h : heap) (ops : list iop) : list (option outcome) :=
    match ops with
    | [] => []
    | IAlloc i v :: r => iref ((i, v) :: hdel i h) r
    | IFree i :: r => iref (hdel i h) r
    | ICall i :: r => match hget i h with None => None | Some v => Some (f v) end :: iref h r
    | IClear :: r => iref h r
    end.

  (* identifiers are never reused: every allocation is at an identifier not used before *)
  Fixpoint fresh_ids (used : list nat) (ops : list iop) : bool :=
    match ops with
    | [] => true
    | IAlloc i _ :: r => negb (existsb (Nat.eqb i) used) && fresh_ids (i :: used) r
    | _ :: r => fresh_ids used r
    end.

  (* memoised objects are pinned: nothing that has been called on is ever freed *)
  Fixpoint pinned (called : list nat) (ops : list iop) : bool :=
    match ops with
    | [] => true
    | ICall i :: r => pinned (i :: called) r
    | IFree i :: r => negb (existsb (Nat.eqb i) called) && pinned called r
    | IClear :: r => pinned [] r
    | _ :: r => pinned called r
    end.
End Memo.

(* allocations happen at identifiers that are not live (an address holds one object at a time) *)
Fixpoint wf_ops (h : heap) (ops : list iop) : bool :=
  match ops with
  | [] => true
  | IAlloc i v :: r => match hget i h with None => wf_ops ((i, v) :: hdel i h) r | Some _ => false end
  | IFree i :: r => wf_ops (hdel i h) r
  | _ :: r => wf_ops h r
  end.
