(* C04 proofs: whenever CPython can bind a call, the values the wrapper checks against each
   annotated parameter are exactly the values passed to that parameter. *)
From Coq Require Import List Arith Bool String Lia.
From BT Require Import C04.Wrap Gen.C04Templates.
Import ListNotations.
Local Open Scope list_scope.

Lemma mem_In n l : mem n l = true <-> In n l.
Proof.
  unfold mem. rewrite existsb_exists. split.
  - intros (x & Hin & E). apply String.eqb_eq in E. now subst.
  - intros H. exists n. split; [exact H|apply String.eqb_refl].
Qed.

Lemma mem_app n a b : mem n (a ++ b) = mem n a || mem n b.
Proof. unfold mem. apply existsb_app. Qed.

Lemma nodup_app_l a b : nodup (a ++ b) = true -> nodup a = true.
Proof.
  induction a as [|x a IH]; [reflexivity|]. cbn. intros H. apply andb_true_iff in H as [H1 H2].
  rewrite mem_app in H1. apply negb_true_iff, orb_false_iff in H1 as [H1 _]. rewrite H1. cbn. now apply IH.
Qed.

Lemma nodup_app_r a b : nodup (a ++ b) = true -> nodup b = true.
Proof. induction a as [|x a IH]; [auto|]. cbn. intros H. apply andb_true_iff in H as [_ H]. now apply IH. Qed.

Lemma nodup_app_disj a b x : nodup (a ++ b) = true -> In x a -> In x b -> False.
Proof.
  induction a as [|y a IH]; [intros _ []|]. cbn. intros H Ha Hb. apply andb_true_iff in H as [H1 H2].
  destruct Ha as [->|Ha]; [|now apply (IH H2)].
  rewrite mem_app in H1. apply negb_true_iff, orb_false_iff in H1 as [_ H1].
  apply mem_In in Hb. congruence.
Qed.

(* ------------------------------------------------------------ association lists *)

Lemma b_get_app p a b : b_get p (a ++ b) = match b_get p a with Some x => Some x | None => b_get p b end.
Proof. induction a as [|[k x] a IH]; [reflexivity|]. cbn. destruct (String.eqb k p); [reflexivity|exact IH]. Qed.

Lemma b_get_notin p b : ~ In p (map fst b) -> b_get p b = None.
Proof.
  induction b as [|[k x] b IH]; [reflexivity|]. cbn. intros H.
  destruct (String.eqb_spec k p); [subst; tauto|]. apply IH. tauto.
Qed.

Lemma b_set_keys n x b : map fst (b_set n x b) = map fst b.
Proof. induction b as [|[k y] b IH]; [reflexivity|]. cbn. destruct (String.eqb k n); cbn; [reflexivity|now rewrite IH]. Qed.

Lemma b_get_set_same n x b : In n (map fst b) -> b_get n (b_set n x b) = Some x.
Proof.
  induction b as [|[k y] b IH]; [intros []|]. cbn. intros H.
  destruct (String.eqb_spec k n); cbn.
  - subst. now rewrite String.eqb_refl.
  - destruct (String.eqb_spec k n); [congruence|]. apply IH. destruct H; [congruence|assumption].
Qed.

Lemma b_get_set_other n p x b : p <> n -> b_get p (b_set n x b) = b_get p b.
Proof.
  intros Hne. induction b as [|[k y] b IH]; [reflexivity|]. cbn.
  destruct (String.eqb_spec k n); cbn.
  - subst. destruct (String.eqb_spec n p); [congruence|reflexivity].
  - destruct (String.eqb k p); [reflexivity|exact IH].
Qed.

Lemma b_get_in p b x : b_get p b = Some x -> In p (map fst b).
Proof.
  induction b as [|[k y] b IH]; [discriminate|]. cbn. destruct (String.eqb_spec k p); [now left|]. intros H. right. now apply IH.
Qed.

(* ------------------------------------------------------------ positional binding *)

Lemma bind_positional_spec ps : forall args b rest,
  bind_positional ps args = (b, rest) ->
  rest = skipn (List.length ps) args /\ map fst b = ps /\
  (nodup ps = true -> forall i p, nth_error ps i = Some p ->
     b_get p b = Some (match nth_error args i with Some a => BOne a | None => BDefault end)).
Proof.
  induction ps as [|q ps IH]; intros args b rest H.
  - cbn in H. inversion H; subst. repeat split; auto. intros _ i p Hn. destruct i; discriminate.
  - destruct args as [|a args]; cbn in H.
    + destruct (bind_positional ps []) as [b' r'] eqn:E. inversion H; subst.
      destruct (IH _ _ _ E) as (Hr & Hk & Hg). repeat split.
      * rewrite Hr. now destruct (List.length ps).
      * cbn. now rewrite Hk.
      * intros Hnd i p Hn. cbn in Hnd. apply andb_true_iff in Hnd as [Hq Hnd]. destruct i as [|i]; cbn in Hn.
        -- inversion Hn; subst. cbn. now rewrite String.eqb_refl.
        -- cbn. destruct (String.eqb_spec q p).
           ++ subst. exfalso. apply negb_true_iff in Hq. apply nth_error_In in Hn. apply mem_In in Hn. congruence.
           ++ rewrite (Hg Hnd i p Hn). now destruct i.
    + destruct (bind_positional ps args) as [b' r'] eqn:E. inversion H; subst.
      destruct (IH _ _ _ E) as (Hr & Hk & Hg). repeat split; auto.
      * cbn. now rewrite Hk.
      * intros Hnd i p Hn. cbn in Hnd. apply andb_true_iff in Hnd as [Hq Hnd]. destruct i as [|i]; cbn in Hn.
        -- inversion Hn; subst. cbn. now rewrite String.eqb_refl.
        -- cbn. destruct (String.eqb_spec q p).
           ++ subst. exfalso. apply negb_true_iff in Hq. apply nth_error_In in Hn. apply mem_In in Hn. congruence.
           ++ exact (Hg Hnd i p Hn).
Qed.

(* ------------------------------------------------------------ keyword binding *)

Definition kwable (s : sigma) (n : name) : bool := mem n (s_flex s) || mem n (s_kwonly s).

Lemma kwable_keywordable s n : kwable s n = mem n (keywordable s).
Proof. unfold kwable, keywordable. now rewrite mem_app. Qed.

Lemma bind_keywords_spec s kws : forall b extra b' extra',
  bind_keywords s kws b extra = Some (b', extra') ->
  map fst b' = map fst b /\
  extra' = extra ++ filter (fun kv => negb (kwable s (fst kv))) kws /\
  (forall p, b_get p b' =
             if kwable s p
             then match kw_get p kws with
                  | Some v => match b_get p b with Some _ => Some (BOne v) | None => None end
                  | None => b_get p b
                  end
             else b_get p b) /\
  (forall p v, kwable s p = true -> kw_get p kws = Some v -> b_get p b = Some BDefault).
Proof.
  induction kws as [|[k v] kws IH]; intros b extra b' extra' H; cbn in H.
  - inversion H; subst. repeat split; auto; try now rewrite app_nil_r.
    + intros p. destruct (kwable s p); reflexivity.
    + intros p v _ Hk. discriminate.
  - fold (kwable s k) in H. destruct (kwable s k) eqn:Ek.
    + destruct (b_get k b) as [[| | |]|] eqn:Eg; try discriminate.
      destruct (IH _ _ _ _ H) as (Hk & He & Hg & Hd). repeat split.
      * now rewrite Hk, b_set_keys.
      * rewrite He. cbn [filter fst]. now rewrite Ek.
      * intros p. rewrite Hg. cbn [kw_get].
        destruct (String.eqb_spec k p).
        -- subst p. rewrite Ek.
           assert (Hin : In k (map fst b)) by (eapply b_get_in; eauto).
           rewrite (b_get_set_same k (BOne v) b Hin).
           destruct (kw_get k kws) as [v2|] eqn:Ek2.
           ++ (* a second keyword of the same name would have failed *)
              exfalso. specialize (Hd k v2 Ek Ek2). rewrite (b_get_set_same k (BOne v) b Hin) in Hd. discriminate.
           ++ now rewrite Eg.
        -- rewrite (b_get_set_other k p (BOne v) b) by congruence. reflexivity.
      * intros p v0 Hp Hkw. cbn [kw_get] in Hkw. destruct (String.eqb_spec k p).
        -- subst. exact Eg.
        -- specialize (Hd p v0 Hp Hkw). now rewrite (b_get_set_other k p (BOne v) b) in Hd by congruence.
    + destruct (s_varkw s) eqn:Ev; [|discriminate].
      destruct (IH _ _ _ _ H) as (Hk & He & Hg & Hd). repeat split; auto.
      * rewrite He. cbn [filter fst]. rewrite Ek. cbn. now rewrite <- app_assoc.
      * intros p. rewrite Hg. cbn [kw_get]. destruct (String.eqb_spec k p); [subst; now rewrite Ek|reflexivity].
      * intros p v0 Hp Hkw. cbn [kw_get] in Hkw. destruct (String.eqb_spec k p); [subst; congruence|]. eauto.
Qed.

(* ------------------------------------------------------------ the main statement *)

Definition row_of (s : sigma) (b : binding) (p : name) : list val :=
  match b_get p b with Some x => passed x | None => [] end.

Lemma checked_from_app localize0 s k i a b :
  checked_from localize0 s k i (a ++ b) = checked_from localize0 s k i a ++ checked_from localize0 s k (i + List.length a) b.
Proof.
  revert i. induction a as [|[kd p] a IH]; intros i; cbn; [now rewrite Nat.add_0_r|].
  rewrite IH, <- app_assoc. replace (S i + List.length a) with (i + S (List.length a)) by lia. reflexivity.
Qed.

Definition exp_row (s : sigma) (b : binding) (kp : kind * name) : list (name * list val) :=
  let '(kd, p) := kp in if mem p (s_annotated s) then [(p, row_of s b p)] else [].

(* one block of parameters of the same kind, whose selection is known pointwise *)
Lemma block_eq s k b (kd : kind) (ps : list name) : forall i,
  (forall j p, nth_error ps j = Some p ->
     selected (keywordable s) k (localize kd (i + j) p) = row_of s b p) ->
  checked_from localize s k i (map (fun p => (kd, p)) ps)
  = flat_map (exp_row s b) (map (fun p => (kd, p)) ps).
Proof.
  induction ps as [|q ps IH]; intros i H; [reflexivity|]. cbn.
  rewrite (IH (S i)).
  - specialize (H 0 q eq_refl). rewrite Nat.add_0_r in H. now rewrite H.
  - intros j p Hn. specialize (H (S j) p Hn). now replace (i + S j) with (S i + j) in H by lia.
Qed.

Theorem checked_eq_expected s k b :
  sigma_ok s = true -> bind s k = Some b -> checked localize s k = expected s b.
Proof.
  intros Hok Hb. unfold bind in Hb.
  destruct (bind_positional (s_posonly s ++ s_flex s) (c_args k)) as [bpos surplus] eqn:Ep.
  destruct (bind_positional_spec _ _ _ _ Ep) as (Hsur & Hkeys & Hget).
  assert (Hnd : nodup (s_posonly s ++ s_flex s) = true).
  { unfold sigma_ok, all_names in Hok. rewrite app_assoc in Hok. now apply nodup_app_l in Hok. }
  specialize (Hget Hnd).
  assert (Hrest : match surplus, s_varpos s with _ :: _, None => False | _, _ => True end)
    by (destruct surplus, (s_varpos s); try exact I; discriminate).
  set (b0 := bpos ++ map (fun p => (p, BDefault)) (s_kwonly s)) in *.
  assert (Hb' : match bind_keywords s (c_kwargs k) b0 [] with
                | None => None
                | Some (b1, extra) =>
                    if all_satisfied s b1
                    then Some (b1 ++ match s_varpos s with Some p => [(p, BStar surplus)] | None => [] end
                                  ++ match s_varkw s with Some p => [(p, BStarStar extra)] | None => [] end)
                    else None
                end = Some b).
  { destruct surplus, (s_varpos s); try exact Hb; discriminate. }
  clear Hb. destruct (bind_keywords s (c_kwargs k) b0 []) as [[b1 extra]|] eqn:Ek; [|discriminate].
  destruct (all_satisfied s b1); [|discriminate]. inversion Hb'; subst b; clear Hb'.
  destruct (bind_keywords_spec s _ _ _ _ _ Ek) as (Hk1 & Hext & Hg1 & _). cbn [app] in Hext.
  (* names *)
  assert (Hkeys1 : map fst b1 = s_posonly s ++ s_flex s ++ s_kwonly s).
  { rewrite Hk1. unfold b0. rewrite map_app, Hkeys, map_map. cbn. rewrite map_id. now rewrite app_assoc. }
  set (tailpos := match s_varpos s with Some p => [(p, BStar surplus)] | None => [] end).
  set (tailkw := match s_varkw s with Some p => [(p, BStarStar extra)] | None => [] end).
  (* value of a parameter of b1 in the final binding *)
  assert (Hin1 : forall p, In p (map fst b1) -> b_get p (b1 ++ tailpos ++ tailkw) = b_get p b1).
  { intros p Hp. rewrite b_get_app. destruct (b_get p b1) eqn:E; [reflexivity|].
    exfalso. clear -Hp E. induction b1 as [|[q x] b1 IH]; [destruct Hp|]. cbn in *.
    destruct (String.eqb_spec q p); [discriminate|]. destruct Hp; [congruence|auto]. }
  unfold checked, expected, iter_args.
  set (B := b1 ++ tailpos ++ tailkw).
  change (flat_map _ ?l) with (flat_map (exp_row s B) l).
  rewrite !checked_from_app, !flat_map_app. rewrite !map_length.
  assert (Hnames := Hok). unfold sigma_ok, all_names in Hnames.
  (* facts about the positional parameters *)
  assert (Hpos : forall i p, nth_error (s_posonly s ++ s_flex s) i = Some p ->
            b_get p b0 = Some (match nth_error (c_args k) i with Some a => BOne a | None => BDefault end)).
  { intros i p Hn. unfold b0. rewrite b_get_app, (Hget i p Hn). reflexivity. }
  f_equal; [|f_equal; [|f_equal; [|f_equal]]].
  - (* positional-only *)
    apply block_eq. intros j p Hn. cbn [localize]. rewrite !Nat.add_0_r. cbn [Nat.add selected cmp_holds].
    unfold row_of, B. rewrite Hin1 by (rewrite Hkeys1; apply in_or_app; left; eapply nth_error_In; eauto).
    rewrite Hg1.
    assert (Hnk : kwable s p = false).
    { unfold kwable. apply orb_false_iff. split; apply not_true_is_false; intros Hm; apply mem_In in Hm.
      - apply nth_error_In in Hn. eapply (nodup_app_disj (s_posonly s) (s_flex s) p); eauto.
      - apply nth_error_In in Hn.
        eapply (nodup_app_disj (s_posonly s) (s_flex s ++ match s_varpos s with Some q => [q] | None => [] end ++ s_kwonly s ++ match s_varkw s with Some q => [q] | None => [] end) p);
          [exact Hnames|exact Hn|]. apply in_or_app. right. apply in_or_app. right. apply in_or_app. now left. }
    rewrite Hnk. rewrite (Hpos j p) by (rewrite nth_error_app1; [exact Hn|apply nth_error_Some; congruence]).
    destruct (Nat.ltb_spec j (List.length (c_args k))) as [L|L].
    + destruct (nth_error (c_args k) j) eqn:E; [reflexivity|]. apply nth_error_None in E. lia.
    + assert (E : nth_error (c_args k) j = None) by (apply nth_error_None; lia). now rewrite E.
  - (* flexible *)
    apply block_eq. intros j p Hn. cbn [localize]. rewrite !Nat.add_0_r. cbn [Nat.add selected cmp_holds].
    unfold row_of, B. rewrite Hin1 by (rewrite Hkeys1; apply in_or_app; right; apply in_or_app; left; eapply nth_error_In; eauto).
    rewrite Hg1.
    assert (Hk : kwable s p = true).
    { unfold kwable. apply orb_true_iff. left. apply mem_In. eapply nth_error_In; eauto. }
    rewrite Hk.
    assert (Hidx : nth_error (s_posonly s ++ s_flex s) (List.length (s_posonly s) + j) = Some p).
    { rewrite nth_error_app2 by lia. now replace (List.length (s_posonly s) + j - List.length (s_posonly s)) with j by lia. }
    rewrite (Hpos _ p Hidx).
    destruct (Nat.ltb_spec (List.length (s_posonly s) + j) (List.length (c_args k))) as [L|L].
    + destruct (nth_error (c_args k) (List.length (s_posonly s) + j)) as [a|] eqn:E;
        [|apply nth_error_None in E; lia].
      destruct (kw_get p (c_kwargs k)) as [v|] eqn:Ekw; [|reflexivity].
      (* positional and keyword for the same parameter: the call would not have bound *)
      exfalso. destruct (bind_keywords_spec s _ _ _ _ _ Ek) as (_ & _ & _ & Hd).
      specialize (Hd p v Hk Ekw). rewrite (Hpos _ p Hidx), E in Hd. discriminate.
    + assert (E : nth_error (c_args k) (List.length (s_posonly s) + j) = None) by (apply nth_error_None; lia).
      rewrite E. destruct (kw_get p (c_kwargs k)); reflexivity.
  - (* *args *)
    destruct (s_varpos s) as [vp|] eqn:Evp; [|reflexivity]. cbn [checked_from flat_map app exp_row].
    rewrite !app_nil_r. cbn [localize selected]. rewrite !Nat.add_0_r.
    destruct (mem vp (s_annotated s)); [|reflexivity]. cbn [app]. f_equal. f_equal.
    unfold row_of, B. rewrite b_get_app.
    assert (Hnot : b_get vp b1 = None).
    { apply b_get_notin. rewrite Hkeys1. intros Hin.
      (* vp is none of the ordinary parameter names *)
      assert (Hd : nodup ((s_posonly s ++ s_flex s) ++ [vp] ++ s_kwonly s ++ match s_varkw s with Some q => [q] | None => [] end) = true)
        by (rewrite <- app_assoc; exact Hnames).
      apply in_app_or in Hin as [Hin|Hin].
      - eapply (nodup_app_disj (s_posonly s) _ vp); [exact Hnames|exact Hin|]. apply in_or_app. right. now left.
      - apply in_app_or in Hin as [Hin|Hin].
        + eapply (nodup_app_disj (s_posonly s ++ s_flex s) _ vp); [exact Hd|apply in_or_app; now right|now left].
        + apply nodup_app_r in Hd. cbn [app nodup] in Hd. apply andb_true_iff in Hd as [Hd _]. apply negb_true_iff in Hd.
          rewrite mem_app in Hd. apply orb_false_iff in Hd as [Hd _]. apply mem_In in Hin. congruence. }
    rewrite Hnot. unfold tailpos. cbn. rewrite String.eqb_refl. cbn [passed]. rewrite Hsur.
    now rewrite app_length.
  - (* keyword-only *)
    apply block_eq. intros j p Hn. cbn [localize selected].
    unfold row_of, B. rewrite Hin1 by (rewrite Hkeys1; apply in_or_app; right; apply in_or_app; right; eapply nth_error_In; eauto).
    rewrite Hg1.
    assert (Hk : kwable s p = true).
    { unfold kwable. apply orb_true_iff. right. apply mem_In. eapply nth_error_In; eauto. }
    rewrite Hk.
    assert (H0 : b_get p b0 = Some BDefault).
    { unfold b0. rewrite b_get_app.
      assert (Hn1 : b_get p bpos = None).
      { apply b_get_notin. rewrite Hkeys. intros Hin. apply nth_error_In in Hn.
        assert (Hd : nodup ((s_posonly s ++ s_flex s) ++ match s_varpos s with Some q => [q] | None => [] end ++ s_kwonly s ++ match s_varkw s with Some q => [q] | None => [] end) = true)
          by (rewrite <- app_assoc; exact Hnames).
        eapply (nodup_app_disj _ _ p Hd Hin). apply in_or_app. right. apply in_or_app. now left. }
      rewrite Hn1. clear -Hn. revert j Hn. induction (s_kwonly s) as [|q l IH]; intros j Hn; [destruct j; discriminate|].
      cbn. destruct (String.eqb_spec q p); [reflexivity|]. destruct j; cbn in Hn; [congruence|eauto]. }
    rewrite H0. destruct (kw_get p (c_kwargs k)); reflexivity.
  - (* **kwargs *)
    destruct (s_varkw s) as [vk|] eqn:Evk; [|reflexivity]. cbn [checked_from flat_map app exp_row].
    rewrite !app_nil_r. cbn [localize selected].
    destruct (mem vk (s_annotated s)); [|reflexivity]. f_equal. f_equal.
    unfold row_of, B. rewrite b_get_app.
    assert (Hnot : b_get vk b1 = None).
    { apply b_get_notin. rewrite Hkeys1. intros Hin.
      assert (Hd : nodup ((s_posonly s ++ s_flex s ++ match s_varpos s with Some q => [q] | None => [] end ++ s_kwonly s) ++ [vk]) = true).
      { rewrite <- !app_assoc. exact Hnames. }
      eapply (nodup_app_disj _ [vk] vk Hd); [|now left].
      apply in_app_or in Hin as [Hin|Hin]; [apply in_or_app; now left|].
      apply in_or_app. right. apply in_app_or in Hin as [Hin|Hin]; [apply in_or_app; now left|].
      apply in_or_app. right. apply in_or_app. now right. }
    rewrite Hnot. rewrite b_get_app.
    assert (Hnot2 : b_get vk tailpos = None).
    { unfold tailpos. destruct (s_varpos s) as [vp|] eqn:Evp; [|reflexivity]. cbn.
      destruct (String.eqb_spec vp vk); [|reflexivity]. subst. exfalso.
      assert (Hd : nodup ((s_posonly s ++ s_flex s) ++ [vk] ++ s_kwonly s ++ [vk]) = true) by (rewrite <- app_assoc; exact Hnames).
      apply nodup_app_r in Hd. cbn [app nodup] in Hd. apply andb_true_iff in Hd as [Hd _]. apply negb_true_iff in Hd.
      rewrite mem_app in Hd. apply orb_false_iff in Hd as [_ Hd]. cbn in Hd. now rewrite String.eqb_refl in Hd. }
    rewrite Hnot2. unfold tailkw. cbn. rewrite String.eqb_refl. cbn [passed]. rewrite Hext.
    f_equal. apply filter_ext. intros [q v]. cbn. now rewrite kwable_keywordable.
Qed.

(* ------------------------------------------------------------ the wrapper as a whole *)

Lemma first_bad_none ok rows :
  first_bad ok rows = None <-> (forall p vs v, In (p, vs) rows -> In v vs -> ok p v = true).
Proof.
  induction rows as [|[q ws] rows IH]; cbn.
  - split; [intros _ p vs v []|reflexivity].
  - destruct (find (fun v => negb (ok q v)) ws) as [w|] eqn:E.
    + split; [discriminate|]. intros H. apply find_some in E as [Hin Hb].
      rewrite (H q ws w (or_introl eq_refl) Hin) in Hb. discriminate.
    + rewrite IH. split.
      * intros H p vs v [Heq|Hin] Hv; [|eauto]. inversion Heq; subst.
        pose proof (find_none _ _ E v Hv) as Hn. now apply negb_false_iff in Hn.
      * intros H p vs v Hin Hv. eapply H; [right|]; eauto.
Qed.

Lemma first_bad_some ok rows p v :
  first_bad ok rows = Some (p, v) -> ok p v = false /\ exists vs, In (p, vs) rows /\ In v vs.
Proof.
  induction rows as [|[q ws] rows IH]; cbn; [discriminate|].
  destruct (find (fun v => negb (ok q v)) ws) as [w|] eqn:E.
  - intros H. inversion H; subst. apply find_some in E as [Hin Hb]. apply negb_true_iff in Hb.
    split; [exact Hb|]. exists ws. split; [now left|exact Hin].
  - intros H. destruct (IH H) as (Hb & vs & Hin & Hv). split; [exact Hb|]. exists vs. split; [now right|exact Hv].
Qed.

Lemma expected_rows s b p vs :
  In (p, vs) (expected s b) <-> (In p (map snd (iter_args s)) /\ mem p (s_annotated s) = true /\ vs = passed_to b p).
Proof.
  unfold expected. rewrite in_flat_map. split.
  - intros ([kd q] & Hin & H). destruct (mem q (s_annotated s)) eqn:E; [|destruct H].
    destruct H as [H|[]]. inversion H; subst. repeat split; auto. apply in_map_iff. now exists (kd, p).
  - intros (Hin & Hm & ->). apply in_map_iff in Hin as ([kd q] & Hq & Hin). cbn in Hq. subst q.
    exists (kd, p). split; [exact Hin|]. rewrite Hm. now left.
Qed.

Theorem transparent_when_all_pass s k b ok :
  sigma_ok s = true -> bind s k = Some b ->
  (forall p v, mem p (s_annotated s) = true -> In v (passed_to b p) -> ok p v = true) ->
  wrapper wrapper_forwards_unchanged localize s k ok = OCalled k.
Proof.
  intros Hok Hb Hall. unfold wrapper. rewrite (checked_eq_expected s k b Hok Hb).
  assert (E : first_bad ok (expected s b) = None).
  { apply first_bad_none. intros p vs v Hin Hv. apply expected_rows in Hin as (_ & Hm & ->). now apply Hall. }
  now rewrite E.
Qed.

Theorem failing_value_never_runs s k b ok p v :
  sigma_ok s = true -> bind s k = Some b ->
  In p (map snd (iter_args s)) -> mem p (s_annotated s) = true -> In v (passed_to b p) -> ok p v = false ->
  exists p' v', wrapper wrapper_forwards_unchanged localize s k ok = OViolation p' v'
                /\ ok p' v' = false /\ mem p' (s_annotated s) = true /\ In v' (passed_to b p').
Proof.
  intros Hok Hb Hp Hm Hv Hbad. unfold wrapper. rewrite (checked_eq_expected s k b Hok Hb).
  destruct (first_bad ok (expected s b)) as [[p' v']|] eqn:E.
  - exists p', v'. apply first_bad_some in E as (Hb' & vs & Hin & Hv'). apply expected_rows in Hin as (_ & Hm' & ->).
    repeat split; auto.
  - exfalso. rewrite first_bad_none in E.
    rewrite (E p (passed_to b p) v) in Hbad; [discriminate| |exact Hv]. apply expected_rows. auto.
Qed.

Theorem violation_is_genuine s k b ok p v :
  sigma_ok s = true -> bind s k = Some b ->
  wrapper wrapper_forwards_unchanged localize s k ok = OViolation p v ->
  ok p v = false /\ mem p (s_annotated s) = true /\ In v (passed_to b p).
Proof.
  intros Hok Hb. unfold wrapper. rewrite (checked_eq_expected s k b Hok Hb).
  destruct (first_bad ok (expected s b)) as [[p' v']|] eqn:E; [|destruct wrapper_forwards_unchanged; discriminate].
  intros H. inversion H; subst. apply first_bad_some in E as (Hb' & vs & Hin & Hv'). apply expected_rows in Hin as (_ & Hm' & ->).
  auto.
Qed.

Theorem unbindable_never_runs s k ok fwd lz :
  bind s k = None -> body_runs s (wrapper fwd lz s k ok) = 0.
Proof.
  intros Hb. unfold wrapper. destruct (first_bad ok (checked lz s k)) as [[p v]|]; [reflexivity|].
  destruct fwd; [|reflexivity]. cbn. now rewrite Hb.
Qed.

Theorem runs_at_most_once_with_given_call s k ok fwd lz k' :
  wrapper fwd lz s k ok = OCalled k' -> k' = k.
Proof.
  unfold wrapper. destruct (first_bad ok (checked lz s k)) as [[p v]|]; [discriminate|].
  destruct fwd; [|discriminate]. now intros H; inversion H.
Qed.

Theorem defaults_unchecked s k b p :
  sigma_ok s = true -> bind s k = Some b -> b_get p b = Some BDefault ->
  forall vs, In (p, vs) (checked localize s k) -> vs = [].
Proof.
  intros Hok Hb Hd vs. rewrite (checked_eq_expected s k b Hok Hb). intros Hin.
  apply expected_rows in Hin as (_ & _ & ->). unfold passed_to. now rewrite Hd.
Qed.
