(* C04 model: how a @beartype wrapper selects the values it checks (code_check_args over the
   regenerated ARG_KIND_TO_CODE_LOCALIZE snippets, Gen/C04Templates.v), and CPython's
   argument-binding rule written from the language reference (the specification).
   Tied to the code by harness/props/c04.py.  No proofs here. *)
From Coq Require Import List Arith Bool String ZArith.
Import ListNotations.
Local Open Scope list_scope.

Definition name := string.
Definition val := nat.                       (* passed objects, identified by a tag *)

(* a signature: def f(<posonly>, /, <flex>, *varpos, <kwonly>, **varkw) *)
Record sigma := {
  s_posonly : list name;
  s_flex : list name;
  s_varpos : option name;
  s_kwonly : list name;
  s_varkw : option name;
  s_defaults : list name;                    (* parameters that have a default value *)
  s_annotated : list name                    (* parameters with an (unignorable) annotation *)
}.

Record call := { c_args : list val; c_kwargs : list (name * val) }.

Definition mem (n : name) (l : list name) : bool := existsb (String.eqb n) l.

Fixpoint kw_get (n : name) (kws : list (name * val)) : option val :=
  match kws with
  | [] => None
  | (k, v) :: r => if String.eqb k n then Some v else kw_get n r
  end.

(* ------------------------------------------------------------------ CPython binding (spec) *)

(* what a parameter receives *)
Inductive bound :=
| BOne (v : val)                             (* one passed value *)
| BDefault                                   (* not passed: its default is used *)
| BStar (vs : list val)                      (* *args *)
| BStarStar (kws : list (name * val)).       (* **kwargs *)

Definition binding := list (name * bound).

(* positional parameters receive the leading positional arguments *)
Fixpoint bind_positional (ps : list name) (args : list val) : binding * list val :=
  match ps, args with
  | [], _ => ([], args)
  | p :: ps', [] => let '(b, rest) := bind_positional ps' [] in ((p, BDefault) :: b, rest)
  | p :: ps', a :: args' => let '(b, rest) := bind_positional ps' args' in ((p, BOne a) :: b, rest)
  end.

Fixpoint b_get (n : name) (b : binding) : option bound :=
  match b with
  | [] => None
  | (k, x) :: r => if String.eqb k n then Some x else b_get n r
  end.

Fixpoint b_set (n : name) (x : bound) (b : binding) : binding :=
  match b with
  | [] => []
  | (k, y) :: r => if String.eqb k n then (k, x) :: r else (k, y) :: b_set n x r
  end.

(* keywords, one at a time: a flexible or keyword-only parameter of that name receives it (an
   error if it already has a value); otherwise it goes to **kwargs when there is one (this
   includes keywords naming positional-only parameters); otherwise the call is an error *)
Fixpoint bind_keywords (s : sigma) (kws : list (name * val)) (b : binding) (extra : list (name * val))
  : option (binding * list (name * val)) :=
  match kws with
  | [] => Some (b, extra)
  | (k, v) :: r =>
      if mem k (s_flex s) || mem k (s_kwonly s) then
        match b_get k b with
        | Some BDefault => bind_keywords s r (b_set k (BOne v) b) extra
        | _ => None                                     (* multiple values for argument k *)
        end
      else match s_varkw s with
           | Some _ => bind_keywords s r b (extra ++ [(k, v)])
           | None => None                               (* unexpected keyword argument *)
           end
  end.

Definition all_satisfied (s : sigma) (b : binding) : bool :=
  forallb (fun '(p, x) => match x with BDefault => mem p (s_defaults s) | _ => true end) b.

Fixpoint nodup_keys (kws : list (name * val)) : bool :=
  match kws with
  | [] => true
  | (k, _) :: r => negb (existsb (fun kv => String.eqb (fst kv) k) r) && nodup_keys r
  end.

(* None = TypeError at call time, before the body runs *)
Definition bind (s : sigma) (k : call) : option binding :=
  let '(bpos, surplus) := bind_positional (s_posonly s ++ s_flex s) (c_args k) in
  match surplus, s_varpos s with
  | _ :: _, None => None                                (* too many positional arguments *)
  | _, _ =>
      let b0 := bpos ++ map (fun p => (p, BDefault)) (s_kwonly s) in
      match bind_keywords s (c_kwargs k) b0 [] with
      | None => None
      | Some (b1, extra) =>
          if all_satisfied s b1 then
            Some (b1 ++ match s_varpos s with Some p => [(p, BStar surplus)] | None => [] end
                     ++ match s_varkw s with Some p => [(p, BStarStar extra)] | None => [] end)
          else None                                     (* missing required argument *)
      end
  end.

(* the values a parameter was passed (defaults are not passed) *)
Definition passed (x : bound) : list val :=
  match x with
  | BOne v => [v]
  | BDefault => []
  | BStar vs => vs
  | BStarStar kws => map snd kws
  end.

(* ------------------------------------------------------------------ what the wrapper checks *)

Inductive kind := KPosOnly | KFlex | KVarPos | KKwOnly | KVarKw.

(* the selection performed by one localisation snippet; [off] is added to the parameter's
   index (0 in the shipped templates; the translator records any arithmetic it finds) *)
Inductive cmp := CGt | CGe.
Inductive sel :=
| SIfArg (c : cmp) (thr idx : nat)           (* if len(args) <c> thr: pith = args[idx] *)
| SArgOrKw (c : cmp) (thr idx : nat) (n : name)
                                              (* args[idx] if len(args) <c> thr else kwargs.get(n, SENTINEL) *)
| SKw (n : name)                             (* kwargs.get(n, SENTINEL) *)
| SArgsFrom (start : nat)                    (* for pith in args[start:] *)
| SKwExcess.                                 (* for pith in kwargs[k] for k in kwargs.keys() - keywordable *)

Definition cmp_holds (c : cmp) (len thr : nat) : bool :=
  match c with CGt => Nat.ltb thr len | CGe => Nat.leb thr len end.

Definition selected (keywordable : list name) (k : call) (x : sel) : list val :=
  match x with
  | SIfArg c thr idx =>
      if cmp_holds c (List.length (c_args k)) thr
      then match nth_error (c_args k) idx with Some v => [v] | None => [] end else []
  | SArgOrKw c thr idx n =>
      if cmp_holds c (List.length (c_args k)) thr
      then match nth_error (c_args k) idx with Some v => [v] | None => [] end
      else match kw_get n (c_kwargs k) with Some v => [v] | None => [] end
  | SKw n => match kw_get n (c_kwargs k) with Some v => [v] | None => [] end
  | SArgsFrom start => skipn start (c_args k)
  | SKwExcess => map snd (filter (fun kv => negb (mem (fst kv) keywordable)) (c_kwargs k))
  end.

(* iter_func_args: parameters in the order and with the indices code_check_args enumerates *)
Definition iter_args (s : sigma) : list (kind * name) :=
  map (fun p => (KPosOnly, p)) (s_posonly s) ++ map (fun p => (KFlex, p)) (s_flex s)
  ++ match s_varpos s with Some p => [(KVarPos, p)] | None => [] end
  ++ map (fun p => (KKwOnly, p)) (s_kwonly s)
  ++ match s_varkw s with Some p => [(KVarKw, p)] | None => [] end.

Definition keywordable (s : sigma) : list name := s_flex s ++ s_kwonly s.

Section Checked.
  (* the regenerated snippet table: kind -> index -> name -> selection *)
  Variable localize : kind -> nat -> name -> sel.

  Fixpoint checked_from (s : sigma) (k : call) (i : nat) (ps : list (kind * name)) : list (name * list val) :=
    match ps with
    | [] => []
    | (kd, p) :: r =>
        (if mem p (s_annotated s) then [(p, selected (keywordable s) k (localize kd i p))] else [])
        ++ checked_from s k (S i) r
    end.

  (* per annotated parameter, the values the wrapper checks against its annotation *)
  Definition checked (s : sigma) (k : call) : list (name * list val) := checked_from s k 0 (iter_args s).
End Checked.

(* what the specification says should be checked: each annotated parameter against exactly the
   values passed to it *)
Definition expected (s : sigma) (b : binding) : list (name * list val) :=
  flat_map (fun '(kd, p) =>
              if mem p (s_annotated s)
              then [(p, match b_get p b with Some x => passed x | None => [] end)] else [])
           (iter_args s).

(* well-formed signatures: parameter names are pairwise distinct *)
Fixpoint nodup (l : list name) : bool :=
  match l with
  | [] => true
  | x :: r => negb (mem x r) && nodup r
  end.

Definition all_names (s : sigma) : list name :=
  s_posonly s ++ s_flex s ++ match s_varpos s with Some p => [p] | None => [] end
  ++ s_kwonly s ++ match s_varkw s with Some p => [p] | None => [] end.

Definition sigma_ok (s : sigma) : bool := nodup (all_names s).

(* ------------------------------------------------------------------ the wrapper as a whole *)

(* [ok p v]: does value v satisfy the annotation of parameter p?  The wrapper body (wrapmain.py:
   argument checks in parameter order, then the call-through template, then the return check)
   either raises for the first checked value that fails, or calls the original with the very
   (args, kwargs) it received.  [fwd] is the translator's verdict on the call-through templates. *)
Inductive outcome :=
| OViolation (p : name) (v : val)            (* BeartypeCallHintParamViolation before any call *)
| OCalled (k : call)                         (* the original is called once with k; its result or
                                                exception is what the caller sees (subject to the
                                                return check, which is outside this model) *)
| OUnknown.

Fixpoint first_bad (ok : name -> val -> bool) (rows : list (name * list val)) : option (name * val) :=
  match rows with
  | [] => None
  | (p, vs) :: r =>
      match find (fun v => negb (ok p v)) vs with
      | Some v => Some (p, v)
      | None => first_bad ok r
      end
  end.

Definition wrapper (fwd : bool) (localize : kind -> nat -> name -> sel) (s : sigma) (k : call)
  (ok : name -> val -> bool) : outcome :=
  match first_bad ok (checked localize s k) with
  | Some (p, v) => OViolation p v
  | None => if fwd then OCalled k else OUnknown
  end.

(* does the body of the original run?  Only when it is called with something CPython can bind. *)
Definition body_runs (s : sigma) (o : outcome) : nat :=
  match o with
  | OCalled k => match bind s k with Some _ => 1 | None => 0 end
  | _ => 0
  end.

(* the values passed to parameter p under binding b *)
Definition passed_to (b : binding) (p : name) : list val :=
  match b_get p b with Some x => passed x | None => [] end.
