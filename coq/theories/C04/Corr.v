(* C04 correspondence glue (vm_compute in generated case files).  No proofs. *)
From Coq Require Import List Arith Bool String.
From BT Require Import C04.Wrap Gen.C04Templates.
Import ListNotations.
Local Open Scope list_scope.

Record case := {
  k_sig : sigma; k_call : call;
  k_bind : option (list (name * list val));      (* undecorated callable: per parameter, the values passed *)
  k_checked : list (name * list val) }.          (* decorated callable: isinstance checks observed, per parameter *)

Fixpoint nats_eqb (a b : list nat) : bool :=
  match a, b with
  | [], [] => true
  | x :: a', y :: b' => Nat.eqb x y && nats_eqb a' b'
  | _, _ => false
  end.

Fixpoint insert (x : nat) (l : list nat) : list nat :=
  match l with [] => [x] | y :: r => if Nat.leb x y then x :: l else y :: insert x r end.
Definition sort (l : list nat) : list nat := fold_right insert [] l.

Fixpoint rows_eqb (a b : list (name * list val)) : bool :=
  match a, b with
  | [], [] => true
  | (n, l) :: a', (m, k) :: b' => String.eqb n m && nats_eqb (sort l) (sort k) && rows_eqb a' b'
  | _, _ => false
  end.

Definition nonempty_rows (l : list (name * list val)) : list (name * list val) :=
  filter (fun r => match snd r with [] => false | _ => true end) l.

Definition check_case (k : case) : bool :=
  sigma_ok (k_sig k) &&
  match bind (k_sig k) (k_call k), k_bind k with
  | None, None => true
  | Some b, Some rows =>
      rows_eqb (map (fun '(p, x) => (p, passed x)) b) rows
      && rows_eqb (nonempty_rows (checked localize (k_sig k) (k_call k))) (k_checked k)
      (* the statement of the theorem, evaluated *)
      && rows_eqb (checked localize (k_sig k) (k_call k)) (expected (k_sig k) b)
  | _, _ => false
  end.

Fixpoint failing_from (i : nat) (ks : list case) : list nat :=
  match ks with
  | [] => []
  | k :: r => if check_case k then failing_from (S i) r else i :: failing_from (S i) r
  end.
Definition failing (ks : list case) : list nat := failing_from 0 ks.
