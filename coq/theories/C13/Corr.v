(* C13 correspondence glue: which functions of a generated class become beartype wrappers.  No proofs. *)
From Coq Require Import List Bool Arith String.
From BT Require Import C13.Decor.
Import ListNotations.
Local Open Scope list_scope.

Definition is_wrapper (f : func) : bool := match f with Wrapper _ => true | _ => false end.
Definition opt_flag (o : option func) : list bool := match o with Some f => [is_wrapper f] | None => [] end.

(* per member in order: the wrapper flags of the functions it holds; nested classes flattened in place *)
Fixpoint flags_member (m : member) {struct m} : list bool :=
  match m with
  | MFunc f | MClassMethod f | MStaticMethod f => [is_wrapper f]
  | MProperty g s d => opt_flag g ++ opt_flag s ++ opt_flag d
  | MNested c => flags_cls c
  | _ => []
  end
with flags_cls (c : cls) {struct c} : list bool :=
  match c with
  | Cls _ ms => (fix go (l : list (string * member)) : list bool :=
                   match l with [] => [] | (_, m) :: r => flags_member m ++ go r end) ms
  end.

Record kcase := { k_conf : dconf; k_cls : cls; k_obs : list bool }.

Fixpoint bools_eqb (a b : list bool) : bool :=
  match a, b with [], [] => true | x :: a', y :: b' => Bool.eqb x y && bools_eqb a' b' | _, _ => false end.

Definition check_kcase (k : kcase) : bool := bools_eqb (flags_cls (dec_cls (k_conf k) (k_cls k))) (k_obs k).

Fixpoint kfailing_from (i : nat) (ks : list kcase) : list nat :=
  match ks with [] => [] | k :: r => if check_kcase k then kfailing_from (S i) r else i :: kfailing_from (S i) r end.
Definition kfailing (ks : list kcase) : list nat := kfailing_from 0 ks.
