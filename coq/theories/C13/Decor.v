(* C13 model: what decorating a class does to the attributes the class itself defines
   (beartype/_decor/_type/decortype.py beartype_type over cls.__dict__;
   beartype/_decor/_nontype/decornontype.py beartype_func / descriptors;
   beartype/_decor/decorcore.py; decormain.py for the -O and O0 identities).  No proofs here. *)
From Coq Require Import List Bool Arith String.
Import ListNotations.
Local Open Scope list_scope.

(* a pure-Python callable: the original with its relevant flags, or a beartype wrapper around one *)
Inductive func :=
| Plain (id : nat) (annotated no_type_check : bool)
| Wrapper (inner : func).

(* what a class dictionary can hold *)
Inductive member :=
| MFunc (f : func)
| MClassMethod (f : func)
| MStaticMethod (f : func)
| MProperty (fget fset fdel : option func)
| MNested (c : cls)               (* a class defined inside this class (qualname prefixed by it) *)
| MForeign (id : nat)             (* a class attribute referring to a class defined elsewhere *)
| MData                            (* anything else *)
with cls := Cls (beartyped : bool) (members : list (string * member)).

Record dconf := { strategy_O0 : bool; python_O : bool }.

(* the decorator is the identity under -O and for the O0 strategy *)
Definition noop (cf : dconf) : bool := strategy_O0 cf || python_O cf.

Definition dec_func (cf : dconf) (f : func) : func :=
  match f with
  | Wrapper _ => f                                         (* already a beartype wrapper *)
  | Plain _ ann ntc => if noop cf || ntc || negb ann then f else Wrapper f
  end.

Fixpoint dec_member (cf : dconf) (m : member) {struct m} : member :=
  match m with
  | MFunc f => MFunc (dec_func cf f)
  | MClassMethod f => MClassMethod (dec_func cf f)
  | MStaticMethod f => MStaticMethod (dec_func cf f)
  | MProperty g s d => MProperty (option_map (dec_func cf) g) (option_map (dec_func cf) s) (option_map (dec_func cf) d)
  | MNested c => MNested (dec_cls cf c)
  | MForeign _ | MData => m
  end
with dec_cls (cf : dconf) (c : cls) {struct c} : cls :=
  match c with
  | Cls b ms =>
      if noop cf || b then c
      else Cls true ((fix go (l : list (string * member)) : list (string * member) :=
                        match l with [] => [] | (n, m) :: r => (n, dec_member cf m) :: go r end) ms)
  end.

(* descriptor kind, name by name *)
Inductive kind := KFunc | KClassMethod | KStaticMethod | KProperty | KNested | KForeign | KData.
Definition kind_of (m : member) : kind :=
  match m with
  | MFunc _ => KFunc | MClassMethod _ => KClassMethod | MStaticMethod _ => KStaticMethod
  | MProperty _ _ _ => KProperty | MNested _ => KNested | MForeign _ => KForeign | MData => KData
  end.

(* __wrapped__ of a function attribute *)
Definition wrapped_of (f : func) : option func := match f with Wrapper g => Some g | _ => None end.

Definition members_of (c : cls) : list (string * member) := match c with Cls _ ms => ms end.
