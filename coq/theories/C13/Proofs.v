(* C13 proofs: class decoration is member-wise decoration, idempotent, kind-preserving, and the
   identity in the no-op cases. *)
From Coq Require Import List Bool Arith String.
From BT Require Import C13.Decor.
Import ListNotations.
Local Open Scope list_scope.

Definition go_members (cf : dconf) :=
  fix go (l : list (string * member)) : list (string * member) :=
    match l with [] => [] | (n, m) :: r => (n, dec_member cf m) :: go r end.

Lemma go_members_map cf l : go_members cf l = map (fun nm => (fst nm, dec_member cf (snd nm))) l.
Proof. induction l as [|[n m] l IH]; [reflexivity|]. cbn. now rewrite IH. Qed.

(* 1. decorating a class that is not yet decorated is decorating each member it defines *)
Theorem class_is_memberwise cf ms :
  noop cf = false ->
  dec_cls cf (Cls false ms) = Cls true (map (fun nm => (fst nm, dec_member cf (snd nm))) ms).
Proof. intros H. cbn [dec_cls]. rewrite H. cbn [orb]. f_equal. apply go_members_map. Qed.

Lemma dec_func_idem cf f : dec_func cf (dec_func cf f) = dec_func cf f.
Proof.
  destruct f as [id ann ntc|g]; [|reflexivity]. cbn [dec_func].
  destruct (noop cf || ntc || negb ann) eqn:E; cbn [dec_func]; [now rewrite E|reflexivity].
Qed.

Lemma option_dec_idem cf o : option_map (dec_func cf) (option_map (dec_func cf) o) = option_map (dec_func cf) o.
Proof. destruct o; cbn; [now rewrite dec_func_idem|reflexivity]. Qed.

(* mutual induction on members and classes *)
Section Ind.
  Variable P : member -> Prop.
  Variable Q : cls -> Prop.
  Hypothesis PF : forall f, P (MFunc f).
  Hypothesis PC : forall f, P (MClassMethod f).
  Hypothesis PS : forall f, P (MStaticMethod f).
  Hypothesis PP : forall g s d, P (MProperty g s d).
  Hypothesis PN : forall c, Q c -> P (MNested c).
  Hypothesis PX : forall i, P (MForeign i).
  Hypothesis PD : P MData.
  Hypothesis QC : forall b ms, Forall (fun nm => P (snd nm)) ms -> Q (Cls b ms).

  Fixpoint member_ind2 (m : member) : P m :=
    match m with
    | MFunc f => PF f | MClassMethod f => PC f | MStaticMethod f => PS f | MProperty g s d => PP g s d
    | MNested c => PN c (cls_ind2 c) | MForeign i => PX i | MData => PD
    end
  with cls_ind2 (c : cls) : Q c :=
    match c with
    | Cls b ms => QC b ms ((fix go (l : list (string * member)) : Forall (fun nm => P (snd nm)) l :=
                              match l with
                              | [] => Forall_nil _
                              | (n, m) :: r => Forall_cons (n, m) (member_ind2 m) (go r)
                              end) ms)
    end.
End Ind.

(* 2. idempotence: decorating an already decorated class, member or callable changes nothing *)
Theorem dec_idempotent cf :
  (forall m, dec_member cf (dec_member cf m) = dec_member cf m) /\
  (forall c, dec_cls cf (dec_cls cf c) = dec_cls cf c).
Proof.
  assert (H : forall m, dec_member cf (dec_member cf m) = dec_member cf m).
  { apply (member_ind2 (fun m => dec_member cf (dec_member cf m) = dec_member cf m)
                       (fun c => dec_cls cf (dec_cls cf c) = dec_cls cf c)); intros; cbn [dec_member].
    - now rewrite dec_func_idem.
    - now rewrite dec_func_idem.
    - now rewrite dec_func_idem.
    - now rewrite !option_dec_idem.
    - now rewrite H.
    - reflexivity.
    - reflexivity.
    - cbn [dec_cls]. destruct (noop cf) eqn:En; cbn [orb].
      + cbn [dec_cls]. now rewrite En.
      + destruct b; cbn [dec_cls]; rewrite En; reflexivity. }
  split; [exact H|]. intros [b ms]. cbn [dec_cls].
  destruct (noop cf) eqn:En; cbn [orb]; [cbn [dec_cls]; now rewrite En|].
  destruct b; cbn [dec_cls]; rewrite En; reflexivity.
Qed.

(* 3. descriptor kinds and attribute names are kept *)
Theorem dec_keeps_kind cf m : kind_of (dec_member cf m) = kind_of m.
Proof. destruct m; reflexivity. Qed.

Theorem dec_keeps_names cf c : map fst (members_of (dec_cls cf c)) = map fst (members_of c).
Proof.
  destruct c as [b ms]. cbn [dec_cls]. destruct (noop cf || b); [reflexivity|]. cbn [members_of].
  change ((fix go (l : list (string * member)) : list (string * member) :=
             match l with [] => [] | (n, m) :: r => (n, dec_member cf m) :: go r end) ms) with (go_members cf ms).
  rewrite go_members_map, map_map. reflexivity.
Qed.

(* 4. a wrapper exposes the original as __wrapped__ *)
Theorem wrapper_exposes_original cf f g : dec_func cf f = Wrapper g -> f = Wrapper g \/ (f = g /\ wrapped_of (dec_func cf f) = Some f).
Proof.
  destruct f as [id ann ntc|h]; cbn [dec_func].
  - destruct (noop cf || ntc || negb ann) eqn:E; [discriminate|]. intros H. inversion H; subst. right. split; reflexivity.
  - intros H. now left.
Qed.

(* 5. identities: unannotated callables, @no_type_check callables, strategy O0, python -O *)
Theorem identity_cases cf id ann ntc :
  noop cf = true \/ ntc = true \/ ann = false -> dec_func cf (Plain id ann ntc) = Plain id ann ntc.
Proof.
  intros H. cbn [dec_func]. destruct (noop cf || ntc || negb ann) eqn:E; [reflexivity|].
  apply orb_false_iff in E as [E1 E3]. apply orb_false_iff in E1 as [E1 E2]. apply negb_false_iff in E3.
  destruct H as [H|[H|H]]; congruence.
Qed.

Theorem noop_class_identity cf c : noop cf = true -> dec_cls cf c = c.
Proof. intros H. destruct c as [b ms]. cbn [dec_cls]. now rewrite H. Qed.
