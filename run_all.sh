#!/bin/bash
# run every claimed check on the current tree with several seeds; the default seed last so that evidence/ is from it
cd /verif
for s in 1 2 3 20260923; do
  for p in C01 C02 C03 C04 C05 C06 C07 C08 C09 C10 C11 C12 C13 C14 C15 C16 C17 C18 C19 C20; do
    VERIF_SEED=$s timeout 3000 ./check $p --tier quick 2>&1 | grep -v "^KNOWN-FINDING" | tail -3 | cut -c1-230
  done
done
