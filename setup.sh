#!/bin/bash
set -e
cd "$(dirname "$0")"
exec /venv/bin/python -m harness.setup
