"""Case IR of the shared core: printers to Coq terms, seeded generators of hints and values.
(The Python-object side of the IR lives in harness/impl/universe.py.)"""
import json
import os
import sys

from harness.common import coq_list, coq_str

sys.path.insert(0, os.path.join(os.path.dirname(os.path.abspath(__file__)), 'impl'))
import universe as U  # noqa: E402

SEQ_SIGNS = ['List', 'Tuple', 'Sequence', 'MutableSequence']
REIT_SIGNS = ['Set', 'FrozenSet', 'AbstractSet', 'MutableSet', 'Collection', 'Deque', 'KeysView', 'ValuesView']
QUASI_SIGNS = ['Iterable', 'Container', 'Reversible']
MAP_SIGNS = sorted(U.MAP_ORIGIN)
SCALAR_CLASSES = ['int', 'str', 'bool', 'float', 'bytes', 'NoneType', 'UserA', 'UserB', 'UserC']
SPIED = ['list', 'tuple', 'deque', 'UserList', 'set', 'frozenset', 'dict', 'defaultdict', 'OrderedDict',
         'Counter', 'UserSeq', 'UserColl', 'UserIter', 'UserMap', 'UserSizedIter', 'UserRev']


# ------------------------------------------------------------------ Coq printers

def coq_val(v):
    t = v[0]
    if t == 'none':
        return 'VNone'
    if t == 'bool':
        return '(VBool true)' if v[1] else '(VBool false)'
    if t == 'int':
        return f'(VInt ({v[1]})%Z)'
    if t == 'float':
        return f'(VFloat ({v[1]})%Z)'
    if t == 'str':
        return f'(VStr {coq_str(v[1])})'
    if t == 'bytes':
        return f'(VBytes {coq_str(v[1])})'
    if t == 'cont':
        return f'(VCont c_{v[1]} {coq_list([coq_val(x) for x in v[2]])})'
    if t == 'map':
        return f'(VMap c_{v[1]} {coq_list(["(" + coq_val(k) + ", " + coq_val(x) + ")" for k, x in v[2]])})'
    if t == 'cls':
        return f'(VCls c_{v[1]})'
    if t == 'obj':
        return f'(VObj c_{v[1]} {coq_list(["(" + coq_str(k) + ", " + coq_val(x) + ")" for k, x in v[2]])})'
    raise ValueError(v)


def coq_hint(h):
    t = h[0]
    if t == 'any':
        return 'HAny'
    if t == 'cls':
        return f'(HCls c_{h[1]})'
    if t == 'none':
        return '(HCls c_NoneType)'
    if t == 'shallow':
        return f'(HShallow c_{U.SHALLOW[h[1]][1]})'
    if t == 'union':
        return f'(HUnion {coq_list([coq_hint(x) for x in h[1]])})'
    if t == 'optional':
        return f'(HUnion {coq_list([coq_hint(h[1]), "(HCls c_NoneType)"])})'
    if t == 'cont':
        return f'(HCont s_{h[1]} {coq_hint(h[2])})'
    if t == 'map':
        return f'(HMap m_{h[1]} {coq_hint(h[2])} {coq_hint(h[3])})'
    if t == 'counter':
        return f'(HCounter {coq_hint(h[1])})'
    if t == 'tuplefixed':
        return f'(HTuple {coq_list([coq_hint(x) for x in h[1]])})'
    if t == 'literal':
        return f'(HLiteral {coq_list([coq_val(v) for v in h[1]])})'
    if t == 'type':
        return f'(HType {coq_list(["c_" + c for c in h[1]])})' if h[1] else '(HShallow c_type)'
    if t == 'annot':
        return f'(HAnnot {coq_hint(h[1])} {coq_list([coq_vexp(v) for v in h[2]])})'
    # hints beartype reduces to another hint before generating code: the model is handed what they mean
    if t == 'tvar_constr':            # TypeVar('T', A, B, ...): any one of the constraints
        return f'(HUnion {coq_list([coq_hint(x) for x in h[1]])})'
    if t in ('tvar_bound', 'newtype', 'meta'):   # TypeVar('T', bound=H); NewType('N', C); Annotated[H, 'not a validator']
        return coq_hint(h[1])
    raise ValueError(h)


def coq_vexp(v):
    t = v[0]
    if t == 'is':
        return f'(VIs {v[1]})'
    if t == 'attr':
        return f'(VAttr {coq_str(v[1])} {coq_vexp(v[2])})'
    if t == 'eq':
        return f'(VEqual {coq_val(v[1])})'
    if t == 'inst':
        return f'(VInst {coq_list(["c_" + c for c in v[1]])})'
    if t == 'sub':
        return f'(VSub {coq_list(["c_" + c for c in v[1]])})'
    if t in ('and', 'or'):
        return f'({"VAnd" if t == "and" else "VOr"} {coq_vexp(v[1])} {coq_vexp(v[2])})'
    if t == 'not':
        return f'(VNot {coq_vexp(v[1])})'
    raise ValueError(v)


def gen_vexp(rng, depth):
    if depth <= 0 or rng.random() < 0.35:
        k = rng.choice(['is', 'is', 'eq', 'eq', 'inst', 'sub', 'attr'])
        if k == 'is':
            return ['is', rng.randrange(5)]
        if k == 'eq':
            return ['eq', rng.choice([['int', 1], ['int', 0], ['str', 'a'], ['bool', True], ['none'], ['str', 'ab']])]
        if k == 'inst':
            return ['inst', rng.choice([['int'], ['str'], ['int', 'str'], ['UserA'], ['list'], ['Sized']])]
        if k == 'sub':
            return ['sub', rng.choice([['int'], ['UserA'], ['int', 'str']])]
        return ['attr', rng.choice(['x', 'y']), gen_vexp(rng, depth - 1)]
    k = rng.choice(['and', 'or', 'not', 'attr'])
    if k == 'not':
        return ['not', gen_vexp(rng, depth - 1)]
    if k == 'attr':
        return ['attr', rng.choice(['x', 'y']), gen_vexp(rng, depth - 1)]
    return [k, gen_vexp(rng, depth - 1), gen_vexp(rng, depth - 1)]


def gen_annot(rng, depth, vdepth=3):
    mh = rng.choice([['any', 'object'], ['any', 'Any'], gen_hint(rng, max(0, depth - 1)), ['cls', 'int'],
                     ['cls', 'UserA'], ['any', 'object']])
    if mh[0] in ('union', 'optional', 'annot'):
        mh = ['cls', 'int']
    return ['annot', mh, [gen_vexp(rng, rng.randint(0, vdepth)) for _ in range(rng.choice([1, 1, 2, 3]))]]


def gen_attr_object(rng, depth=2):
    attrs = []
    for n in rng.sample(['x', 'y'], rng.choice([0, 1, 2])):
        v = gen_attr_object(rng, depth - 1) if depth > 0 and rng.random() < 0.4 else gen_scalar(rng)
        attrs.append([n, v])
    return ['obj', rng.choice(['UserA', 'UserB', 'UserC']), attrs]


# ------------------------------------------------------------------ generators

def gen_scalar(rng):
    k = rng.choice(['int', 'int', 'str', 'bool', 'float', 'bytes', 'none', 'obj'])
    if k == 'int':
        return ['int', rng.choice([0, 1, 2, -1, 7])]
    if k == 'str':
        return ['str', rng.choice(['', 'a', 'ab', 'xyz'])]
    if k == 'bool':
        return ['bool', rng.random() < 0.5]
    if k == 'float':
        return ['float', rng.choice([0, 2, 3, 5])]
    if k == 'bytes':
        return ['bytes', rng.choice(['', 'a', 'bc'])]
    if k == 'none':
        return ['none']
    return ['obj', rng.choice(['UserA', 'UserB', 'UserC']), []]


def gen_hint(rng, depth):
    """a hint of the modelled grammar G; nesting biased towards containers inside unions inside containers"""
    if rng.random() < 0.12:
        return gen_annot(rng, depth)
    if depth <= 0:
        r = rng.random()
        if r < 0.55:
            return ['cls', rng.choice(SCALAR_CLASSES)]
        if r < 0.65:
            return ['any', rng.choice(['Any', 'object'])]
        if r < 0.8:
            return gen_literal(rng)
        if r < 0.9:
            return ['type', rng.choice([['int'], ['UserA'], ['int', 'str'], ['UserA', 'UserC'], [], ['type'],
                                    ['type', 'int'], ['int', 'NoneType'], ['NoneType', 'UserA', 'str']])]
        return ['shallow', rng.choice(['Iterator', 'Generator']), ['cls', 'int']]
    r = rng.random()
    d = depth - 1
    if r < 0.2:
        return gen_hint(rng, 0)
    if r < 0.38:
        n = rng.choice([2, 2, 3])
        kids = []
        for _ in range(n):
            k = gen_hint(rng, d)
            if k[0] in ('union', 'optional') or k in kids:
                k = ['cls', rng.choice(SCALAR_CLASSES)]
            if k not in kids:
                kids.append(k)
        if len(kids) < 2:
            kids.append(['cont', 'List', ['cls', 'str']])
        return ['union', kids]
    if r < 0.58:
        return ['cont', rng.choice(SEQ_SIGNS), gen_hint(rng, d)]
    if r < 0.70:
        return ['cont', rng.choice(REIT_SIGNS), gen_hint(rng, d)]
    if r < 0.78:
        return ['cont', rng.choice(QUASI_SIGNS), gen_hint(rng, d)]
    if r < 0.90:
        return ['map', rng.choice(MAP_SIGNS), gen_hint(rng, rng.choice([0, 0, d])), gen_hint(rng, d)]
    if r < 0.93:
        return ['counter', gen_hint(rng, 0)]
    return ['tuplefixed', [gen_hint(rng, d) for _ in range(rng.choice([0, 1, 2, 2, 3]))]]


def gen_literal(rng):
    pool = [['int', 1], ['int', 0], ['str', 'a'], ['str', ''], ['bool', True], ['bool', False], ['none'],
            ['bytes', 'a'], ['int', 7]]
    n = rng.choice([1, 1, 2, 3])
    out = []
    for v in rng.sample(pool, n):
        out.append(v)
    # typing.Literal compares (and beartype memoises) order-insensitively: Literal['a', None] gets the code first
    # generated for Literal[None, 'a'] in the same process; members are kept in one canonical order
    return ['literal', sorted(out, key=json.dumps)]


def hashable(v):
    return v[0] in ('none', 'bool', 'int', 'float', 'str', 'bytes', 'cls') or \
        (v[0] == 'cont' and v[1] in ('tuple', 'frozenset') and all(hashable(x) for x in v[2])) or v[0] == 'obj'


def py_key(v):
    """dictionary keys that compare equal collapse in Python: canonical key for deduplication"""
    if v[0] in ('bool', 'int'):
        return ('num', 2 * int(v[1]))
    if v[0] == 'float':
        return ('num', v[1])
    if v[0] == 'obj' and v[1] == 'complex' and not v[2]:
        return ('num', 0)           # complex() == 0 == 0.0 == False: one dictionary key
    return json.dumps(v)


CONT_OF_ORIGIN = {
    'list': ['list', 'UserList'], 'tuple': ['tuple'], 'Sequence': ['list', 'tuple', 'UserSeq', 'deque', 'str'],
    'MutableSequence': ['list', 'deque', 'UserList'], 'set': ['set'], 'frozenset': ['frozenset'],
    'AbstractSet': ['set', 'frozenset', 'dict_keys'], 'MutableSet': ['set'],
    'Collection': ['list', 'set', 'UserColl', 'dict_values', 'tuple', 'deque', 'dict'], 'deque': ['deque'],
    'KeysView': ['dict_keys'], 'ValuesView': ['dict_values'],
    'Iterable': ['list', 'UserIter', 'generator', 'list_iterator', 'set', 'UserColl', 'UserSeq', 'dict',
                 'UserSizedIter', 'UserSizedIter', 'UserRev'],
    'Container': ['list', 'UserCont', 'set', 'UserColl', 'tuple'], 'Reversible': ['list', 'UserSeq', 'dict', 'deque', 'UserRev', 'UserRev'],
}
MAP_OF_ORIGIN = {'dict': ['dict', 'defaultdict', 'OrderedDict', 'Counter'], 'Mapping': ['dict', 'UserMap', 'ChainMap'],
                 'MutableMapping': ['dict', 'defaultdict', 'ChainMap'], 'defaultdict': ['defaultdict'],
                 'OrderedDict': ['OrderedDict'], 'ChainMap': ['ChainMap'], 'Counter': ['Counter']}


def gen_items(rng, child, n, sizes):
    return [gen_sat(rng, child, sizes) for _ in range(n)]


def gen_sat(rng, h, sizes=(0, 1, 2, 3)):
    """a value intended to satisfy hint h (the model's `sat` is the judge; this is a heuristic)"""
    t = h[0]
    if t == 'any':
        return gen_scalar(rng) if rng.random() < 0.7 else ['cont', 'list', [gen_scalar(rng)]]
    if t == 'cls':
        c = h[1]
        if c == 'int':
            return rng.choice([['int', 3], ['int', 0], ['bool', True]])
        if c == 'str':
            return ['str', rng.choice(['', 'a', 'bc'])]
        if c == 'bool':
            return ['bool', rng.random() < 0.5]
        if c == 'float':
            return ['float', rng.choice([1, 4])]
        if c == 'bytes':
            return ['bytes', rng.choice(['', 'ab'])]
        if c == 'NoneType':
            return ['none']
        if c == 'UserA':
            return ['obj', rng.choice(['UserA', 'UserB']), []]
        return ['obj', c, []]
    if t == 'none':
        return ['none']
    if t == 'shallow':
        return ['cont', 'generator' if h[1] == 'Generator' else rng.choice(['list_iterator', 'generator']),
                [gen_scalar(rng) for _ in range(rng.choice([0, 2]))]]
    if t in ('union', 'tvar_constr'):
        return gen_sat(rng, rng.choice(h[1]), sizes)
    if t in ('tvar_bound', 'newtype', 'meta'):
        return gen_sat(rng, h[1], sizes)
    if t == 'optional':
        return ['none'] if rng.random() < 0.3 else gen_sat(rng, h[1], sizes)
    if t == 'cont':
        origin = U.SIGN_ORIGIN[h[1]][1]
        cname = rng.choice(CONT_OF_ORIGIN[origin])
        n = rng.choice(sizes)
        if cname == 'str':
            return ['str', rng.choice(['', 'a', 'abc'])]
        if cname == 'dict':
            return gen_map(rng, 'dict', h[2], ['any', 'Any'], n, sizes)
        items = gen_items(rng, h[2], n, sizes)
        if cname in ('set', 'frozenset', 'dict_keys'):
            seen, out = set(), []
            for x in items:
                if hashable(x) and py_key(x) not in seen:
                    seen.add(py_key(x))
                    out.append(x)
            items = out
        return ['cont', cname, items]
    if t == 'map':
        origin = U.MAP_ORIGIN[h[1]][1]
        return gen_map(rng, rng.choice(MAP_OF_ORIGIN[origin]), h[2], h[3], rng.choice(sizes), sizes)
    if t == 'counter':
        return gen_map(rng, 'Counter', h[1], ['cls', 'int'], rng.choice(sizes), sizes)
    if t == 'tuplefixed':
        return ['cont', 'tuple', [gen_sat(rng, x, sizes) for x in h[1]]]
    if t == 'literal':
        return rng.choice(h[1])
    if t == 'annot':
        r = rng.random()
        if r < 0.35:
            return gen_attr_object(rng)
        if r < 0.5:
            return rng.choice([['int', 1], ['str', 'ab'], ['none'], ['cls', 'int'], ['cls', 'UserB'], ['bool', True]])
        return gen_sat(rng, h[1], sizes)
    if t == 'type':
        if not h[1]:
            return ['cls', rng.choice(['int', 'UserA', 'list'])]
        c = rng.choice(h[1])
        return ['cls', {'UserA': rng.choice(['UserA', 'UserB']), 'int': rng.choice(['int', 'bool']),
                        'type': rng.choice(['type', 'int', 'UserA'])}.get(c, c)]
    raise ValueError(h)


def gen_map(rng, cname, kh, vh, n, sizes):
    kvs, seen = [], set()
    for _ in range(n):
        k = gen_sat(rng, kh, sizes)
        if not hashable(k) or py_key(k) in seen:
            k = ['str', 'k%d' % len(kvs)] if kh[0] == 'any' else k
            if not hashable(k) or py_key(k) in seen:
                continue
        seen.add(py_key(k))
        v = gen_sat(rng, vh, sizes)
        if cname == 'Counter' and v[0] not in ('int', 'bool'):
            v = v  # a Counter may hold anything; the hint decides
        kvs.append([k, v])
    return ['map', cname, kvs]


def paths(v, prefix=()):
    out = [prefix]
    if v[0] == 'cont':
        for i, x in enumerate(v[2]):
            out += paths(x, prefix + (('i', i),))
    elif v[0] == 'map':
        for i, (k, x) in enumerate(v[2]):
            out += paths(k, prefix + (('k', i),))
            out += paths(x, prefix + (('v', i),))
    return out


def replace_at(v, path, new):
    if not path:
        return new
    (kind, i), rest = path[0], path[1:]
    v = json.loads(json.dumps(v))
    if kind == 'i':
        v[2][i] = replace_at(v[2][i], rest, new)
    elif kind == 'k':
        v[2][i][0] = replace_at(v[2][i][0], rest, new)
    else:
        v[2][i][1] = replace_at(v[2][i][1], rest, new)
    return v


def valid_value(v):
    """structural constraints Python imposes (hashable set items / keys, no duplicate keys)"""
    if v[0] == 'cont':
        if v[1] in ('set', 'frozenset', 'dict_keys'):
            ks = [py_key(x) for x in v[2]]
            if not all(hashable(x) for x in v[2]) or len(set(ks)) != len(ks):
                return False
        if v[1] == 'dict_items' and not all(x[0] == 'cont' and x[1] == 'tuple' and len(x[2]) == 2 for x in v[2]):
            return False
        return all(valid_value(x) for x in v[2])
    if v[0] == 'map':
        ks = [py_key(k) for k, _ in v[2]]
        if not all(hashable(k) for k, _ in v[2]) or len(set(ks)) != len(ks):
            return False
        return all(valid_value(k) and valid_value(x) for k, x in v[2])
    return True


def mutate(rng, v):
    """replace the sub-object at a random path by an object of another kind"""
    for _ in range(10):
        p = rng.choice(paths(v))
        new = rng.choice([gen_scalar(rng), ['cont', rng.choice(['list', 'tuple', 'set', 'generator']), []],
                          ['cont', 'list', [gen_scalar(rng)]], ['map', 'dict', []], ['cls', 'str']])
        w = replace_at(v, p, new)
        if valid_value(w) and w != v:
            return w
    return gen_scalar(rng)
