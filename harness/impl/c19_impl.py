"""Implementation side of C19: is_subhint on pairs, the order laws on triples, soundness against
is_bearable on generated objects, and TypeHint wrapper coherence."""
import json
import sys
import warnings

import universe as U
import core_impl  # noqa: F401  (fixes draws; py_sat)

from beartype.door import TypeHint, is_bearable, is_subhint  # noqa: E402
from beartype.roar import BeartypeDoorIsSubhintException  # noqa: E402


def sub(a, b):
    try:
        return 'T' if is_subhint(a, b) else 'F'
    except BeartypeDoorIsSubhintException:
        return 'X'
    except Exception as e:  # noqa
        return 'exc:' + type(e).__name__ + ': ' + str(e)[:120]


def coherence(h):
    """TypeHint wrapper facts for one hint"""
    out = {}
    try:
        t1, t2 = TypeHint(h), TypeHint(h)
        try:
            hash(h)
            out['same_object'] = t1 is t2
        except TypeError:
            out['same_object'] = None
        out['eq_self'] = (t1 == t2) is True
        out['hash_eq'] = hash(t1) == hash(t2)
        kids = list(t1)
        out['len_iter'] = len(t1) == len(kids)
        out['getitem'] = all(t1[i] is k or t1[i] == k for i, k in enumerate(kids))
        out['contains'] = all(k in t1 for k in kids)
        out['bool'] = bool(t1) == (len(kids) > 0)
        out['args_len'] = len(t1.args) >= len(kids)
        out['hint'] = t1.hint is h or t1.hint == h
        out['le_is_subhint'] = (t1 <= t2) is True and t1.is_subhint(t2) is True and t1.is_superhint(t2) is True
    except Exception as e:  # noqa
        out['error'] = type(e).__name__ + ': ' + str(e)[:200]
    return out


def extra_hints():
    """hints outside the modelled grammar whose wrappers synthesise their children (TypeVars, callables, NewTypes, generics)"""
    import collections.abc as cabc
    import typing
    T = typing.TypeVar('T')
    TB = typing.TypeVar('TB', bound=int)
    TS = typing.TypeVar('TS', bound=typing.Sequence)
    TC = typing.TypeVar('TC', int, str)

    class G(typing.Generic[T]):
        pass
    return {'TypeVar': T, 'TypeVar_bound_int': TB, 'TypeVar_bound_Sequence': TS, 'TypeVar_constrained': TC,
            'Callable[..., str]': typing.Callable[..., str], 'Callable[[], int]': typing.Callable[[], int],
            'Callable[[int], str]': typing.Callable[[int], str], 'Callable[[int, str], bool]': cabc.Callable[[int, str], bool],
            'NewType(int)': typing.NewType('N', int), 'G[int]': G[int], 'List[T]': typing.List[T],
            'Dict[str, TB]': typing.Dict[str, TB], 'Optional[TC]': typing.Optional[TC]}


def same_repr_probe():
    """pairs of distinct hints that print alike (TypeVars / NewTypes / factory-made classes of one name, and
    subscriptions over them): once the first was wrapped, the wrapper of the second wraps the second, and every
    answer about the second is the answer about a twin of it that prints differently"""
    import typing

    def mk(name, base):
        return type(name, (base,), {})
    fams = {
        'TypeVar_bound': lambda name, c: typing.TypeVar(name, bound=c),
        'NewType': lambda name, c: typing.NewType(name, c),
        'class': lambda name, c: mk(name, c),
        'List[TypeVar_bound]': lambda name, c: typing.List[typing.TypeVar(name, bound=c)],
        'Optional[NewType]': lambda name, c: typing.Optional[typing.NewType(name, c)],
    }
    others = [int, str, bool, object, typing.List[int], typing.List[str], typing.Optional[int], typing.Optional[str],
              typing.Union[int, str]]
    out = {}
    for fam, make in fams.items():
        res = {}
        try:
            first, second, twin = make('Same', int), make('Same', str), make('Twin', str)
            for x in others:
                sub(first, x), sub(x, first)                      # the history: the first is asked about
            res['same_repr'] = repr(first) == repr(second)      # a fact about the probe, always expected
            res['wraps_second'] = TypeHint(second).hint is second
            res['distinct_wrappers'] = TypeHint(first) is not TypeHint(second)
            bad = [repr(x) for x in others if sub(second, x) != sub(twin, x) or sub(x, second) != sub(x, twin)]
            res['answers_like_twin'] = not bad
            if bad:
                res['differs_against'] = ', '.join(bad[:4])
            res['first_vs_second'] = sub(second, first) == sub(twin, first) and sub(first, second) == sub(first, twin)
        except Exception as e:  # noqa
            res['error'] = type(e).__name__ + ': ' + str(e)[:200]
        out['same_repr ' + fam] = res
    return out


def main():
    warnings.simplefilter('ignore')
    payload = json.load(sys.stdin)
    out = []
    if payload.get('extra_coherence'):
        print(json.dumps([{**{name: coherence(h) for name, h in extra_hints().items()}, **same_repr_probe()}]))
        return
    for case in payload['cases']:
        hs = [U.hint_to_python(h) for h in case['hints']]
        res = {'pairs': {}}
        n = len(hs)
        for i in range(n):
            for j in range(n):
                res['pairs'][f'{i}{j}'] = sub(hs[i], hs[j])
        if case.get('values'):
            res['bearable'], res['sat'] = [], []
            for v in case['values']:
                try:
                    o = U.to_python(v)
                    b = [bool(is_bearable(o, h)) for h in hs]
                    st = [bool(core_impl.py_sat(hi, o)) for hi in case['hints']]
                except Exception:  # noqa  (an object the universe cannot build or judge)
                    b, st = [None] * len(hs), [None] * len(hs)
                res['bearable'].append(b)
                res['sat'].append(st)
        if case.get('coherence'):
            res['coherence'] = [coherence(h) for h in hs]
            # equal wrappers have equal hashes and are mutual subhints
            eqs = []
            for i in range(n):
                for j in range(n):
                    try:
                        a, b = TypeHint(hs[i]), TypeHint(hs[j])
                        if a == b:
                            eqs.append({'i': i, 'j': j, 'hash_eq': hash(a) == hash(b),
                                        'mutual': bool(a.is_subhint(b) and b.is_subhint(a))})
                    except Exception as e:  # noqa
                        eqs.append({'i': i, 'j': j, 'error': type(e).__name__})
            res['equal_pairs'] = eqs
        out.append(res)
    print(json.dumps(out))


if __name__ == '__main__':
    main()
