"""F18 witness: a lazy user Sequence whose length exceeds 2**32 with a single bad item beyond index 2**32."""
import json
import random
import sys
from collections.abc import Sequence

DRAW = [0]
import beartype._check.code.codemain as _codemain
_codemain.getrandbits = lambda n: DRAW[0]
from beartype.door import is_bearable


class Lazy(Sequence):
    def __init__(self, n, bad):
        self.n, self.bad = n, bad

    def __len__(self):
        return self.n

    def __getitem__(self, i):
        return 'bad' if i == self.bad else 0


def main():
    w = json.load(sys.stdin)
    rng = random.Random(w.get('seed', 1))
    draws = [0, 1, 2 ** 32 - 1, w['bad'] % 2 ** 32] + [rng.getrandbits(32) for _ in range(w.get('samples', 2000))]
    far = Lazy(w['length'], w['bad'])
    near = Lazy(w['length'], w['bad'] % 2 ** 32)
    rej = ctl = 0
    for d in draws:
        DRAW[0] = d
        rej += not is_bearable(far, Sequence[int])
        ctl += not is_bearable(near, Sequence[int])
    print(json.dumps({'draws': len(draws), 'rejections': rej, 'control_rejections': ctl}))


if __name__ == '__main__':
    main()
