"""Implementation side of C07: generated programs whose annotations are strings (quoted, partly quoted, postponed by
`from __future__ import annotations`) or evaluated objects, at module / class-body / closure scope, with the named class
defined before or after decoration and before or after the first call."""
import json
import sys
import types
import warnings
from typing import Dict, List, Optional, Tuple, Union

from beartype.door import is_bearable
from beartype.roar import BeartypeCallHintForwardRefException, BeartypeCallHintViolation, BeartypeException

SHAPES = {
    'K': lambda k: k,
    'List[K]': lambda k: List[k],
    'Optional[K]': lambda k: Optional[k],
    'Union[K, int]': lambda k: Union[k, int],
    'Dict[str, K]': lambda k: Dict[str, k],
    'Tuple[K, ...]': lambda k: Tuple[k, ...],
    'Tuple[int, K]': lambda k: Tuple[int, k],
    'List[Optional[K]]': lambda k: List[Optional[k]],
    'type[K]': lambda k: type[k],
}


def wrap(shape, v):
    """an object of the shape around the leaf value v"""
    return {'K': v, 'List[K]': [v], 'Optional[K]': v, 'Union[K, int]': v, 'Dict[str, K]': {'a': v}, 'Tuple[K, ...]': (v, v),
            'Tuple[int, K]': (1, v), 'List[Optional[K]]': [v], 'type[K]': type(v)}[shape]


def spell(shape, name, spelling):
    """annotation source text"""
    text = shape.replace('K', name)
    if spelling in ('evaluated', 'postponed'):
        return text
    if spelling == 'quoted':
        return repr(text)
    if spelling == 'quoted_inner':                 # only the class name is quoted
        return repr(name) if shape == 'K' else shape.replace('K', repr(name))
    raise KeyError(spelling)


class Unrelated:
    pass


class Recorder:
    def __init__(self, shape):
        self.shape = shape
        self.rows = []

    def probe(self, stage, func, k, bound_self=None):
        """call func with objects built around K (None: K is not defined yet) and record the verdicts beside what the evaluated
        hint would say"""
        call = (lambda o: func(o)) if bound_self is None else (lambda o: func(bound_self, o))
        if k is None:
            dummy = type('NoInstances', (), {})
            leaves = [('unrelated', Unrelated()), ('int', 5), ('none', None)]
            hint = SHAPES[self.shape](dummy)
        else:
            sub = type(k.__name__ + 'Sub', (k,), {})
            same_name = type(k.__name__, (), {})
            leaves = [('instance', k()), ('subclass_instance', sub()), ('unrelated', Unrelated()), ('same_name_unrelated', same_name()),
                      ('int', 5), ('none', None)]
            hint = SHAPES[self.shape](k)
        for tag, leaf in leaves:
            obj = wrap(self.shape, leaf)
            passes = is_bearable(obj, hint)
            if k is None:
                expected = ['ok', 'fwdref'] if passes else ['fwdref']
            else:
                expected = ['ok'] if passes else ['violation']
            try:
                r = call(obj)
                got = 'ok' if r is obj else 'changed'
            except BeartypeCallHintViolation:
                got = 'violation'
            except BeartypeCallHintForwardRefException:
                got = 'fwdref'
            except BeartypeException as e:
                got = 'beartype:' + type(e).__name__
            except Exception as e:  # noqa
                got = 'other:' + type(e).__name__
            self.rows.append({'stage': stage, 'obj': tag, 'got': got, 'expected': expected})


def indent(lines, n):
    return [('    ' * n) + l for l in lines]


def make_source(spec, spelling):
    """program text for one spelling.  The harness object __rec__ is injected into the module namespace."""
    shape, target, placement, depth = spec['shape'], spec['target'], spec['placement'], spec['depth']
    name = 'K'
    head = (['from __future__ import annotations'] if spelling == 'postponed' else []) + [
        'from beartype import beartype', 'from typing import Dict, List, Optional, Tuple, Union', '']
    ann = spell(shape, name, spelling)
    deco = '@beartype' if spec.get('decor', 'function') == 'function' else ''
    body = []
    if placement == 'module':
        if target == 'global_early':
            body += ['class K: pass', f'{deco}', f'def f(x: {ann}) -> {ann}: return x', "__rec__.probe('after', f, K)"]
        elif target == 'global_late':
            body += [f'{deco}', f'def f(x: {ann}) -> {ann}: return x']
            if spec['order'] == 'call_define_call':
                body += ["__rec__.probe('before', f, None)"]
            body += ['class K: pass', "__rec__.probe('after', f, K)", "__rec__.probe('again', f, K)"]
        elif target == 'never':
            body += [f'{deco}', f'def f(x: {ann}) -> {ann}: return x', "__rec__.probe('before', f, None)", "__rec__.probe('before2', f, None)"]
        else:
            raise KeyError(target)
    elif placement == 'method':
        # classes nested `depth` deep; the method lives in the innermost
        names = ['R', 'M', 'C'][:depth]
        cur = names[-1]
        decor_cls = spec.get('decor') == 'class'
        mdeco = [] if decor_cls else ['@beartype']
        inner = []
        if target == 'class_attr':
            inner += ['class K: pass'] + mdeco + [f'def meth(self, x: {ann}) -> {ann}: return x']
            kexpr = '.'.join(names) + '.K'
        elif target == 'self_class':
            ann = spell(shape, cur, spelling)
            inner += mdeco + [f'def meth(self, x: {ann}) -> {ann}: return x']
            kexpr = '.'.join(names)
        elif target == 'root_class':
            ann = spell(shape, names[0], spelling)
            inner += mdeco + [f'def meth(self, x: {ann}) -> {ann}: return x']
            kexpr = names[0]
        elif target == 'global_early':
            body += ['class K: pass']
            inner += mdeco + [f'def meth(self, x: {ann}) -> {ann}: return x']
            kexpr = 'K'
        elif target == 'attr_shadows_global':
            body += ['class Other: pass', 'K = Other']          # a module global of the same name, bound to another class
            inner += ['class K: pass'] + mdeco + [f'def meth(self, x: {ann}) -> {ann}: return x']
            kexpr = '.'.join(names) + '.K'
        elif target == 'outer_attr_hidden':
            body += ['class K: pass', 'class Other: pass']
            inner += mdeco + [f'def meth(self, x: {ann}) -> {ann}: return x']
            kexpr = '__K'
        elif target in ('global_late', 'never'):
            inner += mdeco + [f'def meth(self, x: {ann}) -> {ann}: return x']
            kexpr = 'K'
        else:
            raise KeyError(target)
        lines = inner
        for i in range(depth - 1, -1, -1):
            # the attribute of an enclosing class is not visible from the nested class's body (class scopes do not nest)
            extra = ['K = Other'] if (target == 'outer_attr_hidden' and i == 0 and depth >= 2) else []
            lines = [f'class {names[i]}:'] + indent(extra + lines, 1)
        if target == 'outer_attr_hidden':
            body += ['__K = K']
        if decor_cls:
            lines = ['@beartype'] + lines
        body += lines
        path = '.'.join(names)
        body += [f'__self = {path}()', f'__m = {path}.meth']
        if target == 'never':
            body += ["__rec__.probe('before', __m, None, __self)", "__rec__.probe('before2', __m, None, __self)"]
        elif target == 'global_late':
            if spec['order'] == 'call_define_call':
                body += ["__rec__.probe('before', __m, None, __self)"]
            body += ['class K: pass', f"__rec__.probe('after', __m, K, __self)"]
        else:
            body += [f"__rec__.probe('after', __m, {kexpr}, __self)"]
    elif placement == 'method_in_function' and target == 'attr_shadows_local':
        # a class declared in a function: a name that is both a class variable of the class and a local of the function means the
        # class variable (the class body is the innermost scope)
        mdeco = ['@beartype'] if spec.get('decor') == 'function' else []
        cdeco = ['@beartype'] if spec.get('decor') == 'class' else []
        inner = ['class Other: pass', 'K = Other'] + cdeco + ['class B:', '    class K: pass'] + indent(mdeco, 1) + \
            [f'    def meth(self, x: {ann}) -> {ann}: return x', "__rec__.probe('after_alive', B.meth, B.K, B())", 'return B']
        lines = [f'def outer{depth}():'] + indent(inner, 1)
        for d in range(depth - 1, 0, -1):
            lines = [f'def outer{d}():'] + indent(lines + [f'return outer{d + 1}()'], 1)
        body += lines + ['B_ = outer1()', "__rec__.probe('after_returned', B_.meth, B_.K, B_())"]
    elif placement == 'method_in_function':
        # two classes decorated inside one function; the first has a class variable called K bound to another class: it must not be
        # what 'K' means in the second class (Python binds K there to the module global)
        mdeco = ['@beartype'] if spec.get('decor') == 'function' else []
        cdeco = ['@beartype'] if spec.get('decor') == 'class' else []
        inner = cdeco + ['class A:', '    K = Other'] + indent(mdeco, 1) + ["    def m(self, x: 'int') -> 'int': return x"] + \
            cdeco + ['class B:'] + indent(mdeco, 1) + [f'    def meth(self, x: {ann}) -> {ann}: return x',
                                                      "__rec__.probe('after_alive', B.meth, K, B())", 'return B']
        lines = [f'def outer{depth}():'] + indent(inner, 1)
        for d in range(depth - 1, 0, -1):
            lines = [f'def outer{d}():'] + indent(lines + [f'return outer{d + 1}()'], 1)
        body += ['class K: pass', 'class Other: pass'] + lines + ['B_ = outer1()', "__rec__.probe('after_returned', B_.meth, K, B_())"]
    else:
        raise KeyError(placement)
    return '\n'.join(head + [l for l in body if l != '']) + '\n'


def closure_source(spec, spelling):
    """closures are easier to print directly than through make_source's generic nesting"""
    shape, target, depth = spec['shape'], spec['target'], spec['depth']
    ann = spell(shape, 'K', spelling)
    head = (['from __future__ import annotations'] if spelling == 'postponed' else []) + [
        'from beartype import beartype', 'from typing import Dict, List, Optional, Tuple, Union', '']
    pre, post, inner = [], [], []
    f = ['@beartype', f'def f(x: {ann}) -> {ann}: return x']
    if target == 'local_early':
        inner = ['class K: pass'] + f + ["__rec__.probe('after_alive', f, K)", 'return f, K']
        post = ["__rec__.probe('after_returned', f, K_)"]
    elif target == 'local_shadows_global':
        pre = ['class Other: pass', 'K = Other']
        inner = ['class K: pass'] + f + ["__rec__.probe('after_alive', f, K)", 'return f, K']
        post = ["__rec__.probe('after_returned', f, K_)"]
    elif target == 'two_activations':
        # the enclosing function runs twice: the first activation calls its closure while it runs, the second one's closure is
        # first called after its activation has returned; each closure is about its own activation's class
        lines = [f'def outer{depth}(call_inside):'] + indent(f + ['class K: pass', 'if call_inside:', "    __rec__.probe('after_alive', f, K)",
                                                                  'return f, K'], 1)
        for d in range(depth - 1, 0, -1):
            lines = [f'def outer{d}(call_inside):'] + indent(lines + [f'return outer{d + 1}(call_inside)'], 1)
        return '\n'.join(head + lines + ['fa, Ka = outer1(True)', 'fb, Kb = outer1(False)', "__rec__.probe('after_returned', fb, Kb)"]) + '\n'
    elif target == 'local_late':
        inner = f + (["__rec__.probe('before', f, None)"] if spec['order'] == 'call_define_call' else []) + ['class K: pass'] + \
            (["__rec__.probe('after_alive', f, K)"] if spec['order'] != 'returned_only' else []) + ['return f, K']
        post = ["__rec__.probe('after_returned', f, K_)"]
    elif target == 'global_early':
        pre = ['class K: pass']
        inner = f + ["__rec__.probe('after_alive', f, K)", 'return f, K']
        post = ["__rec__.probe('after_returned', f, K_)"]
    elif target == 'global_late':
        inner = f + ['return f, None']
        post = (["__rec__.probe('before', f, None)"] if spec['order'] == 'call_define_call' else []) + ['class K: pass', "__rec__.probe('after_returned', f, K)"]
    elif target == 'never':
        inner = f + ["__rec__.probe('before', f, None)", 'return f, None']
        post = ["__rec__.probe('before2', f, None)"]
    else:
        raise KeyError(target)
    lines = [f'def outer{depth}():'] + indent(inner, 1)
    for d in range(depth - 1, 0, -1):
        lines = [f'def outer{d}():'] + indent(lines + [f'return outer{d + 1}()'], 1)
    return '\n'.join(head + pre + lines + ['f, K_ = outer1()'] + post) + '\n'


COUNTER = [0]


def run_program(spec, spelling):
    src = closure_source(spec, spelling) if spec['placement'] == 'closure' else make_source(spec, spelling)
    COUNTER[0] += 1
    modname = 'c07mod_%d' % COUNTER[0]
    mod = types.ModuleType(modname)
    rec = Recorder(spec['shape'])
    mod.__dict__['__rec__'] = rec
    sys.modules[modname] = mod
    out = {'source': src}
    try:
        code = compile(src, '<%s>' % modname, 'exec')
        exec(code, mod.__dict__)
    except BaseException as e:  # noqa
        out['error'] = {'cls': type(e).__name__, 'beartype': isinstance(e, BeartypeException), 'msg': str(e)[:300]}
    out['rows'] = rec.rows
    return out


def main():
    warnings.simplefilter('ignore')
    payload = json.load(sys.stdin)
    res = []
    for spec in payload['cases']:
        o = {}
        for sp in spec['spellings']:
            o[sp] = run_program(spec, sp)
        res.append(o)
    print(json.dumps(res))


if __name__ == '__main__':
    main()
