"""Implementation side of C08: table-driven generator / async-generator / coroutine bodies, original and
@beartype-decorated, driven by the same protocol operations."""
import asyncio
import inspect
import json
import sys
import warnings
from collections.abc import AsyncGenerator, Generator

from beartype import beartype

class Shutdown08(BaseException):
    pass


EXC = {0: GeneratorExit, 1: RuntimeError, 2: TypeError, 3: ValueError, 4: KeyError, 5: ZeroDivisionError, 6: KeyboardInterrupt,
       7: Shutdown08}
TAG = {v: k for k, v in EXC.items()}


def lookup(table, s, key):
    if s >= len(table):
        return ['return']
    row = table[s]
    if key in ('next', 'send'):
        return row[key]
    e = int(key.split(':')[1])
    for k, a in row['throw']:
        if k == e:
            return a
    return ['raise', e]


def make_agen(table, log, checked):
    async def agen(x: int = 0):
        s, key = 0, 'next'
        while True:
            act = lookup(table, s, key)
            log.append([s, key])
            if act[0] == 'return':
                return
            if act[0] == 'raise':
                raise EXC[act[1]]('from body')
            try:
                got = yield act[1]
                key = 'next' if got is None else 'send'
            except BaseException as e:  # noqa
                key = 'throw:%d' % TAG.get(type(e), 5)
            s = act[2]
    if checked:
        agen.__annotations__['return'] = AsyncGenerator[int, None]
    return agen


def make_gen(table, log, checked):
    def gen(x: int = 0):
        s, key = 0, 'next'
        while True:
            act = lookup(table, s, key)
            log.append([s, key])
            if act[0] == 'return':
                return 'returned-%d' % s
            if act[0] == 'raise':
                raise EXC[act[1]]('from body')
            try:
                got = yield act[1]
                key = 'next' if got is None else 'send'
            except BaseException as e:  # noqa
                key = 'throw:%d' % TAG.get(type(e), 5)
            s = act[2]
    if checked:
        gen.__annotations__['return'] = Generator[int, None, str]
    return gen


def canon(kind, value=None):
    return [kind, value]


async def drive_async(g, ops):
    out = []
    for op in ops:
        try:
            if op[0] == 'next':
                r = await g.__anext__()
            elif op[0] == 'send':
                r = await g.asend(op[1])
            elif op[0] == 'throw':
                r = await g.athrow(EXC[op[1]]('thrown'))
            else:
                r = await g.aclose()
            out.append(canon('none') if r is None else canon('yield', r))
        except StopAsyncIteration:
            out.append(canon('stop'))
        except BaseException as e:  # noqa
            out.append(canon('raise', TAG.get(type(e), 'other:' + type(e).__name__)))
    return out


def drive_sync(g, ops):
    out = []
    for op in ops:
        try:
            if op[0] == 'next':
                r = next(g)
            elif op[0] == 'send':
                r = g.send(op[1])
            elif op[0] == 'throw':
                r = g.throw(EXC[op[1]]('thrown'))
            else:
                r = g.close()
            out.append(canon('none') if r is None else canon('yield', r))
        except StopIteration as e:
            out.append(canon('stop', e.value))
        except BaseException as e:  # noqa
            out.append(canon('raise', TAG.get(type(e), 'other:' + type(e).__name__)))
    return out


COROUTINE_ANNS = {
    'int': 'int', 'absent': None, 'NoReturn': 'typing.NoReturn', 'Never': 'typing.Never', 'Optional[int]': 'typing.Optional[int]',
    'Coroutine[int]': 'collections.abc.Coroutine[typing.Any, typing.Any, int]',
    'Coroutine[NoReturn]': 'collections.abc.Coroutine[typing.Any, typing.Any, typing.NoReturn]',
}


def coroutine_probe(spec, ann='int'):
    """a coroutine returning a value, a bad value, or raising, under several return annotations: original vs decorated"""
    import collections.abc, typing  # noqa
    log = []
    src = ('async def co(x: int = 0)%s:\n    log.append("start")\n    await asyncio.sleep(0)\n    log.append("resumed")\n'
           '    if spec == "raise":\n        raise KeyError("from body")\n    return "bad" if spec == "bad" else 7\n'
           % ('' if COROUTINE_ANNS[ann] is None else ' -> ' + COROUTINE_ANNS[ann]))
    ns = {'asyncio': asyncio, 'log': log, 'spec': spec, 'typing': typing, 'collections': collections}
    exec(src, ns)
    co = ns['co']
    d = beartype(co)
    res = {'kind_same': inspect.iscoroutinefunction(d) == inspect.iscoroutinefunction(co) is True}
    for name, f in (('orig', co), ('deco', d)):
        del log[:]
        try:
            res[name] = ['ok', asyncio.run(f())]
        except BaseException as e:  # noqa
            res[name] = ['raise', type(e).__name__]
        res[name + '_log'] = list(log)
    return res


def main():
    warnings.simplefilter('ignore')
    payload = json.load(sys.stdin)
    out = []
    for case in payload['cases']:
        if case['mode'] == 'coroutine':
            out.append(coroutine_probe(case['spec'], case.get('ann', 'int')))
            continue
        res = {}
        for which in ('orig', 'deco'):
            log = []
            mk = make_agen if case['mode'] == 'async' else make_gen
            f = mk(case['table'], log, case['checked'])
            g = beartype(f) if which == 'deco' else f
            if which == 'deco':
                res['is_wrapper'] = g is not f
                res['kind_same'] = (inspect.isasyncgenfunction(g) == inspect.isasyncgenfunction(f) and
                                    inspect.isgeneratorfunction(g) == inspect.isgeneratorfunction(f) and
                                    inspect.iscoroutinefunction(g) == inspect.iscoroutinefunction(f))
            try:
                obj = g()
                res[which] = asyncio.run(drive_async(obj, case['ops'])) if case['mode'] == 'async' else drive_sync(obj, case['ops'])
            except BaseException as e:  # noqa
                res[which] = 'crash:' + type(e).__name__ + ': ' + str(e)[:100]
            # finalise the generator object now (its clean-up is part of what is compared)
            obj = None
            import gc
            gc.collect()
            res[which + '_log'] = list(log)
        out.append(res)
    print(json.dumps(out))


if __name__ == '__main__':
    main()
