"""Implementation side of C13: generated classes decorated as a whole and member by member."""
import inspect
import json
import sys
import warnings

from beartype import BeartypeConf, BeartypeStrategy, beartype
from beartype.roar import BeartypeCallHintViolation

OPT = not __debug__


class Meta(type):
    """a user metaclass: classes of this metaclass are classes like any other for the decorator"""


class Foreign:
    def fm(self, x: int):
        return x


def gen_source(c, indent=''):
    """class IR -> source; returns lines"""
    lines = [f'{indent}class {c["name"]}({", ".join(c.get("bases", []))}):', f'{indent}    """doc of {c["name"]}"""']
    ind = indent + '    '
    for name, m in c['members']:
        k = m[0]
        if k in ('func', 'classmethod', 'staticmethod'):
            ann, ntc, pre = m[1], m[2], m[3]
            first = {'func': 'self, ', 'classmethod': 'cls, ', 'staticmethod': ''}[k]
            decos = []
            if k != 'func':
                decos.append('@' + k)
            if pre:
                decos.append('@beartype')
            if ntc:
                decos.append('@no_type_check')
            sig = f'{first}x: int' if ann else f'{first}x'
            ret = ' -> int' if ann else ''
            lines += [ind + d for d in decos]
            lines += [f'{ind}def {name}({sig}){ret}:', f'{ind}    """doc of {name}"""', f'{ind}    return x']
        elif k == 'property':
            ann, has_set, ann_set = m[1], m[2], (m[3] if len(m) > 3 else m[1])
            if len(m) > 4 and m[4]:
                # property(fget, fset, doc=...) with a docstring of its own: the getter has none ('nodoc') or another one ('other')
                gdoc = [] if m[4] == 'nodoc' else [f'{ind}    """internal accessor, see {name}"""']
                lines += [f'{ind}def _get_{name}(self){" -> int" if ann else ""}:'] + gdoc + [f'{ind}    return getattr(self, "_{name}", 0)']
                if has_set:
                    lines += [f'{ind}def _set_{name}(self, v{": int" if ann_set else ""}):', f'{ind}    self._{name} = v']
                lines += [f'{ind}{name} = property(_get_{name}, {"_set_" + name if has_set else "None"}, doc="doc of {name}")',
                          f'{ind}del _get_{name}' + (f', _set_{name}' if has_set else '')]
                continue
            lines += [f'{ind}@property', f'{ind}def {name}(self){" -> int" if ann else ""}:', f'{ind}    """doc of {name}"""',
                      f'{ind}    return getattr(self, "_{name}", 0)']
            if has_set:
                lines += [f'{ind}@{name}.setter', f'{ind}def {name}(self, v{": int" if ann_set else ""}):', f'{ind}    self._{name} = v']
        elif k == 'broken':
            # a member beartype cannot decorate (an integer is no type hint): under warning_cls_on_decorator_exception it is left
            # as it is, with a warning, and every other member is decorated all the same
            lines += [f'{ind}def {name}(self, x: 0xBAD):', f'{ind}    """doc of {name}"""', f'{ind}    return x']
        elif k == 'nested':
            lines += gen_source(m[1], ind)
        elif k == 'foreign':
            lines.append(f'{ind}{name} = Foreign')
        else:
            lines.append(f'{ind}{name} = 3')
    return lines


def is_wrapper(f):
    from beartype._util.bear.utilbearfunc import is_func_beartyped
    try:
        return bool(is_func_beartyped(f))
    except Exception:  # noqa
        return False


def funcs_of(attr):
    """the plain functions inside a class-dictionary entry"""
    if isinstance(attr, (classmethod, staticmethod)):
        return [attr.__func__]
    if isinstance(attr, property):
        return [f for f in (attr.fget, attr.fset, attr.fdel)]
    if inspect.isfunction(attr):
        return [attr]
    return []


def snapshot(cls):
    return {n: (a, funcs_of(a)) for n, a in cls.__dict__.items() if not n.startswith('__')}


def by_hand(cls, conf):
    """decorate each member the class itself defines, recursively for nested classes"""
    deco = beartype(conf=conf)
    for n, a in list(cls.__dict__.items()):
        if n.startswith('__'):
            continue
        if isinstance(a, classmethod):
            setattr(cls, n, classmethod(deco(a.__func__)))
        elif isinstance(a, staticmethod):
            setattr(cls, n, staticmethod(deco(a.__func__)))
        elif isinstance(a, property):
            setattr(cls, n, property(deco(a.fget) if a.fget else None, deco(a.fset) if a.fset else None,
                                     deco(a.fdel) if a.fdel else None, a.__doc__))
        elif inspect.isfunction(a):
            setattr(cls, n, deco(a))
        elif isinstance(a, type) and a.__qualname__.startswith(cls.__qualname__ + '.'):
            by_hand(a, conf)
    return cls


def call_outcomes(cls, c):
    """call every callable member with a good and a bad argument"""
    out = {}
    try:
        inst = cls()
    except Exception as e:  # noqa
        return {'__init__': type(e).__name__}
    for name, m in c['members']:
        k = m[0]
        res = []
        for arg in (1, 'bad'):
            try:
                if k in ('func', 'classmethod', 'staticmethod', 'broken'):
                    r = getattr(inst, name)(arg)
                    res.append('ok' if r is arg else 'changed')
                elif k == 'property':
                    if m[2]:
                        setattr(inst, name, arg)
                    r = getattr(inst, name)
                    res.append('ok')
                elif k == 'nested':
                    res.append(call_outcomes(getattr(cls, name), m[1]))
                    break
                else:
                    break
            except BeartypeCallHintViolation as e:
                res.append('violation:' + type(e).__name__)
            except Exception as e:  # noqa
                res.append('exc:' + type(e).__name__)
        out[name] = res
    return out


def observe(cls, c, before, prefix=''):
    """per member: kind, which inner functions are wrappers, what __wrapped__ is, metadata preserved"""
    out = {}
    for name, m in c['members']:
        a = cls.__dict__.get(name)
        b_attr, b_funcs = before[prefix + name] if prefix + name in before else (None, [])
        o = {'kind': 'type' if isinstance(a, type) else type(a).__name__, 'same_object': a is b_attr}
        fs = funcs_of(a)
        # identity at the level the property speaks about: the callables inside the descriptor
        o['funcs_same'] = [f is g for f, g in zip(fs, b_funcs)]
        o['wrappers'] = [is_wrapper(f) if f is not None else None for f in fs]
        # a member decorated before the class was is its own "before": its __wrapped__ is not compared
        o['wrapped_is_original'] = [(getattr(f, '__wrapped__', None) is g) if (f is not None and is_wrapper(f) and not is_wrapper(g)) else None
                                    for f, g in zip(fs, b_funcs)]
        meta = []
        for f, g in zip(fs, b_funcs):
            if f is None or g is None:
                continue
            meta.append(f.__name__ == g.__name__ and f.__doc__ == g.__doc__ and
                        str(inspect.signature(f)) == str(inspect.signature(g)) and f.__qualname__ == g.__qualname__)
        if isinstance(b_attr, (property, classmethod, staticmethod)):
            # the descriptor's own docstring (a property may have been given one that is not its getter's)
            meta.append(getattr(a, '__doc__', None) == getattr(b_attr, '__doc__', None))
        o['metadata_kept'] = all(meta)
        if m[0] == 'nested':
            nb = {n: v for n, v in snapshot_nested(before, prefix + name + '.').items()}
            o['nested'] = observe(a, m[1], before, prefix + name + '.')
        out[name] = o
    return out


def snapshot_all(cls, c, prefix=''):
    snap = {}
    for n, v in snapshot(cls).items():
        snap[prefix + n] = v
    for name, m in c['members']:
        if m[0] == 'nested':
            snap.update(snapshot_all(cls.__dict__[name], m[1], prefix + name + '.'))
    return snap


def snapshot_nested(before, prefix):
    return {k: v for k, v in before.items() if k.startswith(prefix)}


def run(case):
    conf = BeartypeConf(strategy=BeartypeStrategy.O0) if case.get('O0') else \
        BeartypeConf(warning_cls_on_decorator_exception=UserWarning) if case.get('warn_decor') else BeartypeConf()
    src = '\n'.join(gen_source(case['base']) + gen_source(case['cls'])) if case.get('base') else '\n'.join(gen_source(case['cls']))
    from typing import no_type_check
    import abc
    envA = {'beartype': beartype, 'no_type_check': no_type_check, 'Foreign': Foreign, 'abc': abc, 'Meta': Meta}
    envB = dict(envA)
    exec(src, envA)
    exec(src, envB)
    name = case['cls']['name']
    A, B = envA[name], envB[name]
    before = snapshot_all(A, case['cls'])
    base_before = snapshot(envA[case['base']['name']]) if case.get('base') else {}
    res = {}
    try:
        A2 = beartype(conf=conf)(A)
    except Exception as e:  # noqa
        return {'decor_error': type(e).__name__ + ': ' + str(e)[:200]}
    res['returns_same_class'] = A2 is A
    res['members'] = observe(A, case['cls'], before)
    res['class_meta'] = A.__name__ == name and A.__doc__ == f'doc of {name}'
    # idempotence: decorating again changes no attribute object
    mid = {n: a for n, a in A.__dict__.items() if not n.startswith('__')}
    A3 = beartype(conf=conf)(A)
    res['idempotent'] = A3 is A and all(A.__dict__[n] is a for n, a in mid.items())
    # inherited members untouched
    if case.get('base'):
        Bs = envA[case['base']['name']]
        res['base_untouched'] = all(Bs.__dict__[n] is a for n, (a, _) in base_before.items())
    # equivalence with decorating the members by hand, call for call
    by_hand(B, conf)
    res['calls_class'] = call_outcomes(A, case['cls'])
    res['calls_by_hand'] = call_outcomes(B, case['cls'])
    res['python_O'] = OPT
    return res


def main():
    warnings.simplefilter('ignore')
    payload = json.load(sys.stdin)
    print(json.dumps([run(c) for c in payload['cases']]))


if __name__ == '__main__':
    main()
