"""Implementation side of the C06 correspondence: replay registry histories on
beartype.claw and report what a client can observe."""
import json
import sys
import warnings

from beartype import BeartypeConf, BeartypeStrategy
from beartype.claw import (beartype_all, beartype_package, beartype_packages,
                           beartype_this_package, beartyping)
from beartype.claw._clawstate import claw_state
from beartype.claw._package.clawpkgtrie import get_package_conf_or_none
from beartype.roar import BeartypeClawDecorWarning, BeartypeClawHookException


class MyWarn(UserWarning):
    pass


IDS = [
    {},
    {'is_debug': True},
    {'is_color': False},
    {'strategy': BeartypeStrategy.On},
    {'is_pep484_tower': True},
]
WARNS = {0: BeartypeClawDecorWarning, 1: None, 2: MyWarn}


KNOWN = {}   # id(conf object) -> encoding; configurations are memoised, so identity decodes


def mk_conf(c):
    from beartype.claw._package._clawpkgmake import make_conf_hookable
    conf = _mk_conf(c)
    KNOWN[id(conf)] = (conf, dict(c, via=False))
    h = make_conf_hookable(conf)
    if h is not conf:
        KNOWN[id(h)] = (h, dict(c, warn=0, via=True))
    return conf


def _mk_conf(c):
    kw = dict(IDS[c['id']])
    if c['skip']:
        kw['claw_skip_package_names'] = tuple('.'.join(n) for n in c['skip'])
    if c['warn'] is not None:
        kw['warning_cls_on_decorator_exception'] = WARNS[c['warn']]
    return BeartypeConf(**kw)


def un_conf(conf):
    if conf is None:
        return None
    if id(conf) in KNOWN and KNOWN[id(conf)][0] is conf:
        return KNOWN[id(conf)][1]
    return {'id': -1, 'skip': [], 'warn': None, 'via': False, 'unknown': repr(conf)}
    cid = None
    for i, kw in enumerate(IDS):
        base = BeartypeConf(**kw)
        if (conf.is_debug, conf.is_color, conf.strategy, conf.is_pep484_tower) == \
           (base.is_debug, base.is_color, base.strategy, base.is_pep484_tower):
            cid = i
    if not conf._is_warning_cls_on_decorator_exception_set:
        warn = None
    else:
        w = conf.warning_cls_on_decorator_exception
        warn = [k for k, v in WARNS.items() if v is w][0]
    return {'id': cid, 'skip': [n.split('.') for n in conf.claw_skip_package_names], 'warn': warn}


def run_case(case):
    claw_state.reinit()
    stack = []
    results = []
    for op in case['ops']:
        k = op[0]
        try:
            if k == 'all':
                beartype_all(conf=mk_conf(op[1]))
            elif k == 'pkgs':
                names = ['.'.join(n) for n in op[1]]
                how = op[3] if len(op) > 3 else 'auto'
                if how == 'this':
                    g = {'__name__': names[0] + '.mod', '__package__': names[0],
                         'f': beartype_this_package, 'c': mk_conf(op[2])}
                    exec('f(conf=c)', g)
                elif len(names) == 1 and how != 'many':
                    beartype_package(names[0], conf=mk_conf(op[2]))
                else:
                    beartype_packages(tuple(names), conf=mk_conf(op[2]))
            elif k == 'enter':
                cm = beartyping(conf=mk_conf(op[1]))
                stack.append(cm)
                cm.__enter__()
            elif k == 'exit':
                if not stack:
                    results.append('noctx')
                    continue
                cm = stack.pop()
                cm.__exit__(None, None, None)
            results.append('ok')
        except BeartypeClawHookException:
            results.append('conflict')
        except Exception as e:  # anything else is reported by class
            results.append('exc:' + type(e).__name__)
    answers = [un_conf(get_package_conf_or_none('.'.join(q))) for q in case['queries']]
    hook = claw_state.beartype_path_hook is not None
    in_path_hooks = hook and claw_state.beartype_path_hook in sys.path_hooks
    # leave no live context behind
    claw_state.reinit()
    return {'results': results, 'answers': answers, 'hook': bool(hook and in_path_hooks)}


def main():
    warnings.simplefilter('ignore')
    payload = json.load(sys.stdin)
    if payload.get('builtin'):
        from beartype._data.shame.module.datashamemod import BLACKLIST_PACKAGE_NAMES
        print(json.dumps(sorted(BLACKLIST_PACKAGE_NAMES | {'beartype'})))
        return
    out = [run_case(c) for c in payload['cases']]
    print(json.dumps(out))


if __name__ == '__main__':
    main()
