"""Implementation side of C14.
mode 'decorators': beartype's own memoising decorators applied to probe callables, driven by operation
                   sequences; reports outcomes, whether the probe body ran, and the object identifiers seen.
mode 'history':    public-API operation histories run in a forked pristine interpreter, each query also
                   answered by a fork that has seen nothing before it."""
import gc
import json
import os
import sys
import warnings

import universe as U
import core_impl  # noqa: F401  (fixes sampler draws to 0)

from beartype._util.cache.utilcachecall import callable_cached, method_cached_arg_by_id  # noqa: E402


class Probe14(Exception):
    pass


def f_apply(policy, x):
    """the memoised pure function, as a Python callable of the argument (same table as C14/Corr.v f_of)"""
    if policy == 0:
        return ['cls', U_NAME[type(x)]]                      # type(x): tells True from 1
    if policy == 1:
        return ['bool', bool(x == 1)]                        # x == 1: congruent with ==
    if policy == 2:
        if x == 0:
            raise Probe14(7)
        return ['bool', True]                                # raises on everything == 0, else True: congruent
    raise ValueError(policy)


U_NAME = {}
for _n, _c in U.CLASSES:
    U_NAME.setdefault(_c, _n)


def outcome(fn):
    try:
        return {'ret': fn()}
    except Probe14 as e:
        return {'raise': e.args[0]}
    except Exception as e:  # noqa
        return {'error': type(e).__name__ + ': ' + str(e)[:100]}


def run_eq(case):
    ran = []

    def make():
        @callable_cached
        def probe(x):
            ran.append(1)
            return f_apply(case['policy'], x)
        return probe
    probe = make()
    out = []
    for op in case['ops']:
        if op[0] == 'clear':
            probe = make()
            continue
        x = U.to_python(op[1])
        n = len(ran)
        o = outcome(lambda: probe(x))
        o['ran'] = len(ran) > n
        out.append(o)
    return out


class Box:
    __slots__ = ('value', '__weakref__')

    def __init__(self, value):
        self.value = value


def run_id(case):
    ran = []

    class Host:
        @method_cached_arg_by_id
        def m(self, box):
            ran.append(1)
            return f_apply(case['policy'], box.value)

    def fresh_host():
        # a new decorated method has a new cache: that is what clearing means for one memoised method
        class Host2:
            @method_cached_arg_by_id
            def m(self, box):
                ran.append(1)
                return f_apply(case['policy'], box.value)
        return Host2()
    host = Host()
    live, ids, out = {}, {}, []
    for op in case['ops']:
        if op[0] == 'alloc':
            b = Box(U.to_python(op[2]))
            live[op[1]] = b
            out.append({'op': 'alloc', 'handle': op[1], 'id': ids.setdefault(id(b), len(ids))})
        elif op[0] == 'free':
            b = live.pop(op[1], None)
            del b
            gc.collect()
            out.append({'op': 'free', 'handle': op[1]})
        elif op[0] == 'call':
            b = live.get(op[1])
            if b is None:
                out.append({'op': 'call', 'handle': op[1], 'dead': True})
                continue
            n = len(ran)
            o = outcome(lambda: host.m(b))
            o.update({'op': 'call', 'handle': op[1], 'id': ids.setdefault(id(b), len(ids)), 'ran': len(ran) > n})
            out.append(o)
        elif op[0] == 'clear':
            # the identifier of the host matters too: keep the old host alive so that its address is not reused
            live['__host%d' % len(out)] = host
            host = fresh_host()
            out.append({'op': 'clear'})
    return out


# ---------------------------------------------------------------------------- public-API histories

def api_answer(op, env):
    """run one public-API operation; answers are canonical JSON"""
    from beartype import beartype
    from beartype.door import TypeHint, die_if_unbearable, is_bearable, is_subhint
    from beartype.roar import BeartypeException
    kind = op[0]
    try:
        # an optional fourth element: an explicit exception_prefix (the same string may be given to both functions)
        kw = {'exception_prefix': op[3]} if len(op) > 3 else {}
        if kind == 'is_bearable':
            r = is_bearable(U.to_python(op[2]), hint_of(op[1], env), **kw)
            return r if isinstance(r, bool) else 'not a bool: ' + repr(r)
        if kind == 'die':
            try:
                r = die_if_unbearable(U.to_python(op[2]), hint_of(op[1], env), **kw)
                return True if r is None else 'returned: ' + repr(r)
            except BeartypeException as e:
                return 'exc:' + type(e).__name__
        if kind == 'is_subhint':
            return bool(is_subhint(hint_of(op[1], env), hint_of(op[2], env)))
        if kind == 'th_cls':
            # a user-defined class (possibly a redefinition of a same-named one) through its wrapper
            C = env['ns'].get(op[1])
            if C is None:
                return 'undefined'
            w = TypeHint(C)
            # ... and below a PEP 585 / PEP 604 hint (these hints do not cache themselves: beartype keeps its own table of them)
            return [w.hint is C, bool(w.is_bearable(C())), bool(is_bearable(C(), C)), bool(is_bearable([C()], list[C])),
                    bool(is_bearable(C(), C | None)), bool(is_bearable({'k': C()}, dict[str, C]))]
        if kind == 'sub_cls':
            A, B = env['ns'].get(op[1]), env['ns'].get(op[2])
            if A is None or B is None:
                return 'undefined'
            return [bool(is_subhint(A, B)), bool(TypeHint(A) <= TypeHint(B))]
        if kind == 'th_sub':
            return bool(TypeHint(hint_of(op[1], env)).is_subhint(TypeHint(hint_of(op[2], env))))
        if kind == 'eq':
            return bool(TypeHint(hint_of(op[1], env)) == TypeHint(hint_of(op[2], env)))
        if kind == 'call':
            def fn(x):
                return x
            fn.__annotations__ = {'x': hint_of(op[1], env)}
            g = beartype(fn)
            try:
                g(U.to_python(op[2]))
                return True
            except BeartypeException as e:
                return 'exc:' + type(e).__name__
        if kind == 'ugen':
            # a user generic over a subscripted container, asked about under one of its subscriptions:
            # ['ugen', generic, [argument names], items of the instance, entry point]
            import typing
            T_, S_ = typing.TypeVar('T_'), typing.TypeVar('S_')
            gens = env.setdefault('ugens', {})
            if not gens:
                class UBox(list[T_]): pass
                class UOld(typing.List[T_]): pass
                class UPair(dict[S_, T_]): pass
                gens.update(UBox=UBox, UOld=UOld, UPair=UPair)
            G = gens[op[1]]
            args = tuple({'int': int, 'str': str, 'bytes': bytes}[a] for a in op[2])
            hint = G[args if len(args) > 1 else args[0]]
            items = [U.to_python(x) for x in op[3]]
            obj = G(dict(zip(items[0::2], items[1::2]))) if op[1] == 'UPair' else G(items)
            if op[4] == 'is_bearable':
                return bool(is_bearable(obj, hint))
            if op[4] == 'typehint':
                return bool(TypeHint(hint).is_bearable(obj))
            if op[4] == 'die':
                try:
                    die_if_unbearable(obj, hint)
                    return True
                except BeartypeException as e:
                    return 'exc:' + type(e).__name__

            def fn(x):
                return x
            fn.__annotations__ = {'x': hint}
            try:
                beartype(fn)(obj)
                return True
            except BeartypeException as e:
                return 'exc:' + type(e).__name__
        if kind == 'gc':
            env['keep'].clear()
            gc.collect()
            return None
        if kind == 'clear':
            from beartype._util.cache.utilcacheclear import clear_caches
            clear_caches()
            return None
        if kind == 'define':
            # (re)define the class a forward reference names
            env['ns'][op[1]] = type(op[1], (), {'tag': op[2]})
            return None
        if kind == 'define_bt':
            # the same, the class being decorated by @beartype (beartype notices redefinitions of such classes and clears its caches)
            env['ns'][op[1]] = beartype(type(op[1], (), {'tag': op[2], '__module__': '__c14__'}))
            return None
        if kind == 'fwd_hint':
            # door checks against hints with a *string* child naming a class of the calling module, followed by another child:
            # such hints mean what the name means now, whatever it meant when an equal hint was checked before
            ns = env['ns']
            if op[1] not in ns:
                return 'undefined'
            n = op[1]
            src = ('from beartype.door import is_bearable\n'
                   '__R = [bool(is_bearable({%s(): 1}, dict["%s", int])), bool(is_bearable((%s(), 1), tuple["%s", int])),\n'
                   '       bool(is_bearable(([%s()], [1]), tuple[list["%s"], list[int]])), bool(is_bearable({1: 1}, dict["%s", int]))]\n' % ((n,) * 7))
            exec(src, ns)
            return ns['__R']
        if kind == 'fwd':
            # a decorated callable annotated by the *name* of a class resolved in env['ns']
            ns = env['ns']
            src = 'def fn(x: "%s"): return x\n' % op[1]
            loc = {}
            exec(src, ns, loc)
            fn = loc['fn']
            fn.__module__ = '__c14__'
            g = env.setdefault('fwd_funcs', {}).get(op[1])
            if g is None or op[3]:
                g = beartype(fn)
                env['fwd_funcs'][op[1]] = g
            arg = ns[op[2]]() if op[2] in ns else 0
            try:
                g(arg)
                return True
            except BeartypeException as e:
                return 'exc:' + type(e).__name__
    except Exception as e:  # noqa
        return 'raw:' + type(e).__name__
    return 'unknown-op'


def hint_of(h, env):
    """hint IR -> hint; ['unhashable', IR, n] is Annotated[hint, [n]] (metadata that cannot be hashed);
    hints are kept alive in env['keep'] until a 'gc' operation"""
    import typing
    if h[0] == 'unhashable':
        r = typing.Annotated[U.hint_to_python(h[1]), [h[2]]]
    else:
        r = U.hint_to_python(h)
    env['keep'].append(r)
    return r


def run_history(case):
    """answers within the history (one forked interpreter) and alone (one fork per query)"""
    def in_fork(fn):
        r, w = os.pipe()
        pid = os.fork()
        if pid == 0:
            try:
                os.close(r)
                data = json.dumps(fn())
                os.write(w, data.encode())
            finally:
                os._exit(0)
        os.close(w)
        buf = b''
        while True:
            chunk = os.read(r, 65536)
            if not chunk:
                break
            buf += chunk
        os.close(r)
        os.waitpid(pid, 0)
        return json.loads(buf.decode()) if buf else 'fork-died'

    def new_env():
        # a real module, so that forward references can be resolved through sys.modules like in user code
        import types
        mod = types.ModuleType('__c14__')
        sys.modules['__c14__'] = mod
        return {'keep': [], 'ns': mod.__dict__}

    def whole():
        env = new_env()
        return [api_answer(op, env) for op in case['ops']]

    def alone(i):
        def go():
            env = new_env()
            # definitions are part of the query's arguments (the program text), not of the cache history
            for op in case['ops'][:i]:
                if op[0] in ('define', 'define_bt'):
                    api_answer(op, env)
            return api_answer(case['ops'][i], env)
        return go
    hist = in_fork(whole)
    fresh = [in_fork(alone(i)) if op[0] not in ('gc', 'clear', 'define', 'define_bt') else None for i, op in enumerate(case['ops'])]
    return {'history': hist, 'fresh': fresh}


def main():
    warnings.simplefilter('ignore')
    payload = json.load(sys.stdin)
    out = []
    for case in payload['cases']:
        if case['mode'] == 'eq':
            out.append(run_eq(case))
        elif case['mode'] == 'id':
            out.append(run_id(case))
        else:
            out.append(run_history(case))
    print(json.dumps(out))


if __name__ == '__main__':
    main()
