"""Implementation side of C15: real threads driven through beartype's public API under a controlled
line-level scheduler (sys.settrace): at every traced line inside the selected beartype files the running
thread hands control back and a seeded scheduler picks who runs next."""
import json
import random
import sys
import threading
import time
import warnings

TARGET_PARTS = ('beartype/_conf/confmain.py', 'beartype/_util/cache/map/utilmapunbounded.py', 'beartype/door/_cls/doormeta.py',
                'beartype/_util/cache/utilcachecall.py', 'beartype/claw/_package/clawpkgmain.py', 'beartype/claw/_package/clawpkgtrie.py',
                'beartype/_check/checkmake.py', 'beartype/_util/cache/pool/utilcachepool.py', 'beartype/_decor/decorcache.py',
                'beartype/door/_func/doorfunc.py', 'beartype/_check/cls/call/calldatadecorfunc.py', 'c15_impl.py')
# files traced only around the lines that take an object from a pool or give one back
PARTIAL_PARTS = ('beartype/_check/code/codemain.py', 'beartype/_check/error/errmain.py')
POOL_FILES = ('calldatadecorfunc.py', 'utilcachepool.py', 'codemain.py')
CLAW_FILES = ('clawpkgmain.py', 'clawpkgtrie.py')
DIRECTED_FILES = {'register_conflict': CLAW_FILES, 'conf': ('confmain.py',)}     # per scenario; the object pools otherwise
_PARTIAL_LINES = {}


def partial_lines(filename):
    """line numbers of a partially traced file within 6 lines of an acquire_* / release_* call"""
    if filename not in _PARTIAL_LINES:
        keep = set()
        try:
            with open(filename) as f:
                lines = f.read().split('\n')
        except OSError:
            lines = []
        for i, l in enumerate(lines, 1):
            t = l.strip()
            if not t.startswith('#') and ('acquire_' in t or 'release_' in t) and 'import' not in t:
                keep.update(range(i - 6, i + 7))
        _PARTIAL_LINES[filename] = keep
    return _PARTIAL_LINES[filename]


class Scheduler:
    """token passing: only the thread holding the token runs traced code; a thread blocked on a real lock
    (it does not come back within `patience`) is left alone and another one is scheduled"""

    def __init__(self, seed, patience=0.02, plan=None, files=POOL_FILES):
        self.rng = random.Random(seed)
        self.files = files          # the only files traced under a plan
        self.plan = plan            # None: uniform random; 'sequential'; or a directed plan (see choose)
        self.phase = 0
        self.at = {}                # tid -> (file, line) it is about to execute
        self.seen = {}              # (tid, file, line) -> number of times reached
        self.tsteps = {}            # tid -> traced steps taken
        self.log0 = []              # positions of thread 0, in order
        self.phase1_start = None
        self.cond = threading.Condition()
        self.waiting = set()
        self.token = None
        self.done = set()
        self.steps = 0
        self.switches = 0
        self.patience = patience
        self.trace_log = []

    def tracer(self, tid):
        def local(frame, event, arg):
            if event == 'line':
                fn = frame.f_code.co_filename
                if fn.endswith(PARTIAL_PARTS) and frame.f_lineno not in partial_lines(fn):
                    return local
                self.pause(tid, (fn, frame.f_lineno))
            return local

        def glob(frame, event, arg):
            fn = frame.f_code.co_filename
            if self.plan is not None and not fn.endswith(self.files):
                return None            # directed schedules only need the pool-handling files
            if (fn.endswith(TARGET_PARTS) or fn.endswith(PARTIAL_PARTS)) and frame.f_code.co_name not in ('pause', 'tracer', 'local', 'glob', 'worker'):
                return local
            return None
        return glob

    def pause(self, tid, pos=None):
        with self.cond:
            self.steps += 1
            self.tsteps[tid] = self.tsteps.get(tid, 0) + 1
            if pos is not None:
                self.at[tid] = pos
                self.seen[(tid,) + pos] = self.seen.get((tid,) + pos, 0) + 1
                if tid == 0:
                    self.log0.append(pos)
            self.waiting.add(tid)
            if self.token == tid:
                self.token = None
            self.cond.notify_all()
            while self.token != tid:
                self.cond.wait(1.0)
            self.waiting.discard(tid)

    def choose(self, ready):
        """who runs next.  Directed plan {'file','line','occ','other_steps'}: thread 0 runs alone until it is about to execute the
        occ-th visit of (file, line); thread 1 then runs other_steps traced steps; thread 0 runs to its end; the others finish"""
        if self.plan is None:
            return self.rng.choice(ready)
        if self.plan == 'sequential':
            return ready[0]
        pl = self.plan
        if self.phase == 0:
            pos = self.at.get(0)
            if 0 in self.done:
                self.phase = 3
            elif pos is not None and pos[0].endswith(pl['file']) and pos[1] == pl['line'] and self.seen.get((0,) + pos, 0) == pl['occ']:
                self.phase = 1
                self.phase1_start = self.tsteps.get(1, 0)
            elif 0 in ready:
                return 0
        if self.phase == 1:
            if 1 in self.done or self.tsteps.get(1, 0) - self.phase1_start >= pl['other_steps']:
                self.phase = 2
            elif 1 in ready:
                return 1
        if self.phase == 2:
            if 0 in self.done:
                self.phase = 3
            elif 0 in ready:
                return 0
        return ready[0] if self.phase == 3 or 0 not in ready else ([t for t in ready if t != 0] or ready)[0]

    def worker(self, tid, fn, results):
        sys.settrace(self.tracer(tid))
        try:
            self.pause(tid)
            results[tid] = ('ok', fn())
        except BaseException as e:  # noqa
            results[tid] = ('exc', type(e).__name__ + ': ' + str(e)[:150])
        finally:
            sys.settrace(None)
            with self.cond:
                self.done.add(tid)
                self.waiting.discard(tid)
                if self.token == tid:
                    self.token = None
                self.cond.notify_all()

    def run(self, fns, timeout=20.0):
        results = {}
        threads = [threading.Thread(target=self.worker, args=(i, f, results), daemon=True) for i, f in enumerate(fns)]
        for t in threads:
            t.start()
        deadline = time.time() + timeout
        last = None
        with self.cond:
            while len(self.done) < len(fns) and time.time() < deadline:
                if self.token is not None:
                    # somebody is running: wait for it to pause / finish, or give up on it (blocked on a real lock)
                    holder = self.token
                    self.cond.wait(self.patience)
                    if self.token == holder and holder not in self.waiting and holder not in self.done:
                        self.token = None          # blocked: let somebody else run
                    continue
                ready = sorted(self.waiting - self.done)
                if not ready:
                    self.cond.wait(self.patience)
                    continue
                nxt = self.choose(ready)
                if nxt != last:
                    self.switches += 1
                last = nxt
                self.token = nxt
                self.cond.notify_all()
        for t in threads:
            t.join(0.5)
        return results, len(self.done) == len(fns)


def scenario(name, seed):
    """returns (callables, judge) for one scenario; judge(results) -> list of problems"""
    from beartype import BeartypeConf, beartype
    from beartype.door import TypeHint, is_bearable
    from typing import List, Dict, Union
    rng = random.Random(seed)
    if name == 'conf':
        # configurations nobody created before in this process (the memo is process-global)
        kws = [dict(is_debug=False, is_color=rng.choice([None, True, False]), violation_verbosity=rng.choice([1, 2, 3]),
                    claw_skip_package_names=('c15skip_%d_%d' % (seed, i),)) for i in range(2)]
        from beartype import BeartypeViolationVerbosity as V
        for k in kws:
            k['violation_verbosity'] = V(k['violation_verbosity'])
        picks = [0, 0, rng.choice([0, 0, 1])]     # the first two threads ask for the same new configuration

        def make_and_use(k):
            # what a caller does with a configuration it has just been handed: read it, print it, hash it, check under it
            c = BeartypeConf(**k)
            seen = (c.claw_skip_package_names, c.violation_verbosity, c.is_color, c.strategy, c.hint_overrides, c.violation_type,
                    c.claw_decor_place_func, c.warning_cls_on_decorator_exception)
            if c.claw_skip_package_names != k['claw_skip_package_names'] or not repr(c) or hash(c) != hash(c):
                raise AssertionError('a configuration that does not read back what it was made from: %r' % (seen,))
            if is_bearable('x', int, conf=c):
                raise AssertionError('is_bearable under a freshly made configuration accepted a str as an int')
            return c
        fns = [(lambda k=kws[p]: make_and_use(k)) for p in picks]

        def judge(res):
            out = []
            for i in range(3):
                for j in range(i + 1, 3):
                    same_kw = kws[picks[i]] == kws[picks[j]]
                    if res[i][0] == 'ok' and res[j][0] == 'ok' and same_kw != (res[i][1] is res[j][1]):
                        out.append('equal configurations are not one shared object' if same_kw else 'different configurations share one object')
            return out
        return fns, judge
    if name == 'typehint':
        from typing import Literal
        hints = [List[Literal[seed]], Dict[str, List[Literal[seed]]], Union[int, Literal['s%d' % seed]]]   # fresh hints
        picks = [rng.randrange(2) for _ in range(3)]
        pool = rng.sample(hints, 2)
        fns = [(lambda h=pool[p]: TypeHint(h)) for p in picks]

        def judge(res):
            out = []
            for i in range(3):
                for j in range(i + 1, 3):
                    if res[i][0] == 'ok' and res[j][0] == 'ok' and (picks[i] == picks[j]) != (res[i][1] is res[j][1]):
                        out.append('equal hashable hints do not yield one shared TypeHint object')
            return out
        return fns, judge
    if name == 'register':
        from beartype.claw import beartype_packages
        from beartype.claw._package.clawpkgtrie import get_package_conf_or_none
        names = ['c15pkg_%d_%d' % (seed % 1000, i) for i in range(3)]
        fns = [(lambda n=n: beartype_packages((n, n + '.sub'))) for n in names]

        def judge(res):
            out = []
            for n in names:
                if get_package_conf_or_none(n + '.mod') is None or get_package_conf_or_none(n + '.sub.mod') is None:
                    out.append('a registration was lost')
            return out
        return fns, judge
    if name == 'register_conflict':
        # a two-package registration racing with a conflicting registration of its second package: either order is fine, but a
        # rejected registration must leave nothing behind
        from beartype.claw import beartype_package, beartype_packages
        from beartype.claw._package.clawpkgtrie import get_package_conf_or_none
        x, pk = 'c15cx_%d' % (seed % 100000), 'c15cp_%d' % (seed % 100000)
        ca = BeartypeConf(is_debug=False, claw_skip_package_names=('c15a_%d' % seed,))
        cb = BeartypeConf(is_debug=False, claw_skip_package_names=('c15b_%d' % seed,))
        fns = [(lambda: beartype_packages((x, pk), conf=ca)), (lambda: beartype_package(pk, conf=cb))]

        def judge(res):
            a_ok, b_ok = res[0][0] == 'ok', res[1][0] == 'ok'
            x_conf, p_conf = get_package_conf_or_none(x + '.mod'), get_package_conf_or_none(pk + '.mod')
            # the registry holds the hookable form of a configuration: recognise whose it is by the skip list
            who = lambda c: None if c is None else ('A' if c.claw_skip_package_names == ca.claw_skip_package_names else  # noqa: E731
                                                    'B' if c.claw_skip_package_names == cb.claw_skip_package_names else '?')
            if a_ok and not b_ok and who(x_conf) == 'A' and who(p_conf) == 'A':
                return []          # the order A, B
            if b_ok and not a_ok and x_conf is None and who(p_conf) == 'B':
                return []          # the order B, A
            return ['no sequential order of the two registrations gives this outcome: A %s, B %s, first package %s, second package under %s' % (
                'ok' if a_ok else 'rejected', 'ok' if b_ok else 'rejected', 'registered' if x_conf is not None else 'not registered',
                who(p_conf) or 'nobody')]
        return fns, judge
    if name == 'check':
        from typing import Literal, Tuple
        fresh = Tuple[Literal['c%d' % seed]]          # a hint nobody checked before: the check is really generated
        hint = Dict[str, List[Union[int, str, fresh]]] if seed % 2 else List[Dict[str, Union[int, fresh]]]
        objs = [{'a': [1, 'x']}, {'a': [1.5]}, [{'k': 1}], [{'k': 'v'}]]
        fns = [(lambda o=o: is_bearable(o, hint)) for o in rng.sample(objs, 3)]
        expect = None

        def judge(res):
            out = []
            for r in res.values():
                if r[0] == 'ok' and not isinstance(r[1], bool):
                    out.append('is_bearable returned a non-boolean')
            return out
        return fns, judge
    if name == 'decorate':
        def mk(i):
            def f(x: List[int], y: Dict[str, int] = None, z=None) -> List[int]:
                return x
            f.__name__ = 'f%d' % i
            from typing import Literal, Optional
            f.__annotations__['z'] = Optional[List[Literal['fresh%d_%d' % (seed, i % 2)]]]
            return f
        fs = [mk(i) for i in range(3)]

        def deco(f):
            g = beartype(f)
            ok = g([1, 2]) == [1, 2]
            try:
                g(['a'])
                bad = False
            except Exception as e:  # noqa
                bad = type(e).__name__ == 'BeartypeCallHintParamViolation'
            return ok and bad
        fns = [(lambda f=f: deco(f)) for f in fs]

        def judge(res):
            return ['a concurrently decorated callable does not check like a sequentially decorated one'
                    for r in res.values() if r[0] == 'ok' and r[1] is not True]
        return fns, judge
    if name == 'unlocked_probe':
        from beartype._util.cache.utilcachecall import callable_cached

        @callable_cached
        def fresh(k):
            return object()
        fns = [(lambda: fresh(7)) for _ in range(2)]

        def judge(res):
            return []
        return fns, judge
    raise ValueError(name)


def directed(case):
    """systematic single-preemption schedules around the object pools: thread 0 is parked just before each line it executes in
    the pool-handling files, thread 1 runs a quarter / half / three quarters of its own work, thread 0 finishes, the rest finish"""
    name, seed = case['scenario'], case['seed']
    files = DIRECTED_FILES.get(name, POOL_FILES)
    for warm in range(2):            # the first runs fill process-wide memos; positions are stable afterwards
        fns, judge = scenario(name, seed * 7 + warm)
        Scheduler(seed, plan='sequential', files=files).run(fns)
    fns, judge = scenario(name, seed * 7 + 2)
    dry = Scheduler(seed, plan='sequential', files=files)
    dry.run(fns)
    per_thread = max(1, dry.tsteps.get(1, 1))
    targets, occ = [], {}
    for pos in dry.log0:
        occ[pos] = occ.get(pos, 0) + 1
        if pos[0].endswith(files) and occ[pos] <= 2:
            targets.append((pos[0], pos[1], occ[pos]))
    rng = random.Random(seed)
    if len(targets) > case.get('max_targets', 10 ** 9):
        targets = rng.sample(targets, case['max_targets'])
    res = {'finished': True, 'steps': 0, 'switches': 0, 'outcomes': {}, 'problems': [], 'exceptions': [], 'schedules': 0,
           'targets': len(targets), 'failing_plans': []}
    k = 3
    for (fn, line, n) in targets:
        for frac in (0.25, 0.5, 0.75, 100.0):        # the last: thread 1 runs to its end (or until it blocks on a lock thread 0 holds)
            plan = {'file': fn, 'line': line, 'occ': n, 'other_steps': max(1, int(per_thread * frac))}
            k += 1
            fns, judge = scenario(name, seed * 7 + k)
            sched = Scheduler(seed, plan=plan, files=files)
            results, finished = sched.run(fns)
            res['schedules'] += 1
            res['steps'] += sched.steps
            res['switches'] += sched.switches
            probs = judge(results) if finished else ['not all threads finished (deadlock or livelock under the scheduler)']
            excs = [v[1] for v in results.values() if v[0] == 'exc'] if name != 'register_conflict' else []
            if probs or excs:
                short = {'file': fn[fn.rfind('beartype/'):], 'line': line, 'occ': n, 'other_steps': plan['other_steps']}
                res['failing_plans'].append(short)
                res['problems'] += ['%s [thread 0 parked before %s:%d, thread 1 ran %d steps]' % (p, short['file'], line, plan['other_steps']) for p in probs]
                res['exceptions'] += ['%s [thread 0 parked before %s:%d, thread 1 ran %d steps]' % (e, short['file'], line, plan['other_steps']) for e in excs]
                if len(res['failing_plans']) >= 3:
                    return res
    return res


def main():
    warnings.simplefilter('ignore')
    payload = json.load(sys.stdin)
    out = []
    for case in payload['cases']:
        if case.get('mode') == 'directed':
            out.append(directed(case))
            continue
        sched = Scheduler(case['seed'])
        fns, judge = scenario(case['scenario'], case['seed'])
        results, finished = sched.run(fns)
        res = {'finished': finished, 'steps': sched.steps, 'switches': sched.switches,
               'outcomes': {str(k): [v[0], (v[1] if v[0] == 'exc' else None)] for k, v in results.items()}}
        res['problems'] = judge(results) if finished else ['not all threads finished (deadlock or livelock under the scheduler)']
        res['exceptions'] = [v[1] for v in results.values() if v[0] == 'exc']
        if case['scenario'] == 'unlocked_probe' and finished and all(v[0] == 'ok' for v in results.values()):
            res['distinct_objects'] = results[0][1] is not results[1][1]
        out.append(res)
    print(json.dumps(out))


if __name__ == '__main__':
    main()
