"""Implementation side of C15: real threads driven through beartype's public API under a controlled
line-level scheduler (sys.settrace): at every traced line inside the selected beartype files the running
thread hands control back and a seeded scheduler picks who runs next."""
import json
import random
import sys
import threading
import time
import warnings

TARGET_PARTS = ('beartype/_conf/confmain.py', 'beartype/_util/cache/map/utilmapunbounded.py', 'beartype/door/_cls/doormeta.py',
                'beartype/_util/cache/utilcachecall.py', 'beartype/claw/_package/clawpkgmain.py', 'beartype/claw/_package/clawpkgtrie.py',
                'beartype/_check/checkmake.py', 'beartype/_util/cache/pool/utilcachepool.py', 'beartype/_decor/decorcache.py',
                'beartype/door/_func/doorfunc.py', 'c15_impl.py')


class Scheduler:
    """token passing: only the thread holding the token runs traced code; a thread blocked on a real lock
    (it does not come back within `patience`) is left alone and another one is scheduled"""

    def __init__(self, seed, patience=0.02):
        self.rng = random.Random(seed)
        self.cond = threading.Condition()
        self.waiting = set()
        self.token = None
        self.done = set()
        self.steps = 0
        self.switches = 0
        self.patience = patience
        self.trace_log = []

    def tracer(self, tid):
        def local(frame, event, arg):
            if event == 'line':
                self.pause(tid)
            return local

        def glob(frame, event, arg):
            fn = frame.f_code.co_filename
            if any(fn.endswith(p) for p in TARGET_PARTS) and frame.f_code.co_name not in ('pause', 'tracer', 'local', 'glob', 'worker'):
                return local
            return None
        return glob

    def pause(self, tid):
        with self.cond:
            self.steps += 1
            self.waiting.add(tid)
            if self.token == tid:
                self.token = None
            self.cond.notify_all()
            while self.token != tid:
                self.cond.wait(1.0)
            self.waiting.discard(tid)

    def worker(self, tid, fn, results):
        sys.settrace(self.tracer(tid))
        try:
            self.pause(tid)
            results[tid] = ('ok', fn())
        except BaseException as e:  # noqa
            results[tid] = ('exc', type(e).__name__ + ': ' + str(e)[:150])
        finally:
            sys.settrace(None)
            with self.cond:
                self.done.add(tid)
                self.waiting.discard(tid)
                if self.token == tid:
                    self.token = None
                self.cond.notify_all()

    def run(self, fns, timeout=20.0):
        results = {}
        threads = [threading.Thread(target=self.worker, args=(i, f, results), daemon=True) for i, f in enumerate(fns)]
        for t in threads:
            t.start()
        deadline = time.time() + timeout
        last = None
        with self.cond:
            while len(self.done) < len(fns) and time.time() < deadline:
                if self.token is not None:
                    # somebody is running: wait for it to pause / finish, or give up on it (blocked on a real lock)
                    holder = self.token
                    self.cond.wait(self.patience)
                    if self.token == holder and holder not in self.waiting and holder not in self.done:
                        self.token = None          # blocked: let somebody else run
                    continue
                ready = sorted(self.waiting - self.done)
                if not ready:
                    self.cond.wait(self.patience)
                    continue
                nxt = self.rng.choice(ready)
                if nxt != last:
                    self.switches += 1
                last = nxt
                self.token = nxt
                self.cond.notify_all()
        for t in threads:
            t.join(0.5)
        return results, len(self.done) == len(fns)


def scenario(name, seed):
    """returns (callables, judge) for one scenario; judge(results) -> list of problems"""
    from beartype import BeartypeConf, beartype
    from beartype.door import TypeHint, is_bearable
    from typing import List, Dict, Union
    rng = random.Random(seed)
    if name == 'conf':
        # configurations nobody created before in this process (the memo is process-global)
        kws = [dict(is_debug=False, is_color=rng.choice([None, True, False]), violation_verbosity=rng.choice([1, 2, 3]),
                    claw_skip_package_names=('c15skip_%d_%d' % (seed, i),)) for i in range(2)]
        from beartype import BeartypeViolationVerbosity as V
        for k in kws:
            k['violation_verbosity'] = V(k['violation_verbosity'])
        picks = [rng.choice([0, 0, 1]) for _ in range(3)]
        fns = [(lambda k=kws[p]: BeartypeConf(**k)) for p in picks]

        def judge(res):
            out = []
            for i in range(3):
                for j in range(i + 1, 3):
                    same_kw = kws[picks[i]] == kws[picks[j]]
                    if res[i][0] == 'ok' and res[j][0] == 'ok' and same_kw != (res[i][1] is res[j][1]):
                        out.append('equal configurations are not one shared object' if same_kw else 'different configurations share one object')
            return out
        return fns, judge
    if name == 'typehint':
        from typing import Literal
        hints = [List[Literal[seed]], Dict[str, List[Literal[seed]]], Union[int, Literal['s%d' % seed]]]   # fresh hints
        picks = [rng.randrange(2) for _ in range(3)]
        pool = rng.sample(hints, 2)
        fns = [(lambda h=pool[p]: TypeHint(h)) for p in picks]

        def judge(res):
            out = []
            for i in range(3):
                for j in range(i + 1, 3):
                    if res[i][0] == 'ok' and res[j][0] == 'ok' and (picks[i] == picks[j]) != (res[i][1] is res[j][1]):
                        out.append('equal hashable hints do not yield one shared TypeHint object')
            return out
        return fns, judge
    if name == 'register':
        from beartype.claw import beartype_packages
        from beartype.claw._package.clawpkgtrie import get_package_conf_or_none
        names = ['c15pkg_%d_%d' % (seed % 1000, i) for i in range(3)]
        fns = [(lambda n=n: beartype_packages((n, n + '.sub'))) for n in names]

        def judge(res):
            out = []
            for n in names:
                if get_package_conf_or_none(n + '.mod') is None or get_package_conf_or_none(n + '.sub.mod') is None:
                    out.append('a registration was lost')
            return out
        return fns, judge
    if name == 'check':
        hint = Dict[str, List[Union[int, str]]] if seed % 2 else List[Dict[str, int]]
        objs = [{'a': [1, 'x']}, {'a': [1.5]}, [{'k': 1}], [{'k': 'v'}]]
        fns = [(lambda o=o: is_bearable(o, hint)) for o in rng.sample(objs, 3)]
        expect = None

        def judge(res):
            out = []
            for r in res.values():
                if r[0] == 'ok' and not isinstance(r[1], bool):
                    out.append('is_bearable returned a non-boolean')
            return out
        return fns, judge
    if name == 'decorate':
        def mk(i):
            def f(x: List[int], y: Dict[str, int] = None) -> List[int]:
                return x
            f.__name__ = 'f%d' % i
            return f
        fs = [mk(i) for i in range(3)]

        def deco(f):
            g = beartype(f)
            ok = g([1, 2]) == [1, 2]
            try:
                g(['a'])
                bad = False
            except Exception as e:  # noqa
                bad = type(e).__name__ == 'BeartypeCallHintParamViolation'
            return ok and bad
        fns = [(lambda f=f: deco(f)) for f in fs]

        def judge(res):
            return ['a concurrently decorated callable does not check like a sequentially decorated one'
                    for r in res.values() if r[0] == 'ok' and r[1] is not True]
        return fns, judge
    if name == 'unlocked_probe':
        from beartype._util.cache.utilcachecall import callable_cached

        @callable_cached
        def fresh(k):
            return object()
        fns = [(lambda: fresh(7)) for _ in range(2)]

        def judge(res):
            return []
        return fns, judge
    raise ValueError(name)


def main():
    warnings.simplefilter('ignore')
    payload = json.load(sys.stdin)
    out = []
    for case in payload['cases']:
        sched = Scheduler(case['seed'])
        fns, judge = scenario(case['scenario'], case['seed'])
        results, finished = sched.run(fns)
        res = {'finished': finished, 'steps': sched.steps, 'switches': sched.switches,
               'outcomes': {str(k): [v[0], (v[1] if v[0] == 'exc' else None)] for k, v in results.items()}}
        res['problems'] = judge(results) if finished else ['not all threads finished (deadlock or livelock under the scheduler)']
        res['exceptions'] = [v[1] for v in results.values() if v[0] == 'exc']
        if case['scenario'] == 'unlocked_probe' and finished and all(v[0] == 'ok' for v in results.values()):
            res['distinct_objects'] = results[0][1] is not results[1][1]
        out.append(res)
    print(json.dumps(out))


if __name__ == '__main__':
    main()
