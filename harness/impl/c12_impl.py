"""Implementation side of the C12 correspondence: validator.is_valid(obj), is_bearable on
Annotated[T, V...] at the root and one level down, and the verdict reported by the violation message."""
import json
import re
import sys
import typing
import warnings

import universe as U

DRAW = [0]
import beartype._check.code.codemain as _codemain  # noqa: E402
_codemain.getrandbits = lambda n: DRAW[0]
from beartype.door import die_if_unbearable, is_bearable  # noqa: E402
from beartype.roar import BeartypeDoorHintViolation  # noqa: E402


def run(case):
    vs = [U.vexp_to_python(v) for v in case['vexps']]
    mh = U.hint_to_python(case['metahint'])
    obj = U.to_python(case['value'])
    out = {'is_valid': [], 'root': None, 'nested': None, 'named': None, 'diag_first': None}
    for v in vs:
        try:
            out['is_valid'].append(bool(v.is_valid(obj)))
        except Exception as e:
            out['is_valid'].append('exc:' + type(e).__name__)
    hint = typing.Annotated[(mh,) + tuple(vs)]
    for key, h, o in (('root', hint, obj), ('nested', list[hint], [obj]),
                      ('mapped', dict[str, hint], {'k': obj})):
        try:
            out[key] = bool(is_bearable(o, h))
        except Exception as e:
            out[key] = 'exc:' + type(e).__name__
    if case.get('second'):
        # the same object below a union of two validated hints in an item position (the first member's check is handed the
        # assignment expression that localises the item), in both orders, in a list and as a dictionary value
        vs2 = [U.vexp_to_python(v) for v in case['second']['vexps']]
        hint2 = typing.Annotated[(U.hint_to_python(case['second']['metahint']),) + tuple(vs2)]
        out['union'] = []
        for h, o in ((list[typing.Union[hint, hint2]], [obj]), (list[typing.Union[hint2, hint]], [obj]),
                     (dict[str, typing.Union[hint, hint2]], {'k': obj}), (tuple[int, typing.Union[hint, hint2]], (0, obj))):
            try:
                v = bool(is_bearable(o, h))
            except Exception as e:
                v = 'exc:' + type(e).__name__
            try:
                die_if_unbearable(o, h)
                d = True
            except BeartypeDoorHintViolation:
                d = False
            except Exception as e:
                d = 'exc:' + type(e).__name__
            out['union'].append([v, d])
    try:
        die_if_unbearable(obj, hint)
    except BeartypeDoorHintViolation as e:
        msg = str(e)
        m = re.search(r'violates validator (.*?):\n\s*(True|False) ==', msg, re.S)
        if m:
            named = [i for i, v in enumerate(vs) if repr(v) == m.group(1).strip()]
            out['named'] = named[0] if named else -1
            out['diag_first'] = m.group(2) == 'True'
        else:
            out['named'] = 'no-validator-named'
    except Exception as e:
        out['named'] = 'exc:' + type(e).__name__
    return out


def main():
    warnings.simplefilter('ignore')
    payload = json.load(sys.stdin)
    print(json.dumps([run(c) for c in payload['cases']]))


if __name__ == '__main__':
    main()
