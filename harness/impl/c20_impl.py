"""Implementation side of the C20 correspondence: infer_hint on generated objects, the inferred hint
read back into the hint IR, and is_bearable(obj, infer_hint(obj)) with every draw fixed to 0."""
import collections
import collections.abc as abc
import json
import sys
import types
import typing
import warnings

import universe as U

import core_impl  # noqa: E402  (fixes every sampler draw to core_impl.DRAW[0] = 0; provides py_sat)

from beartype.door import infer_hint, is_bearable  # noqa: E402
from beartype.vale._core._valecore import BeartypeValidator  # noqa: E402

NAME_OF = {}
for _n, _c in U.CLASSES:
    NAME_OF.setdefault(_c, _n)
CONT = {list: 'List', set: 'Set', frozenset: 'FrozenSet', collections.deque: 'Deque', abc.KeysView: 'KeysView',
        abc.ValuesView: 'ValuesView', abc.Collection: 'Collection', abc.Sequence: 'Sequence',
        abc.MutableSequence: 'MutableSequence', abc.MutableSet: 'MutableSet', abc.Set: 'AbstractSet',
        abc.Container: 'Container', abc.Iterable: 'Iterable', abc.Reversible: 'Reversible'}
MAPS = {dict: 'Dict', collections.ChainMap: 'ChainMap', collections.defaultdict: 'DefaultDict',
        collections.OrderedDict: 'OrderedDict', abc.Mapping: 'Mapping', abc.MutableMapping: 'MutableMapping'}


class Unreadable(Exception):
    pass


def read_back(h):
    """a hint produced by infer_hint -> hint IR"""
    if h is None or h is type(None):
        return ['cls', 'NoneType']
    origin, args = typing.get_origin(h), typing.get_args(h)
    if origin is typing.Annotated:
        meta = h.__metadata__
        if len(meta) != 1 or not isinstance(meta[0], BeartypeValidator):
            raise Unreadable('Annotated metadata ' + repr(meta))
        r = repr(meta[0])
        if not (r.startswith('beartype.vale.IsInstance[') and r.endswith(']')):
            raise Unreadable('validator ' + r)
        name = r[len('beartype.vale.IsInstance['):-1].split('.')[-1]
        if name not in U.CLS:
            raise Unreadable('IsInstance class ' + name)
        return ['annot', read_back(h.__origin__), [['inst', [name]]]]
    if origin is typing.Union or origin is types.UnionType:
        return ['union', [read_back(a) for a in args]]
    if origin is type:
        if len(args) != 1 or args[0] not in NAME_OF:
            raise Unreadable('type[...] ' + repr(h))
        return ['type', [NAME_OF[args[0]]]]
    if origin is tuple:
        if len(args) == 2 and args[1] is Ellipsis:
            return ['cont', 'Tuple', read_back(args[0])]
        return ['tuplefixed', [read_back(a) for a in args if a != ()]]
    if origin is collections.Counter:
        return ['counter', read_back(args[0])]
    if origin in MAPS:
        return ['map', MAPS[origin], read_back(args[0]), read_back(args[1])]
    if origin in CONT:
        return ['cont', CONT[origin], read_back(args[0])]
    if origin is None and isinstance(h, type) and h in NAME_OF:
        return ['cls', NAME_OF[h]]
    raise Unreadable(repr(h))


def main():
    payload = json.load(sys.stdin)
    out = []
    for case in payload['cases']:
        res = {}
        try:
            obj = U.to_python(case['value'])
            with warnings.catch_warnings(record=True) as wl:
                warnings.simplefilter('always')
                hint = infer_hint(obj)
            res['warnings'] = [w.category.__name__ for w in wl]
            res['hint_repr'] = repr(hint)[:400]
            try:
                res['bearable'] = bool(is_bearable(obj, hint))
            except Exception as e:  # noqa
                res['bearable'] = 'exc:' + type(e).__name__ + ': ' + str(e)[:200]
            try:
                res['hint_ir'] = read_back(hint)
                res['expect_sat'] = bool(core_impl.py_sat(res['hint_ir'], U.to_python(case['value'])))
            except Unreadable as e:
                res['unreadable'] = str(e)[:300]
            res['value_norm'] = U.iteration_order(case['value'])
        except Exception as e:  # noqa
            res['error'] = type(e).__name__ + ': ' + str(e)[:300]
        out.append(res)
    print(json.dumps(out))


if __name__ == '__main__':
    main()
