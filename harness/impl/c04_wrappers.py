"""C04 probe: @beartype applied to functools.wraps wrappers around annotated callables.  Whatever beartype makes of such a
wrapper, conforming calls must behave exactly like the undecorated wrapper (same result, the wrapped callable run once, no
violation for a value Python binds to the wrapper's own option), and a transparent (*args, **kwargs) wrapper must have the wrapped
callable's parameters checked.  Prints one JSON list of rows."""
import functools
import json
import warnings

from beartype import beartype
from beartype.roar import BeartypeCallHintParamViolation, BeartypeCallHintReturnViolation

RAN = []


def fetch(url: str, **opts: str) -> str:
    RAN.append('fetch')
    return url + ''.join(sorted(opts))


def total(*items: int, **named: int) -> int:
    RAN.append('total')
    return sum(items) + sum(named.values())


def pair(a: int, b: str = 'x', *, c: bytes = b'') -> tuple:
    RAN.append('pair')
    return (a, b, c)


def w_transparent(fn):
    @functools.wraps(fn)
    def wrapper(*args, **kwargs):
        return fn(*args, **kwargs)
    return wrapper


def w_kwonly(fn):
    @functools.wraps(fn)
    def wrapper(*args, retries=1, **kwargs):
        RAN.append(('retries', retries))
        return fn(*args, **kwargs)
    return wrapper


def w_kwonly_novarkw(fn):
    @functools.wraps(fn)
    def wrapper(*args, log_to=None):
        RAN.append(('log_to', log_to))
        return fn(*args)
    return wrapper


def w_leading(fn):
    @functools.wraps(fn)
    def wrapper(tag, *args, **kwargs):
        RAN.append(('tag', tag))
        return fn(*args, **kwargs)
    return wrapper


def w_defaulted(fn):
    @functools.wraps(fn)
    def wrapper(*args, _cache={}, **kwargs):
        return fn(*args, **kwargs)
    return wrapper


WRAPPERS = {'transparent': w_transparent, 'kwonly': w_kwonly, 'kwonly_novarkw': w_kwonly_novarkw, 'leading': w_leading,
            'defaulted': w_defaulted}
# (inner, conforming calls as (args, kwargs)); the wrapper's own option is added per wrapper below
INNER = {
    'fetch': (fetch, [(('http://x',), {}), (('http://x',), {'mode': 'fast'}), ((), {'url': 'u', 'k': 'v'})]),
    'total': (total, [((1, 2), {}), ((1, 2), {'extra': 3}), ((), {})]),
    'pair': (pair, [((1,), {}), ((1, 'y'), {'c': b'z'}), ((), {'a': 1, 'b': 'y'})]),
}
OWN = {'transparent': [{}], 'kwonly': [{}, {'retries': 2}], 'kwonly_novarkw': [{}, {'log_to': 'stderr'}, {'log_to': None}],
       'leading': [{}], 'defaulted': [{}]}
# violating calls for the transparent wrapper: the wrapped callable's own checks must fire
BAD = {'fetch': [((5,), {}), (('u',), {'mode': 7})], 'total': [(('x',), {}), ((1,), {'extra': 'y'})], 'pair': [(('x',), {}), ((1,), {'c': 'notbytes'})]}


def attempt(f, args, kwargs):
    del RAN[:]
    try:
        r = f(*args, **kwargs)
        out = ['ok', repr(r)]
    except BeartypeCallHintParamViolation:
        out = ['param_violation']
    except BeartypeCallHintReturnViolation:
        out = ['return_violation']
    except Exception as e:  # noqa
        out = ['raised', type(e).__name__]
    return out, [str(x) for x in RAN]


def main():
    warnings.simplefilter('ignore')
    rows = []
    for wname, wmake in WRAPPERS.items():
        for iname, (inner, calls) in INNER.items():
            plain = wmake(inner)
            try:
                deco = beartype(wmake(inner))
            except Exception as e:  # noqa
                rows.append({'wrapper': wname, 'inner': iname, 'kind': 'decoration', 'error': type(e).__name__ + ': ' + str(e)[:200]})
                continue
            for args, kwargs in calls:
                for own in OWN[wname]:
                    if wname == 'kwonly_novarkw' and kwargs:
                        continue
                    a = (('t',) + tuple(args)) if wname == 'leading' else tuple(args)
                    kw = dict(kwargs, **own)
                    want = attempt(plain, a, kw)
                    got = attempt(deco, a, kw)
                    rows.append({'wrapper': wname, 'inner': iname, 'kind': 'conforming', 'args': repr(a), 'kwargs': repr(kw),
                                 'undecorated': want, 'decorated': got})
            if wname == 'transparent':
                for args, kwargs in BAD[iname]:
                    got = attempt(deco, args, kwargs)
                    rows.append({'wrapper': wname, 'inner': iname, 'kind': 'violating', 'args': repr(args), 'kwargs': repr(kwargs),
                                 'decorated': got})
    print(json.dumps(rows))


if __name__ == '__main__':
    main()
