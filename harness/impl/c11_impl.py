"""Implementation side of C11: arbitrary objects as hints through every public entry point; user exceptions."""
import collections.abc as cabc
import json
import os
import sys
import traceback
import types
import typing
import warnings

# who really emits a warning: warnings.warn is wrapped before beartype is imported so that the emitting frame is known
# (the stacklevel argument attributes warnings to callers, e.g. CPython's ByteString deprecation to beartype's generated code)
EMITTED = []
_warn0 = warnings.warn


def _warn(message, category=None, stacklevel=1, **kw):
    fr = sys._getframe(1)
    cat = category if isinstance(category, type) else (type(message) if isinstance(message, Warning) else UserWarning)
    EMITTED.append((cat, fr.f_code.co_filename))
    return _warn0(message, category, stacklevel + 1, **kw)


warnings.warn = _warn
from typing import (Annotated, Any, Callable, ClassVar, Dict, Final, Generic, List, Literal, NewType, NoReturn, Optional, Protocol, Tuple,
                    Type, TypeVar, Union)

from beartype import BeartypeConf, beartype
from beartype.door import TypeHint, die_if_unbearable, is_bearable, is_subhint
from beartype.roar import BeartypeException, BeartypeWarning
from beartype.vale import Is, IsAttr, IsEqual

T = TypeVar('T')


class UserErr(Exception):
    pass


class UserTypeErr(TypeError):
    pass


class UserBase(BaseException):
    pass


USER_EXC = {'UserErr': UserErr, 'UserTypeErr': UserTypeErr, 'UserBase': UserBase, 'TypeError': TypeError, 'KeyError': KeyError,
            'AttributeError': AttributeError, 'RecursionError': RecursionError, 'StopIteration': StopIteration, 'ValueError': ValueError}


class _NonInstMeta(type):
    def __instancecheck__(cls, obj):
        raise TypeError('not isinstanceable')


class NonInst(metaclass=_NonInstMeta):
    pass


class G(Generic[T]):
    pass


def leaf(name):
    """name -> object used as a hint (fresh per call where identity matters)"""
    if name.startswith('typing.'):
        return getattr(typing, name[7:])
    table = {
        'int': int, 'str': str, 'float': float, 'None': None, 'Any': Any, 'List[int]': List[int], 'list[str]': list[str], 'ref_int': 'int',
        'object': object, 'Union[int,str]': Union[int, str], 'tuple': tuple,
        'j_int': 42, 'j_float': 1.5, 'j_bytes': b'x', 'j_list': [int], 'j_dict': {'a': int}, 'j_set': {int}, 'j_ellipsis': ..., 'j_notimpl': NotImplemented,
        'j_lambda': (lambda x: x), 'j_module': typing, 'j_instance': object(), 'j_emptytuple': (), 'j_tuple_cls': (int, str),
        'j_tuple_mixed': (int, 'str'), 'j_tuple_junk': (int, 3), 'j_tuple_nested': (int, (str, bytes)), 'j_tuple_noninst': (int, NonInst),
        'j_str_unres': 'NoSuchName', 'j_str_syntax': 'int[', 'j_str_empty': '', 'j_str_dotted': 'nosuchmod.X', 'j_str_expr': '1 + 1',
        'j_str_space': 'int str', 'j_str_kw': 'class', 'j_emptylist': [], 'j_true': True, 'j_complex': 1j, 'j_range': range(3),
        'j_func': len, 'j_method': 'x'.join, 'j_property': property(), 'j_slice': slice(1), 'j_frozenset': frozenset({int}),
        'cls_noninst': NonInst, 'G': G, 'G[int]': G[int], 'TypeVar': T, 'TypeVar_bound': TypeVar('B', bound=int),
        'NewType': NewType('N', int), 'Generic': Generic, 'Protocol': Protocol, 'ClassVar[int]': ClassVar[int], 'Final[int]': Final[int],
        'NoReturn': NoReturn, 'Callable': Callable[[int], str], 'Callable_bare': Callable, 'Type[Any]': Type[Any], 'Literal_1': Literal[1],
        'type': type, 'abc.Sized': cabc.Sized, 'Is': Annotated[int, Is[lambda x: x > 0]], 'Is_bare': Is[lambda x: True], 'IsEqual_bare': IsEqual[3],
    }
    return table[name]


def build(spec):
    """hint spec -> object; raises whatever typing raises when the subscription itself is refused"""
    if spec[0] == 'leaf':
        return leaf(spec[1])
    if spec[0] == 'deep':            # ['deep', ctor, depth, leaf]
        h = build(spec[3])
        for _ in range(spec[2]):
            h = build_sub(spec[1], [h])
        return h
    return build_sub(spec[1], [build(c) for c in spec[2]])


def build_sub(ctor, ch):
    a = ch[0]
    b = ch[1] if len(ch) > 1 else int
    c = ch[2] if len(ch) > 2 else str
    if ctor.startswith('arity:'):
        import collections, contextlib, re  # noqa
        _, origin, n = ctor.split(':')
        return types.GenericAlias(eval(origin, {'cabc': cabc, 'collections': collections, 'contextlib': contextlib, 're': re,
                                                'tuple': tuple, 'type': type, 'frozenset': frozenset, 'set': set}), tuple(ch[:int(n)]))
    if ctor == 'list':
        return list[a]
    if ctor == 'List':
        return List[a]
    if ctor == 'set':
        return set[a]
    if ctor == 'frozenset':
        return frozenset[a]
    if ctor == 'Sequence':
        return cabc.Sequence[a]
    if ctor == 'Iterable':
        return cabc.Iterable[a]
    if ctor == 'dict':
        return dict[a, b]
    if ctor == 'Dict':
        return Dict[a, b]
    if ctor == 'dict3':
        return types.GenericAlias(dict, (a, b, c))
    if ctor == 'dict1':
        return types.GenericAlias(dict, (a,))
    if ctor == 'list2':
        return types.GenericAlias(list, (a, b))
    if ctor == 'list0':
        return types.GenericAlias(list, ())
    if ctor == 'galias_junk_origin':
        return types.GenericAlias(a, (b,))
    if ctor == 'tuple_var':
        return tuple[a, ...]
    if ctor == 'tuple_fixed':
        return tuple[a, b]
    if ctor == 'Tuple':
        return Tuple[a, b]
    if ctor == 'tuple_ell_first':
        return types.GenericAlias(tuple, (..., a))
    if ctor == 'tuple_ell_mid':
        return types.GenericAlias(tuple, (a, ..., b))
    if ctor == 'Union':
        return Union[a, b]
    if ctor == 'Optional':
        return Optional[a]
    if ctor == 'or':
        return a | b
    if ctor == 'type':
        return type[a]
    if ctor == 'Type':
        return Type[a]
    if ctor == 'Literal':
        return Literal[a]
    if ctor == 'Literal2':
        return Literal[a, b]
    if ctor == 'Annotated_meta':
        return Annotated[a, 'meta']
    if ctor == 'Annotated_unhashable':
        return Annotated[a, [1]]
    if ctor == 'Annotated_is':
        return Annotated[a, Is[lambda x: True]]
    if ctor == 'Annotated_is_mixed':
        return Annotated[a, Is[lambda x: True], 'meta']
    if ctor == 'Is_junk':
        # an arbitrary callable as a validator would be user code whose own exceptions rightly propagate: only the harness's lambda
        return Annotated[int, Is[a]] if isinstance(a, types.LambdaType) and a.__name__ == '<lambda>' else Annotated[int, IsEqual[a]]
    if ctor == 'IsAttr_junk':
        return Annotated[int, IsAttr['real', IsEqual[a]]]
    if ctor == 'Callable':
        return Callable[[a], b]
    if ctor == 'abc_Callable':
        return cabc.Callable[[a], b]
    if ctor == 'Final':
        return Final[a]
    if ctor == 'ClassVar':
        return ClassVar[a]
    if ctor == 'G':
        return G[a]
    if ctor == 'typing_sub1':          # a typing special form named by a string leaf, subscripted by b
        return a[b]
    if ctor == 'typing_sub2':
        return a[b, c]
    if ctor == 'TypeVar_bound':
        return TypeVar('TB', bound=a)
    if ctor == 'TypeVar_constr':
        return TypeVar('TC', a, b)
    if ctor == 'NewType':
        return NewType('NT', a)
    raise KeyError(ctor)


def make_obj(name):
    return {'1': 1, 'a': 'a', 'None': None, '[1]': [1], '[[]]': [[]], "(1,'a')": (1, 'a'), '{}': {}, "{'a':1}": {'a': 1}, 'int': int, '1.5': 1.5,
            '[a]': ['a'], '{1}': {1}, 'obj': object()}[name]


BEARTYPE_DIR = os.path.dirname(os.path.abspath(sys.modules['beartype'].__file__)) + os.sep


def describe(e):
    cls = type(e)
    site = None
    for fr in reversed(traceback.extract_tb(e.__traceback__)):
        if fr.filename.startswith(BEARTYPE_DIR):
            site = fr.filename[len(BEARTYPE_DIR):] + ':' + fr.name
            break
    return {'cls': cls.__name__, 'module': cls.__module__, 'beartype': isinstance(e, BeartypeException),
            'mro': [c.__name__ for c in cls.__mro__], 'msg': str(e)[:160], 'site': site}


def observe(fn):
    """run fn; -> outcome, warnings"""
    del EMITTED[:]
    with warnings.catch_warnings(record=True) as ws:
        warnings.simplefilter('always')
        try:
            r = fn()
            out = {'ok': True, 'value': r if isinstance(r, bool) else None}
        except BaseException as e:      # noqa
            if isinstance(e, (SystemExit,)):
                raise
            out = {'ok': False, 'exc': describe(e)}
    # the warnings beartype itself emitted (the emitting frame lies inside the package)
    wl = [{'cls': cat.__name__, 'module': cat.__module__, 'beartype': issubclass(cat, BeartypeWarning),
           'site': fn[len(BEARTYPE_DIR):]} for cat, fn in EMITTED if fn.startswith(BEARTYPE_DIR)]
    foreign = sorted({cat.__name__ for cat, fn in EMITTED if not fn.startswith(BEARTYPE_DIR)})
    out['foreign_warnings'] = foreign
    out['recorded_warnings'] = len(ws)
    return out, wl


def conf_of(name):
    if name == 'default':
        return BeartypeConf()
    if name == 'tower':
        return BeartypeConf(is_pep484_tower=True)
    if name == 'O0':
        from beartype import BeartypeStrategy
        return BeartypeConf(strategy=BeartypeStrategy.O0)
    if name == 'warn':
        return BeartypeConf(violation_type=UserWarning)
    if name == 'debug':
        return BeartypeConf(is_debug=False, is_color=False)
    raise KeyError(name)


def run_junk(case):
    """one hint through every entry point"""
    try:
        with warnings.catch_warnings():
            warnings.simplefilter('ignore')
            h = build(case['hint'])
    except BaseException as e:   # noqa: the typing module refused the subscription: not beartype's business
        return {'unbuildable': type(e).__name__}
    conf = conf_of(case.get('conf', 'default'))
    obj = make_obj(case.get('obj', '1'))
    res = {}
    res['is_bearable'] = observe(lambda: is_bearable(obj, h, conf=conf))
    res['die_if_unbearable'] = observe(lambda: die_if_unbearable(obj, h, conf=conf))
    res['TypeHint'] = observe(lambda: (TypeHint(h), None)[1])
    res['is_subhint_l'] = observe(lambda: is_subhint(h, int))
    res['is_subhint_r'] = observe(lambda: is_subhint(int, h))
    res['TypeHint_eq'] = observe(lambda: TypeHint(h) == TypeHint(h))
    res['TypeHint_bearable'] = observe(lambda: TypeHint(h).is_bearable(obj))

    def decor_param():
        def f(x):
            return x
        f.__annotations__ = {'x': h}
        return beartype(conf=conf)(f)

    def decor_return():
        def f(x):
            return x
        f.__annotations__ = {'return': h}
        return beartype(conf=conf)(f)
    for nm, mk in (('param', decor_param), ('return', decor_return)):
        holder = {}

        def deco():
            holder['g'] = mk()
        res['decor_' + nm] = observe(deco)
        if 'g' in holder:
            g = holder['g']
            res['call_' + nm] = observe(lambda: (g(obj), None)[1])

    def decor_class():
        class K:
            def m(self, x):
                return x
        K.m.__annotations__ = {'x': h}
        return beartype(conf=conf)(K)
    res['decor_class'] = observe(lambda: (decor_class(), None)[1])
    return res


# ---- user exceptions ----
def run_user(case):
    """user code raising inside validators, instance-check hooks, __eq__, and the wrapped callable"""
    exc_cls = USER_EXC[case['exc']]
    the_exc = exc_cls('user-raised')
    where = case['where']

    class HookMeta(type):
        def __instancecheck__(cls, obj):
            if obj is None:           # the probe beartype makes at validation time
                return False
            raise the_exc

    class Hooked(metaclass=HookMeta):
        pass

    class EqRaises:
        def __eq__(self, other):
            raise the_exc

        def __hash__(self):
            return id(self)            # never collides with the raising objects of earlier cases in memo tables

    def validator(x):
        raise the_exc

    class ReprRaises:
        def __repr__(self):
            raise the_exc
    if where == 'repr':
        hint = int                    # the object fails the hint: building the violation message calls its repr()
    elif where == 'repr_nested':
        hint = List[int]
    elif where == 'body':
        hint = int
    elif where == 'hook':
        hint = Hooked
    elif where == 'hook_nested':
        hint = List[Hooked]
    elif where == 'hook_union':
        hint = Union[str, Hooked]
    elif where == 'validator':
        hint = Annotated[int, Is[validator]]
    elif where == 'validator_nested':
        hint = Dict[str, Annotated[int, Is[validator]]]
    elif where == 'validator_and':
        hint = Annotated[int, Is[lambda x: True] & Is[validator]]
    elif where == 'isequal':
        hint = Annotated[object, IsEqual[EqRaises()]]
    else:
        raise KeyError(where)
    obj = {'body': 1, 'hook': 1, 'hook_nested': [1], 'hook_union': 1, 'validator': 1, 'validator_nested': {'a': 1}, 'validator_and': 1,
           'isequal': 1, 'repr': ReprRaises(), 'repr_nested': [ReprRaises()]}[where]
    conf = conf_of(case.get('conf', 'default'))
    out = {}

    def same(fn):
        try:
            fn()
            return {'raised': False}
        except BaseException as e:   # noqa
            return {'raised': True, 'same_object': e is the_exc, 'cls': type(e).__name__, 'args_kept': e.args == ('user-raised',),
                    'cause': type(e.__cause__).__name__ if e.__cause__ is not None else None,
                    'context': type(e.__context__).__name__ if e.__context__ is not None else None}

    def f(x):
        if where == 'body':
            raise the_exc
        return x
    f.__annotations__ = {'x': hint, 'return': hint}
    if where.startswith('repr'):
        f.__annotations__ = {'x': hint}
    try:
        g = beartype(conf=conf)(f)
    except BaseException as e:   # noqa
        return {'decor_failed': describe(e)}
    out['call'] = same(lambda: g(obj))
    out['call_again'] = same(lambda: g(obj))          # memoised state must not change the answer
    if where.startswith('repr'):
        # only the entry points that describe a rejection reach repr()
        out['die_if_unbearable'] = same(lambda: die_if_unbearable(obj, hint, conf=conf))
        out['TypeHint_die'] = same(lambda: TypeHint(hint).die_if_unbearable(obj))
        return out
    if where != 'body':
        out['is_bearable'] = same(lambda: is_bearable(obj, hint, conf=conf))
        out['die_if_unbearable'] = same(lambda: die_if_unbearable(obj, hint, conf=conf))
        out['TypeHint_bearable'] = same(lambda: TypeHint(hint).is_bearable(obj))
    if case.get('asyncgen') and where == 'body' and case['exc'] != 'StopIteration':   # PEP 479 turns that one into RuntimeError in any generator
        import asyncio

        async def ag(x: int):
            raise the_exc
            yield x
        wrapped = beartype(ag)

        async def drive():
            async for _ in wrapped(1):
                pass
        out['asyncgen'] = same(lambda: asyncio.run(drive()))
    return out


# ---- callable_cached ----
def run_cached(case):
    """a scripted function under the real callable_cached: per key what it does; then a sequence of calls"""
    from beartype._util.cache.utilcachecall import callable_cached
    script = case['script']        # key id -> ['ret', v] | ['raise', exc name]
    calls = []

    def f(k):
        kid = k[0] if isinstance(k, list) else k
        calls.append(kid)
        act = script[str(kid)]
        if act[0] == 'ret':
            return act[1]
        raise USER_EXC[act[1]]('scripted')
    g = callable_cached(f)
    outs = []
    for kid, hashable in case['keys']:
        arg = kid if hashable else [kid]
        try:
            outs.append(['ret', g(arg)])
        except BaseException as e:   # noqa
            outs.append(['raise', type(e).__name__])
    return {'outs': outs, 'calls': calls}


# ---- die_unless_hint / is_hint against the model ----
def run_validate(case):
    from beartype._util.hint.utilhinttest import die_unless_hint, is_hint
    from beartype.roar import BeartypeDoorNonpepException, BeartypeDecorHintNonpepException
    ec = {'BeartypeDoorNonpepException': BeartypeDoorNonpepException, 'BeartypeDecorHintNonpepException': BeartypeDecorHintNonpepException}[case['ec']]
    try:
        h = build(case['hint'])
    except BaseException as e:   # noqa
        return {'unbuildable': type(e).__name__}
    ref = case['ref_str_valid']
    out = {'abstract': abstract(h)}
    out['is_hint'] = observe(lambda: bool(is_hint(h, ref)))[0]
    out['die'] = observe(lambda: die_unless_hint(h, is_ref_str_valid=ref, exception_cls=ec))[0]
    return out


def abstract(h):
    """the object as the model sees it (C11/Exc.v jhint)"""
    from beartype._util.hint.pep.utilpeptest import is_hint_pep, is_hint_pep_supported

    def isinstanceable(c):
        try:
            isinstance(None, c)
            return True
        except Exception:
            return False
    if is_hint_pep(h):
        return ['JPep', bool(is_hint_pep_supported(h)), h is NoReturn]
    if isinstance(h, type):
        return ['JType', isinstanceable(h)]
    if isinstance(h, tuple):
        items = []
        for i in h:
            if isinstance(i, type):
                items.append(['IType', isinstanceable(i) and not is_hint_pep(i)])
            elif isinstance(i, str):
                items.append(['IStr'])
            else:
                items.append(['IOther'])
        return ['JTuple', items]
    return ['JOther']


def run_biglambda(case):
    """validators whose lambda lives in a very large source file: beartype warns that it will not parse the file; that warning must
    be a BeartypeWarning like every other"""
    import importlib
    import tempfile
    d = tempfile.mkdtemp(prefix='c11big_')
    name = 'c11_big_module_%d' % os.getpid()
    with open(os.path.join(d, name + '.py'), 'w') as f:
        f.write('from typing import Annotated\nfrom beartype import beartype\nfrom beartype.vale import Is\n')
        f.write('TABLE = (\n' + ''.join('    %d,\n' % i for i in range(130000)) + ')\n')
        f.write('Positive = Annotated[int, Is[lambda x: x > 0]]\n@beartype\ndef f(x: Positive) -> Positive:\n    return x\n')
    sys.path.insert(0, d)
    del EMITTED[:]
    out = {}
    try:
        with warnings.catch_warnings(record=True):
            warnings.simplefilter('always')
            mod = importlib.import_module(name)
            try:
                mod.f(-1)
            except BeartypeException:
                pass
            try:
                die_if_unbearable(-1, mod.Positive)
            except BeartypeException:
                pass
        out['size'] = os.path.getsize(os.path.join(d, name + '.py'))
        out['warnings'] = [{'cls': cat.__name__, 'beartype': issubclass(cat, BeartypeWarning), 'site': fn[len(BEARTYPE_DIR):]}
                           for cat, fn in EMITTED if fn.startswith(BEARTYPE_DIR)]
    finally:
        sys.path.remove(d)
        import shutil
        shutil.rmtree(d, ignore_errors=True)
    return out


def main():
    payload = json.load(sys.stdin)
    sys.setrecursionlimit(payload.get('recursionlimit', 1000))
    out = []
    for case in payload['cases']:
        kind = case['kind']
        try:
            if kind == 'junk':
                out.append(run_junk(case))
            elif kind == 'user':
                out.append(run_user(case))
            elif kind == 'cached':
                out.append(run_cached(case))
            elif kind == 'validate':
                out.append(run_validate(case))
            elif kind == 'biglambda':
                out.append(run_biglambda(case))
        except BaseException as e:   # noqa: harness trouble, reported as such
            import traceback
            out.append({'harness_error': traceback.format_exc()[-1500:]})
    print(json.dumps(out))


if __name__ == '__main__':
    main()
