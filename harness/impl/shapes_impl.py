"""Call-shape probe shared by C01 (a conforming object is accepted however it reaches its parameter) and C03 (a violating object is
rejected by the parameter / return check however it reaches its parameter, like is_bearable rejects it).

Every signature below has one parameter (or the return) annotated H; the call passes the value under test `v` so that Python binds
it to that parameter; every other argument conforms to its own annotation.  Printed: one JSON list of rows
{shape, call, pair, kind: good|bad, outcome: ok|param|return|other:<class>}.
"""
import json
import re
import sys
import typing
import warnings
from typing import Annotated, Any, Callable, Dict, List, Literal, Optional, Tuple, Type, Union

from beartype import beartype
from beartype.door import is_bearable
from beartype.roar import BeartypeCallHintParamViolation, BeartypeCallHintReturnViolation
from beartype.vale import Is

# (name, hint, conforming object, violating object or NOBAD); violations are deterministic (no sampling involved)
NOBAD = object()
PAIRS = [
    ('int', int, 5, 'five'),
    ('Any', Any, 'anything', NOBAD),
    ('object', object, 'anything', NOBAD),
    ('Optional[object]', Optional[object], 'anything', NOBAD),
    ('list[int]', List[int], [1], ['x']),
    ('Optional[str]', Optional[str], None, 5),
    ('Union[int,str]', Union[int, str], 'a', 2.5),
    ('tuple[int,str]', Tuple[int, str], (1, 'a'), (1, 2)),
    ('dict[str,int]', Dict[str, int], {'a': 1}, {'a': 'b'}),
    ("Literal['r']", Literal['r'], 'r', 'w'),
    ('type[int]', Type[int], bool, str),
    ('Callable', Callable, len, 5),
    ('Annotated[int,Is]', Annotated[int, Is[lambda x: x > 0]], 1, -1),
    ('None', None, None, 0),
]

# (signature source, [call sources], where the value ends up: 'param' or 'return')
SHAPES = [
    ('def f(x: H): return 1', ['f(v)', 'f(x=v)'], 'param'),
    ('def f(x: H, /): return 1', ['f(v)'], 'param'),
    ('def f(*, x: H): return 1', ['f(x=v)'], 'param'),
    ('def f(x: H = D): return 1', ['f(v)', 'f(x=v)', 'f()'], 'param'),
    ('def f(*a: H): return 1', ['f(v)', 'f(v, v)', 'f()'], 'param'),
    ('def f(**k: H): return 1', ['f(q=v)', 'f(k=v)', 'f(self=v)', 'f(q=v, r=v)'], 'param'),
    ('def f(a, /, **k: H): return 1', ['f(0, a=v)', 'f(0, z=v)'], 'param'),
    ('def f(a, /, b, **k: H): return 1', ['f(0, b=1, a=v)', 'f(0, 1, a=v)'], 'param'),
    ('def f(*args, **kwargs: H): return 1', ['f(1, 2, args=v)', 'f(kwargs=v)', 'f(1, z=v)'], 'param'),
    ('def f(a, /, b, *c, d=0, **e: H): return 1', ['f(0, 1, a=v)', 'f(0, 1, c=v)', 'f(0, 1, e=v)', 'f(0, 1, 2, d=3, z=v)'], 'param'),
    ('def f(x: H, **rest: bytes): return 1', ['f(x=v)', 'f(x=v, k=b"")', 'f(v)', 'f(v, k=b"")'], 'param'),
    ('def f(*, x: H, **rest: bytes): return 1', ['f(x=v)', 'f(x=v, k=b"")'], 'param'),
    ('def f(u, x: H, **rest: bytes): return 1', ['f(u="s", x=v, k=b"")', 'f("s", x=v)', 'f("s", v, k=b"")'], 'param'),
    ('def f(u: Any, x: H, **rest: bytes): return 1', ['f(u="s", x=v)', 'f(x=v, u="s", k=b"")'], 'param'),
    ('def f(u: object, *, x: H, **rest: bytes): return 1', ['f(u="s", x=v)', 'f("s", x=v, k=b"")'], 'param'),
    ('def f(u, /, w, *, x: H, **rest: bytes): return 1', ['f(1, w="s", x=v)', 'f(1, "s", x=v, u=b"")'], 'param'),
    ('def f(x: H, *a: bytes): return 1', ['f(v)', 'f(v, b"")'], 'param'),
    ('def f(u, *a: H): return 1', ['f("s", v)', 'f("s", v, v)', 'f(u="s")'], 'param'),
    ('def f(u: bytes, *a: H, w: bytes = b""): return 1', ['f(b"", v)', 'f(b"", v, w=b"")'], 'param'),
    ('def f(x: H, u="s"): return 1', ['f(v)', 'f(v, u=1)', 'f(u=1, x=v)'], 'param'),
    ('def f(u=1, *, x: H): return 1', ['f(x=v)', 'f(2, x=v)'], 'param'),
    ('def f(u: bytes = b"", *, x: H, w: bytes = b""): return 1', ['f(x=v)', 'f(b"", w=b"", x=v)'], 'param'),
    ('class K:\n    def m(self, x: H): return 1\nf = K().m', ['f(v)', 'f(x=v)'], 'param'),
    ('class K:\n    @classmethod\n    def m(cls, x: H, **rest: bytes): return 1\nf = K.m', ['f(v)', 'f(x=v, k=b"")'], 'param'),
    ('class K:\n    @staticmethod\n    def m(u, x: H): return 1\nf = K.m', ['f("s", v)', 'f(u="s", x=v)'], 'param'),
    ('def f(u) -> H: return u', ['f(v)', 'f(u=v)'], 'return'),
    ('def f(*a, **k) -> H: return a[0] if a else k["z"]', ['f(v)', 'f(z=v)'], 'return'),
    ('def f(u: bytes, w) -> H: return w', ['f(b"", v)', 'f(w=v, u=b"")'], 'return'),
]


def main():
    warnings.simplefilter('ignore')
    rows = []
    for pname, hint, good, bad in PAIRS:
        for sig, calls, where in SHAPES:
            ns = {'H': hint, 'D': good, 'Any': Any, 'typing': typing}
            try:
                exec(sig, ns)
                target = ns['f']
                if sig.startswith('class'):
                    ns['K'] = beartype(ns['K'])
                    exec(sig.splitlines()[-1], ns)
                    target = ns['f']
                else:
                    target = beartype(ns['f'])
                ns['f'] = target
            except Exception as e:  # noqa
                rows.append({'shape': sig, 'call': None, 'pair': pname, 'kind': 'decoration', 'outcome': 'other:' + type(e).__name__, 'where': where})
                continue
            for call in calls:
                for kind, v in (('good', good), ('bad', bad)):
                    if v is NOBAD or (kind == 'bad' and not re.search(r'\bv\b', call)):
                        continue
                    ns['v'] = v
                    try:
                        eval(call, ns)
                        out = 'ok'
                    except BeartypeCallHintParamViolation:
                        out = 'param'
                    except BeartypeCallHintReturnViolation:
                        out = 'return'
                    except Exception as e:  # noqa
                        out = 'other:' + type(e).__name__
                    rows.append({'shape': sig, 'call': call, 'pair': pname, 'kind': kind, 'outcome': out, 'where': where,
                                 'door': bool(is_bearable(v, hint))})
    print(json.dumps(rows))


if __name__ == '__main__':
    sys.exit(main())
