"""Implementation side of the C04 correspondence: generated signatures and calls through an
undecorated and a @beartype-decorated copy of the same function."""
import json
import sys
import warnings

from beartype import beartype
from beartype.roar import BeartypeCallHintParamViolation, BeartypeCallHintReturnViolation

LOG = []
FAIL = set()


class Tag:
    def __init__(self, n):
        self.n = n

    def __repr__(self):
        return f'Tag({self.n})'


class SpyMeta(type):
    def __instancecheck__(cls, obj):
        LOG.append((cls.pname, obj.n if isinstance(obj, Tag) else -1))
        return not (isinstance(obj, Tag) and (cls.pname, obj.n) in FAIL)


def spy(pname):
    return SpyMeta('Spy_' + pname, (), {'pname': pname})


def build(sig):
    """source of def f(...) returning its locals"""
    pos = list(sig['posonly']) + list(sig['flex'])
    parts = []
    for i, p in enumerate(sig['posonly']):
        parts.append(p + ('=DEFAULT' if p in sig['defaults'] else ''))
    if sig['posonly']:
        parts.append('/')
    for p in sig['flex']:
        parts.append(p + ('=DEFAULT' if p in sig['defaults'] else ''))
    if sig['varpos']:
        parts.append('*' + sig['varpos'])
    elif sig['kwonly']:
        parts.append('*')
    for p in sig['kwonly']:
        parts.append(p + ('=DEFAULT' if p in sig['defaults'] else ''))
    if sig['varkw']:
        parts.append('**' + sig['varkw'])
    src = 'def f(%s):\n    RAN.append(1)\n    LOCALS.append(dict(locals()))\n    if RAISE:\n        raise RAISE[0]\n    return RESULT\n' % ', '.join(parts)
    return src


def rows_of(sig, loc):
    """per parameter (iter order) the tags of the values passed; [] for a default"""
    out = []
    order = list(sig['posonly']) + list(sig['flex']) + list(sig['kwonly'])
    for p in order:
        v = loc[p]
        out.append([p, [] if v is DEFAULT else [v.n]])
    if sig['varpos']:
        out.append([sig['varpos'], [v.n for v in loc[sig['varpos']]]])
    if sig['varkw']:
        out.append([sig['varkw'], [v.n for v in loc[sig['varkw']].values()]])
    return out


DEFAULT = Tag(0)


class OwnError(Exception):
    pass


def run(case):
    sig = case['sig']
    src = build(sig)
    env = {'DEFAULT': DEFAULT, 'RAN': [], 'LOCALS': [], 'RESULT': Tag(999), 'RAISE': []}
    exec(src, env)
    plain = env['f']
    env2 = {'DEFAULT': DEFAULT, 'RAN': [], 'LOCALS': [], 'RESULT': env['RESULT'], 'RAISE': []}
    exec(src, env2)
    f2 = env2['f']
    f2.__annotations__ = {p: spy(p) for p in sig['annotated']}
    import typing
    for p, h in sig.get('ignorable', []):
        f2.__annotations__[p] = {'object': object, 'Any': typing.Any, 'Optional[object]': typing.Optional[object]}[h]
    if sig.get('annotate_return'):
        f2.__annotations__['return'] = spy('return')
    try:
        deco = beartype(f2)
    except Exception as e:
        return {'decor_error': type(e).__name__ + ': ' + str(e)[:200]}
    res = []
    for call in case['calls']:
        args = [Tag(n) for n in call['args']]
        kwargs = {k: Tag(n) for k, n in call['kwargs']}
        FAIL.clear()
        FAIL.update((p, n) for p, n in call.get('fail', []))
        # undecorated reference
        env['RAN'].clear(); env['LOCALS'].clear()
        try:
            plain(*args, **kwargs)
            ref = rows_of(sig, env['LOCALS'][0])
        except TypeError:
            ref = None
        # decorated
        env2['RAN'].clear(); env2['LOCALS'].clear(); LOG.clear()
        out = {'ref': ref}
        env2['RAISE'].clear()
        exc = OwnError('from the original') if call.get('raises') else None
        if exc is not None:
            env2['RAISE'].append(exc)
        try:
            r = deco(*args, **kwargs)
            out['outcome'] = 'ok'
            out['same_result'] = r is env2['RESULT']
            got = env2['LOCALS'][0] if env2['LOCALS'] else None
            out['same_args'] = got is not None and rows_of(sig, got) == ref and all(
                (got[p] is a) for p, a in zip(list(sig['posonly']) + list(sig['flex']), args))
        except OwnError as e:
            got = env2['LOCALS'][0] if env2['LOCALS'] else None
            out['outcome'] = 'raised_same' if e is exc and e.__cause__ is None else 'raised_other'
            out['same_args'] = got is not None and rows_of(sig, got) == ref
        except BeartypeCallHintParamViolation:
            out['outcome'] = 'param_violation'
        except BeartypeCallHintReturnViolation:
            out['outcome'] = 'return_violation'
        except TypeError:
            out['outcome'] = 'typeerror'
        except Exception as e:
            out['outcome'] = 'exc:' + type(e).__name__
        out['ran'] = len(env2['RAN'])
        grouped = []
        for p, n in LOG:
            if p == 'return':
                continue
            if grouped and grouped[-1][0] == p:
                grouped[-1][1].append(n)
            else:
                grouped.append([p, [n]])
        out['checked'] = grouped
        res.append(out)
    return {'calls': res}


def main():
    warnings.simplefilter('ignore')
    payload = json.load(sys.stdin)
    print(json.dumps([run(c) for c in payload['cases']]))


if __name__ == '__main__':
    main()
