"""One interpreter run of the C16 correspondence (a fresh process per run).
argv[1]: JSON {"hook": null | {"pep526": bool, "violation": name|null}, "pkg": name, "race": null | {"unhooked_pkg": name}}
Imports <pkg>.mod (hooked or not), observes what the loaded code does, lists the cache files."""
import json
import os
import sys
import threading
import warnings

warnings.simplefilter('ignore')
spec = json.loads(sys.argv[1])
out = {}


class C16Violation(Exception):
    pass


def observe(modname):
    o = {}
    try:
        mod = __import__(modname, fromlist=['*'])
    except Exception as e:  # noqa
        return {'import_error': type(e).__name__ + ': ' + str(e)[:200]}
    o['version'] = mod.VERSION
    o['pep526'] = mod.PEP526
    try:
        mod.f('bad')
        o['func_checked'] = False
    except Exception as e:  # noqa
        o['func_checked'] = True
        o['exc'] = type(e).__name__
    return o


def install(pkg, hook):
    from beartype import BeartypeConf
    from beartype.claw import beartype_package
    kw = {'claw_is_pep526': bool(hook['pep526'])}
    if hook.get('violation'):
        kw['violation_type'] = C16Violation
    if hook.get('skip'):
        kw['claw_skip_package_names'] = (pkg + '.vend',)       # the vendored sub-package is left alone
    beartype_package(pkg, conf=BeartypeConf(**kw))


if spec.get('hook') is not None:
    install(spec['pkg'], spec['hook'])
for _pkg, _hook in (spec.get('hooks') or {}).items():
    if _hook is not None:
        install(_pkg, _hook)

if spec.get('race'):
    # a hooked import is paused inside source_to_code (the global cache_from_source is patched at that
    # point) while another thread imports an unhooked module
    from beartype.claw._importlib._clawimpfileloader import BeartypeSourceFileLoader
    inside, resume = threading.Event(), threading.Event()
    orig = BeartypeSourceFileLoader.source_to_code

    def paused(self, *a, **k):
        if self._module_conf is not None:
            inside.set()
            resume.wait(10)
        return orig(self, *a, **k)
    BeartypeSourceFileLoader.source_to_code = paused
    res = {}
    th = threading.Thread(target=lambda: res.setdefault('hooked', observe(spec['pkg'] + '.mod')))
    th.start()
    inside.wait(10)
    res['unhooked'] = observe(spec['race']['unhooked_pkg'] + '.mod')
    resume.set()
    th.join(20)
    out['race'] = res
elif spec.get('pkgs'):
    # several packages imported one after the other in one process
    if spec.get('broken'):
        # a module of the first package that does not compile, guarded by its importer (think of a version-specific submodule)
        try:
            __import__(spec['broken'] + '.bad')
            out['broken_import'] = 'imported'
        except SyntaxError:
            out['broken_import'] = 'SyntaxError'
        except Exception as e:  # noqa
            out['broken_import'] = type(e).__name__
    out['obs_multi'] = {p: observe(p + '.mod') for p in spec['pkgs']}
else:
    out['obs'] = observe(spec['pkg'] + '.mod')

root = spec['root']
files = {}
for pkg in os.listdir(root):
    for sub, key in (('', pkg), ('vend', pkg + '.vend')):
        d = os.path.join(root, pkg, sub, '__pycache__')
        if os.path.isdir(d):
            files[key] = sorted(f for f in os.listdir(d) if f.startswith('mod.'))
out['pyc'] = files
print(json.dumps(out))
