"""C11 probe: hints that refer to themselves through forward references (directly, mutually, below containers).  Whatever
beartype makes of them, nothing but its own exceptions may come out of decoration, calls, the door functions and TypeHint.
Prints a JSON list of rows {hint, use, outcome} with outcome ok | beartype:<class> | LEAK:<class>."""
import json
import sys
import types
import warnings

SRC = '''
from typing import Dict, List, Optional, Tuple, Union
SelfOptional = Optional['SelfOptional']
SelfUnion = Union[int, 'SelfUnion']
MutualA = Union[str, 'MutualB']
MutualB = Union[bytes, 'MutualA']
ListOfSelf = List[SelfOptional]
DictOfSelf = Dict[str, SelfUnion]
NestedRec = Union[int, List['NestedRec']]
TupleRec = Tuple[int, Optional['TupleRec']]
Plain = Union[int, 'Later']
class Later: pass
'''
COUNT = [0]
NAMES = ['SelfOptional', 'SelfUnion', 'MutualA', 'MutualB', 'ListOfSelf', 'DictOfSelf', 'NestedRec', 'TupleRec', 'Plain']


def classify(thunk):
    from beartype.roar import BeartypeException
    try:
        with warnings.catch_warnings():
            warnings.simplefilter('ignore')
            thunk()
        return 'ok'
    except BeartypeException as e:
        return 'beartype:' + type(e).__name__
    except BaseException as e:  # noqa
        return 'LEAK:' + type(e).__name__


def main():
    mod = types.ModuleType('c11rec')
    sys.modules['c11rec'] = mod
    exec(compile(SRC, 'c11rec', 'exec'), mod.__dict__)
    from beartype import beartype
    from beartype.door import TypeHint, die_if_unbearable, is_bearable, is_subhint
    rows = []
    for name in NAMES:
        for spelled, hint in ((name, getattr(mod, name)), (repr(name), name)):
            def in_module(src_tail, deferred):
                # a real module: the aliases before the function (resolved while decorating) or after it (resolved at the call)
                def run():
                    COUNT[0] += 1
                    m = types.ModuleType('c11rec_%d' % COUNT[0])
                    sys.modules[m.__name__] = m
                    head = 'from beartype import beartype\n'
                    body = (head + src_tail + SRC) if deferred else (head + SRC + src_tail)
                    exec(compile(body, m.__name__, 'exec'), m.__dict__)
                    m.f(1.5)
                return run
            q = repr(name)
            uses = {'param': in_module('@beartype\ndef f(x: %s): return x\n' % (name if spelled == name else q), False),
                    'return': in_module('@beartype\ndef f(x) -> %s: return x\n' % (name if spelled == name else q), False),
                    'is_bearable': lambda: is_bearable(1.5, hint), 'die_if_unbearable': lambda: die_if_unbearable(1.5, hint),
                    'TypeHint': lambda: TypeHint(hint).is_ignorable, 'is_subhint': lambda: is_subhint(int, hint),
                    'is_subhint_rev': lambda: is_subhint(hint, object)}
            if spelled != name:
                uses['param_deferred'] = in_module('@beartype\ndef f(x: %s): return x\n' % q, True)
                uses['return_deferred'] = in_module('@beartype\ndef f(x) -> %s: return x\n' % q, True)
            for use, thunk in uses.items():
                rows.append({'hint': spelled, 'use': use, 'outcome': classify(thunk)})
    print(json.dumps(rows))


if __name__ == '__main__':
    main()
