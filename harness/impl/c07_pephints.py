"""C07 probe: deferred names that resolve to classes which are themselves PEP hints (user generics over a subscripted container,
typed dictionaries, protocols) and to non-class hints (aliases).  The string annotation, resolved at the first call, must check
like the evaluated annotation.  Prints a JSON list of rows {family, placement, text, object, string, evaluated}."""
import json
import sys
import types
import warnings

FAMILIES = {
    # name -> (definition source, [(label, object expression)])
    'generic_over_list_int': ('class Target(list[int]): pass', [('good', 'Target([1, 2])'), ('bad', "Target(['a', 'b'])"), ('other', '[1]')]),
    'generic_over_dict': ('class Target(dict[str, int]): pass', [('good', "Target({'a': 1})"), ('bad', 'Target({1: 1})'), ('other', '{}')]),
    'generic_over_tuple': ('class Target(tuple[int, ...]): pass', [('good', 'Target((1,))'), ('bad', "Target(('a',))")]),
    'typing_generic_list': ('import typing\nclass Target(typing.List[str]): pass', [('good', "Target(['a'])"), ('bad', 'Target([1])')]),
    'typed_dict': ('import typing\nclass Target(typing.TypedDict):\n    a: int', [('good', "{'a': 1}"), ('other', '5')]),
    'plain_class': ('class Target: pass', [('good', 'Target()'), ('other', '5')]),
    'generic_T': ('import typing\nT = typing.TypeVar("T")\nclass Target(typing.Generic[T]): pass', [('good', 'Target()'), ('other', '5')]),
    'protocol': ('import typing\n@typing.runtime_checkable\nclass Target(typing.Protocol):\n    def close(self): ...',
                 [('good', 'open(__file__)' if False else 'type("C", (), {"close": lambda self: None})()'), ('other', '5')]),
    'alias_list_int': ('Target = list[int]', [('good', '[1]'), ('bad', "['a']"), ('other', '5')]),
    'alias_union': ('import typing\nTarget = typing.Union[int, list[str]]', [('good', "['a']"), ('bad', '[1]'), ('other', '5.5')]),
}
TEXTS = ['Target', 'typing.Optional[Target]', 'list[Target]', 'dict[str, Target]', 'typing.Union[Target, bytes]']
WRAP = {'Target': '%s', 'typing.Optional[Target]': '%s', 'list[Target]': '[%s]', 'dict[str, Target]': "{'k': %s}",
        'typing.Union[Target, bytes]': '%s'}

PLACEMENTS = {
    'module_function_string': 'from beartype import beartype\nimport typing\n@beartype\ndef f(x: {q}): return 1\n{definition}\n',
    'postponed': 'from __future__ import annotations\nfrom beartype import beartype\nimport typing\n@beartype\ndef f(x: {u}): return 1\n{definition}\n',
    'method_of_decorated_class': 'from beartype import beartype\nimport typing\n@beartype\nclass K:\n    def m(self, x: {q}): return 1\nf = K().m\n{definition}\n',
    'evaluated': 'from beartype import beartype\nimport typing\n{definition}\n@beartype\ndef f(x: {u}): return 1\n',
}
COUNT = [0]


def load(src):
    COUNT[0] += 1
    name = 'c07pep_%d' % COUNT[0]
    mod = types.ModuleType(name)
    sys.modules[name] = mod
    exec(compile(src, name, 'exec'), mod.__dict__)
    return mod


def outcome(mod, expr):
    from beartype.roar import BeartypeCallHintParamViolation
    try:
        obj = eval(expr, mod.__dict__)
    except Exception as e:  # noqa
        return 'object:' + type(e).__name__
    try:
        mod.f(obj)
        return 'accepted'
    except BeartypeCallHintParamViolation:
        return 'violation'
    except Exception as e:  # noqa
        return 'raised:' + type(e).__name__


def main():
    warnings.simplefilter('ignore')
    rows = []
    for fam, (definition, objs) in FAMILIES.items():
        for text in TEXTS:
            try:
                ev = load(PLACEMENTS['evaluated'].format(u=text, q=repr(text), definition=definition))
            except Exception as e:  # noqa
                rows.append({'family': fam, 'text': text, 'placement': 'evaluated', 'error': type(e).__name__ + ': ' + str(e)[:150]})
                continue
            for pname in ('module_function_string', 'postponed', 'method_of_decorated_class'):
                try:
                    m = load(PLACEMENTS[pname].format(u=text, q=repr(text), definition=definition))
                except Exception as e:  # noqa
                    rows.append({'family': fam, 'text': text, 'placement': pname, 'error': type(e).__name__ + ': ' + str(e)[:150]})
                    continue
                for label, expr in objs:
                    e2 = WRAP[text] % expr
                    rows.append({'family': fam, 'text': text, 'placement': pname, 'object': label,
                                 'string': outcome(m, e2), 'evaluated': outcome(ev, e2)})
    print(json.dumps(rows))


if __name__ == '__main__':
    main()
