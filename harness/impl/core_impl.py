"""Implementation side of the shared-core correspondence (C01 C02 C03 C09 C10 ...):
run beartype's entry points on (hint, object, draw) and report verdicts and the log of
protocol operations performed on spy containers."""
import collections.abc as abc
import json
import sys
import warnings

import universe as U

DRAW = [0]
import beartype._check.code.codemain as _codemain  # noqa: E402
_codemain.getrandbits = lambda n: DRAW[0]          # every generated checker draws from here

from beartype import BeartypeConf, beartype  # noqa: E402
from beartype.door import TypeHint, die_if_unbearable, is_bearable  # noqa: E402
from beartype.roar import BeartypeCallHintViolation, BeartypeDoorHintViolation  # noqa: E402

CONFS = {}


def conf_of(is_random, strategy='O1', extra=None):
    return U.make_conf(is_random, strategy, extra)


def py_sat(h, o):
    """the published, full-depth meaning of a hint, written directly against Python objects"""
    t = h[0]
    if t == 'any':
        return True
    if t == 'cls':
        return isinstance(o, U.CLS[h[1]])
    if t == 'none':
        return o is None
    if t == 'shallow':
        return isinstance(o, U.CLS[U.SHALLOW[h[1]][1]])
    if t == 'union':
        return any(py_sat(x, o) for x in h[1])
    if t == 'optional':
        return o is None or py_sat(h[1], o)
    if t == 'cont':
        if not isinstance(o, U.CLS[U.SIGN_ORIGIN[h[1]][1]]):
            return False
        if isinstance(o, abc.Collection):
            return all(py_sat(h[2], x) for x in o)
        return True
    if t == 'map':
        if not isinstance(o, U.CLS[U.MAP_ORIGIN[h[1]][1]]):
            return False
        return all(py_sat(h[2], k) and py_sat(h[3], o[k]) for k in o)
    if t == 'counter':
        if not isinstance(o, U.CLS['Counter']):
            return False
        return all(py_sat(h[1], k) and isinstance(o[k], int) for k in o)
    if t == 'tuplefixed':
        return isinstance(o, tuple) and len(o) == len(h[1]) and all(py_sat(x, y) for x, y in zip(h[1], o))
    if t == 'literal':
        return any(type(o) is type(U.to_python(v)) and o == U.to_python(v) for v in h[1])
    if t == 'type':
        if not isinstance(o, type):
            return False
        return True if not h[1] else issubclass(o, tuple(U.CLS[c] for c in h[1]))
    if t == 'annot':
        return py_sat(h[1], o) and all(py_vmean(v, o) for v in h[2])
    raise ValueError(h)


_SENT = object()


def py_vmean(v, o):
    """the boolean meaning of a validator expression, written directly"""
    t = v[0]
    if t == 'is':
        return bool(U.PREDICATES[v[1]](o))
    if t == 'attr':
        a = getattr(o, v[1], _SENT)
        return a is not _SENT and py_vmean(v[2], a)
    if t == 'eq':
        return o == U.to_python(v[1])
    if t == 'inst':
        return isinstance(o, tuple(U.CLS[c] for c in v[1]))
    if t == 'sub':
        return isinstance(o, type) and issubclass(o, tuple(U.CLS[c] for c in v[1]))
    if t == 'and':
        return py_vmean(v[1], o) and py_vmean(v[2], o)
    if t == 'or':
        return py_vmean(v[1], o) or py_vmean(v[2], o)
    if t == 'not':
        return not py_vmean(v[1], o)
    raise ValueError(v)


def tokens(log):
    """canonical trace: (kind, class) with 0 len, 1 getitem, 2 iter+next, 3 values+iter+next"""
    out, i = [], 0
    while i < len(log):
        k, c = log[i][0], log[i][1]
        if k == 'len':
            out.append([0, c]); i += 1
        elif k == 'getitem':
            out.append([1, c]); i += 1
        elif k == 'iter' and i + 1 < len(log) and log[i + 1][0] == 'next':
            out.append([2, c]); i += 2
        elif k == 'values' and i + 2 < len(log) and log[i + 1][0] == 'iter_values' and log[i + 2][0] == 'next':
            out.append([3, c]); i += 3
        elif k == 'item_read':
            out.append([4, c]); i += 1        # one (key, value) pair read through .items()
        else:
            out.append([99, k + ':' + str(c)]); i += 1
    return out


def snapshot(o, depth=0):
    """contents of a (possibly one-shot) object, for before/after comparison; consumes o"""
    try:
        if isinstance(o, (str, bytes, int, float, bool, type(None), type)):
            return repr(o)
        if isinstance(o, abc.Mapping):
            return ['map', type(o).__name__, [[snapshot(k), snapshot(o[k])] for k in list(o)]]
        if isinstance(o, abc.Iterable):
            return ['it', type(o).__name__, [snapshot(x) for x in o]]
        if isinstance(o, U.UserCont):
            return ['cont', [snapshot(x) for x in o._items]]
        return ['obj', type(o).__name__, sorted(getattr(o, '__dict__', {}))]
    except Exception as e:  # noqa
        return ['error', repr(e)]


def culprit0(signal, obj):
    """do the culprits begin with the rejected object?  (None: this exception class carries no culprits;
    objects that cannot be weakly referenced are reported by their repr)"""
    cs = getattr(signal, 'culprits', None)
    if cs is None:
        return None
    if not cs:
        return False
    if cs[0] is obj:
        return True
    try:
        if not isinstance(cs[0], str):
            return False
        full = repr(obj)
        got = cs[0].strip('"')
        # long representations are truncated in the middle with "..."
        return got == full or ('...' in got and full.startswith(got.split('...')[0]))
    except Exception:  # noqa
        return False


SPELLINGS = {}


def names_hint(hint_py, plain):
    """the message names the hint: by its own repr or by the repr of an equal hint seen earlier in this process (typing unions
    compare as sets, and beartype keeps one checker, hence one message prefix, per class of equal hints)"""
    try:
        seen = SPELLINGS.setdefault(hint_py, set())
    except TypeError:
        seen = set()
    seen.add(repr(hint_py))
    return any(r in plain for r in seen)


def run_one(hint, hint_py, value, draw, is_random, entry, strategy='O1', extra=None, details=False):
    spy = U.Spy()
    labels = []
    obj = U.to_python(value, U.make_spy_classes(spy), labels)
    spy.log.clear()      # constructors of dict subclasses call __setitem__/update
    conf = conf_of(is_random, strategy, extra)
    DRAW[0] = draw
    expected = {'die_if_unbearable': conf.violation_door_type, 'typehint_die': conf.violation_door_type,
                'param': conf.violation_param_type, 'return': conf.violation_return_type}.get(entry)
    signal, v, ran = None, None, []
    with warnings.catch_warnings(record=True) as wlist:
        warnings.simplefilter('always')
        try:
            if entry == 'is_bearable':
                v = is_bearable(obj, hint_py, conf=conf)
            elif entry == 'die_if_unbearable':
                die_if_unbearable(obj, hint_py, conf=conf)
                v = True
            elif entry == 'typehint':
                v = TypeHint(hint_py).is_bearable(obj, conf=conf)
            elif entry == 'typehint_die':
                TypeHint(hint_py).die_if_unbearable(obj, conf=conf)
                v = True
            elif entry == 'cause':
                # the explanation path on its own, whatever the generated code would have said
                from beartype._check.error.errmain import get_hint_object_violation
                from beartype._check.convert.convmain import BEARTYPE_CALL_EXTERNAL_META
                from beartype.roar._roarexc import _BeartypeCallHintPepRaiseDesynchronizationException as Desync
                try:
                    exc = get_hint_object_violation(call_curr=BEARTYPE_CALL_EXTERNAL_META, conf=conf, hint=hint_py,
                                                    obj=obj, random_int=draw, exception_prefix='')
                    v = not (type(exc) is conf.violation_door_type)     # found a cause => "F"
                except Desync:
                    v = True                                              # no cause => "T"
            elif entry == 'param':
                def f(x):
                    ran.append(1)
                    return None
                f.__annotations__ = {'x': hint_py}
                g = beartype(conf=conf)(f)
                g(obj)
                v = True
            elif entry == 'return':
                def f(x):
                    ran.append(1)
                    return x
                f.__annotations__ = {'return': hint_py}
                g = beartype(conf=conf)(f)
                v = g(obj) is obj
        except Exception as e:  # noqa
            signal = e
    info = None
    if signal is not None:
        verdict = 'F' if (expected is not None and type(signal) is expected) else 'exc:' + type(signal).__name__
        if details:
            import re as _re
            plain = _re.sub(r'\x1b\[[0-9;]*m', '', str(signal))
            info = {'kind': 'raise', 'cls': type(signal).__name__, 'message': str(signal)[:1500],
                    'names_hint': names_hint(hint_py, plain),
                    'culprit0': culprit0(signal, obj),
                    'ran': len(ran)}
    else:
        mine = [w for w in wlist if expected is not None and issubclass(expected, Warning) and w.category is expected]
        if mine:
            verdict = 'F' if v else 'exc:warned_and_failed'
            if details:
                import re as _re
                plain = _re.sub(r'\x1b\[[0-9;]*m', '', str(mine[0].message))
                info = {'kind': 'warn', 'cls': mine[0].category.__name__, 'message': str(mine[0].message)[:1500],
                        'names_hint': names_hint(hint_py, plain),
                        'culprit0': None, 'ran': len(ran), 'count': len(mine)}
        else:
            verdict = 'T' if v else 'F'
    log = list(spy.log)
    after = snapshot(obj)
    fresh = snapshot(U.to_python(value))
    return {'verdict': verdict, 'signal': info, 'trace': tokens(log), 'reprs': spy.reprs,
            'mutations': [x for x in log if x[0].startswith('MUTATE')],
            'intact': after == fresh or _same_modulo_spy(after, fresh)}


def _same_modulo_spy(a, b):
    return json.dumps(a).replace('Spy_', '') == json.dumps(b).replace('Spy_', '')


def main():
    warnings.simplefilter('ignore')
    payload = json.load(sys.stdin)
    out = []
    for case in payload['cases']:
        try:
            hint_py = U.hint_to_python(case['hint'])
        except Exception as e:
            out.append({'hint_error': repr(e)})
            continue
        # the objects are built from the IR as given; the model is handed the IR re-ordered to
        # the iteration order those very objects have (hash collisions make set order depend
        # on insertion order, so the re-ordered IR must not be used to rebuild the objects)
        res = {'runs': [], 'sat': None, 'value_norm': U.iteration_order(case['value'])}
        hand_py = U.hint_to_python(case['hand_hint']) if 'hand_hint' in case else None
        rewritten = bool((case.get('conf') or {}).get('ov') or (case.get('conf') or {}).get('tower'))
        try:
            if not rewritten or 'hand_hint' in case:
                res['sat'] = bool(py_sat(case.get('hand_hint', case['hint']), U.to_python(case['value'])))
        except Exception as e:
            res['sat_error'] = repr(e)
        for draw in case['draws']:
            per = {}
            for entry in case.get('entries', ['is_bearable']):
                per[entry] = run_one(case['hint'], hint_py, case['value'], draw, case['is_random'], entry,
                                     case.get('strategy', 'O1'), case.get('conf'), bool(case.get('details')))
            if 'hand_hint' in case:
                # the same check with the hints rewritten by hand, under the default configuration
                per['hand'] = run_one(case['hand_hint'], hand_py, case['value'], draw, case['is_random'],
                                      'is_bearable', case.get('strategy', 'O1'), None)
            res['runs'].append(per)
        out.append(res)
    print(json.dumps(out))


if __name__ == '__main__':
    main()
