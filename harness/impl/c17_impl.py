"""Implementation side of the C17 correspondence: replay BeartypeConf creation histories,
each in a forked child of a process that has only imported beartype (pristine memo)."""
import json
import os
import sys
import warnings

os.environ.pop("BEARTYPE_IS_COLOR", None)
import beartype  # noqa: F401,E402  (creates the import-time configurations)
from beartype import BeartypeConf, BeartypeDecorPlace, BeartypeStrategy, BeartypeViolationVerbosity, FrozenDict
from beartype.roar import (BeartypeCallHintParamViolation, BeartypeCallHintReturnViolation,
                           BeartypeClawDecorWarning, BeartypeConfParamException, BeartypeDoorHintViolation)
from beartype.roar._roarwarn import _BeartypeConfReduceDecoratorExceptionToWarningDefault as WARN_DEFAULT
from beartype._conf import confmain
from beartype._data.func.datafuncarg import ARG_VALUE_UNPASSED
from beartype._data.typing.datatyping import Pep484TowerComplex, Pep484TowerFloat


class MyExc(Exception):
    pass


class MyExc2(Exception):
    pass


class MyWarn(UserWarning):
    pass


NAMES = ['claw_decor_place_func', 'claw_decor_place_type', 'claw_is_pep526', 'claw_skip_package_names',
         'hint_overrides', 'is_color', 'is_debug', 'is_pep484_tower', 'is_pep557_fields', 'is_random',
         'strategy', 'violation_door_type', 'violation_param_type', 'violation_return_type',
         'violation_type', 'violation_verbosity', 'warning_cls_on_decorator_exception',
         'claw_decoration_position_funcs', 'claw_decoration_position_types', 'is_check_pep557']
ENUMS = {0: BeartypeDecorPlace, 1: BeartypeStrategy, 2: BeartypeViolationVerbosity}
CLS = {0: BeartypeDoorHintViolation, 1: BeartypeCallHintParamViolation, 2: BeartypeCallHintReturnViolation,
       3: MyExc, 4: MyExc2, 5: ValueError, 10: MyWarn, 11: BeartypeClawDecorWarning, 12: UserWarning,
       20: int, 21: str}
HINTS = {1: float, 2: complex, 3: int, 4: str, 5: bool, 101: Pep484TowerFloat, 102: Pep484TowerComplex,
         103: int | str}


def dec(v):
    t = v[0]
    if t == 'none':
        return None
    if t == 'bool':
        return bool(v[1])
    if t == 'int':
        return int(v[1])
    if t == 'float':
        return float(v[1])
    if t == 'str':
        return v[1]
    if t == 'names':
        return tuple(v[1])
    if t == 'nameslist':
        return list(v[1])
    if t == 'dict':
        return {int: float}
    if t == 'enum':
        return ENUMS[v[1]](v[2])
    if t == 'cls':
        return CLS[v[1]]
    if t == 'frozen':
        return FrozenDict({HINTS[k]: HINTS[x] for k, x in v[1]})
    if t == 'warndefault':
        return WARN_DEFAULT
    if t == 'unpassed':
        return ARG_VALUE_UNPASSED
    raise ValueError(v)


def enc(o):
    if o is None:
        return ['none']
    if o is ARG_VALUE_UNPASSED:
        return ['unpassed']
    if o is WARN_DEFAULT:
        return ['warndefault']
    if type(o) is bool:
        return ['bool', o]
    if type(o) is int:
        return ['int', o]
    if type(o) is float:
        return ['float', int(o)]
    if type(o) is str:
        return ['str', o]
    if type(o) is tuple:
        return ['names', list(o)]
    if type(o) is list:
        return ['nameslist', list(o)]
    if type(o) is dict:
        return ['dict']
    for fam, e in ENUMS.items():
        if isinstance(o, e):
            return ['enum', fam, o.value]
    if isinstance(o, FrozenDict):
        inv = {id(v): k for k, v in HINTS.items()}
        items = []
        for k, x in o.items():
            kk = [i for i, h in HINTS.items() if h is k or (i >= 100 and h == k)]
            xx = [i for i, h in HINTS.items() if h is x or (i >= 100 and h == x)]
            items.append([kk[0] if kk else -1, xx[0] if xx else -1])
        return ['frozen', sorted(items)]
    for k, c in CLS.items():
        if o is c:
            return ['cls', k]
    return ['other', repr(o)]


def run_history(h):
    warnings.simplefilter('ignore')
    if h['env'] is None:
        os.environ.pop('BEARTYPE_IS_COLOR', None)
    else:
        os.environ['BEARTYPE_IS_COLOR'] = h['env']
    memo = confmain._beartype_conf_args_to_conf
    objs = []        # per op: the conf object or None
    out = []
    for op in h['ops']:
        try:
            if op[0] == 'new':
                kw = {NAMES[int(i)]: dec(v) for i, v in op[1].items()}
                c = BeartypeConf(**kw)
            else:
                src = objs[op[1]] if op[1] < len(objs) else None
                if src is None:
                    objs.append(None)
                    out.append(['skip'])
                    continue
                c = BeartypeConf(**src.kwargs)
            objs.append(c)
            ident = [i for i, x in enumerate(memo.values()) if x is c]
            kwargs = [enc(c.kwargs[n]) for n in NAMES[:17]]
            props = [enc(getattr(c, n)) for n in NAMES[:17]]
            out.append(['conf', ident[0] if ident else -1, kwargs, props,
                        bool(c._is_warning_cls_on_decorator_exception_set)])
        except BeartypeConfParamException:
            objs.append(None)
            out.append(['param'])
        except TypeError:
            objs.append(None)
            out.append(['typeerror'])
        except Exception as e:
            objs.append(None)
            out.append(['exc', type(e).__name__])
    eq_pairs, hash_bad, repr_bad = [], [], []
    for i in range(len(objs)):
        for j in range(i + 1, len(objs)):
            a, b = objs[i], objs[j]
            if a is None or b is None:
                continue
            if a == b:
                eq_pairs.append([i, j])
                if hash(a) != hash(b):
                    hash_bad.append([i, j])
            if (a is b) != (repr(a) == repr(b)) and a is b:
                repr_bad.append([i, j])
    return {'out': out, 'eq_pairs': eq_pairs, 'hash_bad': hash_bad}


def in_child(h):
    r, w = os.pipe()
    pid = os.fork()
    if pid == 0:
        os.close(r)
        try:
            res = run_history(h)
        except BaseException as e:  # noqa
            res = {'crash': repr(e)}
        with os.fdopen(w, 'w') as f:
            f.write(json.dumps(res))
        os._exit(0)
    os.close(w)
    with os.fdopen(r) as f:
        data = f.read()
    os.waitpid(pid, 0)
    return json.loads(data)


def main():
    payload = json.load(sys.stdin)
    if payload.get('facts'):
        import enum
        print(json.dumps({'int_enum_families': [f for f, e in ENUMS.items() if issubclass(e, int)],
                          'enum_values': {str(f): [m.value for m in e] for f, e in ENUMS.items()},
                          'names': list(BeartypeConf.__new__.__kwdefaults__)}))
        return
    if payload.get('init'):
        memo = confmain._beartype_conf_args_to_conf
        os.environ.pop('BEARTYPE_IS_COLOR', None)
        res = []
        for key, c in memo.items():
            if not isinstance(key, tuple):
                # the table is no longer keyed by the argument tuple: the configuration still records it,
                # and the creation histories decide whether the new keying is visible
                key = c._conf_args
            res.append({'key': [enc(x) for x in key], 'kwargs': [enc(c.kwargs[n]) for n in NAMES[:17]],
                        'warnset': bool(c._is_warning_cls_on_decorator_exception_set)})
        print(json.dumps(res))
        return
    print(json.dumps([in_child(h) for h in payload['cases']]))


if __name__ == '__main__':
    main()
