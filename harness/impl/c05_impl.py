"""Implementation side of C05: generated module IR -> source -> ast -> the real BeartypeNodeTransformer -> IR."""
import ast
import json
import sys
import warnings

from beartype import BeartypeConf
from beartype.claw._ast.clawastmain import BeartypeNodeTransformer
from beartype._data.claw.dataclawmagic import BEARTYPE_DECORATOR_FUNC_NAME, BEARTYPE_RAISER_FUNC_NAME


def emit(stmts, ind, out):
    """append the source lines of the statement list; records the line of each statement in place ('line')"""
    pad = '    ' * ind
    for s in stmts:
        k = s[0]
        if k == 'doc':
            s.append(len(out) + 1)
            out.append(pad + '"""doc %d"""' % len(out))
        elif k == 'future':
            s.append(len(out) + 1)
            out.append(pad + 'from __future__ import annotations')
        elif k in ('func', 'class'):
            decos = s[3] if k == 'func' else s[2]
            for d in decos:
                out.append(pad + '@deco%d' % d)
            s.append(len(out) + 1)
            if k == 'func':
                sig = '(a: int) -> int' if s[4] else '(a)'
                out.append(pad + ('async ' if s[1] else '') + 'def f%d%s:' % (s[2], sig))
                emit_body(s[5], ind + 1, out)
            else:
                out.append(pad + 'class K%d:' % s[1])
                emit_body(s[3], ind + 1, out)
        elif k == 'ann':
            s.append(len(out) + 1)
            t = s[1]
            tgt = {'name': lambda: 'v%d' % t[1], 'attr': lambda: '%s.a%d' % (obj_src(t[1]), t[2]),
                   'sub': lambda: '%s[i%d]' % (obj_src(t[1]), t[2])}[t[0]]()
            out.append(pad + '%s: T%d%s' % (tgt, s[2], '' if s[3] is None else ' = e%d' % s[3]))
        elif k == 'block':
            s.append(len(out) + 1)
            heads = {0: ['if c0:', 'else:'], 1: ['for x in y0:'], 2: ['while c0:'], 3: ['try:', 'except Exception:', 'finally:'], 4: ['with m0:']}[s[1]]
            for h, b in zip(heads, s[2]):
                out.append(pad + h)
                emit_body(b, ind + 1, out)
        else:
            s.append(len(out) + 1)
            out.append(pad + 'pass')


def emit_body(stmts, ind, out):
    if not stmts:
        out.append('    ' * ind + '...')        # an empty suite: "..." is an Expr(Constant) the reader maps to nothing
    else:
        emit(stmts, ind, out)


class Unreadable(Exception):
    pass


# the object of an attribute / subscript target: a plain name (tokens 0-4) or a composite expression (5-9); the model treats
# either as one opaque token
OBJ_COMPOSITE = {5: 'o0.b0', 6: 'o1[i0]', 7: 'o2.b1.b2', 8: 'o3()', 9: 'o4.b0[i1].b3'}


def obj_src(t):
    return OBJ_COMPOSITE.get(t, 'o%d' % t)


def read_obj(n):
    if isinstance(n, ast.Name):
        return tok(n.id, 'o')
    src = ast.unparse(n)
    for k, v in OBJ_COMPOSITE.items():
        if v == src:
            return k
    raise Unreadable(src)


def tok(name, prefix):
    if not name.startswith(prefix):
        raise Unreadable(name)
    return int(name[len(prefix):])


def read_target(n):
    if isinstance(n, ast.Name):
        return ['name', tok(n.id, 'v')]
    if isinstance(n, ast.Attribute):
        return ['attr', read_obj(n.value), tok(n.attr, 'a')]
    if isinstance(n, ast.Subscript) and isinstance(n.slice, ast.Name):
        return ['sub', read_obj(n.value), tok(n.slice.id, 'i')]
    raise Unreadable(ast.dump(n))


def read_deco(d):
    if isinstance(d, ast.Name) and d.id == BEARTYPE_DECORATOR_FUNC_NAME:
        return ['bear', False, d.lineno]
    if isinstance(d, ast.Call) and isinstance(d.func, ast.Name) and d.func.id == BEARTYPE_DECORATOR_FUNC_NAME:
        return ['bear', any(k.arg == 'conf' for k in d.keywords), d.lineno]
    if isinstance(d, ast.Name):
        return ['user', tok(d.id, 'deco')]
    raise Unreadable(ast.dump(d))


def read(stmts, top=False):
    out = []
    for n in stmts:
        if isinstance(n, ast.Expr) and isinstance(n.value, ast.Constant):
            if n.value.value is Ellipsis:
                continue
            out.append(['doc', n.lineno])
        elif isinstance(n, ast.ImportFrom) and n.module == '__future__':
            out.append(['future', n.lineno])
        elif isinstance(n, ast.ImportFrom) and n.module == 'beartype.claw._ast._clawaststar':
            out.append(['import_star', n.lineno])
        elif isinstance(n, (ast.FunctionDef, ast.AsyncFunctionDef)):
            typed = bool(n.returns) or any(a.annotation for a in n.args.args)
            out.append(['func', isinstance(n, ast.AsyncFunctionDef), tok(n.name, 'f'), [read_deco(d) for d in n.decorator_list],
                        typed, read(n.body), n.lineno])
        elif isinstance(n, ast.ClassDef):
            out.append(['class', tok(n.name, 'K'), [read_deco(d) for d in n.decorator_list], read(n.body), n.lineno])
        elif isinstance(n, ast.AnnAssign):
            out.append(['ann', read_target(n.target), tok(n.annotation.id, 'T'),
                        None if n.value is None else tok(n.value.id, 'e'), n.lineno])
        elif isinstance(n, ast.Expr) and isinstance(n.value, ast.Call) and isinstance(n.value.func, ast.Name) and \
                n.value.func.id == BEARTYPE_RAISER_FUNC_NAME:
            c = n.value
            out.append(['check', read_target(c.args[0]), tok(c.args[1].id, 'T'), any(k.arg == 'conf' for k in c.keywords), n.lineno])
        elif isinstance(n, ast.If):
            out.append(['block', 0, [read(n.body), read(n.orelse)], n.lineno])
        elif isinstance(n, ast.For):
            out.append(['block', 1, [read(n.body)], n.lineno])
        elif isinstance(n, ast.While):
            out.append(['block', 2, [read(n.body)], n.lineno])
        elif isinstance(n, ast.Try):
            out.append(['block', 3, [read(n.body), read(n.handlers[0].body), read(n.finalbody)], n.lineno])
        elif isinstance(n, ast.With):
            out.append(['block', 4, [read(n.body)], n.lineno])
        elif isinstance(n, ast.Pass):
            out.append(['other', n.lineno])
        else:
            raise Unreadable(ast.dump(n)[:200])
    return out


def make_conf(c):
    from beartype import BeartypeDecorPlace
    kw = {}
    if not c['pep526']:
        kw['claw_is_pep526'] = False
    if c['place_func'] != 'default':
        kw['claw_decor_place_func'] = getattr(BeartypeDecorPlace, c['place_func'])
    if c['place_type'] != 'default':
        kw['claw_decor_place_type'] = getattr(BeartypeDecorPlace, c['place_type'])
    if c.get('is_debug'):
        kw['is_debug'] = False        # a spelled-out default: still the default configuration
    return BeartypeConf(**kw)


def main():
    warnings.simplefilter('ignore')
    payload = json.load(sys.stdin)
    out = []
    for case in payload['cases']:
        res = {}
        try:
            lines = []
            module = case['module']
            emit(module, 0, lines)
            src = '\n'.join(lines) + '\n'
            res['module_with_lines'] = module
            tree = ast.parse(src)
            conf = make_conf(case['conf'])
            res['nondefault'] = conf != BeartypeConf()
            new = BeartypeNodeTransformer(module_name='c05mod', conf=conf).visit(tree)
            try:
                compile(new, 'c05mod.py', 'exec')
                res['compiles'] = True
            except Exception as e:  # noqa
                res['compiles'] = type(e).__name__ + ': ' + str(e)[:200]
            res['real'] = read(new.body)
        except Unreadable as e:
            res['unreadable'] = str(e)[:300]
        except Exception as e:  # noqa
            res['error'] = type(e).__name__ + ': ' + str(e)[:300]
        out.append(res)
    print(json.dumps(out))


if __name__ == '__main__':
    main()
