"""C08 probe: @beartype over functools.wraps (*args, **kwargs) wrappers whose kind (plain / coroutine / generator / async
generator) differs from the kind of the callable they wrap.  The decorated wrapper must be of the wrapper's kind and behave like
the undecorated wrapper on conforming calls.  Prints a JSON list of rows."""
import asyncio
import functools
import inspect
import json
import warnings

from beartype import beartype

LOG = []


def plus_one(x: int):
    LOG.append('plus_one')
    return x + 1


def countdown(n: int):
    LOG.append('countdown')
    while n > 0:
        yield n
        n -= 1


async def fetch(x: int):
    LOG.append('fetch')
    await asyncio.sleep(0)
    return x * 2


async def ticks(n: int):
    LOG.append('ticks')
    for i in range(n):
        yield i


def as_coroutine(fn):
    @functools.wraps(fn)
    async def wrapper(*args, **kwargs):
        LOG.append('as_coroutine')
        r = fn(*args, **kwargs)
        if inspect.isgenerator(r):
            return list(r)
        if inspect.iscoroutine(r):
            return await r
        if inspect.isasyncgen(r):
            return [v async for v in r]
        return r
    return wrapper


def as_generator(fn):
    @functools.wraps(fn)
    def wrapper(*args, **kwargs):
        LOG.append('as_generator')
        r = fn(*args, **kwargs)
        if inspect.isgenerator(r):
            yield from r
        elif inspect.iscoroutine(r):
            r.close()
            yield 'coroutine'
        elif inspect.isasyncgen(r):
            yield 'asyncgen'
        else:
            yield r
    return wrapper


def as_asyncgen(fn):
    @functools.wraps(fn)
    async def wrapper(*args, **kwargs):
        LOG.append('as_asyncgen')
        r = fn(*args, **kwargs)
        if inspect.isgenerator(r):
            for v in r:
                yield v
        elif inspect.iscoroutine(r):
            yield await r
        elif inspect.isasyncgen(r):
            async for v in r:
                yield v
        else:
            yield r
    return wrapper


def as_plain(fn):
    @functools.wraps(fn)
    def wrapper(*args, **kwargs):
        LOG.append('as_plain')
        return fn(*args, **kwargs)
    return wrapper


def kinds(f):
    return {'coroutine': inspect.iscoroutinefunction(f), 'generator': inspect.isgeneratorfunction(f),
            'asyncgen': inspect.isasyncgenfunction(f)}


async def _collect(ag):
    return [v async for v in ag]


def drive(f, arg):
    del LOG[:]
    try:
        r = f(arg)
        if inspect.iscoroutine(r):
            out = ['awaited', repr(asyncio.run(r))]
        elif inspect.isgenerator(r):
            out = ['generated', repr(list(r))]
        elif inspect.isasyncgen(r):
            out = ['async-generated', repr(asyncio.run(_collect(r)))]
        else:
            out = ['returned', repr(r)]
    except BaseException as e:  # noqa
        out = ['raised', type(e).__name__]
    return out, list(LOG)


def main():
    warnings.simplefilter('ignore')
    rows = []
    for wname, wrap in (('as_coroutine', as_coroutine), ('as_generator', as_generator), ('as_asyncgen', as_asyncgen), ('as_plain', as_plain)):
        for iname, inner in (('plus_one', plus_one), ('countdown', countdown), ('fetch', fetch), ('ticks', ticks)):
            plain = wrap(inner)
            try:
                deco = beartype(wrap(inner))
            except Exception as e:  # noqa
                rows.append({'wrapper': wname, 'inner': iname, 'error': type(e).__name__ + ': ' + str(e)[:200]})
                continue
            rows.append({'wrapper': wname, 'inner': iname, 'kind_undecorated': kinds(plain), 'kind_decorated': kinds(deco),
                         'undecorated': drive(plain, 3), 'decorated': drive(deco, 3)})
    print(json.dumps(rows))


if __name__ == '__main__':
    main()
