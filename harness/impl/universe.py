"""The finite universe of classes, values and hints shared by the translators (class table),
the generators (case IR) and the implementation-side runners (Python objects).

A *value IR* is JSON: ["none"] | ["bool",b] | ["int",z] | ["float",halves] | ["str",s] | ["bytes",s]
  | ["cont", clsname, [items]] | ["map", clsname, [[k,v],...]] | ["cls", clsname] | ["obj", clsname, [[attr, v],...]]
A *hint IR* is JSON: see hint_to_python below.
"""
import collections
import collections.abc as abc
import types
import typing


class UserSeq(abc.Sequence):
    def __init__(self, items=()):
        self._items = list(items)

    def __getitem__(self, i):
        return self._items[i]

    def __len__(self):
        return len(self._items)

    def __iter__(self):
        # explicit: the Sequence mixin would iterate by indexing, and a read through iteration would be logged as an index read
        return iter(self._items)


class UserColl(abc.Collection):
    def __init__(self, items=()):
        self._items = list(items)

    def __contains__(self, x):
        return x in self._items

    def __iter__(self):
        return iter(self._items)

    def __len__(self):
        return len(self._items)


class UserIter(abc.Iterable):
    """iterable that is not a Collection (no __len__, no __contains__)"""
    def __init__(self, items=()):
        self._items = list(items)

    def __iter__(self):
        return iter(self._items)


class UserSizedIter(abc.Iterable):
    """one-shot iterable that knows its remaining length: Sized and Iterable, but no Collection"""
    def __init__(self, items=()):
        self._items = list(items)

    def __len__(self):
        return len(self._items)

    def __iter__(self):
        return self

    def __next__(self):
        if not self._items:
            raise StopIteration
        return self._items.pop(0)


class UserRev(abc.Reversible):
    """reversible that is no collection: iterable both ways, but neither sized nor a container"""
    def __init__(self, items=()):
        self._items = list(items)

    def __iter__(self):
        return iter(self._items)

    def __reversed__(self):
        return reversed(self._items)


class UserCont(abc.Container):
    """container that is neither iterable nor sized"""
    def __init__(self, items=()):
        self._items = list(items)

    def __contains__(self, x):
        return x in self._items


class UserMap(abc.Mapping):
    def __init__(self, kvs=()):
        self._d = dict(kvs)

    def __getitem__(self, k):
        return self._d[k]

    def __iter__(self):
        return iter(self._d)

    def __len__(self):
        return len(self._d)


class UserList(list):
    pass


class UserA:
    def __init__(self, **attrs):
        self.__dict__.update(attrs)

    def __hash__(self):          # deterministic set/dict ordering across constructions
        return 1234567


class UserB(UserA):
    pass


class UserC:
    def __init__(self, **attrs):
        self.__dict__.update(attrs)

    def __hash__(self):
        return 7654321


def iteration_order(v):
    """value IR re-ordered so that the item lists of sets follow Python's actual iteration order
    in *this* process (the model takes the IR order as the iteration order)"""
    t = v[0]
    if t == 'cont':
        items = [iteration_order(x) for x in v[2]]
        if v[1] in ('set', 'frozenset'):
            objs = [to_python(x) for x in items]
            s = CLS[v[1]](objs)
            order = []
            for o in s:
                for i, p in enumerate(objs):
                    if p is o and i not in order:
                        order.append(i)
                        break
            if len(order) == len(items):
                items = [items[i] for i in order]
        return ['cont', v[1], items]
    if t == 'map':
        return ['map', v[1], [[iteration_order(k), iteration_order(x)] for k, x in v[2]]]
    if t == 'obj':
        return ['obj', v[1], [[k, iteration_order(x)] for k, x in v[2]]]
    return v


def _gen():
    yield 0


CLASSES = [
    ('object', object), ('type', type), ('NoneType', type(None)), ('bool', bool), ('int', int),
    ('float', float), ('complex', complex), ('str', str), ('bytes', bytes),
    ('list', list), ('tuple', tuple), ('set', set), ('frozenset', frozenset), ('dict', dict),
    ('deque', collections.deque), ('defaultdict', collections.defaultdict),
    ('OrderedDict', collections.OrderedDict), ('Counter', collections.Counter),
    ('ChainMap', collections.ChainMap),
    ('dict_keys', type({}.keys())), ('dict_values', type({}.values())), ('dict_items', type({}.items())),
    ('list_iterator', type(iter([]))), ('generator', type(_gen())), ('function', types.FunctionType),
    ('Hashable', abc.Hashable), ('Sized', abc.Sized), ('Iterable', abc.Iterable), ('Iterator', abc.Iterator),
    ('Generator', abc.Generator), ('Reversible', abc.Reversible), ('Container', abc.Container),
    ('Collection', abc.Collection), ('Sequence', abc.Sequence), ('MutableSequence', abc.MutableSequence),
    ('AbstractSet', abc.Set), ('MutableSet', abc.MutableSet), ('Mapping', abc.Mapping),
    ('MutableMapping', abc.MutableMapping), ('MappingView', abc.MappingView), ('KeysView', abc.KeysView),
    ('ValuesView', abc.ValuesView), ('ItemsView', abc.ItemsView), ('Callable', abc.Callable),
    ('UserSeq', UserSeq), ('UserColl', UserColl), ('UserIter', UserIter), ('UserCont', UserCont),
    ('UserMap', UserMap), ('UserList', UserList), ('UserA', UserA), ('UserB', UserB), ('UserC', UserC),
    ('UserSizedIter', UserSizedIter), ('UserRev', UserRev),
]
CLS = dict(CLASSES)
CLS_ID = {n: i for i, (n, _) in enumerate(CLASSES)}
CLS_NAME_OF = {c: n for n, c in CLASSES}


def issub_matrix():
    return [[bool(issubclass(a, b)) for _, b in CLASSES] for _, a in CLASSES]


# ---------------------------------------------------------------- values

class Spy:
    """records protocol operations performed on spy containers"""
    def __init__(self):
        self.log = []
        self.in_repr = 0       # > 0 while a spy container's own repr() runs (repr may iterate freely)
        self.reprs = 0         # number of outermost repr() calls on spy containers

    def rec(self, kind, obj, extra=None):
        if self.in_repr:
            return
        self.log.append([kind, type(obj).__mro__[1].__name__ if getattr(type(obj), '_spy', False) else type(obj).__name__,
                         getattr(obj, '_label', None)] + ([extra] if extra is not None else []))


def make_spy_classes(spy):
    """spy subclasses of the container classes: every dunder the checker may call is logged"""
    out = {}

    class _It:
        def __init__(self, owner, it):
            self._o, self._it = owner, it

        def __iter__(self):
            return self

        def __next__(self):
            spy.rec('next', self._o)
            return next(self._it)

    def mk(base, name, mapping=False, sized=True, indexable=True, iterable=True):
        ns = {'_spy': True, '_label': None}

        def __repr__(self):
            if not spy.in_repr:
                spy.reprs += 1
            spy.in_repr += 1
            try:
                return base.__repr__(self)
            finally:
                spy.in_repr -= 1
        ns['__repr__'] = __repr__
        if sized:
            def __len__(self):
                spy.rec('len', self)
                return base.__len__(self)
            ns['__len__'] = __len__
        if indexable:
            def __getitem__(self, i):
                if isinstance(i, slice):
                    # a slice reads as many items as it selects
                    for _ in range(max(1, len(range(*i.indices(len(self)))))):
                        spy.rec('getitem', self)
                else:
                    spy.rec('getitem', self)
                return base.__getitem__(self, i)
            ns['__getitem__'] = __getitem__
        if iterable:
            def __iter__(self):
                spy.rec('iter', self)
                return _It(self, base.__iter__(self))
            ns['__iter__'] = __iter__
        if mapping:
            def values(self):
                spy.rec('values', self)
                return SpyValues(self)
            def keys(self):
                spy.rec('keys', self)
                return base.keys(self)
            def items(self):
                return SpyItems(self)
            ns.update(values=values, keys=keys, items=items)
        if base in (list, collections.deque, dict, set, collections.defaultdict, collections.OrderedDict,
                    collections.Counter, UserList):
            for m in ('append', 'pop', 'clear', '__setitem__', '__delitem__', 'add', 'remove', 'update',
                      'extend', 'insert', 'popitem', 'setdefault', 'discard', '__missing__'):
                if hasattr(base, m):
                    def f(self, *a, _m=m, **k):
                        spy.rec('MUTATE:' + _m, self)
                        return getattr(base, _m)(self, *a, **k)
                    ns[m] = f
        return type('Spy_' + name, (base,), ns)

    class _ItemIt:
        def __init__(self, owner, it):
            self._o, self._it = owner, it

        def __iter__(self):
            return self

        def __next__(self):
            x = next(self._it)
            spy.rec('item_read', self._o)
            return x

    class SpyItems:
        """x.items() of a spy mapping: every pair handed out is logged"""
        def __init__(self, owner):
            self._o = owner

        def __len__(self):
            spy.rec('len', self._o)
            return len(list(dict.keys(self._o))) if isinstance(self._o, dict) else len(self._o._d)

        def __iter__(self):
            src = dict.items(self._o) if isinstance(self._o, dict) else self._o._d.items()
            return _ItemIt(self._o, iter(list(src)))

    class SpyValues:
        def __init__(self, owner):
            self._o = owner

        def __iter__(self):
            spy.rec('iter_values', self._o)
            return _It(self._o, iter(dict.values(self._o) if isinstance(self._o, dict) else
                                     [self._o._d[k] for k in self._o._d]))

    for n in ('list', 'tuple', 'deque', 'UserList'):
        out[n] = mk(CLS[n], n)
    for n in ('set', 'frozenset'):
        out[n] = mk(CLS[n], n, indexable=False)
    for n in ('dict', 'defaultdict', 'OrderedDict', 'Counter'):
        out[n] = mk(CLS[n], n, mapping=True)
    out['UserSeq'] = mk(UserSeq, 'UserSeq')
    out['UserColl'] = mk(UserColl, 'UserColl', indexable=False)
    out['UserIter'] = mk(UserIter, 'UserIter', sized=False, indexable=False)
    out['UserRev'] = mk(UserRev, 'UserRev', sized=False, indexable=False)
    out['UserSizedIter'] = mk(UserSizedIter, 'UserSizedIter', indexable=False)
    out['UserMap'] = mk(UserMap, 'UserMap', mapping=True)
    return out


def _one_shot(items):
    for x in items:
        yield x


def to_python(v, spy_classes=None, labels=None):
    """value IR -> Python object.  With spy_classes, containers are spy subclasses."""
    t = v[0]
    rec = lambda x: to_python(x, spy_classes, labels)  # noqa: E731
    if t == 'none':
        return None
    if t == 'bool':
        return bool(v[1])
    if t == 'int':
        return int(v[1])
    if t == 'float':
        return v[1] / 2.0
    if t == 'str':
        return v[1]
    if t == 'bytes':
        return v[1].encode('latin1')
    if t == 'cls':
        return CLS[v[1]]
    if t == 'obj':
        return CLS[v[1]](**{k: rec(x) for k, x in v[2]})
    if t == 'cont':
        name, items = v[1], [rec(x) for x in v[2]]
        if name == 'list_iterator':
            return iter(items)
        if name == 'generator':
            return _one_shot(items)
        if name == 'dict_keys':
            return {k: None for k in items}.keys()
        if name == 'dict_values':
            return {i: x for i, x in enumerate(items)}.values()
        if name == 'dict_items':
            return {x[0]: x[1] for x in items}.items()
        cls = (spy_classes or {}).get(name, CLS[name])
        o = cls(items)
        if labels is not None and getattr(cls, '_spy', False) and name not in ('tuple', 'frozenset'):
            o._label = len(labels)
            labels.append(o)
        return o
    if t == 'map':
        name, kvs = v[1], [(rec(k), rec(x)) for k, x in v[2]]
        cls = (spy_classes or {}).get(name, CLS[name])
        if name == 'defaultdict':
            o = cls(lambda: 0)
            for k, x in kvs:
                dict.__setitem__(o, k, x)
            return o
        if name == 'ChainMap':
            return collections.ChainMap(dict(kvs))
        if name == 'Counter':
            o = cls()
            for k, x in kvs:
                dict.__setitem__(o, k, x)
            return o
        return cls(kvs)
    raise ValueError(v)


# ---------------------------------------------------------------- hints

SIGN_ORIGIN = {
    # sign name -> (python factory, origin class name) for the one-argument containers and mappings
    'List': (lambda a: list[a], 'list'), 'Tuple': (lambda a: tuple[a, ...], 'tuple'),
    'Sequence': (lambda a: abc.Sequence[a], 'Sequence'),
    'MutableSequence': (lambda a: abc.MutableSequence[a], 'MutableSequence'),
    'Set': (lambda a: set[a], 'set'), 'FrozenSet': (lambda a: frozenset[a], 'frozenset'),
    'AbstractSet': (lambda a: abc.Set[a], 'AbstractSet'), 'MutableSet': (lambda a: abc.MutableSet[a], 'MutableSet'),
    'Collection': (lambda a: abc.Collection[a], 'Collection'), 'Deque': (lambda a: collections.deque[a], 'deque'),
    'KeysView': (lambda a: abc.KeysView[a], 'KeysView'), 'ValuesView': (lambda a: abc.ValuesView[a], 'ValuesView'),
    'Iterable': (lambda a: abc.Iterable[a], 'Iterable'), 'Container': (lambda a: abc.Container[a], 'Container'),
    'Reversible': (lambda a: abc.Reversible[a], 'Reversible'),
}
MAP_ORIGIN = {
    'Dict': (lambda k, v: dict[k, v], 'dict'), 'Mapping': (lambda k, v: abc.Mapping[k, v], 'Mapping'),
    'MutableMapping': (lambda k, v: abc.MutableMapping[k, v], 'MutableMapping'),
    'DefaultDict': (lambda k, v: collections.defaultdict[k, v], 'defaultdict'),
    'OrderedDict': (lambda k, v: collections.OrderedDict[k, v], 'OrderedDict'),
    'ChainMap': (lambda k, v: collections.ChainMap[k, v], 'ChainMap'),
}
SHALLOW = {
    # subscripted hints checked by isinstance only
    'Iterator': (lambda a: abc.Iterator[a], 'Iterator'),
    'Generator': (lambda a: abc.Generator[a, None, None], 'Generator'),
    'ItemsViewShallow': None,
}


# the closed table of user callables placed inside Is[...] (same functions as Core/Corr.v pb_table)
PREDICATES = [
    lambda x: isinstance(x, int) and x > 0,
    lambda x: isinstance(x, str) and len(x) > 1,
    lambda x: x is None,
    lambda x: True,
    lambda x: False,
]


_VEXP_INTERN = {}


def vexp_to_python(v):
    """validator IR -> beartype validator; structurally equal IRs give the very same object (beartype itself
    memoises only IsEqual / IsInstance / IsSubclass / IsAttr of those; Is[...] and &, |, ~ build fresh objects)"""
    import json as _json
    key = _json.dumps(v)
    if key not in _VEXP_INTERN:
        _VEXP_INTERN[key] = _vexp_to_python(v)
    return _VEXP_INTERN[key]


def _vexp_to_python(v):
    from beartype.vale import Is, IsAttr, IsEqual, IsInstance, IsSubclass
    t = v[0]
    if t == 'is':
        return Is[PREDICATES[v[1]]]
    if t == 'attr':
        return IsAttr[v[1], vexp_to_python(v[2])]
    if t == 'eq':
        return IsEqual[to_python(v[1])]
    if t == 'inst':
        return IsInstance[tuple(CLS[c] for c in v[1])]
    if t == 'sub':
        return IsSubclass[tuple(CLS[c] for c in v[1])]
    if t == 'and':
        return vexp_to_python(v[1]) & vexp_to_python(v[2])
    if t == 'or':
        return vexp_to_python(v[1]) | vexp_to_python(v[2])
    if t == 'not':
        return ~vexp_to_python(v[1])
    raise ValueError(v)


def hint_to_python(h):
    """hint IR -> Python type hint"""
    t = h[0]
    rec = hint_to_python
    if t == 'any':
        return typing.Any if h[1] == 'Any' else object
    if t == 'cls':
        c = CLS[h[1]]
        return None if c is type(None) and len(h) > 2 else c
    if t == 'none':
        return None
    if t == 'union':
        args = tuple(rec(x) for x in h[1])
        return typing.Union[args]
    if t == 'optional':
        return typing.Optional[rec(h[1])]
    if t == 'cont':
        return SIGN_ORIGIN[h[1]][0](rec(h[2]))
    if t == 'map':
        return MAP_ORIGIN[h[1]][0](rec(h[2]), rec(h[3]))
    if t == 'counter':
        return collections.Counter[rec(h[1])]
    if t == 'tuplefixed':
        return tuple[tuple(rec(x) for x in h[1])] if h[1] else tuple[()]
    if t == 'literal':
        return typing.Literal[tuple(to_python(v) for v in h[1])]
    if t == 'type':
        if not h[1]:
            return type[typing.Any]
        if len(h[1]) == 1:
            return type[CLS[h[1][0]]]
        return type[typing.Union[tuple(CLS[c] for c in h[1])]]
    if t == 'shallow':
        return SHALLOW[h[1]][0](rec(h[2]))
    if t == 'annot':
        return typing.Annotated[(rec(h[1]),) + tuple(vexp_to_python(v) for v in h[2])]
    if t == 'tvar_constr':
        return typing.TypeVar('TC%d' % len(h[1]), *[rec(x) for x in h[1]])
    if t == 'tvar_bound':
        return typing.TypeVar('TB', bound=rec(h[1]))
    if t == 'newtype':
        return typing.NewType('NT', rec(h[1]))
    if t == 'meta':
        return typing.Annotated[rec(h[1]), 'metadata that is no validator']
    raise ValueError(h)


_CONFS = {}


def make_conf(is_random=True, strategy='O1', extra=None):
    """BeartypeConf for a case: extra = {'tower': bool, 'ov': [[key IR, value IR], ...],
    'violation': {'violation_type': name, ...}, 'verbosity': int, 'is_color': bool|None}"""
    import json as _json
    from beartype import BeartypeConf, BeartypeStrategy, FrozenDict
    key = _json.dumps([is_random, strategy, extra], sort_keys=True)
    if key not in _CONFS:
        kw = {'is_random': is_random, 'strategy': getattr(BeartypeStrategy, strategy)}
        extra = extra or {}
        if extra.get('tower'):
            kw['is_pep484_tower'] = True
        if extra.get('ov') or extra.get('ov_restated'):
            # 'ov_restated': entries of the tower's own table (float: float | int, complex: complex | float | int) that the
            # user also writes out; accepted by BeartypeConf and meaning nothing beyond the tower
            kw['hint_overrides'] = FrozenDict({hint_to_python(k): hint_to_python(v)
                                               for k, v in list(extra.get('ov') or []) + list(extra.get('ov_restated') or [])})
        for name, cls in (extra.get('violation') or {}).items():
            kw[name] = VIOLATION_CLASSES[cls]
        if 'verbosity' in extra:
            from beartype import BeartypeViolationVerbosity
            kw['violation_verbosity'] = BeartypeViolationVerbosity(extra['verbosity'])
        if 'is_color' in extra:
            kw['is_color'] = extra['is_color']
        _CONFS[key] = BeartypeConf(**kw)
    return _CONFS[key]


class UserViolation(Exception):
    pass


class UserParamViolation(UserViolation):
    pass


class UserWarningViolation(UserWarning):
    pass


VIOLATION_CLASSES = {'UserViolation': UserViolation, 'UserParamViolation': UserParamViolation,
                     'UserWarningViolation': UserWarningViolation, 'ValueError': ValueError,
                     'DeprecationWarning': DeprecationWarning}
