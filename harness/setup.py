"""MANIFEST.setup_cmd: regenerate every Gen/*.v from /repo, then build the whole Coq
development (full .vo build)."""
import importlib
import os
import sys

HERE = os.path.dirname(os.path.dirname(os.path.abspath(__file__)))
sys.path.insert(0, HERE)
from harness.common import Ctx, coq_make, coq_files, grep_gate  # noqa: E402


def main():
    props_dir = os.path.join(HERE, 'harness', 'props')
    for f in sorted(os.listdir(props_dir)):
        if f.startswith('c') and f.endswith('.py'):
            mod = importlib.import_module('harness.props.' + f[:-3])
            if hasattr(mod, 'regenerate'):
                ctx = Ctx(f[:-3].upper(), 'quick', 0)
                mod.regenerate(ctx)
                import shutil
                shutil.rmtree(ctx.workdir, ignore_errors=True)
    bad = grep_gate()
    if bad:
        print('\n'.join(bad))
        sys.exit(2)
    vos = [f[:-2] + '.vo' for f in coq_files()]
    log = coq_make(vos, jobs=16, timeout=3000)
    print(log[-2000:])
    print('setup ok:', len(vos), 'files')


if __name__ == '__main__':
    main()
