"""Writes /verif/MANIFEST.json from the table below (run after adding a property)."""
import json
import os

HERE = os.path.dirname(os.path.dirname(os.path.abspath(__file__)))

ALL = ['C%02d' % i for i in range(1, 21)]

CORE_NOTE = ('Trusted: Coq kernel; the translators (templates, sign sets, class table); the correspondence '
             'harness (generators, spy containers, IR printers); CPython evaluating the generated expression as '
             'Core/Expr.v does (tested by the verdict+trace correspondence, not proved). Modelled grammar G: '
             'classes, None, unions, literals, fixed/variadic tuples, 15 one-argument container signs, 6 mapping '
             'signs, Counter, type[...], shallow Iterator/Generator; objects: scalars, str/bytes, builtin and '
             'collections/abc containers, one-shot iterators, user Sequence/Collection/Iterable/Container/Mapping, '
             'class objects, instances. User __eq__/__bool__/__instancecheck__ not modelled. All theorems closed '
             'under the global context.')

CLAIMED = {
    'C01': dict(
        text='Machine-checked (Coq 8.16.1): the check expression generated from the regenerated templates '
             'evaluates, for every hint of the modelled grammar, every well-formed object, every draw in Z and '
             'both sampler modes, to exactly the sampled semantics chk without raising (induction on hints over '
             'an evaluator with environments, walrus bindings and short-circuiting), and chk accepts every object '
             'that satisfies the hint at full depth (sat). The hand-written generator model is tied to the code '
             'on every run by differential execution on generated hints/objects/draws through five entry '
             'points with spy containers (verdict, protocol trace) and sat is tied to an independent Python '
             'rendition of the published meaning.',
        note=CORE_NOTE,
        technique='Coq proof by induction on hints (generated code = chk; sat implies chk) + translator-regenerated templates + differential correspondence',
        design='5/C01'),
    'C02': dict(
        text='Machine-checked (Coq 8.16.1) detection theorems over the sampled semantics chk, which the generated '
             'code is proved to compute: wrong top-level class, fixed-tuple length and any unignorable position, '
             'literal non-members, type[...] bounds, unions with no matching member and containers whose every '
             'item violates are rejected for every draw; for sequences under random sampling the draw equal to '
             'an index below 2^32 inspects exactly that item (reachability), with is_random=False item 0 is the '
             'one inspected; accepted containers have emptiness or an accepted item; elided hints accept '
             'everything. The unbounded reachability claim is machine-refuted (known finding F18). Structured '
             'and random streams run through beartype and the model on every run.',
        note=CORE_NOTE,
        technique='Coq proofs about the sampled check semantics (all draws, Z arithmetic) + translator-regenerated templates + differential correspondence',
        design='5/C02'),
    'C09': dict(
        text='Machine-checked (Coq 8.16.1): a path-sensitive syntactic cost analysis of check expressions is '
             'proved sound for every evaluation (any objects, any draw) and the cost of the code generated for a '
             'hint is proved bounded by bound(h), a function of the hint alone: one item per one-argument '
             'container level, one key and its value per mapping level, one item per unignorable fixed-tuple '
             'position; non-collections are never iterated (trace safety). Holds on accepting and rejecting '
             'paths for containers of any size. The model trace is compared with spy-container logs on every '
             'run, and objects scaled x10/x1000 are measured on beartype itself. The explanation path '
             '(describing a rejection) is measured on the scaling stream, not yet modelled.',
        note=CORE_NOTE,
        technique='Coq proof: sound path-sensitive cost analysis + bound on generated code by induction on hints + spy-container correspondence',
        design='5/C09'),
    'C10': dict(
        text='Machine-checked (Coq 8.16.1): every protocol operation performed by the generated check on the '
             'objects it inspects is proved, inside the evaluation proof (invariant over the trace), to be one of '
             'the read-only operations len() of a Sized object, in-range indexing of a Sequence, indexing a mapping '
             'at a key it holds, next(iter(.)) only of re-iterable Collections, isinstance/issubclass/==/truth; '
             'so no iterator or generator is advanced and __missing__ cannot fire. The expression grammar has no '
             'mutating operation and the template translator is fail-closed. Spy containers logging every dunder '
             '(mutators included) and re-reading one-shot iterables after all five entry points tie this to the code.',
        note=CORE_NOTE + ' ABC contracts assumed: iterating a Collection and indexing a Mapping at a present key do not mutate.',
        technique='Coq proof: trace-safety invariant established by induction on hints inside the evaluator correctness proof + spy-container correspondence',
        design='5/C10'),
    'C12': dict(
        text='Machine-checked (Coq 8.16.1): the inline code generated from a validator expression of any depth '
             '(regenerated vale snippets composed as the vale classes compose them) evaluates to the boolean meaning '
             'of the expression for every object, state and table of total boolean user callables, never raises, and '
             'binds only temporaries whose names strictly extend its subject variable (no live variable is '
             'clobbered); the Annotated branch of the generator and-s metahint and validators, so the generated '
             'check of Annotated[T, V...] is (sampled check of T) and (all Vi). Random validator expressions are run '
             'through validator.is_valid, is_bearable at the root / in list[...] / in dict[...], and the violation '
             'message, against the model, on every run. Three defects found this way (F10, F11, F19) were repaired.',
        note=CORE_NOTE + ' User callables of Is[...] are total boolean functions from a closed table; temporaries are structured names.',
        technique='Coq proof by induction on validator expressions (code = meaning, freshness of temporaries) + translator-regenerated snippets + differential correspondence',
        design='5/C12'),
    'C06': dict(
        text='Machine-checked refinement (Coq 8.16.1): the trie registry model answers every query, reports every '
             'per-call outcome and holds the path hook exactly as a flat longest-prefix specification does, for '
             'every finite history (induction over the operation list); conflict atomicity, idempotent '
             're-registration and beartyping() restoration are theorems; the full-strength restoration clause is '
             'machine-refuted (known finding F2b). The hand-written model is tied to beartype.claw on every run by '
             'lock-step differential execution of random histories; the built-in exclusion list is regenerated '
             'from the repository.',
        note='Trusted: Coq kernel; the correspondence harness (generators, identity-based decoding of '
             'configurations); python -O early return and sys.path_hooks/importlib internals not modelled; '
             'all theorems closed under the global context.',
        technique='Coq refinement proof (trie -> flat map) by induction over histories + differential correspondence',
        design='5/C06'),
    'C17': dict(
        text='Machine-checked theorems (Coq 8.16.1) about a model of BeartypeConf.__new__ (alias folding, '
             'BEARTYPE_IS_COLOR, ==-keyed memo consulted before defaulting/validation/sanification): for every '
             'creation history, ==-equal arguments give the same object, differing ones different objects, == is '
             'identity (so hash agrees), valid calls read back what was passed; the uniform-validation and '
             'kwargs round-trip clauses are machine-refuted at full strength (known findings F6 F7 F8) and proved '
             'in their strongest true form. Model tied to the code by replaying random creation histories '
             '(valid / look-alike / invalid values, round-trips, env override) in forked pristine interpreters; '
             'the import-time memo and the IntEnum facts are regenerated from the repository.',
        note='Trusted: Coq kernel; harness value encoding; hash()/== consistency of CPython on the modelled '
             'universe; is_identifier abstracted; locking is C15. All theorems closed under the global context.',
        technique='Coq invariant proof over creation histories (memo keyed by Python ==) + differential correspondence',
        design='5/C17'),
    'C18': dict(
        text='Machine-checked (Coq 8.16.1): the override reduction beartype applies lazily at every node (first '
             'reducer, recursion guard below a replacement, union flattening) is modelled as [effective]; whenever '
             'the replacements are stable it is proved equal, for every hint of the grammar at every depth, to one '
             'simultaneous hand-rewriting pass [subst1], hence the check under the configuration is the check of the '
             'hand-rewritten hint for every object, sampler mode and draw, the generated code computes it, and '
             'objects satisfying the rewritten hint are never rejected; the numeric tower is proved stable with '
             'float = float|int and complex = complex|float|int; chained replacements are proved to differ from '
             'one pass (stability is necessary). Tied to the code on every run: verdict/trace/generated-code '
             'structure under BeartypeConf(hint_overrides, is_pep484_tower) vs the model, vs the default '
             'configuration on hints rewritten by an independent Python pass, and verdict invariance under four '
             'violation_* settings on five entry points; the conf attributes read on the code-generation path are scanned.',
        note=CORE_NOTE + ' Override keys: classes and List[int]; the violation-type clause is decided by '
             'differential execution plus the attribute scan (the model has no violation-type input at all).',
        technique='Coq proof by induction on hints (guarded lazy reduction = simultaneous substitution under stability) + shared-core generator proof + differential correspondence',
        design='5/C18'),
    'C03': dict(
        text='Machine-checked (Coq 8.16.1): (1) the expression generated for (hint, configuration) evaluates to the one '
             'function check(conf, hint, object, draw) on every well-formed object without raising - the verdict no '
             'entry point can change; (2) a model of the hand-written explanation path (find_cause over every hint '
             'family, strategies O1 and On) is proved to find a cause whenever that verdict is a rejection, for '
             'every hint, object, draw and sampler mode - so a rejection never becomes the internal '
             'desynchronisation error; (3) every cause it reports is proved to be a genuine violation of the '
             'full-depth meaning. Tied to the code on every run: the real error path is invoked directly on every '
             'generated case (accepted or rejected) and compared with find_cause; six entry points x six settings of '
             'violation_* classes (exceptions and warnings), verbosity, is_color and strategy are compared for one '
             'verdict, the exact configured class raised or warned once with the call proceeding, the hint named in '
             'the message, and culprits beginning with the rejected object.',
        note=CORE_NOTE + ' The class/kind of the signal, the message text and culprits are decided by differential '
             'execution (they are not modelled beyond found / not found).',
        technique='Coq proof by induction on hints (explanation path finds a cause iff needed; causes are genuine) + shared-core generator proof + differential correspondence incl. direct invocation of the error path',
        design='5/C03'),
    'C20': dict(
        text='Machine-checked (Coq 8.16.1): a model of beartype.bite.infer_hint (default strategy) over the object '
             'universe of the shared core - scalars, classes, instances, every container and mapping class classified '
             'by the regenerated table (builtin factories, the collections.abc finite state machine, Annotated[..., '
             'IsInstance[cls]] wrapping), item / key / value unions, the fixed-tuple rule for short root tuples - is '
             'proved, by induction on objects of any nesting and item mix, to produce a hint the object satisfies at '
             'full depth, hence one is_bearable accepts for every draw; the coherence of the regenerated '
             'classification is a proof obligation (it is what the dict.items() defect F22 broke); the necessary '
             'restriction to integer Counter counts is machine-refuted otherwise (F20). On every run the real inferred '
             'hints are read back into the grammar and compared with the model\'s modulo union order, together with '
             'is_bearable and a Python full-depth judgement; self-referential containers (F21) are decided on the '
             'implementation alone.',
        note='Trusted: Coq kernel; infertable.py translator (fail-closed: unknown factories are FUnknown, on which the '
             'model refuses); the read-back of inferred hints; callables, third-party objects, list subclasses and '
             'cyclic objects are outside the model. All theorems closed under the global context.',
        technique='Coq proof by induction on objects (inferred hint is satisfied at full depth) over a translator-regenerated classification table + shared-core soundness + differential correspondence with read-back of real inferred hints',
        design='5/C20'),
    'C19': dict(
        text='Machine-checked (Coq 8.16.1) over an executable model of TypeHint.is_subhint / == with its three '
             'outcomes (True, False, BeartypeDoorIsSubhintException), at every recursion fuel: is_subhint(h, h) and '
             'TypeHint(h) == TypeHint(h) never answer False, for every hint of the grammar (classes, Any, unions, '
             'literals, Annotated, fixed/variadic tuples, containers, mappings, Counter, type[...]); transitivity '
             'proved on classes and unions of classes (partial) and machine-refuted through Any (F13); soundness '
             'w.r.t. the full-depth meaning proved on Any-free hints built from classes, unions, containers, '
             'mappings and tuples, and machine-refuted for Annotated (F12); the raising outcome is shown '
             'reachable on h vs h (F25). On every run beartype.door.is_subhint is compared with the model on all '
             'nine ordered pairs of generated triples (related by widening), the order laws and soundness are '
             'tested against is_bearable and a Python full-depth judgement, and TypeHint wrapper coherence (identity '
             'for hashable hints, == / hash, len / iter / getitem / contains / args) is checked on the implementation.',
        note='Trusted: Coq kernel; the hand-written model Core/Door.v (tied by correspondence only); validator '
             'metadata equality is modelled for interned validators; callables, NewTypes, TypeVars, generics are '
             'outside the model; full-grammar transitivity and wrapper coherence are decided by differential '
             'execution, not proved. All theorems closed under the global context.',
        technique='Coq proofs about an executable three-valued model of is_subhint (induction on hints / fuel) + refutation witnesses by vm_compute + differential correspondence on pairs and triples',
        design='5/C19'),
    'C14': dict(
        text='Machine-checked (Coq 8.16.1) over models of beartype\'s two memoising decorators and arbitrary operation '
             'histories: @callable_cached (keyed by ==/hash, memoising values and exceptions, bypassed for unhashable '
             'arguments, cleared at any point) answers exactly like the uncached callable after every history, for '
             'every callable that cannot tell ==-equal arguments apart - and that hypothesis is shown necessary; '
             '@method_cached_arg_by_id answers like the uncached method after every history of allocations, garbage '
             'collections with address reuse, calls and clears in which no memoised-on object is collected (pinning), '
             'and is machine-refuted without pinning (F14). The models are compared with the real decorators on '
             'generated histories (real address reuse observed and replayed); the public API is compared with itself '
             'in a pristine forked interpreter after generated histories (equal / similar / unhashable / failing '
             'hints, gc, clear_caches, late definition and redefinition of forward-referenced classes); the set of '
             'identifier-keyed memoisation sites is re-scanned on every run. The table deduplicating PEP 585 / PEP 604 hints by their representation is proved invisible for every history when a hit is compared with the hint asked about (the code as repaired, F51), still sharing equal hints, and machine-refuted without the comparison; the comparison is re-read from coerce_hint_any on every run.',
        note='Trusted: Coq kernel; the hand-written models C14/Memo.v (tied by correspondence); congruence of '
             'beartype\'s own memoised callables is tested through public-API histories, not proved; the other cache '
             'containers (CacheUnbounded*, per-object attribute caches) are exercised by those histories only. All '
             'theorems closed under the global context.',
        technique='Coq invariant proofs over operation histories of two cache disciplines (==-keyed with exceptions; id-keyed with heap/gc) + refutation witnesses + differential correspondence with the real decorators and with pristine interpreters',
        design='5/C14'),
    'C16': dict(
        text='Machine-checked (Coq 8.16.1) over a model of the two bytecode cache slots of a module (selected by '
             'beartype\'s marker), CPython\'s stamp validation and the loader\'s steps around the patched global '
             'cache_from_source: for every sequence of interpreter runs (any hook state and configuration per run, any '
             'source edits) each run loads bytecode that is transformed iff the module is hooked in that run and '
             'compiled from the current source; it is exactly the current configuration applied to the current '
             'source when all hooked runs agree on the AST-relevant options, and machine-refuted otherwise (F16a: '
             'the marker ignores the configuration); serialised imports keep the caches apart, and one interleaving '
             'of a hooked and an unhooked import is machine-refuted (F16b). Compared on every run with generated '
             'sequences of real interpreter processes (bytecode writing enabled; hook off/on, claw_is_pep526, '
             'custom violation type, source edits) observed through what the loaded module does and the cache '
             'file names, and with a paused-import race scenario.',
        note='Trusted: Coq kernel; the hand-written model C16/Cache.v (tied by correspondence); CPython\'s pyc '
             'validation and import locks are observed, not modelled; the concurrent model has the granularity of '
             'the loader\'s four steps (read off the source on every run). All theorems closed under the global context.',
        technique='Coq invariant proof over sequences of runs of a cache-slot model + schedule-level model of the patched global (serial schedules proved, a racing schedule refuted by vm_compute) + differential correspondence with real interpreter runs',
        design='5/C16'),
    'C07': dict(
        text='Machine-checked (Coq 8.16.1), PARTIAL. The model is the name-resolution machine behind string annotations: the forward '
             'scope built at decoration (builtins < module globals < locals of the enclosing function < root and current class < '
             'attributes of the current class), proxies for missing names, and their resolution at check time (memo, module global, '
             'locals of the still-running enclosing frame, name-matching stand-in when that frame is gone, exception otherwise). '
             'Proved for every world of classes and every history of definitions, redefinitions, returns and calls: a name Python '
             'itself can see at the definition means in the string exactly what it means evaluated; the class being defined can be '
             'named by its methods; a name nobody defined raises the forward-reference exception at the check and leaves no trace; '
             'once defined (module global, or local of the running enclosing function) the next check is the evaluated one and stays '
             'so; the whole life of a module-level deferred name equals a three-line specification. Machine-refuted (and replayed on '
             'the implementation every run): nested callables whose enclosing frame is gone get a name-matching stand-in instead '
             'of the exception, remembered even after the name is defined (F38, F38b); a class defined late in a function that has '
             'returned is matched by name only (F39). On every run 621 program families x up to 4 spellings are executed in fresh '
             'modules and every verdict compared with the evaluated hint (the property) and with the model (the correspondence).',
        note='Trusted: Coq kernel; the hand-written model C07/Fwd.v (tied by program-level correspondence and a source sanity check '
             'of the resolution order); eval() of annotation text and frame introspection are CPython\'s; verdicts inside larger '
             'hints are the shared core\'s (C01-C03). One deferred name per program. All theorems closed under the global context.',
        technique='Coq proofs over a name-resolution state machine (equality with Python\'s own lookup, invariants over event histories, refinement of the module-level proxy to a specification, refutation witnesses by computation) + differential execution of generated programs in every spelling',
        design='5/C07'),
    'C11': dict(
        text='Machine-checked (Coq 8.16.1), PARTIAL. Proved: (1) over the class table regenerated on every run from '
             'beartype.roar and from every raise statement under beartype/: every exported class is a BeartypeException or a '
             'BeartypeWarning and none is underscore-prefixed, BeartypeDecor*/BeartypeCall*/BeartypeDoor* exceptions and '
             '*Violation classes sit under their roots, no class is both decoration-time and call-time, every class raised by '
             'name is a BeartypeException, none is a TypeError in disguise, builtin exceptions are raised by name only within '
             'an audited per-class budget of protocol-mandated sites; (2) for every object as the abstraction sees it (PEP '
             'hint supported or not, class instance-checkable or not, tuple of anything, anything else) the tester is_hint and '
             'the raiser die_unless_hint agree and the raiser raises only the public class its caller named or one of two fixed '
             'public decoration-time classes; (3) callable_cached is observationally the function it wraps for every history of '
             'calls, hashable or not, including functions that raise TypeError themselves and BaseExceptions; (4) the stages of '
             'decoration, is_bearable, die_if_unbearable and a decorated call raise only public beartype exceptions of the right '
             'phase, the violation, or the very exception object user code raised, and a passing check returns the body\'s own '
             'outcome unchanged. NOT proved (decided on the implementation only, by a generator of malformed hints through 12 '
             'entry points judged by the model\'s phase_ok over the same class table): malformed children of subscripted '
             'hints, the DOOR wrappers, the error path. That generator found F31-F33 (repaired) and F34-F37 (recorded).',
        note='Trusted: Coq kernel; the exctree.py translator (class table, raise-statement scan by ast); the abstraction '
             'function from Python objects to the model\'s jhint (harness/impl/c11_impl.py:abstract, which calls '
             'beartype\'s own is_hint_pep / is_hint_pep_supported); warnings.warn wrapped to learn the real emitter. '
             'All theorems closed under the global context.',
        technique='Coq proofs (finite taxonomy facts by vm_compute over a regenerated class table; decision-procedure agreement; memo transparency by induction over call histories with an invariant; stage case analyses) + differential correspondence + generator of malformed hints judged by the model',
        design='5/C11'),
    'C13': dict(
        text='Machine-checked (Coq 8.16.1) over a model of class dictionaries (plain, class, static and property members, '
             'pre-decorated and @no_type_check callables, nested and foreign classes, data): decorating a class is '
             'decorating each attribute it defines (recursively for nested classes, nothing else); decoration is '
             'idempotent on callables, members and classes (mutual induction); descriptor kinds and names are kept; a '
             'wrapper exposes the original; unannotated and @no_type_check callables, strategy O0 and python -O are '
             'identities. On every run generated classes are decorated for real as a whole and member by member and '
             'compared with the model (which functions become wrappers) and with each other call for call, together '
             'with object identity of the class, descriptor kinds, names / docstrings / signatures, __wrapped__, '
             'idempotence by object identity (this exposed F27), inherited members, and python -O in a separate interpreter.',
        note='Trusted: Coq kernel; the hand-written model C13/Decor.v (tied by correspondence only: the theorems are '
             'simple algebraic facts about it, the weight is in the differential execution); dataclass fields, '
             'metaclasses and class redefinition are outside the model. All theorems closed under the global context.',
        technique='Coq proofs by mutual induction over a class-dictionary model (member-wise, idempotent, kind-preserving, identities) + differential correspondence with real class and member-by-member decoration',
        design='5/C13'),
    'C08': dict(
        text='Machine-checked (Coq 8.16.1): with generator bodies as arbitrary coinductive resumable automata and '
             'CPython\'s protocol on asynchronous generator objects (not started / suspended / finished x anext, '
             'asend, athrow, aclose) as a step function, beartype\'s pure-Python "async yield from" wrapper is proved '
             'bisimilar to the wrapped generator: for every body and every finite operation sequence in which '
             'GeneratorExit is not thrown by hand and the body does not yield while handling it, the decorated '
             'generator gives exactly the original\'s outcomes; the excluded case is machine-refuted (F28). The '
             'template\'s control structure is matched statement by statement against the model on every run; '
             'table-driven bodies are run for real as async generators, sync generators and coroutines, original '
             'and decorated, and compared (outcomes, the body\'s own action log, inspect kinds) with each other and '
             'with the model.',
        note='Trusted: Coq kernel; agentemplate.py (fail-closed structural match); the hand-written protocol model '
             '(tied by correspondence with CPython itself); synchronous generators and coroutines rely on CPython\'s '
             '`yield from` / `await` and are compared on the implementation only. All theorems closed under the global context.',
        technique='Coq bisimulation proof over coinductive generator bodies and a protocol step function + translator-checked template structure + differential correspondence with CPython and beartype',
        design='5/C08'),
    'C05': dict(
        text='Machine-checked (Coq 8.16.1) over a model of the hook\'s AST transformation on a statement grammar with '
             'arbitrary nesting (functions, async functions, classes, compound statements with several suites, annotated '
             'assignments to names / attributes / subscripts, decorator stacks, docstring and __future__ prologue): removing '
             'what the hook adds gives the module back (it only adds decorators, check calls and one import); the import '
             'sits after the prologue, and a prologue-only module gets none; no line number is introduced; with '
             'claw_is_pep526 off every expression is evaluated as often as before, with it on the annotation and the '
             'object of an attribute target are machine-shown to be evaluated twice (F29). On every run generated '
             'modules go through the real BeartypeNodeTransformer under 12 configurations, the result is compiled, read '
             'back into the grammar with its line numbers and compared with the model (this exposed F30: async def was '
             'no lexical scope); three behavioural scenarios run through a really hooked import.',
        note='Trusted: Coq kernel; the hand-written model C05/Ast.v (tied by structural correspondence with the real '
             'transformer); what the added decorators and calls do at run time is C04 / C13 / C03; decorator-hostile '
             'decorators, PEP 695 aliases and match statements are outside the generated grammar. All theorems closed '
             'under the global context.',
        technique='Coq proofs by nested induction over a statement grammar (erasure inverse, line-number inclusion, evaluation counts) + structural correspondence with the real AST transformer',
        design='5/C05'),
    'C15': dict(
        text='Machine-checked (Coq 8.16.1): for any number of threads and every schedule, the get-or-create-under-a-lock '
             'discipline (acquire, look up, create on a miss, store, release) hands every two completed calls for one key '
             'the same object - the one the table records - and in every reachable state with an unfinished call some '
             'thread can step (no deadlock); the same steps without the lock are machine-refuted. The model is the '
             'discipline of BeartypeConf.__new__, the TypeHint wrapper cache and hook registration, whose lock scopes '
             'are re-read from the source on every run. Real threads are driven through BeartypeConf, TypeHint, '
             'beartype_packages, is_bearable, @beartype and a @callable_cached probe under a seeded line-level '
             'scheduler (sys.settrace): every schedule must terminate, raise nothing, share one object per equal key, '
             'lose no registration, and the unlocked probe exhibits the refuted schedule.',
        note='Trusted: Coq kernel; the hand-written five-step model (one table standing for three real ones); the '
             'scheduler works at source-line granularity inside ten beartype files, not at bytecode granularity and not '
             'inside C code; object pools and per-object attribute caches are exercised, not modelled. All theorems '
             'closed under the global context.',
        technique='Coq invariant proof over all schedules of an n-thread small-step model (mutual exclusion, agreement, progress) + refutation of the unlocked variant + controlled-scheduler execution of real threads',
        design='5/C15'),
    'C04': dict(
        text='Machine-checked (Coq 8.16.1): for every signature over the five parameter kinds with pairwise '
             'distinct names and every call that CPython\'s binding rule accepts, the values selected by the '
             'regenerated localisation snippets (indexed as code_check_args enumerates parameters) are, per '
             'annotated parameter and in order, exactly the values bound to that parameter (positionally, by '
             'keyword, surplus in *args, excess keywords in **kwargs including those reusing positional-only names); '
             'unpassed defaults select nothing; when all selected values pass the original is called with the very '
             'call received, when one fails a genuine violation is raised before any call, and an unbindable call '
             'never runs the body. The binding rule is compared with CPython and the selections with the real '
             'wrapper\'s isinstance checks (spy annotation classes) on every run; run count, argument and result '
             'identity, exception class are observed on the implementation.',
        note='Trusted: Coq kernel; the argtemplates.py translator (fail-closed ast match of the five localisation '
             'snippets and the call-through templates); exec() of the assembled wrapper, the return check and '
             'bound-method self-skipping are observed on the implementation only. All theorems closed under the '
             'global context.',
        technique='Coq proof (list induction over CPython binding rule vs translator-regenerated selection snippets) + differential correspondence with CPython binding and logged checks',
        design='5/C04'),
}

PENDING_REASON = ('not yet built in this round: the proof development for this property is scheduled (DESIGN.md '
                  'section 8 construction order); no check is claimed until its theorems and correspondence exist')


def main():
    checks = []
    for pid in ALL:
        if pid in CLAIMED:
            c = CLAIMED[pid]
            checks.append({
                'property_id': pid,
                'quick_cmd': f'./check {pid} --tier quick',
                'thorough_cmd': f'./check {pid} --tier thorough',
                'evidence_file': f'/verif/evidence/{pid}.json',
                'replay_cmd_template': f'./check {pid} --replay {{path}}',
                'engine': 'coq-proof+correspondence',
                'level_claimed': {'category': 'proof', 'text': c['text'], 'design_ref': 'DESIGN.md ' + c['design']},
                'level_note': c['note'],
                'technique': c['technique'],
            })
    man = {
        'version': 1,
        'setup_cmd': './setup.sh',
        'hooks': {
            'guard': 'BEARTYPE_VERIF',
            'enable': 'no source hooks are needed: the harness observes beartype through its public API, '
                      'monkey-patches beartype._check.code.codemain.getrandbits for draw control and uses '
                      'sys.settrace for scheduling; BEARTYPE_VERIF=1 is exported by the harness but read by no '
                      'code in /repo',
            'baseline_off_cmd': 'cd /repo && /venv/bin/python -m pytest -ra -q -p no:cacheprovider --timeout=900 '
                                '--continue-on-collection-errors',
            'source_commits': [],
            'add_only': True,
        },
        'engines': [{
            'name': 'coq-proof+correspondence', 'path': '/verif/check',
            'serves_properties': sorted(CLAIMED),
            'kind_free_text': 'Rocq/Coq 8.16.1 development under /verif/coq (models, specifications, theorems) + '
                              'Python harness regenerating Gen/*.v from /repo and running model (vm_compute) and '
                              'implementation on the same inputs',
        }],
        'checks': checks,
        'not_applicable': [{'property_id': p, 'reason': PENDING_REASON} for p in ALL if p not in CLAIMED],
        'notes': 'See DESIGN.md. known_findings.json lists genuine defects (known / fixed).',
    }
    with open(os.path.join(HERE, 'MANIFEST.json'), 'w') as f:
        json.dump(man, f, indent=1)
    print('claimed', sorted(CLAIMED))


if __name__ == '__main__':
    main()
