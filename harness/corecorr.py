"""Correspondence runner for the shared core: the same (configuration, hint, object, draw) goes
through beartype (harness/impl/core_impl.py) and through the Coq model (Core/Corr.v)."""
import json
import os

from harness import coreir as IR
from harness.common import CoqFailure, coq_list, coq_opt, coqc_file, coqc_many, parse_nat_list, run_impl

HEADER = ('From Coq Require Import List ZArith String.\n'
          'From BT Require Import Gen.ClassTable Gen.SignSets Core.PyVal Core.Expr Core.Hint Core.Override Core.Corr.\n'
          'Import ListNotations.\nOpen Scope string_scope.\n')
OBS = {'T': 'VTrue', 'F': 'VFalse'}


def hint_shape(h, depth=0):
    """summary used for the input-distribution histogram"""
    t = h[0]
    kids = []
    if t in ('union', 'tuplefixed'):
        kids = h[1]
    elif t == 'optional':
        kids = [h[1]]
    elif t == 'cont':
        kids = [h[2]]
    elif t == 'map':
        kids = [h[2], h[3]]
    elif t == 'counter':
        kids = [h[1]]
    elif t == 'annot':
        kids = [h[1]]
    d = 1 + max([hint_shape(k)[0] for k in kids], default=0)
    signs = [t + (':' + h[1] if t in ('cont', 'map') else '')]
    for k in kids:
        signs += hint_shape(k)[1]
    return d, signs


def container_levels(h):
    return sum(1 for s in hint_shape(h)[1] if s.split(':')[0] in ('cont', 'map', 'counter', 'tuplefixed'))


def coq_overrides(conf):
    ov = ['(%s, %s)' % (IR.coq_hint(k), IR.coq_hint(v)) for k, v in (conf.get('ov') or [])]
    return '(%s ++ %s)%%list' % (coq_list(ov), 'tower_ov' if conf.get('tower') else '[]')


def coq_effective_hint(case):
    """the hint the model checks: rewritten by the case's configuration, if any"""
    conf = case.get('conf') or {}
    if conf.get('ov') or conf.get('tower'):
        return '(effective %s %s)' % (coq_overrides(conf), IR.coq_hint(case['hint']))
    return IR.coq_hint(case['hint'])


def coq_case(case, draw, obs, sat):
    v = obs['verdict']
    return ('{| k_random := %s; k_hint := %s; k_val := %s; k_draw := (%d)%%Z; k_verdict := %s; k_trace := %s; '
            'k_sat := %s |}' % (
                'true' if case['is_random'] else 'false', coq_effective_hint(case), IR.coq_val(case['value']),
                draw, OBS.get(v, 'VExc'),
                coq_list([f'({k}, c_{c})%nat' for k, c in obs['trace']]),
                coq_opt(sat, lambda b: 'true' if b else 'false')))


def evaluate(ctx, tag, cases, observed):
    """returns the list of (case index, draw index) on which model and implementation differ"""
    flat, index = [], []
    bad = []
    for ci, (case, res) in enumerate(zip(cases, observed)):
        if 'runs' not in res:
            bad.append((ci, -1))
            continue
        case = dict(case, value=res.get('value_norm', case['value']))
        for di, draw in enumerate(case['draws']):
            o = res['runs'][di]['is_bearable']
            if any(k == 99 for k, _ in o['trace']):
                bad.append((ci, di))
                continue
            flat.append(coq_case(case, draw, o, res.get('sat')))
            index.append((ci, di))
    shard = 200
    paths = []
    for lo in range(0, len(flat), shard):
        text = HEADER + 'Definition cases : list case := %s.\n' % coq_list(['\n  ' + c for c in flat[lo:lo + shard]]) + \
            'Eval vm_compute in (failing %s cases).\n' % coq_list(['c_' + c for c in IR.SPIED])
        path = os.path.join(ctx.workdir, f'core_{tag}_{lo}.v')
        with open(path, 'w') as f:
            f.write(text)
        paths.append(path)
    for si, out in enumerate(coqc_many(paths, jobs=10)):
        bad += [index[si * shard + j] for j in parse_nat_list(out)]
    return sorted(bad)


def model_outputs(ctx, tag, case, draw):
    """what the model computes for one case (for replay files)"""
    text = HEADER + ('Definition k := %s.\n' % coq_case(case, draw, {'verdict': 'T', 'trace': []}, None) +
                     'Eval vm_compute in (model_verdict k, sat pb_table (k_hint k) (k_val k), '
                     'tokens %s (trace_of (k_draw k) no_preds (check_expr {| is_random := k_random k |} (k_hint k)) (k_val k))).\n'
                     % coq_list(['c_' + c for c in IR.SPIED]))
    path = os.path.join(ctx.workdir, f'core_show_{tag}.v')
    with open(path, 'w') as f:
        f.write(text)
    try:
        return ' '.join(coqc_file(path).split())
    except CoqFailure as e:
        return 'model evaluation failed: ' + e.log[-500:]


def gen_cases(rng, n, depth, entries=('is_bearable',), draws=None):
    cases = []
    for _ in range(n):
        h = IR.gen_hint(rng, rng.choice([1, 2, 2, 3, 3, depth]))
        good = IR.gen_sat(rng, h)
        vals = [good, IR.mutate(rng, good), IR.gen_sat(rng, h, sizes=(1, 2, 4))]
        if rng.random() < 0.3:
            vals.append(IR.mutate(rng, vals[2]))
        for v in vals:
            if not IR.valid_value(v):
                continue
            ds = draws or sorted({0, 1, rng.randrange(0, 7), 2 ** 32 - 1, rng.getrandbits(32)})
            cases.append({'hint': h, 'value': v, 'draws': ds, 'is_random': rng.random() < 0.8,
                          'entries': list(entries)})
    return cases


def run_impl_cases(cases):
    out = []
    for lo in range(0, len(cases), 250):
        out += run_impl('core_impl.py', {'cases': cases[lo:lo + 250]}, timeout=1200)
    return out


ALL_ENTRIES = ('is_bearable', 'die_if_unbearable', 'typehint', 'param', 'return')


def entry_disagreements(cases, observed):
    """(case index, draw index, detail) where the entry points do not reach one verdict"""
    out = []
    for ci, res in enumerate(observed):
        for di, per in enumerate(res.get('runs', [])):
            vs = {e: o['verdict'] for e, o in per.items()}
            if len(set(vs.values())) > 1:
                out.append((ci, di, vs))
    return out


def integrity_failures(cases, observed):
    """(case index, draw index, entry, detail) where a check mutated or consumed its subject"""
    out = []
    for ci, res in enumerate(observed):
        for di, per in enumerate(res.get('runs', [])):
            for e, o in per.items():
                if o['mutations'] or not o['intact']:
                    out.append((ci, di, e, {'mutations': o['mutations'], 'intact': o['intact']}))
    return out


def record_distribution(ctx, cases, observed):
    for case, res in zip(cases, observed):
        d, signs = hint_shape(case['hint'])
        ctx.count('hint_depth=%d' % d)
        for s in set(signs):
            ctx.count('sign:' + s)
        ctx.count('random' if case['is_random'] else 'nonrandom')
        ctx.count('sat' if res.get('sat') else 'unsat')
        for per in res.get('runs', []):
            ctx.count('verdict:' + per['is_bearable']['verdict'].split(':')[0])


def load_corpus():
    """minimised past failures of the shared core, replayed first on every run"""
    from harness.common import VERIF
    d = os.path.join(VERIF, 'corpus', 'core')
    out = []
    if os.path.isdir(d):
        for f in sorted(os.listdir(d)):
            if f.endswith('.json'):
                with open(os.path.join(d, f)) as fh:
                    c = json.load(fh)
                c.setdefault('entries', ['is_bearable'])
                c['corpus'] = f
                out.append(c)
    return out


def structural(ctx, tag, hints_and_modes):
    """structural correspondence: indices of the (hint, is_random) pairs whose real generated code is not
    the term the model generator produces, plus the parser errors"""
    import subprocess
    from harness.common import PY, VERIF, impl_env
    hints_and_modes = [tuple(x) + (None,) * (3 - len(x)) for x in hints_and_modes]
    payload = {'cases': [{'hint': h, 'is_random': r, 'conf': cf} for h, r, cf in hints_and_modes]}
    p = subprocess.run([PY, os.path.join(VERIF, 'harness', 'translate', 'parse_generated.py')],
                       input=json.dumps(payload), capture_output=True, text=True, env=impl_env(), timeout=900)
    if p.returncode != 0:
        raise CoqFailure('parse_generated.py', p.stderr[-3000:])
    terms = json.loads([l for l in p.stdout.splitlines() if l.startswith('[')][-1])
    errors = [(i, t['error']) for i, t in enumerate(terms) if isinstance(t, dict)]
    todo = [i for i, t in enumerate(terms) if not isinstance(t, dict)]
    bad = []
    for lo in range(0, len(todo), 300):
        idx = todo[lo:lo + 300]
        rows = ['(%s, %s, %s)' % ('true' if hints_and_modes[i][1] else 'false',
                                  coq_effective_hint({'hint': hints_and_modes[i][0], 'conf': hints_and_modes[i][2]}),
                                  terms[i]) for i in idx]
        text = HEADER + 'Definition rows : list (bool * hint * expr) := %s.\n' % coq_list(['\n ' + r for r in rows]) + \
            'Eval vm_compute in (struct_failing rows).\n'
        path = os.path.join(ctx.workdir, f'struct_{tag}_{lo}.v')
        with open(path, 'w') as f:
            f.write(text)
        bad += [idx[j] for j in parse_nat_list(coqc_file(path))]
    return bad, errors, terms
