"""Call-shape probe (harness/impl/shapes_impl.py) shared by C01 and C03: how a value reaches its parameter must not matter."""
from harness.common import ImplCrash, run_impl


def run_shapes():
    try:
        return run_impl('shapes_impl.py', {}, timeout=600)
    except ImplCrash as e:
        return [{'kind': 'crash', 'detail': str(e)[-600:]}]
