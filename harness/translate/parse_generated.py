"""Structural correspondence, implementation side: generate the real check expression for each hint IR
with beartype's own make_check_expr, parse it with Python `ast` and print it as a term of the Coq
expression type (Core/Expr.v), resolving scope names to the objects they denote.

stdin : {"cases": [{"hint": IR, "is_random": bool}]}      stdout: JSON list of Coq terms (or {"error": ...})
"""
import ast
import json
import os
import re
import sys
import warnings

sys.path.insert(0, os.path.join(os.path.dirname(os.path.abspath(__file__)), '..', 'impl'))
sys.path.insert(0, os.path.join(os.path.dirname(os.path.abspath(__file__)), '..', '..'))
import universe as U  # noqa: E402


class Unparsable(Exception):
    pass


def coq_str(s):
    return '"' + s.replace('"', '""') + '"'


def coq_val(o):
    """a scope object used as a literal -> Coq pyval (scalars only)"""
    if o is None:
        return 'VNone'
    if type(o) is bool:
        return '(VBool %s)' % ('true' if o else 'false')
    if type(o) is int:
        return '(VInt (%d)%%Z)' % o
    if type(o) is float and (o * 2) == int(o * 2):
        return '(VFloat (%d)%%Z)' % int(o * 2)
    if type(o) is str:
        return '(VStr %s)' % coq_str(o)
    if type(o) is bytes:
        return '(VBytes %s)' % coq_str(o.decode('latin1'))
    if isinstance(o, type) and o in U.CLS_NAME_OF:
        return '(VCls c_%s)' % U.CLS_NAME_OF[o]
    raise Unparsable('literal object %r' % (o,))


class Parser:
    def __init__(self, scope):
        self.scope = scope

    def classes(self, n):
        if isinstance(n, ast.Name):
            import builtins
            b = getattr(builtins, n.id, None)
            if n.id not in self.scope and isinstance(b, type) and b in U.CLS_NAME_OF:
                return ['c_' + U.CLS_NAME_OF[b]]
            o = self.scope.get(n.id)
            if isinstance(o, type):
                o = (o,)
            if isinstance(o, (tuple, frozenset, set)) and all(isinstance(c, type) for c in o):
                try:
                    return ['c_' + U.CLS_NAME_OF[c] for c in o]
                except KeyError as e:
                    raise Unparsable('class outside the universe: %r' % (e,))
        raise Unparsable('class expression ' + ast.dump(n))

    def var(self, name):
        m = re.fullmatch(r'__beartype_pith_(\d+)((?:_isattr_[A-Za-z0-9]+)*)', name)
        if not m:
            raise Unparsable('variable ' + name)
        n = int(m.group(1))
        if not m.group(2):
            return f'(Pith {n})'
        path = m.group(2).split('_isattr_')[1:]
        return '(Tmp %d [%s])' % (n, '; '.join(coq_str(p) for p in path))

    def is_call(self, n, name, nargs):
        return (isinstance(n, ast.Call) and isinstance(n.func, ast.Name) and n.func.id == name
                and len(n.args) == nargs and not n.keywords)

    def pred_index(self, f):
        cells = [c.cell_contents for c in (f.__closure__ or ())]
        for i, p in enumerate(U.PREDICATES):
            if any(c is p for c in cells) or f is p:
                return i
        raise Unparsable('user callable outside the predicate table')

    def expr(self, n):
        if isinstance(n, ast.Name):
            if n.id == '__beartype_random_int':
                return 'ERand'
            if n.id.startswith('__beartype_pith_'):
                return f'(EVar {self.var(n.id)})'
            if n.id in self.scope:
                return f'(ELit {coq_val(self.scope[n.id])})'
            raise Unparsable('name ' + n.id)
        if isinstance(n, ast.Constant) and type(n.value) is int:
            return f'(EInt ({n.value})%Z)'
        if self.is_call(n, 'isinstance', 2):
            return '(EIsInst %s [%s])' % (self.expr(n.args[0]), '; '.join(sorted(self.classes(n.args[1]))))
        if self.is_call(n, 'issubclass', 2):
            return '(EIsSub %s [%s])' % (self.expr(n.args[0]), '; '.join(sorted(self.classes(n.args[1]))))
        if self.is_call(n, 'len', 1):
            return f'(ELen {self.expr(n.args[0])})'
        if self.is_call(n, 'next', 1) and self.is_call(n.args[0], 'iter', 1):
            inner = n.args[0].args[0]
            if (isinstance(inner, ast.Call) and isinstance(inner.func, ast.Attribute)
                    and inner.func.attr == 'values' and not inner.args and not inner.keywords):
                return f'(EFirstValue {self.expr(inner.func.value)})'
            return f'(EFirst {self.expr(inner)})'
        if isinstance(n, ast.Call) and isinstance(n.func, ast.Name) and n.func.id in self.scope \
           and callable(self.scope[n.func.id]) and len(n.args) == 1 and not n.keywords:
            return '(ECallPred %d %s)' % (self.pred_index(self.scope[n.func.id]), self.expr(n.args[0]))
        if isinstance(n, ast.Subscript):
            return f'(EIndex {self.expr(n.value)} {self.expr(n.slice)})'
        if isinstance(n, ast.BinOp) and isinstance(n.op, ast.Mod):
            return f'(EMod {self.expr(n.left)} {self.expr(n.right)})'
        if isinstance(n, ast.UnaryOp) and isinstance(n.op, ast.Not):
            return f'(ENot {self.expr(n.operand)})'
        if isinstance(n, ast.BoolOp):
            op = 'EAnd' if isinstance(n.op, ast.And) else 'EOr'
            parts = [self.expr(v) for v in n.values]
            out = parts[-1]
            for p in reversed(parts[:-1]):
                out = f'({op} {p} {out})'
            return out
        if isinstance(n, ast.NamedExpr):
            return f'(EWalrus {self.var(n.target.id)} {self.expr(n.value)})'
        if isinstance(n, ast.Compare) and len(n.ops) == 1:
            l, op, r = n.left, n.ops[0], n.comparators[0]
            if isinstance(op, ast.Is) and isinstance(l, ast.NamedExpr) and isinstance(r, ast.Name) \
               and r.id == l.target.id:
                return f'(ELet {self.var(l.target.id)} {self.expr(l.value)})'
            if isinstance(op, ast.Is):
                return f'(EIs {self.expr(l)} {self.expr(r)})'
            if isinstance(op, ast.IsNot) and isinstance(l, ast.NamedExpr) and self.is_call(l.value, 'getattr', 3) \
               and isinstance(r, ast.Name) and isinstance(l.value.args[2], ast.Name) and l.value.args[2].id == r.id \
               and isinstance(l.value.args[1], ast.Constant):
                return '(EAttrLet %s %s %s)' % (self.var(l.target.id), self.expr(l.value.args[0]),
                                                coq_str(l.value.args[1].value))
            if isinstance(op, ast.Eq):
                return f'(EEq {self.expr(l)} {self.expr(r)})'
        raise Unparsable('expression ' + ast.dump(n)[:200])


def main():
    warnings.simplefilter('ignore')
    from beartype import BeartypeConf
    from beartype._check.code.codemain import make_check_expr
    from beartype._check.convert.convmain import BEARTYPE_CALL_EXTERNAL_META, sanify_hint_root_statement
    from beartype._check.cls.hint.hintsane import HINT_SANE_IGNORABLE
    payload = json.load(sys.stdin)
    out = []
    confs = {True: BeartypeConf(), False: BeartypeConf(is_random=False)}
    from beartype._util.cache.utilcacheclear import clear_caches
    for c in payload['cases']:
        try:
            # every case on its own: beartype memoises generated code per (hint, configuration), and two unions with the same
            # members in another order are equal hints sharing one entry, so the code of the earlier spelling would come back
            clear_caches()
            hint = U.hint_to_python(c['hint'])
            conf = confs[bool(c['is_random'])] if not c.get('conf') else U.make_conf(bool(c['is_random']), 'O1', c['conf'])
            hs = sanify_hint_root_statement(call_curr=BEARTYPE_CALL_EXTERNAL_META, hint=hint, conf=conf,
                                            exception_prefix='')
            if hs is HINT_SANE_IGNORABLE:
                out.append('ETrue')
                continue
            code, scope = make_check_expr(BEARTYPE_CALL_EXTERNAL_META, conf, hs)[:2]
            tree = ast.parse('(' + code + '\n)', mode='eval').body
            out.append(Parser(scope).expr(tree))
        except Unparsable as e:
            out.append({'error': 'unparsable: ' + str(e)})
        except Exception as e:  # noqa
            out.append({'error': type(e).__name__ + ': ' + str(e)[:200]})
    print(json.dumps(out))


if __name__ == '__main__':
    main()
