"""Run the repository-side translators and write coq/theories/Gen/{ClassTable,Templates,SignSets}.v."""
import os
import subprocess

from harness.common import COQ, PY, VERIF, CoqFailure, impl_env, write_if_changed
from harness.translate import classtable


def _run(script):
    p = subprocess.run([PY, os.path.join(VERIF, 'harness', 'translate', script)], capture_output=True,
                       text=True, env=impl_env())
    if p.returncode != 0:
        raise CoqFailure(f'translator {script}', p.stdout[-2000:] + p.stderr[-4000:])
    lines = [l for l in p.stdout.split('\n')]
    return '\n'.join(lines)


def regenerate_core():
    classtable.regenerate()
    write_if_changed(os.path.join(COQ, 'theories/Gen/Templates.v'), _run('templates.py'))
    write_if_changed(os.path.join(COQ, 'theories/Gen/SignSets.v'), _run('signsets.py'))
