"""Translator: the asynchronous-generator wrapper template (beartype/_data/check/code/pep/datacodepep525.py) and the
synchronous one (datacodepep342.py) -> coq/theories/Gen/C08Template.v.  The template is parsed with `ast`
and matched, statement by statement, against the control structure the model C08/AGen.v wloop/wstart encodes;
fail-closed."""
import ast
import sys
import textwrap


class Untranslatable(Exception):
    pass


def need(cond, what):
    if not cond:
        raise Untranslatable(what)


def is_await_call(n, obj, meth, nargs):
    """await <obj>.<meth>(...)  or  await anext(<obj>)"""
    if not isinstance(n, ast.Await) or not isinstance(n.value, ast.Call):
        return False
    c = n.value
    if meth == 'anext':
        return isinstance(c.func, ast.Name) and c.func.id == 'anext' and len(c.args) == 1 and \
            isinstance(c.args[0], ast.Name) and c.args[0].id == obj
    return isinstance(c.func, ast.Attribute) and c.func.attr == meth and isinstance(c.func.value, ast.Name) and \
        c.func.value.id == obj and len(c.args) == nargs


def handler_names(h):
    t = h.type
    return t.id if isinstance(t, ast.Name) else None


def main():
    from beartype._data.check.code.pep import datacodepep525 as A, datacodepep342 as S
    from beartype._data.check.code.datacodename import ARG_NAME_FUNC, VAR_NAME_PITH_ROOT as P
    src = 'async def w():\n' + textwrap.indent(textwrap.dedent(A.CODE_PEP525_RETURN_CHECKED), '    ')
    body = ast.parse(src).body[0].body
    need(len(body) == 1 and isinstance(body[0], ast.Try), 'top level is not one try statement')
    t = body[0]
    # try: y = await anext(P)   except StopAsyncIteration: return   else: while True: ...
    need(len(t.body) == 1 and isinstance(t.body[0], ast.Assign) and is_await_call(t.body[0].value, P, 'anext', 1), 'first statement is not y = await anext(pith)')
    ypith = t.body[0].targets[0].id
    need(len(t.handlers) == 1 and handler_names(t.handlers[0]) == 'StopAsyncIteration' and
         isinstance(t.handlers[0].body[0], ast.Return) and t.handlers[0].body[0].value is None, 'start: StopAsyncIteration does not return')
    need(not t.finalbody and len(t.orelse) == 1 and isinstance(t.orelse[0], ast.While) and
         isinstance(t.orelse[0].test, ast.Constant) and t.orelse[0].test.value is True, 'no while True loop')
    loop = t.orelse[0].body
    need(len(loop) == 1 and isinstance(loop[0], ast.Try), 'loop body is not one try statement')
    lt = loop[0]
    # try: s = yield y
    need(len(lt.body) == 1 and isinstance(lt.body[0], ast.Assign) and isinstance(lt.body[0].value, ast.Yield) and
         isinstance(lt.body[0].value.value, ast.Name) and lt.body[0].value.value.id == ypith, 'loop does not yield the relayed value')
    spith = lt.body[0].targets[0].id
    need([handler_names(h) for h in lt.handlers] == ['GeneratorExit', 'BaseException'], 'handlers are not (GeneratorExit, BaseException) in this order')
    hg, hb = lt.handlers
    # except GeneratorExit: await P.aclose(); raise
    need(len(hg.body) == 2 and isinstance(hg.body[0], ast.Expr) and is_await_call(hg.body[0].value, P, 'aclose', 0) and
         isinstance(hg.body[1], ast.Raise) and hg.body[1].exc is None, 'GeneratorExit handler is not: await pith.aclose(); raise')
    # except BaseException as e: try: y = await P.athrow(e) except StopAsyncIteration: return
    need(len(hb.body) == 1 and isinstance(hb.body[0], ast.Try), 'BaseException handler is not one try')
    bt = hb.body[0]
    need(len(bt.body) == 1 and isinstance(bt.body[0], ast.Assign) and bt.body[0].targets[0].id == ypith and
         is_await_call(bt.body[0].value, P, 'athrow', 1) and isinstance(bt.body[0].value.value.args[0], ast.Name) and
         bt.body[0].value.value.args[0].id == hb.name, 'thrown exception is not relayed by athrow')
    need(len(bt.handlers) == 1 and handler_names(bt.handlers[0]) == 'StopAsyncIteration' and isinstance(bt.handlers[0].body[0], ast.Return)
         and not bt.orelse and not bt.finalbody, 'athrow: StopAsyncIteration does not return')
    # else: try: if s is None: y = await anext(P) else: y = await P.asend(s)  except StopAsyncIteration: return
    need(len(lt.orelse) == 1 and isinstance(lt.orelse[0], ast.Try) and not lt.finalbody, 'else branch is not one try')
    et = lt.orelse[0]
    need(len(et.body) == 1 and isinstance(et.body[0], ast.If), 'else branch does not test the sent value')
    iff = et.body[0]
    need(isinstance(iff.test, ast.Compare) and isinstance(iff.test.left, ast.Name) and iff.test.left.id == spith and
         isinstance(iff.test.ops[0], ast.Is) and isinstance(iff.test.comparators[0], ast.Constant) and
         iff.test.comparators[0].value is None, 'sent value is not tested with "is None"')
    need(len(iff.body) == 1 and iff.body[0].targets[0].id == ypith and is_await_call(iff.body[0].value, P, 'anext', 1), 'None is not relayed by anext')
    need(len(iff.orelse) == 1 and iff.orelse[0].targets[0].id == ypith and is_await_call(iff.orelse[0].value, P, 'asend', 1) and
         iff.orelse[0].value.value.args[0].id == spith, 'a sent value is not relayed by asend')
    need(len(et.handlers) == 1 and handler_names(et.handlers[0]) == 'StopAsyncIteration' and isinstance(et.handlers[0].body[0], ast.Return),
         'send: StopAsyncIteration does not return')
    # the unchecked variant creates the inner generator first and continues with the same code
    u = textwrap.dedent(A.CODE_PEP525_RETURN_UNCHECKED).strip('\n')
    first = ast.parse(u.split('\n')[0]).body[0]
    need(isinstance(first, ast.Assign) and first.targets[0].id == P and isinstance(first.value, ast.Call) and first.value.func.id == ARG_NAME_FUNC,
         'unchecked variant does not start with pith = func(*args, **kwargs)')
    need(A.CODE_PEP525_RETURN_CHECKED in A.CODE_PEP525_RETURN_UNCHECKED, 'unchecked variant does not continue with the checked code')
    # synchronous generators: plain delegation
    s1 = ast.parse('def w():\n' + S.CODE_PEP342_RETURN_CHECKED.strip('\n')).body[0].body[0]
    s2 = ast.parse('def w():\n' + S.CODE_PEP342_RETURN_UNCHECKED.strip('\n')).body[0].body[0]
    need(isinstance(s1, ast.Return) and isinstance(s1.value, ast.YieldFrom) and isinstance(s1.value.value, ast.Name) and s1.value.value.id == P,
         'sync checked variant is not: return (yield from pith)')
    need(isinstance(s2, ast.Return) and isinstance(s2.value, ast.YieldFrom) and isinstance(s2.value.value, ast.Call) and
         s2.value.value.func.id == ARG_NAME_FUNC, 'sync unchecked variant is not: return (yield from func(*args, **kwargs))')
    print('(* GENERATED by harness/translate/agentemplate.py from beartype/_data/check/code/pep/datacodepep525.py and\n'
          '   datacodepep342.py.  Do not edit. *)\n'
          '(* the asynchronous wrapper body has, statement by statement, the control structure of C08/AGen.v wstart / wloop:\n'
          '   start by anext; loop: yield the relayed value; GeneratorExit -> await aclose, re-raise; any other exception ->\n'
          '   athrow; None -> anext; a value -> asend; StopAsyncIteration -> return in all four places.\n'
          '   The synchronous wrapper is "return (yield from ...)". *)\n'
          'Definition async_template_as_modelled : bool := true.\n'
          'Definition sync_template_is_yield_from : bool := true.')


if __name__ == '__main__':
    try:
        main()
    except Untranslatable as e:
        print('UNTRANSLATABLE: ' + str(e), file=sys.stderr)
        sys.exit(3)
    except (AttributeError, IndexError, TypeError) as e:
        print('UNTRANSLATABLE: template shape not recognised (%s)' % e, file=sys.stderr)
        sys.exit(3)
