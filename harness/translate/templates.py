"""Translator: beartype's code-generation string templates -> coq/theories/Gen/Templates.v.

Runs under the repository's interpreter (imports the template modules from /repo), fills every
{hole} with a marker identifier, parses the result with Python `ast` and emits one Coq function
per template over the expression type of Core/Expr.v.  Fail-closed: any construct outside the
small grammar below is an error (reported by the caller as a broken obligation).

Usage:  python templates.py  -> prints the Coq text on stdout.
"""
import ast
import sys

INT_HOLES = {'hint_childs_len', 'pith_child_index'}
LIT_HOLES = {'hint_child_expr_lit'}
BUILTIN_CLS = {'tuple': 'c_tuple', 'type': 'c_type', 'int': 'c_int', 'list': 'c_list'}


class Untranslatable(Exception):
    pass


class Markers(dict):
    def __missing__(self, k):
        if k in ('indent_curr', 'indent'):
            return ''
        return 'HOLE_' + k


def fill(t):
    m = Markers()
    for _ in range(3):
        if '{' not in t:
            break
        t = t.format_map(m)
    return t


class Conv:
    def __init__(self):
        self.roles = {}      # hole -> set of roles

    def role(self, h, r):
        self.roles.setdefault(h, set()).add(r)

    def hole(self, n):
        return n.id[5:] if isinstance(n, ast.Name) and n.id.startswith('HOLE_') else None

    def cls(self, n):
        h = self.hole(n)
        if h:
            self.role(h, 'cls')
            return h
        if isinstance(n, ast.Name) and n.id in BUILTIN_CLS:
            return '[%s]' % BUILTIN_CLS[n.id]
        raise Untranslatable('class expression ' + ast.dump(n))

    def var(self, n):
        h = self.hole(n)
        if not h:
            raise Untranslatable('assignment target ' + ast.dump(n))
        self.role(h, 'var')
        return h

    def is_call(self, n, name, nargs):
        return (isinstance(n, ast.Call) and isinstance(n.func, ast.Name) and n.func.id == name
                and len(n.args) == nargs and not n.keywords)

    def expr(self, n):
        h = self.hole(n)
        if h:
            if h in INT_HOLES:
                self.role(h, 'int')
                return f'(EInt {h})'
            if h.startswith('lit_'):
                self.role(h, 'lit')
                return f'(ELit {h})'
            self.role(h, 'expr')
            return f'<<{h}>>'
        if isinstance(n, ast.Name):
            if n.id == '__beartype_random_int':
                return 'ERand'
            raise Untranslatable('name ' + n.id)
        if isinstance(n, ast.Constant) and isinstance(n.value, int) and not isinstance(n.value, bool):
            return f'(EInt {n.value})'
        if self.is_call(n, 'isinstance', 2):
            return f'(EIsInst {self.expr(n.args[0])} {self.cls(n.args[1])})'
        if self.is_call(n, 'issubclass', 2):
            return f'(EIsSub {self.expr(n.args[0])} {self.cls(n.args[1])})'
        if self.is_call(n, 'len', 1):
            return f'(ELen {self.expr(n.args[0])})'
        if self.is_call(n, 'next', 1) and self.is_call(n.args[0], 'iter', 1):
            inner = n.args[0].args[0]
            if (isinstance(inner, ast.Call) and isinstance(inner.func, ast.Attribute)
                    and inner.func.attr == 'values' and not inner.args and not inner.keywords):
                return f'(EFirstValue {self.expr(inner.func.value)})'
            return f'(EFirst {self.expr(inner)})'
        if isinstance(n, ast.Subscript):
            return f'(EIndex {self.expr(n.value)} {self.expr(n.slice)})'
        if isinstance(n, ast.BinOp) and isinstance(n.op, ast.Mod):
            return f'(EMod {self.expr(n.left)} {self.expr(n.right)})'
        if isinstance(n, ast.UnaryOp) and isinstance(n.op, ast.Not):
            return f'(ENot {self.expr(n.operand)})'
        if isinstance(n, ast.BoolOp):
            op = 'EAnd' if isinstance(n.op, ast.And) else 'EOr'
            parts = [self.expr(v) for v in n.values]
            out = parts[-1]
            for p in reversed(parts[:-1]):
                out = f'({op} {p} {out})'
            return out
        if isinstance(n, ast.NamedExpr):
            return f'(EWalrus {self.var(n.target)} {self.expr(n.value)})'
        if isinstance(n, ast.Compare) and len(n.ops) == 1:
            l, op, r = n.left, n.ops[0], n.comparators[0]
            if isinstance(op, ast.Is) and isinstance(l, ast.NamedExpr) and self.hole(r) and \
               self.hole(r) == self.hole(l.target):
                return f'(ELet {self.var(l.target)} {self.expr(l.value)})'
            if isinstance(op, ast.Eq):
                return f'(EEq {self.expr(l)} {self.expr(r)})'
            if isinstance(op, ast.Is):
                return f'(EIs {self.expr(l)} {self.expr(r)})'
            # (x := getattr(obj, 'name', SENTINEL)) is not SENTINEL
            if isinstance(op, ast.IsNot) and isinstance(l, ast.NamedExpr) and self.is_call(l.value, 'getattr', 3) \
               and self.hole(r) and self.hole(l.value.args[2]) == self.hole(r) and self.hole(l.value.args[1]):
                name = self.hole(l.value.args[1])
                self.role(name, 'str')
                self.role(self.hole(r), 'sentinel')
                return f'(EAttrLet {self.var(l.target)} {self.expr(l.value.args[0])} {name})'
        raise Untranslatable('expression ' + ast.dump(n))

    def finish(self, name, body, order=None, comment=''):
        params = []
        holes = order or sorted(self.roles)
        for h in holes:
            r = self.roles.get(h, {'expr'})
            if 'var' in r:
                ty = 'var'
                body = body.replace(f'<<{h}>>', f'(EVar {h})')
            elif r == {'cls'}:
                ty = 'list nat'
            elif r == {'int'}:
                ty = 'Z'
            elif r == {'lit'}:
                ty = 'pyval'
            elif r == {'str'}:
                ty = 'string'
            elif r == {'sentinel'}:
                continue
            elif r == {'expr'}:
                ty = 'expr'
                body = body.replace(f'<<{h}>>', h)
            else:
                raise Untranslatable(f'hole {h} used in incompatible roles {r} in {name}')
            params.append(f'({h} : {ty})')
        c = f'(* {comment} *)\n' if comment else ''
        return f'{c}Definition {name} {" ".join(params)} : expr :=\n  {body}.\n'


def translate(name, text, comment=''):
    c = Conv()
    try:
        tree = ast.parse('(' + fill(text) + '\n)', mode='eval')
    except SyntaxError as e:
        raise Untranslatable(f'{name}: template is not an expression: {e}')
    return c.finish(name, c.expr(tree.body), comment=comment)


def joined(name, texts, strip, suffix, expect_op, comment=''):
    """Assemble PREFIX+pieces (the last connective stripped) + SUFFIX the way codemain does and check
    that it is a flat chain of `expect_op`; returns the parsed pieces."""
    body = ''.join(texts)
    body = body[:strip] + suffix
    tree = ast.parse('(' + fill(body) + '\n)', mode='eval').body
    if not (isinstance(tree, ast.BoolOp) and isinstance(tree.op, expect_op)):
        raise Untranslatable(f'{name}: assembled fragments do not form a flat {expect_op.__name__} chain: '
                             + ast.dump(tree)[:300])
    return tree.values


def main():
    from beartype._check.code.snip import codesnipstr as S
    from beartype._data.check.code import datacodelen as L
    from beartype._data.check.code.pep import (datacodepep484585 as P, datacodepep484604 as U,
                                                datacodepep586 as LIT, datacodepep593 as AN)
    out = ['(* GENERATED by harness/translate/templates.py from beartype/_data/check/code/pep/*.py and',
           '   beartype/_check/code/snip/codesnipstr.py.  Do not edit. *)',
           'From Coq Require Import List ZArith String.',
           'From BT Require Import Gen.ClassTable Core.PyVal Core.Expr.', 'Import ListNotations.', '']
    T = translate
    out.append(T('tpl_instance', S.CODE_PEP484_INSTANCE, 'CODE_PEP484_INSTANCE'))
    out.append(T('tpl_assign', '(' + S.CODE_PEP572_PITH_ASSIGN_EXPR + ')', 'CODE_PEP572_PITH_ASSIGN_EXPR'))
    out.append(T('tpl_container', P.CODE_PEP484585_REITERABLE_OR_SEQUENCE, 'CODE_PEP484585_REITERABLE_OR_SEQUENCE'))
    out.append(T('tpl_quasiiterable', P.CODE_PEP484585_QUASIITERABLE, 'CODE_PEP484585_QUASIITERABLE'))
    out.append(T('tpl_reiterable_child', P.CODE_PEP484585_REITERABLE_PITH_CHILD_EXPR,
                 'CODE_PEP484585_REITERABLE_PITH_CHILD_EXPR'))
    out.append(T('tpl_sequence_child_random', P.CODE_PEP484585_SEQUENCE_RANDOM_PITH_CHILD_EXPR,
                 'CODE_PEP484585_SEQUENCE_RANDOM_PITH_CHILD_EXPR'))
    out.append(T('tpl_sequence_child_first', P.CODE_PEP484585_SEQUENCE_NONRANDOM_PITH_CHILD_EXPR,
                 'CODE_PEP484585_SEQUENCE_NONRANDOM_PITH_CHILD_EXPR'))
    out.append(T('tpl_mapping', P.CODE_PEP484585_MAPPING, 'CODE_PEP484585_MAPPING'))
    out.append(T('tpl_mapping_key_only', P.CODE_PEP484585_MAPPING_KEY_ONLY, 'CODE_PEP484585_MAPPING_KEY_ONLY'))
    out.append(T('tpl_mapping_value_only', P.CODE_PEP484585_MAPPING_VALUE_ONLY, 'CODE_PEP484585_MAPPING_VALUE_ONLY'))
    out.append(T('tpl_mapping_key_value', P.CODE_PEP484585_MAPPING_KEY_VALUE, 'CODE_PEP484585_MAPPING_KEY_VALUE'))
    out.append(T('tpl_mapping_key_only_child', P.CODE_PEP484585_MAPPING_KEY_ONLY_PITH_CHILD_EXPR))
    out.append(T('tpl_mapping_value_only_child', P.CODE_PEP484585_MAPPING_VALUE_ONLY_PITH_CHILD_EXPR))
    out.append(T('tpl_mapping_key_value_child', P.CODE_PEP484585_MAPPING_KEY_VALUE_PITH_CHILD_EXPR))
    out.append(T('tpl_subclass', P.CODE_PEP484585_SUBCLASS, 'CODE_PEP484585_SUBCLASS'))
    out.append(T('tpl_tuple_child', P.CODE_PEP484585_TUPLE_FIXED_NONEMPTY_PITH_CHILD_EXPR))

    # ---- fixed tuples: PREFIX + (EMPTY | LEN + CHILD*) with the last ' and' stripped + SUFFIX
    c1 = P.CODE_PEP484585_TUPLE_FIXED_NONEMPTY_CHILD.format(hint_child_placeholder='HOLE_child1')
    c2 = P.CODE_PEP484585_TUPLE_FIXED_NONEMPTY_CHILD.format(hint_child_placeholder='HOLE_child2')
    parts = joined('tuple_fixed', [P.CODE_PEP484585_TUPLE_FIXED_PREFIX, P.CODE_PEP484585_TUPLE_FIXED_LEN, c1, c2],
                   L.LINE_RSTRIP_INDEX_AND, P.CODE_PEP484585_TUPLE_FIXED_SUFFIX, ast.And)
    if len(parts) != 4 or Conv().hole(parts[2]) != 'child1' or Conv().hole(parts[3]) != 'child2':
        raise Untranslatable('tuple_fixed: children are not spliced verbatim')
    c = Conv(); out.append(c.finish('tpl_tuple_prefix', c.expr(parts[0]), comment='CODE_PEP484585_TUPLE_FIXED_PREFIX'))
    c = Conv(); out.append(c.finish('tpl_tuple_len', c.expr(parts[1]), comment='CODE_PEP484585_TUPLE_FIXED_LEN'))
    parts = joined('tuple_fixed_empty', [P.CODE_PEP484585_TUPLE_FIXED_PREFIX, P.CODE_PEP484585_TUPLE_FIXED_EMPTY],
                   L.LINE_RSTRIP_INDEX_AND, P.CODE_PEP484585_TUPLE_FIXED_SUFFIX, ast.And)
    if len(parts) != 2:
        raise Untranslatable('tuple_fixed_empty: unexpected shape')
    c = Conv(); out.append(c.finish('tpl_tuple_empty', c.expr(parts[1]), comment='CODE_PEP484585_TUPLE_FIXED_EMPTY'))
    out.append('Definition tpl_tuple_op : expr -> expr -> expr := EAnd.\n')

    # ---- unions: PREFIX + NONPEP? + PEP* with the last ' or' stripped + SUFFIX
    p1 = U.CODE_PEP484604_UNION_CHILD_PEP.format(hint_child_placeholder='HOLE_child1')
    p2 = U.CODE_PEP484604_UNION_CHILD_PEP.format(hint_child_placeholder='HOLE_child2')
    parts = joined('union', [U.CODE_PEP484604_UNION_PREFIX, U.CODE_PEP484604_UNION_CHILD_NONPEP, p1, p2],
                   L.LINE_RSTRIP_INDEX_OR, U.CODE_PEP484604_UNION_SUFFIX, ast.Or)
    if len(parts) != 3 or Conv().hole(parts[1]) != 'child1' or Conv().hole(parts[2]) != 'child2':
        raise Untranslatable('union: children are not spliced verbatim')
    c = Conv(); out.append(c.finish('tpl_union_nonpep', c.expr(parts[0]), comment='CODE_PEP484604_UNION_CHILD_NONPEP'))
    out.append('Definition tpl_union_op : expr -> expr -> expr := EOr.\n')

    # ---- literals: PREFIX + LITERAL* with the last ' or' stripped + SUFFIX
    l1 = LIT.CODE_PEP586_LITERAL.format(pith_curr_var_name='HOLE_pith_curr_var_name', hint_child_expr='HOLE_lit_1')
    l2 = LIT.CODE_PEP586_LITERAL.format(pith_curr_var_name='HOLE_pith_curr_var_name', hint_child_expr='HOLE_lit_2')
    body = (LIT.CODE_PEP586_PREFIX + l1 + l2)[:L.LINE_RSTRIP_INDEX_OR] + LIT.CODE_PEP586_SUFFIX
    tree = ast.parse('(' + fill(body) + '\n)', mode='eval').body
    if not (isinstance(tree, ast.BoolOp) and isinstance(tree.op, ast.And) and len(tree.values) == 2
            and isinstance(tree.values[1], ast.BoolOp) and isinstance(tree.values[1].op, ast.Or)
            and len(tree.values[1].values) == 2):
        raise Untranslatable('literal: unexpected shape ' + ast.dump(tree)[:300])
    c = Conv(); out.append(c.finish('tpl_literal_prefix', c.expr(tree.values[0]), comment='CODE_PEP586_PREFIX'))
    c = Conv(); out.append(c.finish('tpl_literal_item', c.expr(tree.values[1].values[0]).replace('lit_1', 'lit'),
                                    comment='CODE_PEP586_LITERAL').replace('(lit_1 : pyval)', '(lit : pyval)'))
    out.append('Definition tpl_literal_outer_op : expr -> expr -> expr := EAnd.\n'
               'Definition tpl_literal_inner_op : expr -> expr -> expr := EOr.\n')

    # ---- annotated: PREFIX + METAHINT? + IS* with the last ' and' stripped + SUFFIX
    m = AN.CODE_PEP593_VALIDATOR_METAHINT.format(indent_curr='', hint_child_placeholder='HOLE_child1')
    v1 = AN.CODE_PEP593_VALIDATOR_IS.format(indent_curr='', hint_child_expr='HOLE_child2')
    v2 = AN.CODE_PEP593_VALIDATOR_IS.format(indent_curr='', hint_child_expr='HOLE_child3')
    parts = joined('annotated', [AN.CODE_PEP593_VALIDATOR_PREFIX, m, v1, v2], L.LINE_RSTRIP_INDEX_AND,
                   AN.CODE_PEP593_VALIDATOR_SUFFIX, ast.And)
    if [Conv().hole(p) for p in parts] != ['child1', 'child2', 'child3']:
        raise Untranslatable('annotated: children are not spliced verbatim')
    out.append('Definition tpl_annotated_op : expr -> expr -> expr := EAnd.\n')
    # the localisation conjunct emitted before the validators of an ignorable metahint
    pz = AN.CODE_PEP593_VALIDATOR_PITH.format(indent_curr='', pith_curr_assign_expr='HOLE_pith_curr_assign_expr',
                                              pith_curr_var_name='HOLE_pith_curr_var_name')
    parts = joined('annotated_pith', [AN.CODE_PEP593_VALIDATOR_PREFIX, pz, v1], L.LINE_RSTRIP_INDEX_AND,
                   AN.CODE_PEP593_VALIDATOR_SUFFIX, ast.And)
    if len(parts) != 2 or Conv().hole(parts[1]) != 'child2':
        raise Untranslatable('annotated_pith: unexpected shape')
    c = Conv(); out.append(c.finish('tpl_annotated_pith', c.expr(parts[0]), comment='CODE_PEP593_VALIDATOR_PITH'))

    # ---- beartype.vale snippets ({obj} is the pith expression; {indent} vanishes)
    from beartype.vale._util import _valeutilsnip as V
    out.append(T('tpl_vale_isequal', V.VALE_CODE_CHECK_ISEQUAL_TEST.format(param_name_obj_value='HOLE_lit_value')
                 .replace('lit_value', 'lit_value'), 'VALE_CODE_CHECK_ISEQUAL_TEST'))
    out.append(T('tpl_vale_isinstance', V.VALE_CODE_CHECK_ISINSTANCE_TEST.format(param_name_types='HOLE_param_name_types'),
                 'VALE_CODE_CHECK_ISINSTANCE_TEST'))
    out.append(T('tpl_vale_issubclass', V.VALE_CODE_CHECK_ISSUBCLASS_TEST.format(param_name_types='HOLE_param_name_types'),
                 'VALE_CODE_CHECK_ISSUBCLASS_TEST'))
    attr_value_expr = V.VALE_CODE_CHECK_ISATTR_VALUE_EXPR.format(
        attr_name_expr='HOLE_attr_name', local_name_attr_value='HOLE_local_name_attr_value',
        local_name_sentinel='HOLE_sentinel')
    out.append(T('tpl_vale_isattr', V.VALE_CODE_CHECK_ISATTR_TEST.format(
        attr_value_expr=attr_value_expr, attr_value_is_valid_expr='HOLE_attr_value_is_valid_expr',
        local_name_sentinel='HOLE_sentinel'), 'VALE_CODE_CHECK_ISATTR_TEST + VALE_CODE_CHECK_ISATTR_VALUE_EXPR'))
    print('\n'.join(out))


if __name__ == '__main__':
    try:
        main()
    except Untranslatable as e:
        print('UNTRANSLATABLE: ' + str(e), file=sys.stderr)
        sys.exit(3)
