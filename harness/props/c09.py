"""C09 — call-time checking cost does not grow with container size.  See DESIGN.md 5/C09.

proof:          coq/theories/Props/C09.v (Core/Cost.v: path-sensitive cost analysis sound for every
                evaluation; cost of generated code bounded by `bound h`)
correspondence: (a) the shared stream: the model's protocol trace equals the spy log, (b) the same object
                scaled x1, x10, x1000 (x10^5 for the largest): item reads of is_bearable equal across sizes and
                <= the model's bound(h); item reads of die_if_unbearable (rejecting path, O1) equal across sizes
"""
import json
import os

from harness import corecorr as C
from harness import coreir as IR
from harness.common import CoqFailure, coq_list, coqc_file, parse_nat_list, run_impl
from harness.props import c01
from harness.translate.run import regenerate_core

PROP = 'theories/Props/C09.v'
REPEATABLE = ('list', 'tuple', 'deque', 'UserSeq', 'UserList', 'UserColl', 'UserIter')


def regenerate(ctx):
    regenerate_core()


def scale(v, f, depth=2):
    """the same object with every container of the first `depth` levels f times as large"""
    if depth == 0 or f == 1:
        return v
    if v[0] == 'cont':
        items = [scale(x, f, depth - 1) for x in v[2]]
        if v[1] in REPEATABLE and items:
            return ['cont', v[1], items * f]
        if v[1] in ('set', 'frozenset') and items and all(x[0] == 'int' for x in items):
            base = max(x[1] for x in items) + 1
            return ['cont', v[1], items + [['int', base + j] for j in range(len(items) * (f - 1))]]
        if v[1] in ('set', 'frozenset') and items and all(x[0] == 'str' for x in items):
            return ['cont', v[1], items + [['str', 'zz%d' % j] for j in range(len(items) * (f - 1))]]
        return ['cont', v[1], items]
    if v[0] == 'map':
        kvs = [[k, scale(x, f, depth - 1)] for k, x in v[2]]
        extra = []
        for j in range(len(kvs) * (f - 1)):
            k, x = kvs[j % len(kvs)]
            k2 = derive_key(k, j)
            if k2 is None:
                break
            extra.append([k2, x])
        return ['map', v[1], kvs + extra]
    return v


def derive_key(k, j):
    """a fresh hashable key of the same kind as k"""
    if k[0] == 'str':
        return ['str', k[1] + 'zz%d' % j]
    if k[0] == 'int':
        return ['int', k[1] + 1000 * (j + 1)]
    if k[0] == 'float':
        return ['float', k[1] + 2000 * (j + 1)]
    if k[0] == 'bytes':
        return ['bytes', k[1] + 'zz%d' % j]
    if k[0] == 'obj':
        return ['obj', k[1], [a for a in k[2] if a[0] != 'zz'] + [['zz', ['int', j]]]]
    return None


def size_of(v):
    if v[0] == 'cont':
        return 1 + sum(size_of(x) for x in v[2])
    if v[0] == 'map':
        return 1 + sum(size_of(k) + size_of(x) for k, x in v[2])
    return 1


def model_bounds(ctx, hints):
    text = C.HEADER + 'From BT Require Import Core.Cost.\n' + \
        'Eval vm_compute in (map bound %s).\n' % coq_list(['\n ' + IR.coq_hint(h) for h in hints])
    path = os.path.join(ctx.workdir, 'bounds.v')
    with open(path, 'w') as f:
        f.write(text)
    return parse_nat_list(coqc_file(path))


def reads_of(run):
    return sum(1 for k, _ in run['trace'] if k in (1, 2, 3, 4))


def scaling_stream(ctx, n):
    rng = ctx.rng
    failures = 0
    todo = []
    while len(todo) < n:
        h = IR.gen_hint(rng, rng.choice([2, 3, 3]))
        if C.container_levels(h) == 0:
            continue
        base = IR.gen_sat(rng, h, sizes=(1, 2, 3))
        if rng.random() < 0.5:
            base = IR.mutate(rng, base)
        if not IR.valid_value(base) or size_of(base) < 3:
            continue
        todo.append((h, base, None))
        # the same object as the *conforming* sibling of a violating one: the explanation path must not scan it
        if len(todo) < n:
            good = IR.gen_sat(rng, h, sizes=(1, 2, 3))
            if IR.valid_value(good) and size_of(good) >= 3:
                kind = rng.choice(['tuple', 'annot'])
                if kind == 'tuple':
                    todo.append((['tuplefixed', [h, ['cls', 'int']]], ['cont', 'tuple', [good, ['str', 'bad']]],
                                 (lambda good: lambda f: ['cont', 'tuple', [scale(good, f), ['str', 'bad']]])(good)))
                else:
                    todo.append((['annot', h, [['is', 4]]], good, None))
    bounds = model_bounds(ctx, [h for h, _, _ in todo])
    cases, index = [], []
    for ti, (h, base, builder) in enumerate(todo):
        for f in (1, 10, 1000):
            v = builder(f) if builder else scale(base, f)
            if size_of(v) > 400000:
                continue
            cases.append({'hint': h, 'value': v, 'draws': [0, 7, 2 ** 32 - 1], 'is_random': True, 'strategy': 'O1',
                          'entries': ['is_bearable', 'die_if_unbearable']})
            index.append((ti, f))
    obs = []
    for lo in range(0, len(cases), 40):
        obs += run_impl('core_impl.py', {'cases': cases[lo:lo + 40]}, timeout=1800)
    per = {}
    for (ti, f), case, res in zip(index, cases, obs):
        per.setdefault(ti, {})[f] = (case, res)
    for ti, sizes in per.items():
        h, base, _ = todo[ti]
        ctx.case([h, base], True, sample={'hint': h, 'base_value': base, 'sizes': sorted(sizes),
                                          'bound': bounds[ti]})
        counts = {}
        for f, (case, res) in sizes.items():
            ctx.count('scale=%d' % f)
            ctx.evaluations += 5
            for di, runs in enumerate(res.get('runs', [])):
                for ent, o in runs.items():
                    counts.setdefault((di, ent), {})[f] = (reads_of(o), o['verdict'])
                    if ent == 'is_bearable' and reads_of(o) > bounds[ti]:
                        failures += 1
                        ctx.report({'clause': 'reads_exceed_bound', 'entry': ent},
                                   {'case': dict(case, value='(scaled x%d of base_value)' % f), 'base_value': base,
                                    'scale': f, 'draw': case['draws'][di], 'reads': reads_of(o), 'bound': bounds[ti],
                                    'trace': o['trace'][:40]},
                                   'a check read more items than the bound fixed by the hint')
        # the explanation path (die_if_unbearable raising): one item per level again, plus repr()
        for f, (case, res) in sizes.items():
            for di, runs in enumerate(res.get('runs', [])):
                o = runs.get('die_if_unbearable')
                if o is None or o['verdict'] != 'F':
                    continue
                ctx.count('rejecting_path_runs')
                ctx.count('rejecting_path_reprs=%d' % min(o.get('reprs', 0), 9))
                if reads_of(o) > 2 * bounds[ti] + 2:
                    failures += 1
                    ctx.report({'clause': 'rejecting_path_reads', 'entry': 'die_if_unbearable'},
                               {'hint': h, 'base_value': base, 'scale': f, 'draw': case['draws'][di],
                                'reads_outside_repr': reads_of(o), 'check_bound': bounds[ti], 'trace': o['trace'][:60]},
                               'describing a rejection read more items than twice the check bound (outside repr())')
    return failures


def run(ctx):
    ctx.rule = (c01.RULE + '; plus a scaling stream: each base object (>= 1 container level) is scaled x1, x10, x1000 '
                '(first two nesting levels) and the numbers of __getitem__/__next__/values reads of is_bearable and '
                'die_if_unbearable are compared across scales and with the model bound')
    ctx.assumptions += ['see C01; the explanation path (die_if_unbearable when rejecting) is measured, not modelled: '
                        'its size-independence is tested on the scaling stream only']
    ctx.safe_regenerate(regenerate)
    proof_err = c01.prove_core(ctx, PROP)
    failures = 0
    try:
        failures += scaling_stream(ctx, {'quick': 60, 'thorough': 1500}[ctx.tier])
        if failures <= 12:
            failures += c01.run_stream(ctx, {'quick': 120, 'thorough': 3000}[ctx.tier], 4, lambda c, r: [],
                                       entries=('is_bearable',))
    except CoqFailure as e:
        if proof_err is None:
            ctx.broken('corr/core model evaluation', e.log)
            return
    if proof_err is not None and not failures:
        ctx.broken(f'{PROP} ({proof_err.what})', proof_err.log)


def replay(ctx, path):
    c01.replay(ctx, path)
