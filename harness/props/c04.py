"""C04 — the wrapper is transparent and checks each argument against its own parameter.

proof:          coq/theories/Props/C04.v over C04/Wrap.v (CPython binding rule vs the wrapper's selections)
translator tie: Gen/C04Templates.v regenerated from datacodefuncwrap.py (localisation snippets, call-through)
correspondence: generated signatures x call shapes through an undecorated copy (oracle for binding) and a
                @beartype-decorated copy whose annotations are spy classes logging every isinstance check
"""
import json
import os
import subprocess

from harness.common import (COQ, PY, VERIF, CoqFailure, coq_list, coq_opt, coq_str, coqc_file, coqc_many, impl_env,
                            parse_nat_list, run_impl, write_if_changed)

PROP = 'theories/Props/C04.v'
HEADER = ('From Coq Require Import List String.\nFrom BT Require Import C04.Wrap C04.Corr Gen.C04Templates.\n'
          'Import ListNotations.\nOpen Scope string_scope.\n')


def regenerate(ctx):
    p = subprocess.run([PY, os.path.join(VERIF, 'harness', 'translate', 'argtemplates.py')], capture_output=True,
                       text=True, env=impl_env())
    if p.returncode != 0:
        raise CoqFailure('translator argtemplates.py', p.stdout[-1000:] + p.stderr[-3000:])
    write_if_changed(os.path.join(COQ, 'theories/Gen/C04Templates.v'), p.stdout)


def names(l):
    return coq_list([coq_str(n) for n in l])


def coq_sig(s):
    return ('{| s_posonly := %s; s_flex := %s; s_varpos := %s; s_kwonly := %s; s_varkw := %s; s_defaults := %s; '
            's_annotated := %s |}' % (names(s['posonly']), names(s['flex']), coq_opt(s['varpos'], coq_str),
                                      names(s['kwonly']), coq_opt(s['varkw'], coq_str), names(s['defaults']),
                                      names(s['annotated'])))


def coq_rows(rows):
    return coq_list(['(%s, %s)' % (coq_str(p), coq_list([str(n) for n in vs])) for p, vs in rows])


def coq_case(sig, call, obs):
    ref = obs['ref']
    return ('{| k_sig := %s; k_call := {| c_args := %s; c_kwargs := %s |}; k_bind := %s; k_checked := %s |}' % (
        coq_sig(sig), coq_list([str(n) for n in call['args']]),
        coq_list(['(%s, %d)' % (coq_str(k), n) for k, n in call['kwargs']]),
        'None' if ref is None else '(Some %s)' % coq_rows(ref), coq_rows(obs['checked'])))


def gen_sig(rng):
    pool = ['a', 'b', 'c', 'd', 'e', 'g', 'h', 'x', 'y']
    rng.shuffle(pool)
    take = lambda n: [pool.pop() for _ in range(n)]  # noqa: E731
    posonly = take(rng.choice([0, 0, 1, 2]))
    flex = take(rng.choice([0, 1, 2, 2]))
    varpos = 'args' if rng.random() < 0.4 else None
    kwonly = take(rng.choice([0, 0, 1, 2]))
    varkw = 'kwargs' if rng.random() < 0.4 else None
    if rng.random() < 0.15 and varpos:
        varpos = 'rest'
    positional = posonly + flex
    ndef = rng.randint(0, len(positional))
    defaults = positional[len(positional) - ndef:] + [k for k in kwonly if rng.random() < 0.5]
    everything = positional + ([varpos] if varpos else []) + kwonly + ([varkw] if varkw else [])
    annotated = [p for p in everything if rng.random() < 0.65]
    # parameters annotated by a hint that admits everything (object, Any, Optional[object]): nothing to check for them, and the
    # parameters after them are still theirs (in the model they count as unannotated)
    ignorable = [[p, rng.choice(['object', 'Any', 'Optional[object]'])] for p in everything if p not in annotated and rng.random() < 0.35]
    return {'posonly': posonly, 'flex': flex, 'varpos': varpos, 'kwonly': kwonly, 'varkw': varkw,
            'defaults': defaults, 'annotated': annotated, 'ignorable': ignorable, 'annotate_return': rng.random() < 0.5}


def gen_call(rng, sig, counter):
    positional = sig['posonly'] + sig['flex']
    shape = rng.choice(['exact', 'exact', 'kwflex', 'missing', 'surplus', 'dup', 'posonly_kw', 'unknown_kw', 'mixed'])
    nxt = lambda: counter.__setitem__(0, counter[0] + 1) or counter[0]  # noqa: E731
    npos = rng.randint(0, len(positional))
    if shape == 'surplus':
        npos = len(positional) + rng.randint(1, 3)
    args = [nxt() for _ in range(npos)]
    kwargs = []
    rest = positional[npos:] if npos <= len(positional) else []
    for p in rest:
        if p in sig['flex'] and (shape != 'missing' or rng.random() < 0.5) and (p not in sig['defaults'] or rng.random() < 0.6):
            kwargs.append([p, nxt()])
    for p in sig['kwonly']:
        if (p not in sig['defaults'] or rng.random() < 0.5) and not (shape == 'missing' and rng.random() < 0.4):
            kwargs.append([p, nxt()])
    if shape == 'dup' and sig['flex'] and npos > len(sig['posonly']):
        kwargs.append([sig['flex'][0], nxt()])
    if shape == 'posonly_kw' and sig['posonly']:
        kwargs.append([rng.choice(sig['posonly']), nxt()])
    if shape in ('unknown_kw', 'mixed'):
        # excess keywords: fresh names, and names that other signatures of this run declare (nothing about one callable may depend
        # on what was decorated before it)
        mine = set(positional + sig['kwonly'] + [sig['varpos'], sig['varkw']])
        foreign = [n for n in ['a', 'b', 'c', 'd', 'e', 'g', 'h', 'x', 'y'] if n not in mine]
        kwargs.append([rng.choice(['zz', 'qq'] + foreign[:3]), nxt()])
        if rng.random() < 0.5:
            kwargs.append([rng.choice(['ww'] + foreign[3:5]), nxt()])
    rng.shuffle(kwargs)
    seen, kw2 = set(), []
    for k, v in kwargs:
        if k not in seen:
            seen.add(k)
            kw2.append([k, v])
    call = {'args': args, 'kwargs': kw2, 'shape': shape}
    if rng.random() < 0.15:
        call['raises'] = True
    if rng.random() < 0.25:
        allv = [(None, a) for a in args] + kw2
        if allv:
            _, n = rng.choice(allv)
            call['fail'] = [[p, n] for p in sig['annotated']]
    return call


def judge(call, oc):
    """the property, directly on the implementation"""
    problems = []
    if oc['ref'] is None:
        if oc['outcome'] not in ('typeerror', 'param_violation') or oc['ran'] != 0:
            problems.append('an unbindable call did not end in TypeError/param violation without running')
    elif oc['outcome'] == 'ok':
        if oc['ran'] != 1 or not oc['same_result'] or not oc['same_args']:
            problems.append('the wrapped callable did not run exactly once with the given arguments, or '
                            'its result was not returned by identity')
        if call.get('raises'):
            problems.append('the exception raised by the wrapped callable was swallowed')
    elif oc['outcome'] == 'raised_same':
        if oc['ran'] != 1 or not call.get('raises') or not oc['same_args']:
            problems.append('the wrapped callable raised but did not run exactly once with the given arguments')
    elif oc['outcome'] in ('param_violation',):
        if oc['ran'] != 0:
            problems.append('the wrapped callable ran although a parameter check failed')
        if not call.get('fail'):
            problems.append('a parameter violation without any failing value')
    elif oc['outcome'] == 'return_violation':
        if not call.get('fail') or oc['ran'] != 1:
            problems.append('unexpected return violation')
    else:
        problems.append('unexpected outcome ' + oc['outcome'])
    return problems


def run(ctx):
    ctx.rule = ('random signatures (0-2 positional-only, 0-2 flexible, optional *args, 0-2 keyword-only, optional '
                '**kwargs, trailing defaults, random annotated subset, a further random subset annotated by ignorable hints (object / Any / Optional[object]), optional return annotation) x 12 call shapes '
                '(exact, flexible by keyword, missing, surplus, duplicate, keyword naming a positional-only '
                'parameter with/without **kwargs, unknown keywords, mixed; 25% with one value designated to fail, 15% '
                'with the original raising an exception object of its own); '
                'non-trivial = >= 2 parameter kinds and >= 1 annotated parameter; distinct = distinct (signature, call)')
    ctx.assumptions += ['exec() of the generated wrapper and CPython\'s own argument binding are not modelled beyond the '
                        'binding rule of C04/Wrap.v, which is itself compared with CPython on every call',
                        'bound methods (self skipping) are exercised by the repository tests only']
    proof_err = None
    try:
        regenerate(ctx)
    except CoqFailure as e:
        proof_err = e          # the snippets no longer have the modelled shape: keep the last model and search for a failing call
    try:
        if proof_err is not None:
            raise proof_err
        ctx.prove(PROP, extra_targets=['theories/C04/Corr.vo'])
    except CoqFailure as e:
        proof_err = e
        from harness.common import coq_make
        try:
            coq_make(['theories/C04/Corr.vo'])
        except CoqFailure as e2:
            ctx.broken('corr/c04 model does not build', e2.log)
            return
    nsig = {'quick': 400, 'thorough': 15000}[ctx.tier]
    counter = [100]
    cases = []
    for _ in range(nsig):
        sig = gen_sig(ctx.rng)
        counter[0] = 100          # value identifiers only have to be distinct within one signature's calls (and stay small nat literals)
        cases.append({'sig': sig, 'calls': [gen_call(ctx.rng, sig, counter) for _ in range(10)]})
    failures = 0
    rows, index = [], []
    for lo in range(0, len(cases), 500):
        part = cases[lo:lo + 500]
        obs = run_impl('c04_impl.py', {'cases': part})
        for ci, (c, o) in enumerate(zip(part, obs)):
            if 'decor_error' in o:
                failures += 1
                ctx.report({'clause': 'decoration_failed'}, {'case': c, 'error': o['decor_error']},
                           'decorating a valid signature raised')
                continue
            kinds = sum(bool(x) for x in (c['sig']['posonly'], c['sig']['flex'], c['sig']['varpos'], c['sig']['kwonly'],
                                          c['sig']['varkw']))
            for call, oc in zip(c['calls'], o['calls']):
                ctx.case([c['sig'], call['args'], call['kwargs'], call.get('fail'), call.get('raises')],
                         kinds >= 2 and bool(c['sig']['annotated']),
                         sample={'signature': c['sig'], 'call': call, 'observed': oc})
                ctx.count('shape:' + call['shape'])
                ctx.count('outcome:' + oc['outcome'])
                ctx.count('bindable' if oc['ref'] is not None else 'unbindable')
                problems = judge(call, oc)
                if problems:
                    failures += 1
                    ctx.report({'clause': 'transparency', 'problem': problems[0][:60]},
                               {'signature': c['sig'], 'call': call, 'observed': oc, 'problems': problems},
                               problems[0])
                if not call.get('fail'):
                    rows.append(coq_case(c['sig'], call, oc))
                    index.append((c['sig'], call, oc))
        if failures > 12:
            break
    paths = []
    shard = 250
    for lo in range(0, len(rows), shard):
        text = HEADER + 'Definition cases : list case := %s.\nEval vm_compute in (failing cases).\n' % coq_list(
            ['\n ' + r for r in rows[lo:lo + shard]])
        path = os.path.join(ctx.workdir, f'c04_{lo}.v')
        with open(path, 'w') as f:
            f.write(text)
        paths.append(path)
    for si, out in enumerate(coqc_many(paths, jobs=12)):
        for j in parse_nat_list(out)[:3]:
            if failures > 12:
                break
            failures += 1
            sig, call, oc = index[si * shard + j]
            ctx.report({'clause': 'correspondence', 'shape': call['shape']},
                       {'signature': sig, 'call': call, 'observed': oc,
                        'expected': 'C04/Wrap.v bind (vs undecorated call) and checked (vs logged isinstance checks)'},
                       'binding or checked values differ between the model and CPython/beartype')
    # @beartype over functools.wraps wrappers (transparent, with an option of their own, with a leading parameter of their own)
    try:
        wrows = run_impl('c04_wrappers.py', {}, timeout=300)
    except Exception as e:  # noqa
        wrows = [{'kind': 'crash', 'error': str(e)[-600:]}]
    ctx.evaluations += len(wrows)
    ctx.extra['wrapper_rows'] = len(wrows)
    for r in wrows:
        wrong = (r['kind'] in ('crash', 'decoration') or
                 (r['kind'] == 'conforming' and r['undecorated'] != r['decorated']) or
                 (r['kind'] == 'violating' and (r['decorated'][0][0] != 'param_violation' or r['decorated'][1])))
        if wrong and failures <= 12:
            failures += 1
            ctx.report({'clause': 'wrapper_of_wrapper', 'wrapper': r.get('wrapper'), 'kind': r['kind']}, r,
                       'a decorated functools.wraps wrapper does not behave like the undecorated one on a conforming call '
                       '(or a transparent wrapper leaves the wrapped callable unchecked)')
    if proof_err is not None and not failures:
        ctx.broken(f'{PROP} ({proof_err.what})', proof_err.log)


def replay(ctx, path):
    with open(path) as f:
        body = json.load(f)
    ctx.safe_regenerate(regenerate)
    r = body['record']
    if 'signature' in r:
        o = run_impl('c04_impl.py', {'cases': [{'sig': r['signature'], 'calls': [r['call']]}]})
        print(json.dumps(o[0]))
    elif 'wrapper' in r:
        for row in run_impl('c04_wrappers.py', {}, timeout=300):
            if all(row.get(k) == r.get(k) for k in ('wrapper', 'inner', 'kind', 'args', 'kwargs')):
                print(json.dumps(row))
                if (row['kind'] == 'conforming' and row['undecorated'] != row['decorated']) or \
                        (row['kind'] == 'violating' and (row['decorated'][0][0] != 'param_violation' or row['decorated'][1])):
                    ctx.report(body.get('shape') or {'clause': 'wrapper_of_wrapper'}, row, 'the wrapper case still fails')
