"""C14 — answers do not depend on what was asked before (memoisation is invisible).  See DESIGN.md 5/C14.

proof:          coq/theories/Props/C14.v (C14/Memo.v erun/irun, C14/Proofs.v)
translator tie: the memoisation sites of /repo are scanned on every run (decorator, module, function); the set of
                identifier-keyed sites must be the one whose pinning argument the proof covers
correspondence: (1) beartype's own @callable_cached / @method_cached_arg_by_id applied to probe callables and driven by
                generated operation histories (equal / similar / unhashable / failing arguments, clears, allocation,
                garbage collection and actual address reuse) against the model; (2) public-API histories (is_bearable,
                die_if_unbearable, is_subhint, TypeHint ==, decorated calls, forward references defined late /
                redefined, gc, clear_caches) run in a forked pristine interpreter, every query also answered by a fork
                that has seen nothing before it
"""
import ast
import json
import os

from harness import coreir as IR
from harness.common import REPO, VERIF, CoqFailure, coq_list, coqc_many, parse_nat_list, run_impl

PROP = 'theories/Props/C14.v'
HEADER = ('From Coq Require Import List ZArith String.\n'
          'From BT Require Import Gen.ClassTable Core.PyVal C14.Memo C14.Corr.\n'
          'Import ListNotations.\nOpen Scope string_scope.\n')

VALUES = [['int', 1], ['bool', True], ['float', 2], ['int', 0], ['bool', False], ['float', 0], ['str', 'a'], ['str', ''],
          ['none'], ['cont', 'tuple', [['int', 1]]], ['cont', 'tuple', [['bool', True]]], ['cont', 'list', [['int', 1]]],
          ['cont', 'frozenset', [['int', 0]]], ['cls', 'int'], ['int', 7]]
ID_SITES_EXPECTED = {('beartype/door/_cls/doorsuper.py', '__eq__'), ('beartype/door/_cls/doorsuper.py', 'is_subhint')}


def regenerate(ctx):
    pass


def dedup_equality_test_present():
    """the repaired coerce_hint_any uses a hit of the representation-keyed table only if it == the hint asked about (Dedup.v:
    dedup_checked); without that test the model is dedup_unchecked, which the theorems refute"""
    import ast
    src = open(os.path.join(REPO, 'beartype/_check/convert/_convcoerce.py')).read()
    f = next((n for n in ast.walk(ast.parse(src)) if isinstance(n, ast.FunctionDef) and n.name == 'coerce_hint_any'), None)
    if f is None:
        return False
    uses_table = any(isinstance(n, ast.Attribute) and n.attr == 'cache_or_get_cached_value' for n in ast.walk(f))
    compares = any(isinstance(n, ast.Compare) and any(isinstance(o, ast.Eq) for o in n.ops) and
                   {x.id for x in [n.left] + n.comparators if isinstance(x, ast.Name)} >= {'hint'} for n in ast.walk(f))
    return compares or not uses_table


def cache_sites():
    """(decorator, file, function) for every memoising decorator application under beartype/"""
    out = []
    for d, _, fs in os.walk(os.path.join(REPO, 'beartype')):
        for f in fs:
            if not f.endswith('.py'):
                continue
            p = os.path.join(d, f)
            try:
                tree = ast.parse(open(p).read())
            except SyntaxError:
                continue
            for n in ast.walk(tree):
                if isinstance(n, (ast.FunctionDef, ast.AsyncFunctionDef)):
                    for dec in n.decorator_list:
                        name = dec.id if isinstance(dec, ast.Name) else dec.attr if isinstance(dec, ast.Attribute) else None
                        if name in ('callable_cached', 'method_cached_arg_by_id', 'property_cached'):
                            out.append((name, os.path.relpath(p, REPO), n.name))
    return sorted(out)


def coq_outcome(o):
    if 'ret' in o:
        return '(Ret %s)' % IR.coq_val(o['ret'])
    if 'raise' in o:
        return '(Raise %d)' % o['raise']
    return None


def gen_eq_case(rng):
    ops = []
    for _ in range(rng.randint(3, 14)):
        ops.append(['clear'] if rng.random() < 0.08 else ['call', rng.choice(VALUES)])
    return {'mode': 'eq', 'policy': rng.choice([0, 1, 1, 2, 2]), 'ops': ops}


def gen_id_case(rng):
    ops, live, nxt = [], [], 0
    for _ in range(rng.randint(4, 18)):
        r = rng.random()
        if r < 0.35 or not live:
            ops.append(['alloc', nxt, rng.choice(VALUES)])
            live.append(nxt)
            nxt += 1
        elif r < 0.55:
            h = rng.choice(live)
            live.remove(h)
            ops.append(['free', h])
        elif r < 0.62:
            ops.append(['clear'])
        else:
            ops.append(['call', rng.choice(live)])
    return {'mode': 'id', 'policy': rng.choice([0, 1, 2]), 'ops': ops}


HINTS = [['cls', 'int'], ['cls', 'str'], ['cont', 'List', ['cls', 'int']], ['cont', 'List', ['cls', 'str']],
         ['union', [['cls', 'int'], ['cls', 'str']]], ['literal', [['int', 1]]], ['literal', [['bool', True]]],
         ['cont', 'Sequence', ['cls', 'int']], ['map', 'Dict', ['cls', 'str'], ['cls', 'int']], ['cls', 'bool'],
         ['unhashable', ['cls', 'int'], 7], ['unhashable', ['cls', 'str'], 7], ['unhashable', ['cls', 'int'], 8],
         ['unhashable', ['cont', 'List', ['cls', 'int']], 7], ['tuplefixed', [['cls', 'int'], ['cls', 'str']]]]
OBJS = [['int', 1], ['bool', True], ['str', 'a'], ['cont', 'list', [['int', 1]]], ['cont', 'list', [['str', 'a']]],
        ['cont', 'tuple', [['int', 1], ['str', 'a']]], ['map', 'dict', [[['str', 'k'], ['int', 1]]]], ['none']]


def gen_history(rng):
    ops = []
    for _ in range(rng.randint(4, 12)):
        r = rng.random()
        if r < 0.22:
            ops.append(['is_bearable', rng.choice(HINTS), rng.choice(OBJS)])
            if rng.random() < 0.3:
                # both door functions about one hint, the same explicit exception_prefix given to each, in either order
                h, o2, pre = ops[-1][1], rng.choice(OBJS), rng.choice(['lib.check() ', 'is_bearable() ', 'die_if_unbearable() '])
                ops[-1].append(pre)
                pair = ['die', h, o2, pre]
                ops.insert(len(ops) - 1, pair) if rng.random() < 0.5 else ops.append(pair)
        elif r < 0.27:
            # two subscriptions of one user generic in a row (their reduced hints share the class and differ in the type arguments only)
            g = rng.choice(['UBox', 'UOld', 'UPair'])
            n = 2 if g == 'UPair' else 1
            items = rng.choice([[['int', 1], ['int', 2]], [['str', 'a'], ['str', 'b']], [['str', 'a'], ['int', 2]]])
            for _ in range(2):
                ops.append(['ugen', g, [rng.choice(['int', 'str', 'bytes']) for _ in range(n)], items, rng.choice(['is_bearable', 'die', 'typehint', 'call'])])
        elif r < 0.32:
            ops.append(['die', rng.choice(HINTS), rng.choice(OBJS)])
        elif r < 0.45:
            ops.append(['is_subhint', rng.choice(HINTS), rng.choice(HINTS)])
        elif r < 0.55:
            ops.append(['th_sub', rng.choice(HINTS), rng.choice(HINTS)])
        elif r < 0.65:
            ops.append(['eq', rng.choice(HINTS), rng.choice(HINTS)])
        elif r < 0.73:
            ops.append(['call', rng.choice(HINTS), rng.choice(OBJS)])
        elif r < 0.83:
            ops.append(['gc'])
        elif r < 0.88:
            ops.append(['clear'])
        elif r < 0.91:
            ops.append(['define', rng.choice(['Late', 'Other']), rng.randint(0, 3)])
        elif r < 0.95:
            ops.append(rng.choice([['th_cls', rng.choice(['Late', 'Other'])], ['sub_cls', 'Late', 'Other'], ['sub_cls', 'Late', 'Late'],
                                   ['fwd_hint', rng.choice(['Late', 'Other'])]]))
        else:
            ops.append(['fwd', rng.choice(['Late', 'Other']), rng.choice(['Late', 'Other']), rng.random() < 0.3])
    return {'mode': 'history', 'ops': ops}


def _reuse_scenario():
    ops = []
    for n in range(6):
        ops += [['th_sub', ['unhashable', ['cls', 'int'], n], ['cls', 'int']], ['gc'],
                ['th_sub', ['unhashable', ['cls', 'str'], n], ['cls', 'int']], ['gc']]
    return {'mode': 'history', 'ops': ops}


SCENARIOS = [
    # a hint with a string child (and a later sibling child) asked about before and after the named class is redefined
    {'mode': 'history', 'ops': [['define', 'Late', 0], ['fwd_hint', 'Late'], ['define', 'Late', 1], ['fwd_hint', 'Late'],
                                ['define_bt', 'Late', 2], ['fwd_hint', 'Late']]},
    # a callable annotated by the name of a class defined later, called between redefinitions of that class: when the class is
    # decorated by @beartype the redefinition is noticed (caches cleared) and the callable follows the current class ...
    {'mode': 'history', 'ops': [['fwd', 'Late', 'Late', False], ['define_bt', 'Late', 0], ['fwd', 'Late', 'Late', False],
                                ['define_bt', 'Late', 1], ['fwd', 'Late', 'Late', False]]},
    # ... unless another decorated class of the module was redefined in between: that empties beartype's registry of decorated
    # classes, and the next redefinition goes unnoticed (F53)
    {'mode': 'history', 'ops': [['fwd', 'Late', 'Late', False], ['define_bt', 'Other', 0], ['define_bt', 'Late', 0], ['fwd', 'Late', 'Late', False],
                                ['define_bt', 'Other', 1], ['fwd', 'Late', 'Late', False], ['define_bt', 'Late', 1], ['fwd', 'Late', 'Late', False]]},
    # ... when it is a plain class nothing notices (F52)
    {'mode': 'history', 'ops': [['fwd', 'Late', 'Late', False], ['define', 'Late', 0], ['fwd', 'Late', 'Late', False],
                                ['define', 'Late', 1], ['fwd', 'Late', 'Late', False]]},
    # F51: a class redefined under the same name, asked about through PEP 585 / 604 hints before and after
    {'mode': 'history', 'ops': [['define', 'Late', 0], ['th_cls', 'Late'], ['define', 'Late', 1], ['th_cls', 'Late']]},
    _reuse_scenario(),
    # the identifier of a collected wrapper of an unhashable hint is reused by a similar one
    {'mode': 'history', 'ops': [['is_subhint', ['unhashable', ['cls', 'int'], 7], ['cls', 'int']], ['gc'],
                                ['is_subhint', ['unhashable', ['cls', 'str'], 7], ['cls', 'int']]]},
    {'mode': 'history', 'ops': [['eq', ['unhashable', ['cls', 'int'], 7], ['unhashable', ['cls', 'int'], 7]], ['gc'],
                                ['eq', ['unhashable', ['cls', 'str'], 7], ['unhashable', ['cls', 'int'], 8]]]},
    # a forward reference that failed once is not remembered as failing
    {'mode': 'history', 'ops': [['fwd', 'Late', 'Late', True], ['define', 'Late', 1], ['fwd', 'Late', 'Late', False]]},
    # redefinition of a same-named class
    {'mode': 'history', 'ops': [['define', 'Late', 1], ['fwd', 'Late', 'Late', True], ['define', 'Late', 2],
                                ['fwd', 'Late', 'Late', True]]},
    # a redefined class has the name and the repr of the old one
    {'mode': 'history', 'ops': [['define', 'Late', 1], ['th_cls', 'Late'], ['sub_cls', 'Late', 'Late'], ['define', 'Late', 2],
                                ['th_cls', 'Late'], ['define', 'Other', 1], ['sub_cls', 'Late', 'Other'], ['gc'], ['th_cls', 'Late']]},
    # Literal[1] and Literal[True] are equal-looking keys
    {'mode': 'history', 'ops': [['is_bearable', ['literal', [['int', 1]]], ['bool', True]],
                                ['is_bearable', ['literal', [['bool', True]]], ['int', 1]],
                                ['is_subhint', ['literal', [['bool', True]]], ['cls', 'bool']],
                                ['is_subhint', ['literal', [['int', 1]]], ['cls', 'bool']]]},
]


def run(ctx):
    ctx.rule = ('decorator histories: 3-18 operations over 15 argument values (1, True, 2.0-as-1.0 halves, 0, False, 0.0, strings, None, '
                'tuples of these, an unhashable list, a frozenset, a class), three probe callables (type(x): not congruent; x == 1; '
                'raises on x == 0), clears; identifier histories with real allocation / gc / address reuse; public-API histories of '
                '4-12 operations over 15 hints (4 with unhashable Annotated metadata) x 8 objects incl. gc, clear_caches, late '
                'definition and redefinition of forward-referenced classes, plus 5 fixed scenarios; non-trivial = history has >= 2 '
                'queries sharing an equal or identifier-equal key; distinct = distinct history')
    ctx.assumptions += ['the probe callables are the three of C14/Corr.v f_of; beartype\'s own memoised callables are assumed congruent '
                        '(tested by the public-API histories, not proved)',
                        'address reuse after garbage collection is CPython behaviour: observed, and fed to the model as observed']
    proof_err = None
    try:
        ctx.prove(PROP, extra_targets=['theories/C14/Corr.vo'])
    except CoqFailure as e:
        proof_err = e
        from harness.common import coq_make
        try:
            coq_make(['theories/C14/Corr.vo'])
        except CoqFailure as e2:
            ctx.broken('corr/c14 model does not build', e2.log)
            return
    failures = 0
    # --- the memoisation sites
    sites = cache_sites()
    ctx.extra['memoisation_sites'] = {k: sum(1 for s in sites if s[0] == k) for k in ('callable_cached', 'method_cached_arg_by_id', 'property_cached')}
    id_sites = {(f, fn) for k, f, fn in sites if k == 'method_cached_arg_by_id'}
    # --- decorators against the model
    n = {'quick': 600, 'thorough': 20000}[ctx.tier]
    ecases = [gen_eq_case(ctx.rng) for _ in range(n)]
    icases = [gen_id_case(ctx.rng) for _ in range(n)]
    rows_e, rows_i, idx_e, idx_i = [], [], [], []
    reuse_seen = 0
    for lo in range(0, n, 300):
        obs = run_impl('c14_impl.py', {'cases': ecases[lo:lo + 300] + icases[lo:lo + 300]}, timeout=1200)
        k = len(ecases[lo:lo + 300])
        for case, o in zip(ecases[lo:lo + 300], obs[:k]):
            keys = [json.dumps(op[1]) for op in case['ops'] if op[0] == 'call']
            ctx.case(case, len(keys) != len(set(keys)) or any(x in keys for x in ('["bool", true]', '["float", 2]')))
            ctx.count('eq_policy=%d' % case['policy'])
            if any('error' in x for x in o):
                failures += 1
                ctx.report({'clause': 'decorator_raised'}, {'case': case, 'observed': o}, 'the memoised probe raised something else')
                continue
            ops = ['EClear' if op[0] == 'clear' else '(ECall %s)' % IR.coq_val(op[1]) for op in case['ops']]
            outs = ['(%s, %s)' % (coq_outcome(x), 'true' if x['ran'] else 'false') for x in o]
            rows_e.append('{| e_policy := %d; e_ops := %s; e_obs := %s |}' % (case['policy'], coq_list(ops), coq_list(outs)))
            idx_e.append((case, o))
        for case, o in zip(icases[lo:lo + 300], obs[k:]):
            ids = [x['id'] for x in o if x.get('op') == 'alloc']
            reused = len(ids) != len(set(ids))
            reuse_seen += reused
            ctx.case(case, reused)
            ctx.count('id_policy=%d' % case['policy'])
            ctx.count('address_reused' if reused else 'no_reuse')
            ops, outs, handle_id = [], [], {}
            for op, x in zip(case['ops'], o):
                if op[0] == 'alloc':
                    handle_id[op[1]] = x['id']
                    ops.append('(IAlloc %d %s)' % (x['id'], IR.coq_val(op[2])))
                elif op[0] == 'free':
                    ops.append('(IFree %d)' % handle_id[op[1]])
                elif op[0] == 'clear':
                    ops.append('IClear')
                else:
                    if x.get('dead'):
                        continue
                    ops.append('(ICall %d)' % x['id'])
                    outs.append('(Some %s)' % coq_outcome(x) if coq_outcome(x) else 'None')
            rows_i.append('{| i_policy := %d; i_ops := %s; i_obs := %s |}' % (case['policy'], coq_list(ops), coq_list(outs)))
            idx_i.append((case, o))
    ctx.extra['identifier_histories_with_real_address_reuse'] = reuse_seen
    for rows, idx, typ, fn, tag in ((rows_e, idx_e, 'ecase', 'efailing', 'callable_cached'), (rows_i, idx_i, 'idcase', 'idfailing', 'cached_by_id')):
        shard, paths = 300, []
        for lo in range(0, len(rows), shard):
            text = HEADER + 'Definition cases : list %s := %s.\nEval vm_compute in (%s cases).\n' % (
                typ, coq_list(['\n ' + r for r in rows[lo:lo + shard]]), fn)
            path = os.path.join(ctx.workdir, f'c14_{tag}_{lo}.v')
            with open(path, 'w') as f:
                f.write(text)
            paths.append(path)
        for si, out in enumerate(coqc_many(paths, jobs=12)):
            for j in parse_nat_list(out)[:3]:
                failures += 1
                case, o = idx[si * shard + j]
                ctx.report({'clause': 'decorator_correspondence', 'decorator': tag}, {'case': case, 'observed': o},
                           'beartype\'s memoising decorator and the model (C14/Memo.v) disagree')
    # --- public-API histories against pristine interpreters
    hn = {'quick': 120, 'thorough': 2500}[ctx.tier]
    hist = SCENARIOS + [gen_history(ctx.rng) for _ in range(hn)]
    for lo in range(0, len(hist), 60):
        part = hist[lo:lo + 60]
        obs = run_impl('c14_impl.py', {'cases': part}, timeout=1800)
        for case, o in zip(part, obs):
            ctx.case(case, True, sample={'ops': case['ops'], 'history': o.get('history'), 'fresh': o.get('fresh')})
            for op in case['ops']:
                ctx.count('api:' + op[0])
            if o == 'fork-died' or o.get('history') == 'fork-died':
                failures += 1
                ctx.report({'clause': 'history_crashed'}, {'case': case, 'observed': o}, 'a public-API history crashed the interpreter')
                continue
            for i, (op, a, b) in enumerate(zip(case['ops'], o['history'], o['fresh'])):
                if op[0] in ('gc', 'clear', 'define', 'define_bt'):
                    continue
                if a != b:
                    # F14 is about wrappers of unhashable hints: one anywhere earlier in the history (its address may have been reused by
                    # a wrapper of this operation) identifies the finding just as one in the operation itself does
                    def mentions_unhashable(x):
                        return isinstance(x, list) and bool(x) and (x[0] == 'unhashable' or any(mentions_unhashable(y) for y in x))
                    unhashable = any(mentions_unhashable(q) for q in case['ops'][:i + 1])
                    plain_redef = op[0] == 'fwd' and sum(1 for q in case['ops'][:i] if q[0] == 'define' and q[1] == op[1]) >= 2
                    bt_other = op[0] == 'fwd' and any(sum(1 for q in case['ops'][:i] if q[0] == 'define_bt' and q[1] == nm) >= 2
                                                      for nm in ('Late', 'Other') if nm != op[1]) and \
                        sum(1 for q in case['ops'][:i] if q[0] == 'define_bt' and q[1] == op[1]) >= 2
                    shape = {'clause': 'history_dependent_answer', 'op': op[0], 'unhashable_hint': unhashable,
                             'after_plain_redefinition': plain_redef, 'after_other_decorated_class_redefined': bt_other}
                    if ctx.report(shape, {'case': case, 'index': i, 'op': op, 'after_history': a, 'fresh': b},
                                  'an answer after a history differs from the answer of a pristine interpreter') == 'violation':
                        failures += 1
    ctx.extra['dedup_equality_test_in_source'] = dedup_equality_test_present()
    if not ctx.extra['dedup_equality_test_in_source'] and not failures:
        ctx.broken('translator/dedup_equality_test: coerce_hint_any substitutes the hint found under the same representation without '
                   'comparing it with the hint asked about (the model proved invisible is dedup_checked)', '', shape={'broken': 'dedup_equality_test'})
        failures += 1
    if id_sites != ID_SITES_EXPECTED and not failures:
        ctx.broken('translator/cache_sites: the set of identifier-keyed memoisation sites changed (the pinning argument of '
                   'C14_cached_by_id_invisible_when_pinned was made for TypeHint.__eq__ and TypeHint.is_subhint only)',
                   json.dumps(sorted(id_sites)), shape={'broken': 'cache_sites'})
        failures += 1
    if proof_err is not None and not failures:
        ctx.broken(f'{PROP} ({proof_err.what})', proof_err.log)


def replay(ctx, path):
    with open(path) as f:
        body = json.load(f)
    case = body['record'].get('case')
    if case:
        print(json.dumps(run_impl('c14_impl.py', {'cases': [case]})[0])[:3000])
