"""C05 — the import hook preserves program meaning and equals writing the checks by hand.  See DESIGN.md 5/C05.

proof:          coq/theories/Props/C05.v (C05/Ast.v transform, C05/Proofs.v)
translator tie: none beyond reading the names the hook injects (decorator / raiser function names) from the repository
correspondence: generated modules (prologue of docstrings and __future__ imports; functions, async functions and classes with
                0-2 existing decorators, typed or not, nested to depth 3; if / for / while / try / with suites; annotated
                assignments to names, attributes and subscripts, with and without value) through the real
                BeartypeNodeTransformer under claw_is_pep526 on/off, claw_decor_place_func / _type in {default, FIRST, LAST}
                and default vs non-default configuration; the transformed AST is compiled and read back into the model's
                grammar (line numbers included) and compared with the model's transform; behavioural scenarios through
                a really hooked import (first offending statement, unsupported hint -> BeartypeClawDecorWarning while
                siblings stay checked, expressions evaluated once)
"""
import json
import os
import shutil
import subprocess

from harness.common import PY, REPO, VERIF, CoqFailure, coq_list, coqc_many, parse_nat_list, run_impl

PROP = 'theories/Props/C05.v'
HEADER = ('From Coq Require Import List Arith.\nFrom BT Require Import C05.Ast C05.Corr.\nImport ListNotations.\n')


def regenerate(ctx):
    pass


def gen_stmts(rng, depth, in_class=False):
    out = []
    for _ in range(rng.choice([0, 1, 1, 2, 3])):
        r = rng.random()
        if r < 0.25 and depth > 0:
            out.append(['func', rng.random() < 0.2, rng.randrange(50), [rng.randrange(3) for _ in range(rng.choice([0, 0, 1, 2]))],
                        rng.random() < 0.7, gen_stmts(rng, depth - 1)])
        elif r < 0.4 and depth > 0:
            out.append(['class', rng.randrange(50), [rng.randrange(3) for _ in range(rng.choice([0, 0, 1]))], gen_stmts(rng, depth - 1, True)])
        elif r < 0.7:
            t = rng.choice([['name', rng.randrange(9)], ['name', rng.randrange(9)], ['attr', rng.randrange(10), rng.randrange(5)],
                            ['sub', rng.randrange(10), rng.randrange(5)]])    # object tokens 5-9: composite expressions (c05_impl.OBJ_COMPOSITE)
            out.append(['ann', t, rng.randrange(6), rng.randrange(9) if rng.random() < 0.8 else None])
        elif r < 0.85 and depth > 0:
            kind = rng.randrange(5)
            nb = {0: 2, 1: 1, 2: 1, 3: 3, 4: 1}[kind]
            out.append(['block', kind, [gen_stmts(rng, depth - 1, in_class) for _ in range(nb)]])
        else:
            out.append(['other'])
    return out


def gen_module(rng):
    pro = []
    if rng.random() < 0.5:
        pro.append(['doc'])
    if rng.random() < 0.3:
        pro.append(['future'])          # legal only directly after the (single) docstring
    elif rng.random() < 0.2:
        pro.append(['doc'])             # a second constant expression statement: still prologue for the hook
    body = gen_stmts(rng, 3)
    if rng.random() < 0.05:
        body = []
    return pro + body


def coq_target(t):
    return {'name': lambda: '(TName %d)' % t[1], 'attr': lambda: '(TAttr %d %d)' % (t[1], t[2]), 'sub': lambda: '(TSub %d %d)' % (t[1], t[2])}[t[0]]()


def coq_deco(d):
    if isinstance(d, int):
        return '(DUser %d)' % d
    if d[0] == 'user':
        return '(DUser %d)' % d[1]
    return '(DBear %s %d)' % ('true' if d[1] else 'false', d[2])


def coq_stmt(s):
    k = s[0]
    b = lambda x: 'true' if x else 'false'  # noqa: E731
    if k == 'doc':
        return '(SDoc %d)' % s[-1]
    if k == 'future':
        return '(SFuture %d)' % s[-1]
    if k == 'import_star':
        return '(SImportStar %d)' % s[-1]
    if k == 'func':
        return '(SFunc %s %d %s %s %s %d)' % (b(s[1]), s[2], coq_list([coq_deco(d) for d in s[3]]), b(s[4]), coq_stmts(s[5]), s[-1])
    if k == 'class':
        return '(SClass %d %s %s %d)' % (s[1], coq_list([coq_deco(d) for d in s[2]]), coq_stmts(s[3]), s[-1])
    if k == 'ann':
        return '(SAnn %s %d %s %d)' % (coq_target(s[1]), s[2], 'None' if s[3] is None else '(Some %d)' % s[3], s[-1])
    if k == 'check':
        return '(SCheck %s %d %s %d)' % (coq_target(s[1]), s[2], b(s[3]), s[-1])
    if k == 'block':
        return '(SBlock %d %s %d)' % (s[1], coq_list([coq_stmts(x) for x in s[2]]), s[-1])
    return '(SOther %d)' % s[-1]


def coq_stmts(l):
    return coq_list([coq_stmt(s) for s in l])


def depth_of(l):
    d = 0
    for s in l:
        kids = s[5] if s[0] == 'func' else s[3] if s[0] == 'class' else [x for b in s[2] for x in b] if s[0] == 'block' else []
        d = max(d, 1 + depth_of(kids) if kids or s[0] in ('func', 'class', 'block') else 0)
    return d


SCENARIO = r'''
import json, sys, warnings, os
root = sys.argv[1]
os.makedirs(os.path.join(root, 'c05pkg'), exist_ok=True)
open(os.path.join(root, 'c05pkg', '__init__.py'), 'w').write('')
open(os.path.join(root, 'c05pkg', 'first.py'), 'w').write(
    'LOG = []\n'
    'def note(x):\n    LOG.append(x)\n    return x\n'
    'a: int = note(1)\n'
    'b: int = note("bad")\n'          # the first offending statement
    'c: int = note(3)\n')
open(os.path.join(root, 'c05pkg', 'sib.py'), 'w').write(
    'import typing\n'
    'class K:\n'
    '    def bad(self, x: 42 = 0) -> int:\n        return x\n'   # not a hint at all: decoration of this method fails
    '    def good(self, x: int) -> int:\n        return x\n'
    'def free(x: int) -> int:\n    return x\n')
open(os.path.join(root, 'c05pkg', 'once.py'), 'w').write(
    'COUNT = {"obj": 0, "ann": 0, "val": 0}\n'
    'class O:\n    pass\n'
    'o = O()\n'
    'def obj():\n    COUNT["obj"] += 1\n    return o\n'
    'def ann():\n    COUNT["ann"] += 1\n    return int\n'
    'def val():\n    COUNT["val"] += 1\n    return 5\n'
    'obj().attr: ann() = val()\n')
open(os.path.join(root, 'c05pkg', 'chain.py'), 'w').write(
    'class O:\n    pass\n'
    'a = O(); a.b = O(); a.l = [O()]\n'
    'RESULT = {}\n'
    'def attempt(key, thunk):\n'
    '    try:\n        thunk(); RESULT[key] = "unchecked"\n'
    '    except Exception as e:\n        RESULT[key] = type(e).__name__\n'
    'def f_plain():\n    a.c: int = "bad"\n'
    'def f_chain():\n    a.b.c: int = "bad"\n'
    'def f_sub_attr():\n    a.l[0].c: int = "bad"\n'
    'def f_call_attr():\n    (lambda: a)().c: int = "bad"\n'
    'def f_chain_ok():\n    a.b.d: int = 3\n'
    'for k_, t_ in (("plain", f_plain), ("chain", f_chain), ("sub_attr", f_sub_attr), ("call_attr", f_call_attr), ("chain_ok", f_chain_ok)):\n'
    '    attempt(k_, t_)\n')
sys.path.insert(0, root)
from beartype.claw import beartype_package
from beartype.roar import BeartypeClawDecorWarning, BeartypeDoorHintViolation, BeartypeCallHintViolation
beartype_package('c05pkg')
out = {}
try:
    import c05pkg.first
    out['first'] = 'imported'
except BeartypeDoorHintViolation as e:
    import c05pkg
    m = sys.modules.get('c05pkg.first')
    out['first'] = 'violation'
    out['first_message_names_b'] = 'c05pkg.first.b' in str(e) or '"b"' in str(e) or ' b' in str(e)
except Exception as e:
    out['first'] = 'other:' + type(e).__name__
with warnings.catch_warnings(record=True) as wl:
    warnings.simplefilter('always')
    try:
        import c05pkg.sib as sib
        out['sib'] = 'imported'
        out['sib_warning'] = [w.category.__name__ for w in wl if issubclass(w.category, BeartypeClawDecorWarning)]
        k = sib.K()
        def checked(fn, *a):
            try:
                fn(*a); return False
            except BeartypeCallHintViolation:
                return True
        out['sib_good_checked'] = checked(k.good, 'x')
        out['sib_free_checked'] = checked(sib.free, 'x')
        out['sib_bad_runs'] = k.bad(1) == 1
    except Exception as e:
        out['sib'] = 'import failed: ' + type(e).__name__ + ': ' + str(e)[:200]
import c05pkg.once as once
out['once'] = once.COUNT
import c05pkg.chain as chain
out['chain'] = chain.RESULT
print(json.dumps(out))
'''


def scenarios(ctx):
    root = os.path.join(ctx.workdir, 'scen')
    shutil.rmtree(root, ignore_errors=True)
    os.makedirs(root)
    env = dict(os.environ, PYTHONPATH=REPO, PYTHONDONTWRITEBYTECODE='1')
    p = subprocess.run([PY, '-c', SCENARIO, root], capture_output=True, text=True, env=env, timeout=120)
    shutil.rmtree(root, ignore_errors=True)
    lines = [l for l in p.stdout.splitlines() if l.startswith('{')]
    if p.returncode != 0 or not lines:
        return {'crash': p.stderr[-1500:]}
    return json.loads(lines[-1])


def run(ctx):
    ctx.rule = ('modules of 0-2 docstrings, an optional __future__ import and 0-3 top-level statements drawn recursively (depth <= 3) from '
                'functions (20% async, 70% typed, 0-2 decorators), classes (0-1 decorators), if/else, for, while, try/except/finally, with, '
                'annotated assignments to names / attributes / subscripts (80% with a value) and pass; 12 configurations (claw_is_pep526 x '
                'placement of function / class decorators in {default, FIRST, LAST}); non-trivial = nesting depth >= 2; distinct = distinct '
                '(module, configuration); plus three behavioural scenarios through a hooked import')
    ctx.assumptions += ['decorator-hostile decorators (the LAST_BEFORE_DECOR_HOSTILE beforelist), PEP 695 type aliases and match statements are '
                        'outside the generated grammar', 'what the added decorators and calls do at run time is C04 / C13 / C03']
    proof_err = None
    try:
        ctx.prove(PROP, extra_targets=['theories/C05/Corr.vo'])
    except CoqFailure as e:
        proof_err = e
        from harness.common import coq_make
        try:
            coq_make(['theories/C05/Corr.vo'])
        except CoqFailure as e2:
            ctx.broken('corr/c05 model does not build', e2.log)
            return
    failures = 0
    n = {'quick': 900, 'thorough': 30000}[ctx.tier]
    cases = []
    for i in range(n):
        conf = {'pep526': ctx.rng.random() < 0.7, 'place_func': ctx.rng.choice(['default', 'default', 'FIRST', 'LAST']),
                'place_type': ctx.rng.choice(['default', 'default', 'FIRST', 'LAST']), 'is_debug': ctx.rng.random() < 0.2}
        cases.append({'module': gen_module(ctx.rng), 'conf': conf})
    cdir = os.path.join(VERIF, 'corpus', 'C05')
    if os.path.isdir(cdir):
        for f in sorted(os.listdir(cdir)):
            with open(os.path.join(cdir, f)) as fh:
                cases.insert(0, json.load(fh))
    n = len(cases)
    rows, index = [], []
    for lo in range(0, n, 300):
        part = cases[lo:lo + 300]
        obs = run_impl('c05_impl.py', {'cases': part}, timeout=1200)
        for case, o in zip(part, obs):
            d = depth_of(case['module'])
            ctx.case(case, d >= 2, sample={'module': case['module'], 'conf': case['conf']})
            ctx.count('depth=%d' % d)
            ctx.count('pep526=%s' % case['conf']['pep526'])
            if 'error' in o or 'unreadable' in o:
                failures += 1
                ctx.report({'clause': 'transform_failed' if 'error' in o else 'unreadable'}, {'case': case, 'observed': o},
                           'the transformer raised on a valid module' if 'error' in o else 'the transformed module is outside the model\'s grammar')
                continue
            if o['compiles'] is not True:
                failures += 1
                ctx.report({'clause': 'does_not_compile'}, {'case': case, 'observed': o}, 'the transformed module does not compile')
                continue
            c = case['conf']
            place = lambda p: 'PFirst' if p == 'FIRST' else 'PLast'  # noqa: E731
            rows.append('{| a_conf := {| pep526 := %s; place_func := %s; place_type := %s; nondefault := %s |}; a_module := %s; a_real := %s |}' % (
                'true' if c['pep526'] else 'false', place(c['place_func']), place(c['place_type']), 'true' if o['nondefault'] else 'false',
                coq_stmts(o['module_with_lines']), coq_stmts(o['real'])))
            index.append((case, o))
        if failures > 12:
            break
    shard, paths = 150, []
    for lo in range(0, len(rows), shard):
        text = HEADER + 'Definition cases : list acase := %s.\nEval vm_compute in (afailing cases).\n' % coq_list(
            ['\n ' + r for r in rows[lo:lo + shard]])
        path = os.path.join(ctx.workdir, f'c05_{lo}.v')
        with open(path, 'w') as f:
            f.write(text)
        paths.append(path)
    for si, out in enumerate(coqc_many(paths, jobs=10)):
        for j in parse_nat_list(out)[:3]:
            failures += 1
            case, o = index[si * shard + j]
            ctx.report({'clause': 'correspondence'}, {'case': case, 'real': o['real'], 'module': o['module_with_lines']},
                       'the real transformed module differs from the model\'s transform')
    sc = scenarios(ctx)
    ctx.extra['scenarios'] = sc
    ctx.evaluations += 3
    if 'crash' in sc:
        failures += 1
        ctx.report({'clause': 'scenario_crashed'}, sc, 'the hooked-import scenarios crashed')
    else:
        if sc.get('first') != 'violation':
            failures += 1
            ctx.report({'clause': 'first_offending_statement'}, sc, 'no violation at the first offending annotated assignment')
        if not (sc.get('sib') == 'imported' and sc.get('sib_good_checked') and sc.get('sib_free_checked') and sc.get('sib_bad_runs')):
            if ctx.report({'clause': 'unsupported_hint_breaks_siblings', 'imported': sc.get('sib') == 'imported'}, sc,
                          'a definition with a hint beartype cannot handle broke the import or left its siblings unchecked') == 'violation':
                failures += 1
        once = sc.get('once') or {}
        if once != {'obj': 1, 'ann': 1, 'val': 1}:
            if ctx.report({'clause': 'evaluated_more_than_once', 'obj': once.get('obj'), 'ann': once.get('ann')}, sc,
                          'an original expression of an annotated assignment is evaluated more than once under the hook') == 'violation':
                failures += 1
        chain = sc.get('chain') or {}
        want = {'plain': 'BeartypeDoorHintViolation', 'chain': 'BeartypeDoorHintViolation', 'sub_attr': 'BeartypeDoorHintViolation',
                'call_attr': 'BeartypeDoorHintViolation', 'chain_ok': 'unchecked'}
        for k_ in sorted(want):
            if chain.get(k_) != want[k_]:
                if ctx.report({'clause': 'attribute_target_unchecked', 'target': k_}, sc,
                              'an annotated attribute assignment whose object is not a plain name is not checked like the hand-written check') == 'violation':
                    failures += 1
    if proof_err is not None and not failures:
        ctx.broken(f'{PROP} ({proof_err.what})', proof_err.log)


def replay(ctx, path):
    with open(path) as f:
        body = json.load(f)
    case = body['record'].get('case')
    if case:
        print(json.dumps(run_impl('c05_impl.py', {'cases': [case]})[0])[:3000])
